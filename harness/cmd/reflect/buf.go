// -mode buf (component "buf", C12/C13): the Writer and the Reader of internal/messages as STATE MACHINES against
// coq/Codec/Buf.v: buffer growth (ensureCapacity), byte order options, the sticky error, Reset / Seek / Skip /
// Remaining, the two sync.Pools, WriteMessage -> SerializeRemotingMessage -> pooled scratch Writer -> message
// writer -> WriteMessage ... at any depth, ReadMessage -> pooled Reader -> message reader; and the ActorRef
// factory (actor.NewRef = utils.NormalizeAddress + NormalizePath) against coq/Codec/RefNorm.v.
//
// One case = one SCENARIO: several Writers / Readers (handles) created with NewWriter / NewReader or taken from
// the pools, operated on in a random interleaving, released in any order.  The registered message writers /
// readers are scripts (harness message types registered through RegisterInternalMessage).  After every step the
// whole observable state of the object is recorded (Bytes, cap, byte order, Err, returned error / Pos, Error,
// Remaining, element counter, result) and the model must reproduce it.  The identity of every object a pool
// hands out is observed (Go pointer) and given to the model as the oracle.
//
// Implementation-side monitors (the property evaluated on the real code, independent of the model):
//
//	c12-writer-history-leak     the bytes of a Writer after a sequence of successful operations since its creation /
//	                            last Reset differ from the concatenation of what fresh Writers produce for each operation
//	c12-pool-byteorder-leak     ... and the cause is a byte order left behind in a pooled Writer / Reader by an earlier user
//	                            (regression monitor of the defect repaired by 62b310d / 4dbfc0b: Get must restore the default)
//	c12-pool-dirty              a pool hands out a Writer with content or an error, or a Reader with a position / error
//	c12-writemessage-rollback   a failed WriteMessage changed the buffer
//	c12-reader-history-leak     a Reader (pooled, reset, ...) answers differently from a fresh NewReader over the same data
//	c12-buf-roundtrip           writer operations -> bytes -> the inverse reader operations do not give the values back
//	                            or the Reader does not end exactly at the end of the Writer's bytes
//	c12-seek-reread-budget      a value that was just decoded cannot be decoded again after Seek back to its start
//	                            (regression monitor of the defect repaired by ce2f8d5: Seek must restore the element budget)
//	c12-newref-not-idempotent   NewRef(address, path) of the strings of a Ref built by NewRef fails or differs
//	panic:buf                   any panic
package main

import (
	"bytes"
	"encoding/binary"
	"errors"
	"fmt"
	"io"
	"net"
	"reflect"
	"strings"

	"github.com/kercylan98/vivid/internal/actor"
	"github.com/kercylan98/vivid/internal/messages"
	"github.com/kercylan98/vivid/internal/utils"
	"github.com/kercylan98/vivid/xverif/lib"
)

// ---------------------------------------------------------------- operations

const (
	wPrim = iota
	wVarint
	wUvarint
	wBytes
	wBytesLen
	wShort
	wWrite
	wWriteFrom
	wReset
	wMsgReg
	wMsgOut
)

type WOp struct {
	K     int
	B     int
	V     *Val
	T     *Ty
	Z     int64
	N     uint64
	Bs    []byte
	Ts    []*Ty
	Vs    []*Val
	Name  string
	Body  []*WOp
	Ret   int // 0 sticky, 1 nil, 2 error, 3 panic
	Enc   int // wMsgOut: 0 no codec, 1 codec fails, 2 data = Bs
}

func (op *WOp) Term() lib.T {
	switch op.K {
	case wPrim:
		return lib.L(lib.N(0), lib.NI(op.B), op.V.Term())
	case wVarint:
		return lib.L(lib.N(1), lib.Z(op.Z))
	case wUvarint:
		return lib.L(lib.N(2), lib.N(op.N))
	case wBytes:
		return lib.L(lib.N(3), lib.B(op.Bs))
	case wBytesLen:
		return lib.L(lib.N(4), lib.Z(op.Z), lib.B(op.Bs))
	case wShort:
		return lib.L(lib.N(5), lib.B(op.Bs))
	case wWrite:
		return lib.L(lib.N(6), op.T.Term(), op.V.Term())
	case wWriteFrom:
		ps := make([]lib.T, len(op.Ts))
		for i := range ps {
			ps[i] = lib.L(op.Ts[i].Term(), op.Vs[i].Term())
		}
		return lib.L(lib.N(7), lib.LS(ps))
	case wReset:
		return lib.L(lib.N(8))
	case wMsgReg:
		b := make([]lib.T, len(op.Body))
		for i := range b {
			b[i] = op.Body[i].Term()
		}
		return lib.L(lib.N(9), lib.S(op.Name), lib.LS(b), lib.NI(op.Ret))
	}
	switch op.Enc {
	case 0:
		return lib.L(lib.N(10), lib.L())
	case 1:
		return lib.L(lib.N(10), lib.L(lib.L()))
	}
	return lib.L(lib.N(10), lib.L(lib.L(lib.B(op.Bs))))
}

const (
	pPrim = iota
	pVarint
	pUvarint
	pBytes
	pBytesLen
	pShort
	pRead
	pReadInto
	pSkip
	pSeek
	rReset = 20
	rMsg   = 21
)

type POp struct {
	K  int
	B  int
	T  *Ty
	Ts []*Ty
	N  uint64
	Z  int64
	Bs []byte
}

func (op *POp) Term() lib.T {
	switch op.K {
	case pPrim:
		return lib.L(lib.N(0), lib.NI(op.B))
	case pVarint:
		return lib.L(lib.N(1))
	case pUvarint:
		return lib.L(lib.N(2))
	case pBytes:
		return lib.L(lib.N(3), lib.N(op.N))
	case pBytesLen:
		return lib.L(lib.N(4), lib.Z(op.Z))
	case pShort:
		return lib.L(lib.N(5))
	case pRead:
		return lib.L(lib.N(6), op.T.Term())
	case pReadInto:
		ts := make([]lib.T, len(op.Ts))
		for i := range ts {
			ts[i] = op.Ts[i].Term()
		}
		return lib.L(lib.N(7), lib.LS(ts))
	case pSkip:
		return lib.L(lib.N(8), lib.N(op.N))
	case pSeek:
		return lib.L(lib.N(9), lib.Z(op.Z))
	case rReset:
		return lib.L(lib.N(20), lib.B(op.Bs))
	}
	return lib.L(lib.N(21))
}

// ---------------------------------------------------------------- scripted registered messages

type script struct {
	body []*WOp
	ret  int
	got  []lib.T // reader side: what the message's reader read
}
type scriptHolder interface{ sc() *script }
type ScriptA struct{ S script }
type ScriptB struct{ S script }
type ScriptC struct{ S script }

func (m *ScriptA) sc() *script { return &m.S }
func (m *ScriptB) sc() *script { return &m.S }
func (m *ScriptC) sc() *script { return &m.S }

var scriptNames = []string{"xvA", "xvBB", "xvCCC"}

func newScriptMsg(name string, body []*WOp, ret int) any {
	s := script{body: body, ret: ret}
	switch name {
	case "xvA":
		return &ScriptA{S: s}
	case "xvBB":
		return &ScriptB{S: s}
	}
	return &ScriptC{S: s}
}

type unregistered struct{ X int }
type outMsg struct{ data []byte }

var errCodec = errors.New("xv codec failed")
var errScript = errors.New("xv script error")

type dataCodec struct {
	data []byte
	fail bool
}

func (c *dataCodec) Encode(any) ([]byte, error) {
	if c.fail {
		return nil, errCodec
	}
	return c.data, nil
}
func (c *dataCodec) Decode(b []byte) (any, error) {
	if c.fail {
		return nil, errCodec
	}
	return &outMsg{data: append([]byte(nil), b...)}, nil
}

func xerrCode(err error) uint64 {
	if err == nil {
		return 0
	}
	m := err.Error()
	switch {
	case errors.Is(err, errCodec):
		return 10
	case strings.Contains(m, "no codec configured"):
		return 11
	case errors.Is(err, errScript):
		return 13
	case strings.Contains(m, "serialize message") && strings.Contains(m, "failed:"):
		return 12
	case strings.Contains(m, "seek position"):
		return 4
	}
	return errCode(err)
}

// the execution context of one scenario: identities, the oracle being recorded, the reader scripts
type bufCtx struct {
	h      *H
	wid    map[*messages.Writer]uint64
	rid    map[*messages.Reader]uint64
	next   uint64
	ids    []uint64           // identities of the objects the nested Gets of the current step handed out
	table  map[string][]*POp  // wire name -> script of the message's reader
	codec  int                // reader side: 0 none, 1 returns the bytes, 2 fails
	cur    lib.T              // the scenario so far (for monitors)
	orderLeak bool            // a pooled object with a left-over byte order was seen in this scenario
	allowOrd  bool            // pool users of this scenario may pass a ByteOrder option / release little-endian objects
}

var cx *bufCtx

func (c *bufCtx) idW(w *messages.Writer) uint64 {
	if id, ok := c.wid[w]; ok {
		return id
	}
	c.next++
	c.wid[w] = c.next
	return c.next
}
func (c *bufCtx) idR(r *messages.Reader) uint64 {
	if id, ok := c.rid[r]; ok {
		return id
	}
	c.next++
	c.rid[r] = c.next
	return c.next
}
// c13Only: component "buf_total" (C13): the same scenarios and correspondence, but only the monitors of C13 count
var c13Only bool

func (c *bufCtx) monitor(name, detail string) {
	if c13Only && !strings.HasPrefix(name, "panic:") && !strings.HasPrefix(name, "c13-") {
		return
	}
	if name == "c12-pool-byteorder-leak" {
		detail = "pooled object keeps the byte order of its previous user: " + detail
	}
	c.h.s.Monitor(name, c.cur, detail)
}

func scriptWriter(message any, w *messages.Writer, codec messages.Codec) error {
	s := message.(scriptHolder).sc()
	cx.ids = append(cx.ids, cx.idW(w))
	if w.Len() != 0 || w.Err() != nil {
		cx.monitor("c12-pool-dirty", fmt.Sprintf("SerializeRemotingMessage got a scratch Writer with %d bytes of content, error %v", w.Len(), w.Err()))
	}
	if o := messages.XVWriterOrder(w); o != 0 && !cx.orderLeak {
		cx.orderLeak = true
		cx.monitor("c12-pool-byteorder-leak", fmt.Sprintf("SerializeRemotingMessage (NewWriterFromPool() without a ByteOrder option) got a scratch Writer of byte order %d, left behind by an earlier user of the pooled object: the message body is not written in the default order", o))
	}
	for _, op := range s.body {
		if err := applyW(op, w); err != nil {
			return err
		}
	}
	switch s.ret {
	case 0:
		return w.Err()
	case 1:
		return nil
	case 2:
		return errScript
	}
	panic("xv script panic")
}

func scriptReader(name string) messages.InternalMessageReader {
	return func(message any, r *messages.Reader, codec messages.Codec) error {
		s := message.(scriptHolder).sc()
		cx.ids = append(cx.ids, cx.idR(r))
		if r.Pos() != 0 || r.Error() != nil || messages.XVReaderElems(r) != 0 {
			cx.monitor("c12-pool-dirty", fmt.Sprintf("ReadMessage got a pooled Reader at position %d, error %v, element counter %d", r.Pos(), r.Error(), messages.XVReaderElems(r)))
		}
		if o := messages.XVReaderOrder(r); o != 0 && !cx.orderLeak {
			cx.orderLeak = true
			cx.monitor("c12-pool-byteorder-leak", fmt.Sprintf("ReadMessage (NewReaderFromPool(data) without a ByteOrder option) got a Reader of byte order %d, left behind by an earlier user of the pooled object: the message body is not read in the default order", o))
		}
		for _, op := range cx.table[name] {
			res, err := applyP(op, r)
			if err != nil {
				return err
			}
			s.got = append(s.got, res)
		}
		return nil
	}
}

var scriptsRegistered bool

func registerScripts() {
	if scriptsRegistered {
		return
	}
	scriptsRegistered = true
	messages.RegisterInternalMessage[*ScriptA]("xvA", scriptReader("xvA"), scriptWriter)
	messages.RegisterInternalMessage[*ScriptB]("xvBB", scriptReader("xvBB"), scriptWriter)
	messages.RegisterInternalMessage[*ScriptC]("xvCCC", scriptReader("xvCCC"), scriptWriter)
}

// ---------------------------------------------------------------- executing operations on the real objects

func writePrim(w *messages.Writer, b int, x reflect.Value) {
	switch b {
	case BU8:
		w.WriteUint8(uint8(x.Uint()))
	case BI8:
		w.WriteInt8(int8(x.Int()))
	case BU16:
		w.WriteUint16(uint16(x.Uint()))
	case BI16:
		w.WriteInt16(int16(x.Int()))
	case BU32:
		w.WriteUint32(uint32(x.Uint()))
	case BI32:
		w.WriteInt32(int32(x.Int()))
	case BU64:
		w.WriteUint64(x.Uint())
	case BI64:
		w.WriteInt64(x.Int())
	case BF32:
		w.WriteFloat32(x.Interface().(float32))
	case BF64:
		w.WriteFloat64(x.Interface().(float64))
	case BBool:
		w.WriteBool(x.Bool())
	case BStr:
		w.WriteString(x.String())
	}
}

// applyW performs op on w; the returned error is what WriteMessage returned (nil for every other operation)
func applyW(op *WOp, w *messages.Writer) error {
	switch op.K {
	case wPrim:
		writePrim(w, op.B, newVar(TB(op.B), op.V))
	case wVarint:
		w.WriteVarint(op.Z)
	case wUvarint:
		w.WriteUvarint(op.N)
	case wBytes:
		w.WriteBytes(op.Bs)
	case wBytesLen:
		w.WriteBytesWithLength(op.Bs, int(op.Z))
	case wShort:
		w.WriteShortString(string(op.Bs))
	case wWrite:
		w.Write(arg(op.T, newVar(op.T, op.V)))
	case wWriteFrom:
		args := make([]any, len(op.Ts))
		for i := range args {
			args[i] = arg(op.Ts[i], newVar(op.Ts[i], op.Vs[i]))
		}
		_ = w.WriteFrom(args...)
	case wReset:
		w.Reset()
	case wMsgReg:
		return w.WriteMessage(newScriptMsg(op.Name, op.Body, op.Ret), nil)
	case wMsgOut:
		switch op.Enc {
		case 0:
			return w.WriteMessage(&unregistered{1}, nil)
		case 1:
			return w.WriteMessage(&unregistered{2}, &dataCodec{fail: true})
		}
		return w.WriteMessage(&unregistered{3}, &dataCodec{data: op.Bs})
	}
	return nil
}

func readPrim(r *messages.Reader, b int) (lib.T, error) {
	y := reflect.New(basicRT[b]).Elem()
	var err error
	switch b {
	case BU8:
		var v uint8
		v, err = r.ReadUint8()
		y.SetUint(uint64(v))
	case BI8:
		var v int8
		v, err = r.ReadInt8()
		y.SetInt(int64(v))
	case BU16:
		var v uint16
		v, err = r.ReadUint16()
		y.SetUint(uint64(v))
	case BI16:
		var v int16
		v, err = r.ReadInt16()
		y.SetInt(int64(v))
	case BU32:
		var v uint32
		v, err = r.ReadUint32()
		y.SetUint(uint64(v))
	case BI32:
		var v int32
		v, err = r.ReadInt32()
		y.SetInt(int64(v))
	case BU64:
		var v uint64
		v, err = r.ReadUint64()
		y.SetUint(v)
	case BI64:
		var v int64
		v, err = r.ReadInt64()
		y.SetInt(v)
	case BF32:
		var v float32
		v, err = r.ReadFloat32()
		y.Set(reflect.ValueOf(v))
	case BF64:
		var v float64
		v, err = r.ReadFloat64()
		y.Set(reflect.ValueOf(v))
	case BBool:
		var v bool
		v, err = r.ReadBool()
		y.SetBool(v)
	case BStr:
		var v string
		v, err = r.ReadString()
		y.SetString(v)
	}
	if err != nil {
		return nil, err
	}
	return lib.L(lib.N(0), observeBasic(b, y).Term()), nil
}

// applyP performs a plain reader operation; the result term is the model's rval
func applyP(op *POp, r *messages.Reader) (lib.T, error) {
	switch op.K {
	case pPrim:
		return readPrim(r, op.B)
	case pVarint:
		z, err := r.ReadVarint()
		if err != nil {
			return nil, err
		}
		return lib.L(lib.N(4), lib.Z(z)), nil
	case pUvarint:
		u, err := r.ReadUvarint()
		if err != nil {
			return nil, err
		}
		return lib.L(lib.N(3), lib.N(u)), nil
	case pBytes:
		b, err := r.ReadBytes(int(op.N))
		if err != nil {
			return nil, err
		}
		return lib.L(lib.N(2), lib.B(b)), nil
	case pBytesLen:
		b, err := r.ReadBytesWithLength(int(op.Z))
		if err != nil {
			return nil, err
		}
		return lib.L(lib.N(2), lib.B(b)), nil
	case pShort:
		s, err := r.ReadShortString()
		if err != nil {
			return nil, err
		}
		return lib.L(lib.N(2), lib.S(s)), nil
	case pRead:
		x := newVar(op.T, nil)
		if err := r.Read(x.Addr().Interface()); err != nil {
			return nil, err
		}
		return lib.L(lib.N(0), observe(op.T, x).Term()), nil
	case pReadInto:
		vars := make([]reflect.Value, len(op.Ts))
		ptrs := make([]any, len(op.Ts))
		for i, t := range op.Ts {
			vars[i] = newVar(t, nil)
			ptrs[i] = vars[i].Addr().Interface()
		}
		if err := r.ReadInto(ptrs...); err != nil {
			return nil, err
		}
		vs := make([]lib.T, len(op.Ts))
		for i, t := range op.Ts {
			vs[i] = observe(t, vars[i]).Term()
		}
		return lib.L(lib.N(1), lib.LS(vs)), nil
	case pSkip:
		if err := r.Skip(int(op.N)); err != nil {
			return nil, err
		}
		return lib.L(lib.N(5)), nil
	case pSeek:
		if err := r.Seek(int(op.Z)); err != nil {
			return nil, err
		}
		return lib.L(lib.N(5)), nil
	}
	panic("applyP: not a plain operation")
}

func readerCodec(k int) messages.Codec {
	switch k {
	case 0:
		return nil
	case 1:
		return &dataCodec{}
	}
	return &dataCodec{fail: true}
}

// applyR performs a reader operation (plain, Reset, ReadMessage)
func applyR(op *POp, r *messages.Reader) (lib.T, error) {
	switch op.K {
	case rReset:
		r.Reset(op.Bs)
		return lib.L(lib.N(5)), nil
	case rMsg:
		m, err := r.ReadMessage(readerCodec(cx.codec))
		if err != nil {
			return nil, err
		}
		switch v := m.(type) {
		case *outMsg:
			return lib.L(lib.N(7), lib.B(v.data)), nil
		case scriptHolder:
			name := messages.QueryMessageDesc(m).MessageName()
			return lib.L(lib.N(6), lib.S(name), lib.LS(v.sc().got)), nil
		}
		return lib.L(lib.N(99)), nil
	}
	return applyP(op, r)
}

func ordOpt(o int) binary.ByteOrder {
	switch o {
	case 0:
		return binary.BigEndian
	case 1:
		return binary.LittleEndian
	}
	return nil
}
func ordTerm(o int) lib.T { // option: -1 = not given
	if o < 0 {
		return lib.L()
	}
	return lib.L(lib.NI(o))
}
func errTerm(err error) lib.T {
	if err == nil {
		return lib.N(0)
	}
	return lib.N(xerrCode(err))
}

func obsW(w *messages.Writer, ret error) lib.T {
	return lib.L(lib.N(0), lib.B(w.Bytes()), lib.NI(messages.XVWriterCap(w)), lib.NI(messages.XVWriterOrder(w)), errTerm(w.Err()), errTerm(ret))
}
// obsR observes a Reader; a panic while observing (Remaining() with a position outside the buffer) is a monitor hit
func obsR(r *messages.Reader, res lib.T, err error) lib.T {
	var out lib.T
	if p := protect(func() { out = obsR0(r, res, err) }); p != nil {
		cx.monitor("panic:buf", fmt.Sprintf("observing a Reader (Pos, Error, Remaining): %v; Pos() = %d", p, r.Pos()))
		return lib.L(lib.N(9))
	}
	return out
}
func obsR0(r *messages.Reader, res lib.T, err error) lib.T {
	rem := lib.L()
	if b := r.Remaining(); b != nil || r.Error() == nil {
		rem = lib.L(lib.B(b))
	}
	var out lib.T
	if err != nil {
		out = lib.L(lib.N(1), lib.N(xerrCode(err)))
	} else {
		out = lib.L(lib.N(0), res)
	}
	return lib.L(lib.N(1), lib.NI(r.Pos()), errTerm(r.Error()), rem, lib.NI(messages.XVReaderElems(r)), lib.NI(messages.XVReaderOrder(r)), out)
}

// ---------------------------------------------------------------- generators

func (g *Gen) smallBytes() []byte {
	n := g.r.Intn(7)
	switch g.r.Intn(25) {
	case 0:
		n = 250 + g.r.Intn(12)
	case 1:
		n = 500 + g.r.Intn(600)
	}
	return g.r.Bytes(n)
}

func (g *Gen) plainW() *WOp {
	r := g.r
	switch k := r.Intn(100); {
	case k < 30:
		b := r.Intn(12)
		return &WOp{K: wPrim, B: b, V: g.basicVal(b)}
	case k < 36:
		return &WOp{K: wVarint, Z: int64(r.U64()) >> uint(r.Intn(64))}
	case k < 42:
		return &WOp{K: wUvarint, N: r.U64() >> uint(r.Intn(64))}
	case k < 50:
		return &WOp{K: wBytes, Bs: g.smallBytes()}
	case k < 60:
		return &WOp{K: wBytesLen, Z: []int64{1, 2, 4, 4, 1, 2, 0, 3, -1, 8}[r.Intn(10)], Bs: g.smallBytes()}
	case k < 65:
		return &WOp{K: wShort, Bs: g.smallBytes()}
	case k < 88:
		t := g.ty(2, r.Chance(1, 4))
		return &WOp{K: wWrite, T: t, V: g.val(t, true)}
	default:
		n := r.Intn(4)
		op := &WOp{K: wWriteFrom}
		for i := 0; i < n; i++ {
			t := g.ty(2, r.Chance(1, 5))
			op.Ts = append(op.Ts, t)
			op.Vs = append(op.Vs, g.val(t, true))
		}
		return op
	}
}

func (g *Gen) msgW(depth int) *WOp {
	r := g.r
	if r.Chance(1, 6) {
		op := &WOp{K: wMsgOut, Enc: r.Intn(3)}
		if r.Chance(2, 3) {
			op.Enc = 2
		}
		if op.Enc == 2 {
			op.Bs = g.smallBytes()
		}
		return op
	}
	op := &WOp{K: wMsgReg, Name: scriptNames[r.Intn(len(scriptNames))]}
	if r.Chance(1, 5) {
		op.Ret = r.Intn(4)
	}
	n := r.Intn(4)
	for i := 0; i < n; i++ {
		if depth > 0 && r.Chance(1, 3) {
			op.Body = append(op.Body, g.msgW(depth-1))
		} else if r.Chance(1, 25) {
			op.Body = append(op.Body, &WOp{K: wReset})
		} else {
			op.Body = append(op.Body, g.plainW())
		}
	}
	return op
}

func (g *Gen) anyW() *WOp {
	switch k := g.r.Intn(20); {
	case k < 13:
		return g.plainW()
	case k < 14:
		return &WOp{K: wReset}
	}
	return g.msgW(3)
}

func (g *Gen) plainP(dataLen int) *POp {
	r := g.r
	switch k := r.Intn(100); {
	case k < 30:
		return &POp{K: pPrim, B: r.Intn(12)}
	case k < 35:
		return &POp{K: pVarint}
	case k < 40:
		return &POp{K: pUvarint}
	case k < 47:
		return &POp{K: pBytes, N: uint64(r.Intn(6))}
	case k < 55:
		return &POp{K: pBytesLen, Z: []int64{1, 2, 4, 4, 0, 3, -1}[r.Intn(7)]}
	case k < 59:
		return &POp{K: pShort}
	case k < 77:
		return &POp{K: pRead, T: g.ty(2, r.Chance(1, 6))}
	case k < 83:
		op := &POp{K: pReadInto}
		for i, n := 0, r.Intn(4); i < n; i++ {
			op.Ts = append(op.Ts, g.ty(2, r.Chance(1, 8)))
		}
		return op
	case k < 91:
		return &POp{K: pSkip, N: uint64(r.Intn(6))}
	default:
		z := int64(r.Intn(dataLen + 3))
		if r.Chance(1, 8) {
			z = -int64(r.Intn(3)) - 1
		}
		if r.Chance(1, 3) {
			z = 0
		}
		return &POp{K: pSeek, Z: z}
	}
}

// inverse: the reader operation that reads back what a writer operation wrote (nil: none)
func inverse(op *WOp) *POp {
	switch op.K {
	case wPrim:
		return &POp{K: pPrim, B: op.B}
	case wVarint:
		return &POp{K: pVarint}
	case wUvarint:
		return &POp{K: pUvarint}
	case wBytes:
		return &POp{K: pBytes, N: uint64(len(op.Bs))}
	case wBytesLen:
		if op.Z == 1 || op.Z == 2 || op.Z == 4 {
			return &POp{K: pBytesLen, Z: op.Z}
		}
	case wShort:
		return &POp{K: pShort}
	case wWrite:
		if supported(op.T) && guardOK(op.T, op.V) {
			return &POp{K: pRead, T: op.T}
		}
	case wWriteFrom:
		for i := range op.Ts {
			if !supported(op.Ts[i]) || !guardOK(op.Ts[i], op.Vs[i]) {
				return nil
			}
		}
		return &POp{K: pReadInto, Ts: op.Ts}
	}
	return nil
}

// expected: the model-independent result of the inverse operation
func expected(op *WOp) lib.T {
	switch op.K {
	case wPrim:
		return lib.L(lib.N(0), op.V.Term())
	case wVarint:
		return lib.L(lib.N(4), lib.Z(op.Z))
	case wUvarint:
		return lib.L(lib.N(3), lib.N(op.N))
	case wBytes, wBytesLen, wShort:
		return lib.L(lib.N(2), lib.B(op.Bs))
	case wWrite:
		return lib.L(lib.N(0), norm(op.T, op.V).Term())
	case wWriteFrom:
		vs := make([]lib.T, len(op.Ts))
		for i := range vs {
			vs[i] = norm(op.Ts[i], op.Vs[i]).Term()
		}
		return lib.L(lib.N(1), lib.LS(vs))
	}
	return nil
}

// ---------------------------------------------------------------- scenarios

type wHandle struct {
	w       *messages.Writer
	ord     int    // the byte order the creator asked for (0 when none was given: the documented default)
	expect  []byte // what Bytes() must be (nil: not tracked any more — an error state was entered)
	tracked bool
	ops     []*WOp // successful operations since creation / Reset (for the round trip), nil when not invertible
	invert  bool
}
type rHandle struct {
	r      *messages.Reader
	shadow *messages.Reader // a NewReader over the same data performing the same operations (scenario handle +10)
	ord    int
	data   []byte
	quiet  bool // a difference to the shadow was reported already
}

type scenario struct {
	h     *H
	c     *bufCtx
	steps []lib.T
	obs   []lib.T
	ws    map[int]*wHandle
	rs    map[int]*rHandle
	nontrivial bool
}

func (s *scenario) envTerm() lib.T {
	tb := make([]lib.T, 0, len(scriptNames))
	for _, n := range scriptNames {
		ops := s.c.table[n]
		ts := make([]lib.T, len(ops))
		for i := range ops {
			ts[i] = ops[i].Term()
		}
		tb = append(tb, lib.L(lib.S(n), lib.LS(ts)))
	}
	return lib.L(lib.LS(tb), lib.NI(s.c.codec))
}
func (s *scenario) inputTerm() lib.T { return lib.L(lib.N(0), s.envTerm(), lib.LS(s.steps)) }

func (s *scenario) record(step, obs lib.T) {
	s.steps = append(s.steps, step)
	s.obs = append(s.obs, obs)
	s.c.cur = lib.L(lib.N(100), s.inputTerm())
}

func idsTerm(ids []uint64) lib.T {
	xs := make([]lib.T, len(ids))
	for i, v := range ids {
		xs[i] = lib.N(v)
	}
	return lib.LS(xs)
}

func newScenario(h *H) *scenario {
	messages.XVResetPools()
	c := &bufCtx{h: h, wid: map[*messages.Writer]uint64{}, rid: map[*messages.Reader]uint64{}, table: map[string][]*POp{}}
	cx = c
	return &scenario{h: h, c: c, ws: map[int]*wHandle{}, rs: map[int]*rHandle{}}
}

// shadowW runs op on a fresh NewWriter of the given byte order — as two more steps of the scenario (handle 9), so that
// the model's pools stay in step with the real ones — and returns its bytes (ok = false: the operation failed there too)
func (s *scenario) shadowW(op *WOp, ord int) ([]byte, bool) {
	s.newWPlain(9, ord)
	w := s.ws[9].w
	delete(s.ws, 9)
	s.c.ids = nil
	var err error
	if p := protect(func() { err = applyW(op, w) }); p != nil {
		s.record(lib.L(lib.N(3), lib.N(9), op.Term(), idsTerm(s.c.ids)), lib.L(lib.N(9)))
		return nil, false
	}
	s.record(lib.L(lib.N(3), lib.N(9), op.Term(), idsTerm(s.c.ids)), obsW(w, err))
	if err != nil || w.Err() != nil {
		return nil, false
	}
	return append([]byte(nil), w.Bytes()...), true
}

func (s *scenario) newW(hd int) {
	g := s.h.g
	ord := -1
	if g.r.Chance(1, 3) {
		ord = g.r.Intn(2)
	}
	var buf []byte
	bufT := lib.L()
	reset := g.r.Bool()
	opt := messages.WriterOption{ByteOrder: ordOpt(ord), Reset: reset}
	if g.r.Chance(1, 3) {
		n, c := g.r.Intn(5), g.r.Intn(12)
		if c < n {
			c = n
		}
		buf = make([]byte, n, c)
		copy(buf, g.r.Bytes(n))
		opt.Buffer = buf
		bufT = lib.L(lib.B(buf), lib.NI(c))
	}
	w := messages.NewWriter(opt)
	hh := &wHandle{w: w, ord: max(ord, 0), tracked: true, invert: true}
	if buf != nil && !reset {
		hh.expect = append([]byte(nil), buf...)
		hh.invert = len(buf) == 0
	}
	s.ws[hd] = hh
	s.record(lib.L(lib.N(0), lib.NI(hd), lib.N(s.c.idW(w)), ordTerm(ord), bufT, lib.Bool(reset)), obsW(w, nil))
}

func (s *scenario) getW(hd int, allowOrd bool) {
	g := s.h.g
	ord := -1
	if allowOrd && g.r.Chance(1, 2) {
		ord = g.r.Intn(2)
	}
	var w *messages.Writer
	if ord >= 0 {
		w = messages.NewWriterFromPool(messages.WriterOption{ByteOrder: ordOpt(ord)})
	} else {
		w = messages.NewWriterFromPool()
	}
	id := s.c.idW(w)
	s.ws[hd] = &wHandle{w: w, ord: max(ord, 0), tracked: true, invert: true}
	s.record(lib.L(lib.N(1), lib.NI(hd), ordTerm(ord), lib.N(id)), obsW(w, nil))
	if w.Len() != 0 || w.Err() != nil {
		s.c.monitor("c12-pool-dirty", fmt.Sprintf("NewWriterFromPool returned a Writer with %d bytes of content, error %v", w.Len(), w.Err()))
	}
}

// getWOrd: NewWriterFromPool with an explicit byte order
func (s *scenario) getWOrd(hd int, ord int) {
	w := messages.NewWriterFromPool(messages.WriterOption{ByteOrder: ordOpt(ord)})
	id := s.c.idW(w)
	s.ws[hd] = &wHandle{w: w, ord: ord, tracked: true, invert: true}
	s.record(lib.L(lib.N(1), lib.NI(hd), ordTerm(ord), lib.N(id)), obsW(w, nil))
	if w.Len() != 0 || w.Err() != nil {
		s.c.monitor("c12-pool-dirty", fmt.Sprintf("NewWriterFromPool returned a Writer with %d bytes of content, error %v", w.Len(), w.Err()))
	}
}

func (s *scenario) relW(hd int) {
	hh := s.ws[hd]
	messages.ReleaseWriterToPool(hh.w)
	delete(s.ws, hd)
	s.record(lib.L(lib.N(2), lib.NI(hd)), lib.L(lib.N(2)))
}

func (s *scenario) opW(hd int, op *WOp) bool {
	hh := s.ws[hd]
	w := hh.w
	before := append([]byte(nil), w.Bytes()...)
	hadErr := w.Err() != nil
	s.c.ids = nil
	var ret error
	if p := protect(func() { ret = applyW(op, w) }); p != nil {
		s.record(lib.L(lib.N(3), lib.NI(hd), op.Term(), idsTerm(s.c.ids)), lib.L(lib.N(9)))
		s.c.monitor("panic:buf", fmt.Sprint(p))
		hh.tracked = false
		return false
	}
	s.record(lib.L(lib.N(3), lib.NI(hd), op.Term(), idsTerm(s.c.ids)), obsW(w, ret))
	if op.K == wMsgReg || len(op.Body) > 0 {
		s.nontrivial = true
	}
	// --- the property, on the implementation
	if op.K == wReset {
		hh.expect, hh.tracked, hh.ops, hh.invert = nil, true, nil, true
		if w.Len() != 0 || w.Err() != nil {
			s.c.monitor("c12-writer-history-leak", "Reset left content or an error behind")
		}
		return true
	}
	if hadErr {
		if !bytes.Equal(before, w.Bytes()) {
			s.c.monitor("c12-writer-history-leak", "a Writer in the error state changed its buffer")
		}
		return false
	}
	if ret != nil { // a failed WriteMessage
		if !bytes.Equal(before, w.Bytes()) {
			s.c.monitor("c12-writemessage-rollback", fmt.Sprintf("WriteMessage failed (%v) and left %d bytes where there were %d", ret, w.Len(), len(before)))
		}
		return false
	}
	if w.Err() != nil { // the operation itself failed: partial output is allowed; stop tracking
		hh.tracked = false
		return false
	}
	if !hh.tracked {
		return true
	}
	fb, ok := s.shadowW(op, hh.ord)
	if !ok {
		hh.tracked = false
		return true
	}
	hh.expect = append(hh.expect, fb...)
	if hh.invert {
		hh.ops = append(hh.ops, op)
	}
	if !bytes.Equal(hh.expect, w.Bytes()) {
		name := "c12-writer-history-leak"
		detail := fmt.Sprintf("Bytes() = %x, fresh Writers give %x", w.Bytes(), hh.expect)
		if messages.XVWriterOrder(w) != hh.ord || s.c.orderLeak {
			s.c.orderLeak = true
			name = "c12-pool-byteorder-leak"
			detail = fmt.Sprintf("Writer from NewWriterFromPool() without a ByteOrder option writes in byte order %d (left behind by an earlier user of the pooled object): ", messages.XVWriterOrder(w)) + detail
		}
		s.c.monitor(name, detail)
		hh.tracked = false
	}
	return true
}

func (s *scenario) newR(hd int, data []byte, pooled bool, allowOrd bool) {
	g := s.h.g
	ord := -1
	if (pooled && allowOrd && g.r.Chance(1, 2)) || (!pooled && g.r.Chance(1, 4)) {
		ord = g.r.Intn(2)
	}
	s.mkR(hd, data, ord, max(ord, 0), pooled, g.r.Chance(1, 5))
}

// mkR creates the Reader of handle hd (option ord, -1 = none; want = the order the caller expects to read in) and its
// shadow, a plain NewReader with the expected order, as handle hd+10
func (s *scenario) mkR(hd int, data []byte, ord, want int, pooled, mutable bool) {
	opt := messages.ReaderOption{ByteOrder: ordOpt(ord), Mutable: mutable}
	var r *messages.Reader
	var step lib.T
	if pooled {
		if ord < 0 && !mutable {
			r = messages.NewReaderFromPool(data)
		} else {
			r = messages.NewReaderFromPool(data, opt)
		}
		step = lib.L(lib.N(5), lib.NI(hd), lib.B(data), ordTerm(ord), lib.N(s.c.idR(r)))
	} else {
		r = messages.NewReader(data, opt)
		step = lib.L(lib.N(4), lib.NI(hd), lib.N(s.c.idR(r)), lib.B(data), ordTerm(ord))
	}
	s.record(step, obsR(r, lib.L(lib.N(5)), nil))
	sh := messages.NewReader(data, messages.ReaderOption{ByteOrder: ordOpt(want)})
	s.record(lib.L(lib.N(4), lib.NI(hd+10), lib.N(s.c.idR(sh)), lib.B(data), ordTerm(want)), obsR(sh, lib.L(lib.N(5)), nil))
	s.rs[hd] = &rHandle{r: r, shadow: sh, ord: want, data: data}
	if pooled && (r.Pos() != 0 || r.Error() != nil || messages.XVReaderElems(r) != 0) {
		s.c.monitor("c12-pool-dirty", fmt.Sprintf("NewReaderFromPool returned a Reader at position %d, error %v, element counter %d", r.Pos(), r.Error(), messages.XVReaderElems(r)))
	}
}

func (s *scenario) relR(hd int) {
	messages.ReleaseReaderToPool(s.rs[hd].r)
	delete(s.rs, hd)
	s.record(lib.L(lib.N(6), lib.NI(hd)), lib.L(lib.N(2)))
}

func (s *scenario) opR(hd int, op *POp) (lib.T, error) {
	hh := s.rs[hd]
	s.c.ids = nil
	var res lib.T
	var err error
	if p := protect(func() { res, err = applyR(op, hh.r) }); p != nil {
		s.record(lib.L(lib.N(7), lib.NI(hd), op.Term(), idsTerm(s.c.ids)), lib.L(lib.N(9)))
		s.c.monitor("panic:buf", fmt.Sprint(p))
		return nil, fmt.Errorf("panic")
	}
	mine := obsR(hh.r, res, err)
	s.record(lib.L(lib.N(7), lib.NI(hd), op.Term(), idsTerm(s.c.ids)), mine)
	if pos := hh.r.Pos(); pos < 0 || pos > len(hh.data) {
		s.c.monitor("c13-reader-position-out-of-range", fmt.Sprintf("after %s: Pos() = %d, len(buf) = %d", lib.Show(op.Term()), pos, len(hh.data)))
	}
	if op.K == rMsg {
		s.nontrivial = true
	}
	// the same operation on the shadow (a Reader created with NewReader over the same data): one more step
	s.c.ids = nil
	var sres lib.T
	var serr error
	if p := protect(func() { sres, serr = applyR(op, hh.shadow) }); p != nil {
		s.record(lib.L(lib.N(7), lib.NI(hd+10), op.Term(), idsTerm(s.c.ids)), lib.L(lib.N(9)))
		return res, err
	}
	theirs := obsR(hh.shadow, sres, serr)
	s.record(lib.L(lib.N(7), lib.NI(hd+10), op.Term(), idsTerm(s.c.ids)), theirs)
	if a, b := lib.Show(mine), lib.Show(theirs); a != b && !hh.quiet {
		name := "c12-reader-history-leak"
		if messages.XVReaderOrder(hh.r) != hh.ord || s.c.orderLeak {
			s.c.orderLeak = true
			name = "c12-pool-byteorder-leak"
		}
		s.c.monitor(name, fmt.Sprintf("%s on this Reader: %s; on a NewReader over the same data after the same operations: %s", lib.Show(op.Term()), a, b))
		hh.quiet = true
	}
	return res, err
}

// ---- scenario kinds

func (h *H) scenWriters() {
	s := newScenario(h)
	g := h.g
	allowOrd := true // pool users pass ByteOrder options and release little-endian objects freely (Get restores the default)
	s.c.allowOrd = allowOrd
	n := 3 + g.r.Intn(12)
	for i := 0; i < n; i++ {
		hd := g.r.Intn(3)
		if _, live := s.ws[hd]; !live {
			if g.r.Chance(2, 3) {
				s.getW(hd, allowOrd)
			} else {
				s.newW(hd)
			}
			continue
		}
		if g.r.Chance(1, 7) && (s.ws[hd].ord == 0 || allowOrd) { // a little-endian Writer is not put into the pool (it would stay little-endian)
			s.relW(hd)
			continue
		}
		s.opW(hd, g.anyW())
	}
	for hd := 0; hd < 3; hd++ {
		if hh, live := s.ws[hd]; live {
			s.roundTripOf(hh)
			if g.r.Bool() && (hh.ord == 0 || allowOrd) {
				s.relW(hd)
			}
		}
	}
	s.emit("scen-writers")
}

// rtMonitor: a failed round trip; when a pooled object with a left-over byte order is involved it is the recorded finding
func (s *scenario) rtMonitor(hd int, detail string) {
	name := "c12-buf-roundtrip"
	if hh, ok := s.rs[hd]; ok && messages.XVReaderOrder(hh.r) != hh.ord {
		s.c.orderLeak = true
	}
	if s.c.orderLeak {
		name = "c12-pool-byteorder-leak"
	}
	s.c.monitor(name, detail)
}

// roundTripOf: the bytes a tracked Writer holds, read back by a Reader of the same order with the inverse operations
func (s *scenario) roundTripOf(hh *wHandle) {
	if !hh.tracked || !hh.invert || len(hh.ops) == 0 || hh.w.Err() != nil {
		return
	}
	var inv []*POp
	var want []lib.T
	for _, op := range hh.ops {
		p := inverse(op)
		if p == nil {
			return
		}
		inv = append(inv, p)
		want = append(want, expected(op))
	}
	data := append([]byte(nil), hh.w.Bytes()...)
	hd := 7
	s.newRWith(hd, data, hh.ord, s.h.g.r.Bool() && (hh.ord == 0 || s.c.allowOrd))
	for i, p := range inv {
		res, err := s.opR(hd, p)
		if err != nil {
			s.rtMonitor(hd, fmt.Sprintf("operation %d (%s) failed on the Writer's bytes: %v", i, lib.Show(p.Term()), err))
			return
		}
		if lib.Show(res) != lib.Show(want[i]) {
			s.rtMonitor(hd, fmt.Sprintf("operation %d (%s) read %s, written %s", i, lib.Show(p.Term()), lib.Show(res), lib.Show(want[i])))
			return
		}
	}
	if s.rs[hd].r.Pos() != len(data) {
		s.rtMonitor(hd, fmt.Sprintf("the Writer produced %d bytes, the Reader consumed %d", len(data), s.rs[hd].r.Pos()))
	}
	s.relOrDrop(hd)
}

// newRWith: a Reader that is to read in the given order over data (pooled or not)
func (s *scenario) newRWith(hd int, data []byte, ord int, pooled bool) {
	o := ord
	if ord == 0 && s.h.g.r.Bool() {
		o = -1 // rely on the default
	}
	s.mkR(hd, data, o, ord, pooled, false)
}

func (s *scenario) relOrDrop(hd int) {
	if hh, ok := s.rs[hd]; ok && s.h.g.r.Bool() && (hh.ord == 0 || s.c.allowOrd) {
		s.relR(hd)
	} else {
		delete(s.rs, hd)
	}
}

// some valid bytes to read: what a few plain writer operations produce, and message frames put together by hand
// (lp4(body) lp4(name), body = plain operations of a big-endian Writer) — possibly truncated / corrupted.  No pool is used.
func (s *scenario) someData(ord int) ([]byte, []*WOp) {
	g := s.h.g
	bo := ordOpt(ord)
	w := messages.NewWriter(messages.WriterOption{ByteOrder: bo})
	for i, n := 0, 1+g.r.Intn(5); i < n; i++ {
		if g.r.Chance(1, 3) {
			bw := messages.NewWriter()
			for k, m := 0, g.r.Intn(4); k < m; k++ {
				applyW(g.plainW(), bw)
				if bw.Err() != nil {
					bw.Reset()
				}
			}
			name := scriptNames[g.r.Intn(len(scriptNames))]
			switch g.r.Intn(6) {
			case 0:
				name = ""
			case 1:
				name = "nobody"
			}
			w.WriteBytesWithLength(bw.Bytes(), 4).WriteString(name)
			continue
		}
		applyW(g.plainW(), w)
		if w.Err() != nil {
			w.Reset()
		}
	}
	data := append([]byte(nil), w.Bytes()...)
	switch g.r.Intn(8) {
	case 0:
		if len(data) > 0 {
			data = data[:g.r.Intn(len(data))]
		}
	case 1:
		if len(data) > 0 {
			data[g.r.Intn(len(data))] ^= byte(1 + g.r.Intn(255))
		}
	case 2:
		data = append(data, g.r.Bytes(g.r.Intn(4))...)
	}
	return data, nil
}

func (s *scenario) genTable() {
	g := s.h.g
	for _, n := range scriptNames {
		var ops []*POp
		for i, k := 0, g.r.Intn(4); i < k; i++ {
			ops = append(ops, g.plainP(8))
		}
		s.c.table[n] = ops
	}
	s.c.codec = g.r.Intn(3)
}

func (h *H) scenReaders() {
	s := newScenario(h)
	g := h.g
	s.genTable()
	allowOrd := true
	s.c.allowOrd = allowOrd
	n := 3 + g.r.Intn(12)
	for i := 0; i < n; i++ {
		hd := g.r.Intn(3)
		hh, live := s.rs[hd]
		if !live {
			data, _ := s.someData(g.r.Intn(2) * g.r.Intn(2))
			s.newR(hd, data, g.r.Chance(2, 3), allowOrd)
			continue
		}
		switch k := g.r.Intn(20); {
		case k < 2 && (hh.ord == 0 || allowOrd):
			s.relR(hd)
		case k < 3:
			data, _ := s.someData(hh.ord)
			hh.data = data
			s.opR(hd, &POp{K: rReset, Bs: data})
		case k < 7:
			s.opR(hd, &POp{K: rMsg})
		default:
			s.opR(hd, g.plainP(len(hh.data)))
		}
	}
	s.emit("scen-readers")
}

// scenRoundTrip: a Writer (new / pooled, either order) performs operations incl. registered messages whose readers
// are the inverse scripts; a Reader of the same order reads everything back
func (h *H) scenRoundTrip() {
	s := newScenario(h)
	g := h.g
	ord := g.r.Intn(2) * g.r.Intn(2)
	s.c.allowOrd = true
	// dirty the pools first with unrelated work so that the objects below are recycled ones
	for i, n := 0, g.r.Intn(3); i < n; i++ {
		s.getW(5, true)
		s.opW(5, g.anyW())
		s.relW(5)
	}
	if g.r.Bool() && ord == 0 {
		s.getW(0, false)
	} else if g.r.Bool() {
		s.getWOrd(0, ord)
	} else {
		s.newWPlain(0, ord)
	}
	var inv []*POp
	var want []lib.T
	used := map[string]bool{}
	for i, n := 0, 1+g.r.Intn(6); i < n; i++ {
		if g.r.Chance(1, 3) {
			// a registered message with a plain, invertible body
			name := scriptNames[g.r.Intn(len(scriptNames))]
			if used[name] {
				continue
			}
			op := &WOp{K: wMsgReg, Name: name}
			var script []*POp
			var fields []lib.T
			for j, k := 0, g.r.Intn(4); j < k; j++ {
				b := g.plainW()
				p := inverse(b)
				if p == nil {
					continue
				}
				op.Body = append(op.Body, b)
				script = append(script, p)
				fields = append(fields, expected(b))
			}
			used[name] = true
			s.c.table[name] = script
			if !s.opW(0, op) {
				break
			}
			inv = append(inv, &POp{K: rMsg})
			want = append(want, lib.L(lib.N(6), lib.S(name), lib.LS(fields)))
			continue
		}
		if g.r.Chance(1, 8) {
			d := g.smallBytes()
			s.c.codec = 1
			if !s.opW(0, &WOp{K: wMsgOut, Enc: 2, Bs: d}) {
				break
			}
			inv = append(inv, &POp{K: rMsg})
			want = append(want, lib.L(lib.N(7), lib.B(d)))
			continue
		}
		op := g.plainW()
		p := inverse(op)
		if p == nil {
			continue
		}
		if !s.opW(0, op) {
			break
		}
		inv = append(inv, p)
		want = append(want, expected(op))
	}
	hh := s.ws[0]
	if hh.w.Err() == nil {
		data := append([]byte(nil), hh.w.Bytes()...)
		junk := g.r.Bytes(g.r.Intn(3))
		s.newRWith(1, append(append([]byte(nil), data...), junk...), ord, g.r.Bool())
		ok := true
		for i, p := range inv {
			res, err := s.opR(1, p)
			if err != nil {
				s.rtMonitor(1, fmt.Sprintf("operation %d (%s) failed on the Writer's bytes: %v", i, lib.Show(p.Term()), err))
				ok = false
				break
			}
			if lib.Show(res) != lib.Show(want[i]) {
				s.rtMonitor(1, fmt.Sprintf("operation %d (%s) read %s, written %s", i, lib.Show(p.Term()), lib.Show(res), lib.Show(want[i])))
				ok = false
				break
			}
		}
		if ok && s.rs[1].r.Pos() != len(data) {
			s.rtMonitor(1, fmt.Sprintf("the Writer produced %d bytes, the Reader consumed %d", len(data), s.rs[1].r.Pos()))
		}
		// Seek(0) and decode everything again, up to three more times
		if ok && len(inv) > 0 && g.r.Chance(1, 3) {
			for k, n := 0, 1+g.r.Intn(3); k < n; k++ {
				s.seekReread(1, inv, want)
			}
		}
		s.relOrDrop(1)
	}
	if g.r.Bool() {
		s.relW(0)
	}
	s.emit("scen-roundtrip")
}

// seekReread: Seek(0) and read everything again: the same values must come back
func (s *scenario) seekReread(hd int, inv []*POp, want []lib.T) {
	if _, err := s.opR(hd, &POp{K: pSeek, Z: 0}); err != nil {
		return
	}
	for i, p := range inv {
		res, err := s.opR(hd, p)
		if err != nil {
			name := "c12-buf-roundtrip"
			if errors.Is(err, io.ErrUnexpectedEOF) && (p.K == pRead || p.K == pReadInto) {
				name = "c12-seek-reread-budget"
			}
			s.c.monitor(name, fmt.Sprintf("after Seek(0), operation %d (%s), which succeeded on the first pass, fails: %v", i, lib.Show(p.Term()), err))
			return
		}
		if lib.Show(res) != lib.Show(want[i]) {
			s.c.monitor("c12-buf-roundtrip", fmt.Sprintf("after Seek(0), operation %d (%s) read %s, first pass %s", i, lib.Show(p.Term()), lib.Show(res), lib.Show(want[i])))
			return
		}
	}
}

func (s *scenario) emit(kind string) {
	s.h.s.Case(kind, s.nontrivial, lib.L(lib.N(100), s.inputTerm()), lib.LS(s.obs))
}

// ---------------------------------------------------------------- the ActorRef factory

// white space as strings.TrimSpace sees it (ASCII and the other runes of unicode.White_Space), things that look like
// it but are not (ZERO WIDTH SPACE, BOM, MONGOLIAN VOWEL SEPARATOR, control characters), and malformed UTF-8
var spaces = []string{" ", "\t", "\n", "\v", "\f", "\r", "\u0085", "\u00a0", "\u1680", "\u2000", "\u2001", "\u2005", "\u200a",
	"\u2028", "\u2029", "\u202f", "\u205f", "\u3000",
	"\u200b", "\ufeff", "\u180e", "\u2007", "\u2060", "\x1f", "\x1c", "\x00",
	"\xc2", "\xe2\x80", "\x85", "\xa0", "\x80", "\xe2\x80\x80\x80", "\xc2\xc2\x85", "\xe1\x9a", "\xe2\x80\xa7", "\xe3\x80\x81", "\xc2\x86"}

func (g *Gen) pad(s string) string {
	for i, n := 0, g.r.Intn(3)*g.r.Intn(2); i < n; i++ {
		s = spaces[g.r.Intn(len(spaces))] + s
	}
	for i, n := 0, g.r.Intn(3)*g.r.Intn(2); i < n; i++ {
		s = s + spaces[g.r.Intn(len(spaces))]
	}
	return s
}

func (g *Gen) label() string {
	const al = "abcXYZ019"
	n := 1 + g.r.Intn(5)
	switch g.r.Intn(12) {
	case 0:
		n = 63
	case 1:
		n = 64
	case 2:
		n = 62
	}
	b := make([]byte, 0, n)
	for i := 0; i < n; i++ {
		if i > 0 && i < n-1 && g.r.Chance(1, 5) {
			b = append(b, '-')
		} else {
			b = append(b, al[g.r.Intn(len(al))])
		}
	}
	s := string(b)
	switch g.r.Intn(30) {
	case 0:
		s = "-" + s
	case 1:
		s = s + "-"
	case 2:
		s = s + "K" // KELVIN SIGN: (?i) folds it to k
	case 3:
		s = "\u017f" + s // LONG S
	case 4:
		s = s + "_"
	case 5:
		s = s + "é"
	}
	return s
}

func (g *Gen) host() string {
	switch g.r.Intn(14) {
	case 0:
		return "127.0.0.1"
	case 1:
		return "[::1]"
	case 2:
		return "::1"
	case 3:
		return "[fe80::1%eth0]"
	case 4:
		return "999.1.1.1"
	case 5:
		return ""
	case 6:
		return "[1.2.3.4]"
	}
	n := 1 + g.r.Intn(3)
	if g.r.Chance(1, 15) {
		n = 40 + g.r.Intn(30)
	}
	ls := make([]string, n)
	for i := range ls {
		ls[i] = g.label()
	}
	s := strings.Join(ls, ".")
	switch g.r.Intn(25) {
	case 0:
		s += "."
	case 1:
		s = "." + s
	case 2:
		s = strings.Replace(s, ".", "..", 1)
	}
	return s
}

func (g *Gen) port() string {
	switch g.r.Intn(16) {
	case 0:
		return "0"
	case 1:
		return "65535"
	case 2:
		return "65536"
	case 3:
		return "+80"
	case 4:
		return "-80"
	case 5:
		return "0080"
	case 6:
		return ""
	case 7:
		return "8_0"
	case 8:
		return "99999999999999999999999"
	case 9:
		return "80a"
	case 10:
		return "+"
	case 11:
		return "\uff11\uff12" // full-width digits
	}
	return fmt.Sprint(1 + g.r.Intn(65535))
}

func (g *Gen) cleanHost() string {
	const al = "abcxyzXYZ0123456789"
	ls := make([]string, 1+g.r.Intn(4))
	for i := range ls {
		n := 1 + g.r.Intn(8)
		if g.r.Chance(1, 10) {
			n = 63
		}
		b := make([]byte, n)
		for j := range b {
			if j > 0 && j < n-1 && g.r.Chance(1, 6) {
				b[j] = '-'
			} else {
				b[j] = al[g.r.Intn(len(al))]
			}
		}
		ls[i] = string(b)
	}
	return strings.Join(ls, ".")
}

func (g *Gen) address() string {
	var s string
	if g.r.Chance(2, 5) { // mostly valid
		switch g.r.Intn(6) {
		case 0:
			return g.pad(g.cleanHost())
		case 1:
			return g.pad(fmt.Sprintf("%d.%d.%d.%d:%d", g.r.Intn(256), g.r.Intn(256), g.r.Intn(256), g.r.Intn(300), 1+g.r.Intn(65535)))
		case 2:
			return g.pad(fmt.Sprintf("[%x::%x]:%d", g.r.Intn(65536), g.r.Intn(65536), 1+g.r.Intn(65535)))
		}
		return g.pad(g.cleanHost() + ":" + fmt.Sprint(1+g.r.Intn(70000)))
	}
	switch g.r.Intn(10) {
	case 0:
		s = g.host()
	case 1:
		s = g.host() + ":" + g.port() + ":" + g.port()
	case 2:
		s = "[" + g.host() + "]:" + g.port()
	case 3:
		s = g.host() + "]:" + g.port()
	default:
		s = g.host() + ":" + g.port()
	}
	return g.pad(s)
}

func (g *Gen) path() string {
	const ok = "abzAZ09-._~!$&'()*+,;=:@/"
	const bad = " \"#<>?[\\]^`{|}\x7f\x00é"
	n := g.r.Intn(9)
	b := []byte{'/'}
	if g.r.Chance(1, 12) {
		b = nil
	}
	for i := 0; i < n; i++ {
		switch k := g.r.Intn(20); {
		case k < 15:
			b = append(b, ok[g.r.Intn(len(ok))])
		case k < 17:
			const hx = "0123456789abcdefABCDEF"
			b = append(b, '%', hx[g.r.Intn(len(hx))], hx[g.r.Intn(len(hx))])
		case k < 18:
			b = append(b, '%', "gG 1"[g.r.Intn(4)])
		case k < 19:
			b = append(b, '%')
		default:
			b = append(b, bad[g.r.Intn(len(bad))])
		}
	}
	return g.pad(string(b))
}

// ips: every string the model may ask ParseIP about for this address, with a positive answer
func ipOracle(address string) lib.T {
	t := strings.TrimSpace(address)
	seen := map[string]bool{}
	var out []lib.T
	add := func(s string) {
		if !seen[s] {
			seen[s] = true
			if net.ParseIP(s) != nil {
				out = append(out, lib.S(s))
			}
		}
	}
	add(t)
	if h, _, err := net.SplitHostPort(t); err == nil {
		add(h)
	}
	if len(t) <= 48 {
		for i := 0; i <= len(t); i++ {
			for j := i; j <= len(t); j++ {
				add(t[i:j])
			}
		}
	}
	// the same on the raw string: a model that trims differently asks about other strings
	if len(address) <= 48 {
		for i := 0; i <= len(address); i++ {
			for j := i; j <= len(address); j++ {
				add(address[i:j])
			}
		}
	}
	return lib.LS(out)
}

func optS(s string, ok bool) lib.T {
	if !ok {
		return lib.L()
	}
	return lib.L(lib.S(s))
}

func (h *H) refFactory(n int) {
	g := h.g
	for _, s := range spaces {
		for _, t := range []string{s, s + "a", "a" + s, s + "a" + s, s + s + "/x" + s + s, "a" + s + "b"} {
			h.s.Case("trimspace", true, lib.L(lib.N(100), lib.L(lib.N(4), lib.S(t))), lib.S(strings.TrimSpace(t)))
		}
	}
	for i := 0; i < n; i++ {
		a, p := g.address(), g.path()
		if i%7 == 0 {
			h.s.Case("trimspace", true, lib.L(lib.N(100), lib.L(lib.N(4), lib.S(a))), lib.S(strings.TrimSpace(a)))
		}
		np, okp := utils.NormalizePath(p)
		h.s.Case("normpath", true, lib.L(lib.N(100), lib.L(lib.N(1), lib.S(p))), optS(np, okp))
		ips := ipOracle(a)
		na, oka := utils.NormalizeAddress(a)
		h.s.Case("normaddr", true, lib.L(lib.N(100), lib.L(lib.N(2), lib.S(a), ips)), optS(na, oka))
		in := lib.L(lib.N(100), lib.L(lib.N(3), lib.S(a), lib.S(p), ips))
		var ref *actor.Ref
		var err error
		if pn := protect(func() { ref, err = actor.NewRef(a, p) }); pn != nil {
			h.s.Monitor("panic:buf", in, fmt.Sprint(pn))
			continue
		}
		if err != nil {
			code := uint64(2)
			if strings.Contains(err.Error(), "address") || !oka {
				code = 1
			}
			h.s.Case("newref-err", true, in, lib.L(lib.N(1), lib.N(code)))
			continue
		}
		h.s.Case("newref", true, in, lib.L(lib.N(0), lib.S(ref.GetAddress()), lib.S(ref.GetPath())))
		// what the round trip of OnKill / OnKilled / envelopes relies on: the factory accepts its own output unchanged
		again, err2 := actor.NewRef(ref.GetAddress(), ref.GetPath())
		if err2 != nil || again.GetAddress() != ref.GetAddress() || again.GetPath() != ref.GetPath() {
			h.s.Monitor("c12-newref-not-idempotent", in, fmt.Sprintf("NewRef(%q, %q) = (%q, %q); NewRef of that = %v, %v", a, p, ref.GetAddress(), ref.GetPath(), again, err2))
		}
	}
}

// ---------------------------------------------------------------- deterministic scenarios that run first

// growth: one Writer, chunks of every size around the capacity boundaries
func (h *H) scenGrowth() {
	for _, sizes := range [][]int{{255, 1, 1}, {256, 1}, {257}, {100, 100, 100, 300, 1200}, {0, 0, 513}, {1, 254, 2, 509, 3}} {
		s := newScenario(h)
		s.newWPlain(0, -1)
		for _, n := range sizes {
			s.opW(0, &WOp{K: wBytes, Bs: bytes.Repeat([]byte{byte(n)}, n)})
		}
		s.opW(0, &WOp{K: wReset})
		s.opW(0, &WOp{K: wPrim, B: BU16, V: &Val{K: VN, N: 0x0102}})
		s.emit("scen-growth")
	}
	for _, c := range []int{0, 1, 3} { // a caller-supplied buffer with a tiny capacity
		s := newScenario(h)
		buf := make([]byte, 0, c)
		w := messages.NewWriter(messages.WriterOption{Buffer: buf})
		s.ws[0] = &wHandle{w: w, tracked: true, invert: true}
		s.record(lib.L(lib.N(0), lib.N(0), lib.N(s.c.idW(w)), lib.L(), lib.L(lib.B(nil), lib.NI(c)), lib.Bool(false)), obsW(w, nil))
		s.opW(0, &WOp{K: wPrim, B: BU64, V: &Val{K: VN, N: 0x0102030405060708}})
		s.opW(0, &WOp{K: wPrim, B: BStr, V: &Val{K: VS, S: []byte("abc")}})
		s.emit("scen-growth")
	}
}

func (s *scenario) newWPlain(hd int, ord int) {
	w := messages.NewWriter(messages.WriterOption{ByteOrder: ordOpt(ord)})
	s.ws[hd] = &wHandle{w: w, ord: max(ord, 0), tracked: true, invert: true}
	s.record(lib.L(lib.N(0), lib.NI(hd), lib.N(s.c.idW(w)), ordTerm(ord), lib.L(), lib.Bool(false)), obsW(w, nil))
}

// the two repaired defects, as fixed regression scenarios (coq/Codec/BufProofs.v leak_scenario, leak_scenario_r, seek_reread_regression)
func (h *H) scenFindings() {
	// a pooled Writer must not keep the byte order of its previous user
	s := newScenario(h)
	s.c.allowOrd = true
	s.getWOrd(0, 1)
	s.opW(0, &WOp{K: wPrim, B: BU16, V: &Val{K: VN, N: 1}})
	s.relW(0)
	s.getW(1, false)
	s.opW(1, &WOp{K: wPrim, B: BU16, V: &Val{K: VN, N: 1}})
	s.relW(1)
	s.newWPlain(2, 1) // a Writer made with NewWriter(LittleEndian) is put into the pool
	s.relW(2)
	s.newWPlain(3, -1)
	s.opW(3, &WOp{K: wMsgReg, Name: "xvA", Body: []*WOp{{K: wPrim, B: BU16, V: &Val{K: VN, N: 1}}}})
	s.emit("scen-findings")
	// ... nor a pooled Reader
	s = newScenario(h)
	s.c.allowOrd = true
	data := []byte{0, 1, 0, 2}
	s.mkR(0, data, 1, 1, true, false)
	s.opR(0, &POp{K: pPrim, B: BU16})
	s.relR(0)
	s.mkR(1, data, -1, 0, true, false)
	s.opR(1, &POp{K: pPrim, B: BU16})
	s.relR(1)
	s.emit("scen-findings")
	// Seek back and decode again, three times
	s = newScenario(h)
	s.newWPlain(0, -1)
	t := TSl(false, TB(BBool))
	v := &Val{K: VList, L: []*Val{{K: VB, Bo: true}, {K: VB, Bo: true}, {K: VB, Bo: true}, {K: VB, Bo: true}, {K: VB, Bo: true}}}
	op := &WOp{K: wWrite, T: t, V: v}
	s.opW(0, op)
	data = append([]byte(nil), s.ws[0].w.Bytes()...)
	s.mkR(1, data, -1, 0, false, false)
	inv, want := []*POp{inverse(op)}, []lib.T{expected(op)}
	if res, err := s.opR(1, inv[0]); err == nil && lib.Show(res) == lib.Show(want[0]) {
		s.seekReread(1, inv, want)
		s.seekReread(1, inv, want)
		s.seekReread(1, inv, want)
	}
	s.emit("scen-findings")
}

func (h *H) modeBuf(tier int, c13 bool) {
	registerScripts()
	c13Only = c13
	h.scenGrowth()
	h.scenFindings()
	n := 200 * tier
	if c13 {
		n = 100 * tier
	}
	for i := 0; i < n; i++ {
		h.scenWriters()
		h.scenReaders()
		h.scenRoundTrip()
	}
	if !c13 {
		h.refFactory(500 * tier)
	}
}
