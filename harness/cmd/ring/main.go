// ring: correspondence cases and implementation-side monitors for C02 (queues.RingQueue).
//
// One case = one whole session: New(size) followed by a call sequence; the observed results (and, for
// dump commands, the representation read through the accessor) are compared with Queue/Ring.v.
// Payloads are a counter, so the monitors can decide FIFO order / loss / duplication on the
// implementation alone.
package main

import (
	"fmt"
	"os"
	"strings"
	"sync"
	"time"

	"github.com/kercylan98/vivid/internal/queues"
	"github.com/kercylan98/vivid/xverif/lib"
)

const (
	kPush = iota
	kPop
	kPopMany
	kLength
	kEmpty
	kDump
)

type op struct {
	k int
	c int64 // PopMany count
}

type H struct {
	o *lib.Out
}

func panicCode(r any) uint64 {
	s := fmt.Sprint(r)
	switch {
	case strings.Contains(s, "divide by zero"):
		return 1
	case strings.Contains(s, "makeslice"):
		return 2
	}
	return 99
}

func slot(v any) lib.T {
	if v == nil {
		return lib.L()
	}
	if u, ok := v.(uint64); ok {
		return lib.L(lib.N(u))
	}
	return lib.L(lib.S(fmt.Sprintf("%T", v)))
}

func slots(vs []any) lib.T {
	xs := make([]lib.T, len(vs))
	for i, v := range vs {
		xs[i] = slot(v)
	}
	return lib.LS(xs)
}

// guarded runs f; a panic is returned as its code (0 = none)
func guarded(f func()) (code uint64, text string) {
	defer func() {
		if r := recover(); r != nil {
			code, text = panicCode(r), fmt.Sprint(r)
		}
	}()
	f()
	return 0, ""
}

// session runs New(size) + ops (+ a drain tail unless it panicked), emits the case, evaluates the monitors.
func (h *H) session(kind string, size int64, ops []op, drain bool) {
	if drain {
		ops = append(append([]op(nil), ops...), op{k: kLength}, op{k: kPopMany, c: 1 << 40}, op{k: kPop}, op{k: kEmpty})
	}
	var next uint64 // next payload to push
	tops := make([]lib.T, 0, len(ops))
	var res []lib.T
	var q *queues.RingQueue
	var expect uint64 // next payload that must come out
	validOnly := size >= 1
	var hits []string
	hit := func(name, detail string) { hits = append(hits, name+"\x00"+detail) }
	panicked := false
	if code, _ := guarded(func() { q = queues.New(size) }); code != 0 {
		res = append(res, lib.L(lib.N(999), lib.N(code), lib.Z(0)))
		panicked = true
	}
	for i, p := range ops {
		switch p.k {
		case kPush:
			tops = append(tops, lib.L(lib.N(0), lib.N(next)))
		case kPop:
			tops = append(tops, lib.L(lib.N(1)))
		case kPopMany:
			tops = append(tops, lib.L(lib.N(2), lib.Z(p.c)))
			if p.c < 0 {
				validOnly = false
			}
		case kLength:
			tops = append(tops, lib.L(lib.N(3)))
		case kEmpty:
			tops = append(tops, lib.L(lib.N(4)))
		case kDump:
			tops = append(tops, lib.L(lib.N(5)))
		}
		if panicked {
			if p.k == kPush {
				next++
			}
			continue
		}
		var r lib.T
		code, text := guarded(func() {
			switch p.k {
			case kPush:
				q.Push(next)
				r = lib.N(0)
			case kPop:
				v, ok := q.Pop()
				if !ok {
					r = lib.L()
					if expect != next {
						hit("lost", fmt.Sprintf("call %d: Pop says empty but payloads %d..%d were pushed and never handed out", i, expect, next-1))
					}
				} else {
					r = lib.L(slot(v))
					if u, isU := v.(uint64); !isU || u != expect {
						hit("fifo-order", fmt.Sprintf("call %d: Pop returned %v, the oldest payload not yet handed out is %d", i, v, expect))
					}
					expect++
				}
			case kPopMany:
				vs, ok := q.PopMany(p.c)
				if !ok {
					r = lib.L()
					if expect != next {
						hit("lost", fmt.Sprintf("call %d: PopMany says empty but payloads %d..%d were pushed and never handed out", i, expect, next-1))
					}
				} else {
					r = lib.L(slots(vs))
					for _, v := range vs {
						if u, isU := v.(uint64); !isU || u != expect {
							hit("fifo-order", fmt.Sprintf("call %d: PopMany(%d) returned %v where the oldest payload not yet handed out is %d", i, p.c, v, expect))
						}
						expect++
					}
				}
			case kLength:
				n := q.Length()
				r = lib.Z(n)
				if n != int64(next)-int64(expect) {
					hit("length", fmt.Sprintf("call %d: Length() = %d with %d pushed and %d handed out", i, n, next, expect))
				}
			case kEmpty:
				b := q.Empty()
				r = lib.Bool(b)
				if b != (next == expect) {
					hit("length", fmt.Sprintf("call %d: Empty() = %v with %d pushed and %d handed out", i, b, next, expect))
				}
			case kDump:
				hd, tl, md, ln, buf := queues.XVRingDump(q)
				r = lib.L(lib.N(uint64(hd)), lib.N(uint64(tl)), lib.N(uint64(md)), lib.Z(ln), slots(buf))
			}
		})
		if p.k == kPush {
			next++
		}
		if code != 0 {
			res = append(res, lib.L(lib.N(999), lib.N(code), lib.Z(q.Length())))
			panicked = true
			h.o.Stats["panic-outcomes"]++
			if !queues.XVRingLocked(q) {
				h.o.Stats["panic-with-mutex-free"]++
			}
			if validOnly {
				hit("panic", fmt.Sprintf("call %d panicked on a queue made with size >= 1 and no negative count: %s", i, text))
			}
			continue
		}
		res = append(res, r)
	}
	if drain && !panicked && expect != next {
		hit("lost", fmt.Sprintf("after draining, payloads %d..%d were never handed out", expect, next-1))
	}
	in := lib.L(lib.Z(size), lib.LS(tops))
	h.o.Case(kind, next > 0 && expect > 0, in, lib.LS(res))
	for _, s := range hits {
		parts := strings.SplitN(s, "\x00", 2)
		h.o.Monitor(parts[0], in, parts[1])
	}
}

// exhaustive: every sequence of the given length over the alphabet, for sizes 1..3
var alphabet = []op{{k: kPush}, {k: kPop}, {k: kPopMany, c: 0}, {k: kPopMany, c: 2}, {k: kPopMany, c: 1 << 40}, {k: kLength}}

func (h *H) exhaustive(length int) {
	idx := make([]int, length)
	ops := make([]op, length)
	for {
		for i, a := range idx {
			ops[i] = alphabet[a]
		}
		for size := int64(1); size <= 3; size++ {
			h.session("exhaustive", size, ops, true)
		}
		i := length - 1
		for i >= 0 {
			idx[i]++
			if idx[i] < len(alphabet) {
				break
			}
			idx[i] = 0
			i--
		}
		if i < 0 {
			return
		}
	}
}

func (h *H) random(r *lib.Rand, n int) {
	sizes := []int64{1, 2, 3, 4, 8, 256}
	for it := 0; it < n; it++ {
		size := sizes[r.Intn(len(sizes))]
		var length int
		switch x := r.Intn(100); {
		case x < 65:
			length = 1 + r.Intn(60)
		case x < 93:
			length = 60 + r.Intn(600)
		default:
			length = 600 + r.Intn(4400)
		}
		// profile: probability of a push in percent, switched a few times per sequence so that the
		// queue fills over several growth boundaries, drains, wraps around
		pushPct := []int{85, 50, 20, 65}[r.Intn(4)]
		ops := make([]op, 0, length+1)
		pending := 0 // generator-side estimate, only used to pick interesting counts
		capEst := size
		for i := 0; i < length; i++ {
			if r.Chance(1, 40) {
				pushPct = []int{90, 50, 10, 70, 35}[r.Intn(5)]
			}
			x := r.Intn(100)
			switch {
			case x < pushPct:
				ops = append(ops, op{k: kPush})
				pending++
				for int64(pending) >= capEst {
					capEst *= 2
				}
			case x < pushPct+(100-pushPct)*5/10:
				ops = append(ops, op{k: kPop})
				if pending > 0 {
					pending--
				}
			case x < pushPct+(100-pushPct)*8/10:
				var c int64
				switch r.Intn(6) {
				case 0:
					c = 0
				case 1:
					c = int64(pending)
				case 2:
					c = int64(pending) + 1 + int64(r.Intn(3))
				case 3:
					c = 1 << 62
				default:
					c = int64(r.Intn(pending + 2))
				}
				ops = append(ops, op{k: kPopMany, c: c})
				if int64(pending) <= c {
					pending = 0
				} else {
					pending -= int(c)
				}
			case x < pushPct+(100-pushPct)*9/10:
				ops = append(ops, op{k: kLength})
			default:
				if capEst <= 64 {
					ops = append(ops, op{k: kDump})
				} else {
					ops = append(ops, op{k: kEmpty})
				}
			}
		}
		if capEst <= 1024 {
			ops = append(ops, op{k: kDump})
		}
		kind := "random-short"
		if length >= 600 {
			kind = "random-long"
		} else if length >= 60 {
			kind = "random-medium"
		}
		h.session(kind, size, ops, true)
	}
}

// guard cases: New(0), New(negative), a negative PopMany count as the last call of a session
func (h *H) guards(r *lib.Rand, n int) {
	h.session("guard-new0", 0, []op{{k: kLength}, {k: kPop}, {k: kPopMany, c: 3}, {k: kEmpty}, {k: kDump}, {k: kPush}, {k: kLength}}, false)
	h.session("guard-new0", 0, []op{{k: kPush}}, false)
	h.session("guard-new-negative", -1, []op{{k: kPush}}, false)
	h.session("guard-new-negative", -7, nil, false)
	h.session("guard-popmany-negative", 1, []op{{k: kPopMany, c: -1}, {k: kPush}, {k: kPopMany, c: -1}, {k: kLength}}, false)
	for i := 0; i < n; i++ {
		size := []int64{1, 2, 3, 4, 8}[r.Intn(5)]
		var ops []op
		for j, m := 0, 1+r.Intn(12); j < m; j++ {
			switch r.Intn(4) {
			case 0:
				ops = append(ops, op{k: kPop})
			case 1:
				ops = append(ops, op{k: kPopMany, c: int64(r.Intn(4))})
			default:
				ops = append(ops, op{k: kPush})
			}
		}
		ops = append(ops, op{k: kPopMany, c: -1 - int64(r.Intn(5))}, op{k: kLength})
		h.session("guard-popmany-negative", size, ops, false)
	}
}

type tagged struct {
	sender int
	seq    int
}

// concurrent: several senders push concurrently, one consumer pops: every sender's payloads must come
// out in that sender's order, each exactly once (implementation only; no model case)
func (h *H) concurrent(r *lib.Rand, senders, per int, size int64) {
	q := queues.New(size)
	var wg sync.WaitGroup
	for s := 0; s < senders; s++ {
		wg.Add(1)
		go func(s int) {
			defer wg.Done()
			for i := 0; i < per; i++ {
				q.Push(tagged{s, i})
			}
		}(s)
	}
	nextSeq := make([]int, senders)
	got := 0
	total := senders * per
	deadline := time.Now().Add(20 * time.Second)
	desc := lib.L(lib.S("concurrent"), lib.NI(senders), lib.NI(per), lib.Z(size))
	bad := false
	take := func(v any) {
		t, ok := v.(tagged)
		if !ok || t.sender < 0 || t.sender >= senders {
			if !bad {
				h.o.Monitor("concurrent-foreign", desc, fmt.Sprintf("popped %v", v))
				bad = true
			}
			got++
			return
		}
		if t.seq != nextSeq[t.sender] && !bad {
			h.o.Monitor("per-sender-fifo", desc, fmt.Sprintf("sender %d: got its payload %d where %d was next", t.sender, t.seq, nextSeq[t.sender]))
			bad = true
		}
		nextSeq[t.sender] = t.seq + 1
		got++
	}
	for got < total {
		if time.Now().After(deadline) {
			h.o.Monitor("lost", desc, fmt.Sprintf("only %d of %d payloads came out within 20 s", got, total))
			break
		}
		if r.Bool() {
			if v, ok := q.Pop(); ok {
				take(v)
			}
		} else {
			if vs, ok := q.PopMany(int64(1 + r.Intn(7))); ok {
				for _, v := range vs {
					take(v)
				}
			}
		}
	}
	wg.Wait()
	if got == total {
		if v, ok := q.Pop(); ok {
			h.o.Monitor("duplicated", desc, fmt.Sprintf("an extra payload %v came out after all %d", v, total))
		}
	}
	h.o.Stats["concurrent-runs"]++
}

func main() {
	f := lib.ParseFlags()
	o := lib.NewOut(f.Out)
	h := &H{o}
	r := lib.NewRand(f.Seed)
	exLen, nRandom, nGuards, per := 5, 400, 40, 2000
	if f.Tier == "thorough" {
		exLen, nRandom, nGuards, per = 7, 25000, 2000, 50000
	}
	if f.N > 0 {
		nRandom = f.N
	}
	h.guards(r, nGuards)
	h.exhaustive(exLen)
	o.Info["exhaustive"] = fmt.Sprintf("all %d^%d call sequences over {Push, Pop, PopMany(0), PopMany(2), PopMany(2^40), Length} for New(1), New(2), New(3), each followed by Length, PopMany(2^40), Pop, Empty", len(alphabet), exLen)
	h.random(r, nRandom)
	o.Info["random"] = fmt.Sprintf("%d seeded sessions, sizes {1,2,3,4,8,256}, 1..5000 calls, push probability switched between 10%% and 90%% inside a session", nRandom)
	for _, s := range []int{1, 2, 4, 8} {
		for _, size := range []int64{1, 256} {
			h.concurrent(r, s, per, size)
		}
	}
	o.Info["concurrent"] = "1,2,4,8 concurrent senders x one consumer (Pop / PopMany), sizes 1 and 256: per-sender order, nothing lost or duplicated (monitor only)"
	o.Close(f.Report)
	if len(o.Monitors) > 0 {
		os.Exit(3)
	}
}
