// mailbox: lock-step traces of the REAL UnboundedMailbox (instrumented copy generated from the tree under
// test, driven by the controlled scheduler) for C01/C02, plus implementation-side monitors.
package main

import (
	"flag"
	"fmt"
	"os"
	"strings"

	"github.com/kercylan98/vivid"
	"github.com/kercylan98/vivid/internal/mailbox"
	"github.com/kercylan98/vivid/internal/queues"
	"github.com/kercylan98/vivid/xverif/lib"
	"github.com/kercylan98/vivid/xverif/vsched"
)

// fine = the build also instruments internal/queues/ring.go (profile "mbring"): the ring queue's own
// synchronisation steps (Lock, the atomic add / load of len) are scheduling points, the queue calls of the mailbox
// are not, and every step's projection includes both rings (coq/Mailbox/MbFine.v instead of MbModel.v).
var fine = flag.Bool("fine", false, "fine-grained lock-step: ring.go is instrumented too (component mbfine)")

// op kinds of environment threads
const (
	opSend   = 0
	opPause  = 1
	opResume = 2
)

type op struct {
	kind   int
	sys    bool
	msg    uint64
	inline bool // runs inside the handler of message `in`
	in     uint64
	tid    int
}

type config struct {
	ops  []op // index = tid
	size int64
}

// ---- operation classes -------------------------------------------------------------------------------------------
// A step is identified by WHAT it does - the kind of synchronisation operation and the field / object it acts on -
// never by the function it is written in or by a source position: the instrumenter's label
// "<enclosing function>:<callee>[:<operand>]" is reduced to its class by dropping the function and the receiver
// variable ("processHandle:atomic.AddInt32:&m.num" and "drain:atomic.AddInt32:&mb.num" are both
// "atomic.AddInt32:num"). The model reports the class of the stepping thread's pc (coq/Mailbox/MbClass.v:
// class_of_pc / class_of_fpc, class_name); the per-step state comparison tells an increment from a decrement, a
// Push's Lock from a Pop's.

func stripRecv(s string) string {
	s = strings.TrimPrefix(s, "&")
	if i := strings.Index(s, "."); i >= 0 {
		return s[i+1:]
	}
	return s
}

func classOf(l string) string {
	if l == "start" {
		return "start"
	}
	parts := strings.Split(l, ":")
	if len(parts) < 2 {
		return l
	}
	parts = parts[1:] // the enclosing function
	switch {
	case strings.HasPrefix(parts[0], "atomic.") && len(parts) >= 2:
		return parts[0] + ":" + stripRecv(parts[1])
	case (parts[0] == "Lock" || parts[0] == "RLock" || parts[0] == "go") && len(parts) >= 2:
		return parts[0] + ":" + stripRecv(parts[1])
	}
	return "call:" + stripRecv(parts[0])
}

// class_code of coq/Mailbox/MbClass.v
var classCodes = map[string]uint64{
	"start":                              1,
	"call:systemBuffer.Push":             2,
	"call:buffer.Push":                   3,
	"atomic.AddInt32:systemNum":          4,
	"atomic.AddInt32:num":                5,
	"atomic.CompareAndSwapUint32:status": 6,
	"atomic.StoreUint32:paused":          7,
	"atomic.CompareAndSwapUint32:paused": 8,
	"call:systemBuffer.Pop":              9,
	"call:handler.HandleEnvelop":         11,
	"atomic.LoadUint32:paused":           12,
	"call:buffer.Pop":                    13,
	"atomic.StoreUint32:status":          15,
	"atomic.LoadInt32:num":               16,
	"atomic.LoadInt32:systemNum":         17,
	"Lock:lock":                          20,
	"atomic.AddInt64:len":                21,
	"atomic.LoadInt64:len":               22,
}

func labelCode(l string) uint64 {
	if c, ok := classCodes[classOf(l)]; ok {
		return c
	}
	return 98
}

// readOnlyUnknown: a synchronisation step of a class the model has no step for, which only READS (an atomic load).
// It is tolerated as a stuttering step iff the projected shared state is identical before and after it; it is then
// removed from the schedule handed to the model and counted in the report ("tolerated-readonly-step:<class>").
// Soundness: the step has no effect on shared state; every later step of the same thread still has to match the
// model's next step for that thread in class and in state, so a control flow that differs because of the value read
// is a mismatch on every schedule on which it differs. Writes, CAS, locks of an unknown class are never tolerated.
func readOnlyUnknown(l string) bool {
	return labelCode(l) == 98 && strings.HasPrefix(classOf(l), "atomic.Load")
}

type handled struct {
	sys bool
	id  uint64
}

type runner struct {
	cfg      config
	mb       *mailbox.UnboundedMailbox
	log      []handled
	inflight int
	overlap  bool
	inlineBy map[uint64][]int // message id -> tids of inline ops
	evs      []mev            // Enqueue returns and handler starts, in real order (one thread runs at a time)
}

// mev is one entry of the order log: kind 0 = Enqueue(sys,id) returned, 1 = the handler of (sys,id) started,
// 2 = Pause returned, 3 = Resume called, 4 = Resume returned.
type mev struct {
	kind int
	sys  bool
	id   uint64
}

func (r *runner) HandleEnvelop(e vivid.Envelop) {
	r.inflight++
	if r.inflight > 1 {
		r.overlap = true
	}
	id := e.Message().(uint64)
	r.log = append(r.log, handled{e.System(), id})
	r.evs = append(r.evs, mev{1, e.System(), id})
	for _, tid := range r.inlineBy[id] {
		vsched.Alias(tid)
		r.do(r.cfg.ops[tid])
		vsched.Alias(-1)
	}
	r.inflight--
}

func (r *runner) do(o op) {
	switch o.kind {
	case opSend:
		r.mb.Enqueue(mailbox.NewEnvelop(o.sys, nil, nil, o.msg))
		r.evs = append(r.evs, mev{0, o.sys, o.msg})
	case opPause:
		r.mb.Pause()
		r.evs = append(r.evs, mev{kind: 2})
	case opResume:
		r.evs = append(r.evs, mev{kind: 3})
		r.mb.Resume()
		r.evs = append(r.evs, mev{kind: 4})
	}
}

type result struct {
	sched    []int
	trace    []vsched.Step
	choices  []vsched.Choice
	log      []handled
	deadlock bool
	overrun  bool
	overlap  bool
	stuck    string
	final    []lib.T
	evs      []mev
	bufs     []lib.T // fine mode: the two ring buffers in full at the end of the run
	// steps removed from the trace: read-only operations of classes the model has no step for (class -> count)
	tolerated map[string]int
}

// slotCode: 0 = nil slot, id+1 = the envelope of message id
func slotCode(x any) lib.T {
	if x == nil {
		return lib.N(0)
	}
	return lib.N(x.(vivid.Envelop).Message().(uint64) + 1)
}

// ringProj = (head tail mod len locked slot[head] slot[tail]) of one RingQueue, read while every goroutine is parked
func ringProj(q *queues.RingQueue) lib.T {
	head, tail, mod, length, buf := queues.XVRingDump(q)
	at := func(i int64) lib.T {
		if i < 0 || i >= int64(len(buf)) {
			return lib.N(0)
		}
		return slotCode(buf[i])
	}
	return lib.L(lib.N(uint64(head)), lib.N(uint64(tail)), lib.N(uint64(mod)), lib.Z(length), lib.Bool(queues.XVRingLocked(q)), at(head), at(tail))
}

func ringBuf(q *queues.RingQueue) lib.T {
	_, _, _, _, buf := queues.XVRingDump(q)
	out := make([]lib.T, len(buf))
	for i, x := range buf {
		out[i] = slotCode(x)
	}
	return lib.LS(out)
}

func execute(cfg config, choose func([]int, int) int) result {
	return executeN(cfg, choose, 4000)
}

func executeN(cfg config, choose func([]int, int) int, maxSteps int) result {
	r := &runner{cfg: cfg, inlineBy: map[uint64][]int{}}
	r.mb = mailbox.NewUnboundedMailbox(cfg.size, r)
	// crash context: a panic inside the code under test (e.g. processHandle asserting a nil slot to vivid.Envelop) kills
	// this process from a goroutine of the mailbox and cannot be recovered here; the configuration and every scheduling
	// decision are therefore written to stderr (unbuffered) as they are taken, so that the last "RUN" line in front of
	// the panic message is the failing input (configuration + schedule up to the crashing step)
	fmt.Fprintf(os.Stderr, "\nRUN fine=%v size=%d threads=%s schedule:", *fine, cfg.size, lib.Show(cfgTerm(cfg)))
	inner := choose
	choose = func(en []int, last int) int {
		c := inner(en, last)
		fmt.Fprintf(os.Stderr, " %d", c)
		return c
	}
	s := vsched.New(choose)
	s.MaxSteps = maxSteps
	for tid, o := range cfg.ops {
		o := o
		if o.inline {
			v := s.Virtual()
			if v != tid {
				panic("tid mismatch")
			}
			r.inlineBy[o.in] = append(r.inlineBy[o.in], tid)
			continue
		}
		got := s.Spawn("env", func() { r.do(o) })
		if got != tid {
			panic("tid mismatch")
		}
	}
	s.Snapshot = func() any {
		st, pa, n, sn, sl, ul := mailbox.XVState(r.mb)
		if *fine {
			sq, uq := mailbox.XVQueues(r.mb)
			return []lib.T{lib.N(uint64(st)), lib.N(uint64(pa)), lib.Z(int64(n)), lib.Z(int64(sn)), lib.NI(len(r.log)), ringProj(sq), ringProj(uq)}
		}
		return []lib.T{lib.N(uint64(st)), lib.N(uint64(pa)), lib.Z(int64(n)), lib.Z(int64(sn)), lib.N(uint64(sl)), lib.N(uint64(ul)), lib.NI(len(r.log))}
	}
	initSnap := lib.Show(lib.LS(s.Snapshot().([]lib.T)))
	s.Run()
	// stuttering read-only steps of classes the model does not know (see readOnlyUnknown)
	var kept []vsched.Step
	tolerated := map[string]int{}
	prev := initSnap
	for _, st := range s.Trace {
		cur := lib.Show(lib.LS(st.Snap.([]lib.T)))
		if readOnlyUnknown(st.Label) && cur == prev {
			tolerated[classOf(st.Label)]++
			continue
		}
		kept = append(kept, st)
		prev = cur
	}
	res := result{trace: kept, choices: s.Choices, log: r.log, deadlock: s.Deadlock, overrun: s.Overrun, overlap: r.overlap, evs: r.evs, tolerated: tolerated}
	if *fine {
		sq, uq := mailbox.XVQueues(r.mb)
		res.bufs = []lib.T{ringBuf(sq), ringBuf(uq)}
	}
	if s.Deadlock || s.Overrun {
		res.stuck = s.Stuck()
	}
	for _, st := range kept {
		res.sched = append(res.sched, st.Tid)
	}
	st, pa, n, sn, sl, ul := mailbox.XVState(r.mb)
	_ = n
	_ = sn
	res.final = []lib.T{lib.N(uint64(st)), lib.N(uint64(pa)), lib.N(uint64(sl)), lib.N(uint64(ul))}
	return res
}

func cfgTerm(cfg config) lib.T {
	ths := make([]lib.T, len(cfg.ops))
	for i, o := range cfg.ops {
		switch o.kind {
		case opSend:
			ths[i] = lib.L(lib.N(0), lib.Bool(o.sys), lib.N(o.msg), lib.Bool(o.inline))
		case opPause:
			ths[i] = lib.L(lib.N(1), lib.Bool(o.inline))
		case opResume:
			ths[i] = lib.L(lib.N(2), lib.Bool(o.inline))
		}
	}
	return lib.LS(ths)
}

type H struct {
	o    *lib.Out
	seen map[string]bool
}

func (h *H) emit(cfg config, res result) {
	sched := make([]lib.T, len(res.sched))
	for i, t := range res.sched {
		sched[i] = lib.NI(t)
	}
	in := lib.L(cfgTerm(cfg), lib.LS(sched))
	if *fine {
		in = lib.L(lib.N(uint64(cfg.size)), cfgTerm(cfg), lib.LS(sched))
	}
	key := lib.Show(in)
	if h.seen[key] {
		h.o.Stats["duplicate-schedules"]++
		return
	}
	h.seen[key] = true
	steps := make([]lib.T, len(res.trace))
	for i, st := range res.trace {
		rec := append([]lib.T{lib.N(labelCode(st.Label))}, st.Snap.([]lib.T)...)
		steps[i] = lib.LS(rec)
		if labelCode(st.Label) == 98 {
			h.o.Stats["unknown-class:"+classOf(st.Label)]++
		}
	}
	logT := make([]lib.T, len(res.log))
	for i, l := range res.log {
		logT[i] = lib.L(lib.Bool(l.sys), lib.N(l.id))
	}
	terminal := !res.deadlock && !res.overrun
	out := lib.L(lib.LS(steps), lib.LS(logT), lib.Bool(terminal))
	if *fine {
		out = lib.L(lib.LS(steps), lib.LS(logT), lib.Bool(terminal), res.bufs[0], res.bufs[1])
	}
	pre := 0
	for i := 1; i < len(res.sched); i++ {
		if res.sched[i] != res.sched[i-1] {
			pre++
		}
	}
	h.o.Case(fmt.Sprintf("ops=%d", len(cfg.ops)), pre >= 2, in, out)
	h.o.Stats["steps"] += len(res.trace)
	for c, n := range res.tolerated {
		h.o.Stats["tolerated-readonly-step:"+c] += n
	}
	// ---- monitors: the property evaluated on what the real mailbox did ----
	if res.overlap {
		h.o.Monitor("overlapping-handlers", in, "two HandleEnvelop invocations were in progress at once")
	}
	// system before user (C02): once Enqueue of a system message has returned, at most ONE more user handler may
	// start before that system message is handled (the user message the consumer had already popped)
	for i, e := range res.evs {
		if e.kind != 0 || !e.sys {
			continue
		}
		early := false // handled while its Enqueue had not returned yet: nothing to check
		for _, f := range res.evs[:i] {
			if f.kind == 1 && f.sys && f.id == e.id {
				early = true
			}
		}
		if early {
			continue
		}
		users := 0
		for _, f := range res.evs[i+1:] {
			if f.kind == 1 && f.sys && f.id == e.id {
				break
			}
			if f.kind == 1 && !f.sys {
				users++
			}
		}
		if users > 1 {
			h.o.Monitor("c02-user-overtakes-system", in, fmt.Sprintf("%d user messages were handled after Enqueue of system message %d had returned and before it was handled (at most 1 allowed)", users, e.id))
		}
	}
	// paused (C01): once Pause has returned and until the next Resume is called, at most ONE more user handler may
	// start (the user message the consumer had already popped); skipped when a Resume was in flight at that moment
	for i, e := range res.evs {
		if e.kind != 2 {
			continue
		}
		inflight := 0
		for _, f := range res.evs[:i] {
			if f.kind == 3 {
				inflight++
			} else if f.kind == 4 {
				inflight--
			}
		}
		if inflight > 0 {
			continue
		}
		users := 0
		for _, f := range res.evs[i+1:] {
			if f.kind == 3 {
				break
			}
			if f.kind == 1 && !f.sys {
				users++
			}
		}
		if users > 1 {
			h.o.Monitor("c01-user-handled-while-paused", in, fmt.Sprintf("%d user messages were handled after Pause had returned and before any Resume was called (at most 1 allowed)", users))
		}
	}
	if res.overrun {
		h.o.Monitor("no-termination", in, "the mailbox kept taking steps (spin / livelock): "+res.stuck)
	}
	if res.deadlock {
		h.o.Monitor("deadlock", in, res.stuck)
	}
	// exactly-once
	accepted := map[handled]bool{}
	for _, o := range cfg.ops {
		if o.kind == opSend {
			accepted[handled{o.sys, o.msg}] = false
		}
	}
	// inline ops only run if their carrier message was handled
	got := map[handled]int{}
	for _, l := range res.log {
		got[l]++
		if got[l] > 1 {
			h.o.Monitor("duplicate-delivery", in, fmt.Sprintf("message %v handled twice", l))
		}
		if _, ok := accepted[l]; !ok {
			h.o.Monitor("phantom-delivery", in, fmt.Sprintf("message %v was never enqueued", l))
		}
	}
	if terminal {
		// which sends actually happened: all non-inline sends, and inline ones whose carrier was handled
		paused := lib.Show(res.final[1]) == "1"
		sysLeft := lib.Show(res.final[2]) != "0"
		userLeft := lib.Show(res.final[3]) != "0"
		for _, o := range cfg.ops {
			if o.kind != opSend {
				continue
			}
			happened := !o.inline
			if o.inline {
				for _, l := range res.log {
					if l.id == o.in {
						happened = true
					}
				}
			}
			if !happened {
				continue
			}
			if got[handled{o.sys, o.msg}] == 0 {
				if o.sys {
					h.o.Monitor("lost-message", in, fmt.Sprintf("system message %d accepted but never handled although every goroutine finished", o.msg))
				} else if !paused {
					h.o.Monitor("lost-message", in, fmt.Sprintf("user message %d accepted, mailbox not paused, never handled although every goroutine finished (lost wake-up)", o.msg))
				}
			}
		}
		if sysLeft {
			h.o.Monitor("lost-wakeup", in, "system queue non-empty with no goroutine left to process it")
		}
		if userLeft && !paused {
			h.o.Monitor("lost-wakeup", in, "user queue non-empty, mailbox not paused, no goroutine left to process it")
		}
	}
	// C02 on the same trace: per-kind FIFO in push order (push order = order of the Push steps in the trace)
	var pushSys, pushUser []uint64
	tidMsg := map[int]op{}
	for i, o := range cfg.ops {
		tidMsg[i] = o
	}
	for _, st := range res.trace {
		c := labelCode(st.Label)
		if c == 21 { // fine mode: a Push takes effect at its atomic add of len (class "atomic.AddInt64:len" is also a Pop's add: a Push's is the one of a sender thread); the queue is the one of the sender's message kind
			if o, ok := tidMsg[st.Tid]; !ok || o.kind != opSend {
				continue
			}
			if tidMsg[st.Tid].sys {
				c = 2
			} else {
				c = 3
			}
		}
		if c == 2 {
			pushSys = append(pushSys, tidMsg[st.Tid].msg)
		} else if c == 3 {
			pushUser = append(pushUser, tidMsg[st.Tid].msg)
		}
	}
	var hs, hu []uint64
	for _, l := range res.log {
		if l.sys {
			hs = append(hs, l.id)
		} else {
			hu = append(hu, l.id)
		}
	}
	if !isPrefix(hs, pushSys) {
		h.o.Monitor("fifo-system", in, fmt.Sprintf("system messages handled %v but pushed %v", hs, pushSys))
	}
	if !isPrefix(hu, pushUser) {
		h.o.Monitor("fifo-user", in, fmt.Sprintf("user messages handled %v but pushed %v", hu, pushUser))
	}
}

func isPrefix(a, b []uint64) bool {
	if len(a) > len(b) {
		return false
	}
	for i := range a {
		if a[i] != b[i] {
			return false
		}
	}
	return true
}

func (h *H) explore(cfg config, bound, maxRuns int) int {
	return vsched.Explore(bound, maxRuns, func(choose func([]int, int) int) []vsched.Choice {
		res := execute(cfg, choose)
		h.emit(cfg, res)
		return res.choices
	})
}

func randomCfg(r *lib.Rand, maxOps int) config {
	n := 2 + r.Intn(maxOps-1)
	var ops []op
	var userMsgs, allMsgs []uint64
	next := uint64(1)
	for i := 0; i < n; i++ {
		o := op{}
		switch k := r.Intn(10); {
		case k < 5:
			o = op{kind: opSend, sys: false, msg: next}
			userMsgs = append(userMsgs, next)
			allMsgs = append(allMsgs, next)
			next++
		case k < 7:
			o = op{kind: opSend, sys: true, msg: next}
			allMsgs = append(allMsgs, next)
			next++
		case k < 8:
			o = op{kind: opPause}
		default:
			o = op{kind: opResume}
		}
		// make some ops run inside a handler of an earlier message
		if len(allMsgs) > 0 && r.Chance(1, 4) {
			carrier := allMsgs[r.Intn(len(allMsgs))]
			if !(o.kind == opSend && o.msg == carrier) {
				o.inline = true
				o.in = carrier
			}
		}
		ops = append(ops, o)
	}
	return config{ops: ops, size: []int64{1, 2, 4, 8}[r.Intn(4)]}
}

func main() {
	f := lib.ParseFlags() // parses -fine too
	o := lib.NewOut(f.Out)
	o.Info["fine"] = *fine
	h := &H{o: o, seen: map[string]bool{}}
	r := lib.NewRand(f.Seed)
	thorough := f.Tier == "thorough"
	// hand-picked small configurations, explored depth-first with a preemption bound
	u := func(m uint64) op { return op{kind: opSend, msg: m} }
	s := func(m uint64) op { return op{kind: opSend, sys: true, msg: m} }
	in := func(o op, carrier uint64) op { o.inline = true; o.in = carrier; return o }
	pause, resume := op{kind: opPause}, op{kind: opResume}
	fixed := []config{
		{ops: []op{u(1)}, size: 1},
		{ops: []op{u(1), u(2)}, size: 1},
		{ops: []op{u(1), s(2)}, size: 2},
		{ops: []op{pause, u(1)}, size: 2},
		{ops: []op{pause, u(1), resume}, size: 2},
		{ops: []op{pause, s(1), u(2), resume}, size: 2},
		{ops: []op{u(1), u(2), s(3)}, size: 1},
		{ops: []op{u(1), in(pause, 1), u(2), resume}, size: 2},
		{ops: []op{u(1), in(u(2), 1), in(s(3), 1)}, size: 2},
		{ops: []op{u(1), in(pause, 1), in(resume, 1), u(2)}, size: 2},
		{ops: []op{pause, u(1), resume, pause, u(2), resume}, size: 4},
	}
	bound, perCfg := 2, 120
	if thorough {
		bound, perCfg = 3, 6000
	}
	if *fine {
		// the ring's own steps multiply the schedules of a configuration: fewer runs per configuration, and
		// configurations whose point is the queue - growth at every push (size 1), growth while the cursors are
		// wrapped around (size 3: three pushes, one pop, two pushes), a consumer popping while senders push
		perCfg = 60
		if thorough {
			perCfg = 4000
		}
		fixed = append(fixed,
			config{ops: []op{u(1), u(2), u(3)}, size: 1},
			config{ops: []op{u(1), in(u(2), 1), in(u(3), 1), in(u(4), 2), in(u(5), 2), in(u(6), 2)}, size: 3},
			config{ops: []op{u(1), in(u(2), 1), in(u(3), 1), u(4), u(5)}, size: 3},
			config{ops: []op{s(1), in(s(2), 1), s(3), u(4), in(u(5), 4)}, size: 2},
		)
	}
	total := 0
	for _, c := range fixed {
		total += h.explore(c, bound, perCfg)
	}
	o.Info["dfs_configs"] = len(fixed)
	o.Info["dfs_preemption_bound"] = bound
	o.Info["dfs_runs"] = total
	// random configurations, random/sticky schedules
	n := 250
	if thorough {
		n = 6000
	}
	if *fine {
		n = 150
		if thorough {
			n = 4000
		}
	}
	if f.N > 0 {
		n = f.N
	}
	for i := 0; i < n; i++ {
		cfg := randomCfg(r, 7)
		if *fine && r.Chance(1, 3) {
			cfg.size = 3 // not a power of two: the cursors wrap at an odd modulus before the first growth
		}
		rr := r.Fork()
		var ch func([]int, int) int
		if r.Bool() {
			ch = vsched.RandomChooser(rr.Intn)
		} else {
			ch = vsched.StickyChooser(rr.Intn, 2+r.Intn(5))
		}
		h.emit(cfg, execute(cfg, ch))
	}
	o.Info["random_runs"] = n
	// large backlogs: the handler of message 1 enqueues 64..160 user messages (so they are all queued while the
	// consumer is busy), the handler of one of them enqueues a system message (and sometimes pauses), another
	// system message and a Pause/Resume pair come from threads of their own: system-before-user and the pause
	// check must hold between ANY two user messages of a long queue, not only of a short one
	nb := 3
	if thorough {
		nb = 40
	}
	if *fine {
		nb = 3
		if thorough {
			nb = 20
		}
	}
	for i := 0; i < nb; i++ {
		k := 64 + r.Intn(97)
		ops := []op{u(1)}
		for m := uint64(2); m < uint64(2+k); m++ {
			ops = append(ops, in(u(m), 1))
		}
		at := uint64(2 + r.Intn(k-1))
		ops = append(ops, in(s(1000), at))
		if r.Chance(1, 3) {
			ops = append(ops, in(pause, uint64(2+r.Intn(k-1))), resume)
		}
		if r.Bool() {
			ops = append(ops, s(1001))
		}
		cfg := config{ops: ops, size: []int64{1, 8, 64, 256}[r.Intn(4)]}
		rr := r.Fork()
		h.emit(cfg, executeN(cfg, vsched.StickyChooser(rr.Intn, 3+r.Intn(20)), 80000))
	}
	o.Info["backlog_runs"] = nb
	o.Close(f.Report)
	if len(o.Monitors) > 0 {
		os.Exit(3)
	}
}
