// ref: correspondence cases and implementation-side monitors for actor references as strings
// (internal/utils/ref.go, internal/utils/net_addr.go IsDomainName, internal/actor/ref.go) against coq/Ref/RefModel.v.
//
// Every function of the model is compared with the real one, including the standard-library functions the
// model spells out (strings.TrimSpace, net.SplitHostPort, net.ParseIP, strconv.Atoi inside IsValidPort, the
// two regular expressions).  Monitors evaluate, on the implementation only, what a user of references relies
// on: a ref rebuilt from its (address, path) strings is the same ref (this is how refs cross the wire: C15),
// distinct refs have distinct strings, a string that parses names the ref it was printed from (C03: references
// obtained by parsing), Child stays under its parent, Clone/Equals agree with (address, path) equality.
package main

import (
	"fmt"
	"net"
	"os"
	"strings"
	"time"

	"github.com/kercylan98/vivid"
	"github.com/kercylan98/vivid/internal/actor"
	"github.com/kercylan98/vivid/internal/utils"
	"github.com/kercylan98/vivid/pkg/bootstrap"
	"github.com/kercylan98/vivid/pkg/log"
	"github.com/kercylan98/vivid/xverif/lib"
)

type H struct {
	o *lib.Out
	// every valid ref seen in this run, by its String(): two different refs with one string = not injective
	byString map[string][2]string
	nValid       int
	nAmbig       int    // ambiguous refs whose printed form ParseRef rejects (observation, see checkRef)
	nAmbigParsed int    // ambiguous refs whose printed form parsed back (0 expected)
	ambigExample string // the first of them
}

func (h *H) guard(name string, c lib.T, f func()) {
	defer func() {
		if r := recover(); r != nil {
			h.o.Monitor("panic:"+name, c, fmt.Sprint(r))
		}
	}()
	f()
}

func errCode(err error) uint64 {
	type coder interface{ GetCode() int32 }
	if c, ok := err.(coder); ok {
		switch c.GetCode() {
		case 130001:
			return 1
		case 130002:
			return 2
		case 130003:
			return 3
		case 130004:
			return 4
		}
	}
	return 99
}

func tpair(a, p string) lib.T { return lib.L(lib.S(a), lib.S(p)) }
func tres(r *actor.Ref, err error) lib.T {
	if err != nil {
		return lib.Err(errCode(err))
	}
	return lib.Ok(tpair(r.GetAddress(), r.GetPath()))
}
func topt(ok bool, s string) lib.T { return lib.Opt(ok, lib.S(s)) }

// the class of refs for which ParseRef(String()) fails (report-only observation; RefModel.ambiguous, C15_ref_parse_string):
// address without ':' and a ':' in front of the first ":/" of the path
func ambiguous(a, p string) bool {
	if strings.Contains(a, ":") {
		return false
	}
	k := strings.Index(p, ":/")
	return k >= 0 && strings.Contains(p[:k], ":")
}

// monitors on one valid ref r (made by NewRef or ParseRef)
func (h *H) checkRef(c lib.T, r *actor.Ref, how string) {
	a, p := r.GetAddress(), r.GetPath()
	h.nValid++
	// rebuilt from its two strings (HandleRemotingEnvelop, the ActorRef factory of the codec): same ref
	r2, err := actor.NewRef(a, p)
	if err != nil {
		h.o.Monitor("ref-rebuild-fails", c, fmt.Sprintf("%s gave (%q, %q); NewRef of exactly these strings: %v", how, a, p, err))
	} else if r2.GetAddress() != a || r2.GetPath() != p || !r.Equals(r2) || !r2.Equals(r) {
		h.o.Monitor("ref-rebuild-differs", c, fmt.Sprintf("%s gave (%q, %q); NewRef of these strings gives (%q, %q)", how, a, p, r2.GetAddress(), r2.GetPath()))
	}
	// String is injective
	s := r.String()
	if old, ok := h.byString[s]; ok {
		if old[0] != a || old[1] != p {
			h.o.Monitor("ref-string-collision", c, fmt.Sprintf("refs (%q, %q) and (%q, %q) both print as %q", old[0], old[1], a, p, s))
		}
	} else if len(h.byString) < 2000000 {
		h.byString[s] = [2]string{a, p}
	}
	// the printed form parses back to the same ref. ParseRef is known to FAIL on the printed form of the `ambiguous`
	// refs (C15_ref_parse_string: exactly those); that is a defect of the public helper ParseRef, outside the statement
	// of C15 / C12 / C03 (an unparsable string sends no message), so it is counted in the report, not a monitor.
	// What must hold: a non-ambiguous ref parses back, and NO printed ref ever parses as another ref.
	r3, err := actor.ParseRef(s)
	switch {
	case err != nil && ambiguous(a, p):
		h.nAmbig++
		if h.ambigExample == "" {
			h.ambigExample = fmt.Sprintf("ref (%q, %q) prints as %q, ParseRef of that: %v", a, p, s, err)
		}
	case err != nil:
		h.o.Monitor("ref-string-roundtrip", c, fmt.Sprintf("ref (%q, %q) prints as %q, ParseRef of that: %v", a, p, s, err))
	case r3.GetAddress() != a || r3.GetPath() != p:
		h.o.Monitor("ref-string-names-other-ref", c, fmt.Sprintf("ref (%q, %q) prints as %q, which parses as (%q, %q)", a, p, s, r3.GetAddress(), r3.GetPath()))
	case ambiguous(a, p):
		h.nAmbigParsed++ // the model says this cannot parse: shows up as a model/implementation mismatch of the case
	}
	// Clone / Equals
	cl := r.Clone()
	if cl.GetAddress() != a || cl.GetPath() != p || !r.Equals(cl) || !cl.Equals(r) || cl.String() != s {
		h.o.Monitor("ref-clone-differs", c, fmt.Sprintf("Clone of (%q, %q) is (%q, %q)", a, p, cl.GetAddress(), cl.GetPath()))
	}
	if r.Equals(nil) {
		h.o.Monitor("ref-equals-nil", c, "Equals(nil) = true")
	}
	// NewAgentRef ignores the error of Child("@future@" + uuid): for a valid ref it must not be left with a nil ref
	if h.nValid%7 == 0 {
		ag, err := actor.NewAgentRef(r)
		if err != nil || ag == nil || ag.Ref() == nil {
			h.o.Monitor("agent-ref-nil", c, fmt.Sprintf("NewAgentRef of the valid ref (%q, %q): err=%v, nil inner ref", a, p, err))
		} else if ag.Ref().GetAddress() != a || !strings.HasPrefix(ag.Ref().GetPath(), utils.JoinPath(p, "@future@")) {
			h.o.Monitor("agent-ref-not-under-agent", c, fmt.Sprintf("NewAgentRef of (%q, %q) is (%q, %q)", a, p, ag.Ref().GetAddress(), ag.Ref().GetPath()))
		}
	}
}

// NormalizeAddresses on a list; IsAddrMissingPort on each element
func (h *H) addrList(kind string, l []string) {
	ts := make([]lib.T, len(l))
	for i, s := range l {
		ts[i] = lib.S(s)
	}
	in := lib.L(lib.N(15), lib.LS(ts))
	h.guard("addrlist", in, func() {
		out := utils.NormalizeAddresses(l)
		os_ := make([]lib.T, len(out))
		for i, s := range out {
			os_[i] = lib.S(s)
		}
		h.o.Case(kind, len(out) > 0, in, lib.LS(os_))
		for _, a := range out {
			if n, ok := utils.NormalizeAddress(a); !ok || n != a {
				h.o.Monitor("normalize-addresses-not-normal", in, fmt.Sprintf("NormalizeAddresses returned %q, NormalizeAddress of it = (%q, %v)", a, n, ok))
			}
		}
	})
	for _, s := range l {
		s := s
		h.one("missing-port", 16, s, func() lib.T { return lib.Bool(utils.IsAddrMissingPort(s)) }, !utils.IsAddrMissingPort(s))
	}
}

func (h *H) strAll(kind string, s string) {
	in := lib.L(lib.N(17), lib.S(s))
	h.guard("str", in, func() {
		tr := strings.TrimSpace(s)
		host, port, serr := net.SplitHostPort(s)
		ip := net.ParseIP(s) != nil
		dom := utils.IsDomainName(s)
		vh, vp, vpa := utils.IsValidHost(s), utils.IsValidPort(s), utils.IsValidPath(s)
		na, naok := utils.NormalizeAddress(s)
		np, npok := utils.NormalizePath(s)
		r, err := actor.ParseRef(s)
		nt := ip || dom || vh || vp || vpa || naok || npok || err == nil || serr == nil || tr != s
		h.o.Case(kind, nt, in, lib.L(lib.S(tr), lib.Opt(serr == nil, tpair(host, port)), lib.Bool(ip), lib.Bool(dom),
			lib.Bool(vh), lib.Bool(vp), lib.Bool(vpa), topt(naok, na), topt(npok, np), tres(r, err)))
		if err == nil {
			h.checkRef(in, r, fmt.Sprintf("ParseRef(%q)", s))
		}
		if !naok && na != "" {
			h.o.Monitor("normalize-address-result", in, fmt.Sprintf("NormalizeAddress(%q) = (%q, false)", s, na))
		}
	})
}

func (h *H) pairAll(kind string, a, p string) {
	in := lib.L(lib.N(18), lib.S(a), lib.S(p))
	h.guard("pair", in, func() {
		f := utils.FormatRefString(a, p)
		r, err := actor.NewRef(a, p)
		if err != nil {
			h.o.Case(kind, false, in, lib.L(lib.S(f), lib.Err(errCode(err))))
			return
		}
		s := r.String()
		r2, err2 := actor.ParseRef(s)
		r3, err3 := actor.NewRef(r.GetAddress(), r.GetPath())
		h.o.Case(kind, true, in, lib.L(lib.S(f), lib.L(lib.N(0), tpair(r.GetAddress(), r.GetPath()), lib.S(s), tres(r2, err2), tres(r3, err3),
			lib.Bool(r.Equals(r.Clone())))))
		h.checkRef(in, r, fmt.Sprintf("NewRef(%q, %q)", a, p))
	})
}

func (h *H) one(kind string, op uint64, s string, out func() lib.T, nt bool) {
	in := lib.L(lib.N(op), lib.S(s))
	h.guard(kind, in, func() { h.o.Case(kind, nt, in, out()) })
}

func (h *H) join(kind string, b, s string) {
	in := lib.L(lib.N(10), lib.S(b), lib.S(s))
	h.guard("join", in, func() {
		j := utils.JoinPath(b, s)
		h.o.Case(kind, b != "" && s != "", in, lib.S(j))
		// JoinPath laws on the implementation: base is kept as a prefix; leading slashes of the segment do not matter
		if b != "" && !strings.HasPrefix(j, b) {
			h.o.Monitor("join-drops-base", in, fmt.Sprintf("JoinPath(%q, %q) = %q", b, s, j))
		}
		// "keeps a single separator": no "//" in the base, none in the segment behind its leading slashes => none in the result
		if !strings.Contains(b, "//") && !strings.Contains(strings.TrimLeft(s, "/"), "//") && strings.Contains(j, "//") {
			h.o.Monitor("join-double-separator", in, fmt.Sprintf("JoinPath(%q, %q) = %q", b, s, j))
		}
		if j2 := utils.JoinPath(b, "/"+s); j2 != j {
			h.o.Monitor("join-leading-slash", in, fmt.Sprintf("JoinPath(%q, %q) = %q but with one more leading slash %q", b, s, j, j2))
		}
	})
}

func (h *H) child(kind string, a, p, seg string) {
	in := lib.L(lib.N(13), lib.S(a), lib.S(p), lib.S(seg))
	h.guard("child", in, func() {
		r, err := actor.NewRef(a, p)
		if err != nil {
			h.o.Case(kind, false, in, lib.L(lib.N(2), lib.N(errCode(err))))
			return
		}
		c, cerr := r.Child(seg)
		h.o.Case(kind, cerr == nil, in, tres(c, cerr))
		if cerr != nil {
			return
		}
		if c.GetAddress() != r.GetAddress() || !strings.HasPrefix(c.GetPath(), r.GetPath()) {
			h.o.Monitor("child-not-under-parent", in, fmt.Sprintf("(%q, %q).Child(%q) = (%q, %q)", r.GetAddress(), r.GetPath(), seg, c.GetAddress(), c.GetPath()))
		}
		if !strings.Contains(r.GetPath(), "//") && !strings.Contains(strings.TrimLeft(seg, "/"), "//") && strings.Contains(c.GetPath(), "//") {
			h.o.Monitor("child-double-separator", in, fmt.Sprintf("(%q, %q).Child(%q) has path %q", r.GetAddress(), r.GetPath(), seg, c.GetPath()))
		}
		if r.GetAddress() != a && strings.TrimSpace(a) != r.GetAddress() {
			h.o.Monitor("newref-address-not-trimmed-input", in, fmt.Sprintf("NewRef(%q, ..) has address %q", a, r.GetAddress()))
		}
		h.checkRef(in, c, fmt.Sprintf("(%q, %q).Child(%q)", r.GetAddress(), r.GetPath(), seg))
	})
}

func (h *H) equals(kind string, a1, p1, a2, p2 string) {
	in := lib.L(lib.N(14), lib.S(a1), lib.S(p1), lib.S(a2), lib.S(p2))
	h.guard("equals", in, func() {
		r1, e1 := actor.NewRef(a1, p1)
		r2, e2 := actor.NewRef(a2, p2)
		if e1 != nil || e2 != nil {
			h.o.Case(kind, false, in, lib.L())
			return
		}
		eq := r1.Equals(r2)
		h.o.Case(kind, true, in, lib.L(lib.Bool(eq)))
		want := r1.GetAddress() == r2.GetAddress() && r1.GetPath() == r2.GetPath()
		if eq != want || r2.Equals(r1) != eq {
			h.o.Monitor("ref-equals-inconsistent", in, fmt.Sprintf("(%q,%q).Equals((%q,%q)) = %v, reverse %v", r1.GetAddress(), r1.GetPath(), r2.GetAddress(), r2.GetPath(), eq, r2.Equals(r1)))
		}
		if eq != (r1.String() == r2.String()) {
			h.o.Monitor("ref-string-vs-equals", in, fmt.Sprintf("Equals = %v but strings %q / %q", eq, r1.String(), r2.String()))
		}
	})
}

// all sequences of up to n tokens
func seqs(toks []string, n int, f func(string)) {
	var rec func(prefix string, d int)
	rec = func(prefix string, d int) {
		f(prefix)
		if d == n {
			return
		}
		for _, t := range toks {
			rec(prefix+t, d+1)
		}
	}
	rec("", 0)
}

// ---- random structured generators ----

const alnum = "abcdefghijklmnopqrstuvwxyzABCDEFGHIJKLMNOPQRSTUVWXYZ0123456789"
const pathOK = alnum + "-._~!$&'()*+,;=:@/"

var spaces = []string{" ", "\t", "\n", "\v", "\f", "\r", "\u0085", "\u00a0", "\u1680", "\u2000", "\u2005", "\u200a", "\u2028", "\u2029", "\u202f", "\u205f", "\u3000",
	"\xc2", "\xe2\x80", "\x85", "\xa0", "\xe2\x80\x8b", "\xe2\x80\xa7", "\xe1\x9a\x81", "\xe3\x80\x81"}

func pick(r *lib.Rand, xs []string) string { return xs[r.Intn(len(xs))] }

func genLabel(r *lib.Rand) string {
	n := 1
	switch r.Intn(8) {
	case 0:
		n = 62 + r.Intn(3) // 62, 63, 64
	case 1:
		n = 1 + r.Intn(70)
	default:
		n = 1 + r.Intn(8)
	}
	var sb strings.Builder
	for i := 0; i < n; i++ {
		switch {
		case i > 0 && i < n-1 && r.Chance(1, 6):
			sb.WriteByte('-')
		case r.Chance(1, 40):
			sb.WriteString(pick(r, []string{"\u212a", "\u017f"}))
		case r.Chance(1, 60):
			sb.WriteString(pick(r, []string{"-", "_", "\u212b", "\u0131", "\xe2\x84", "\xc5"}))
		default:
			sb.WriteByte(alnum[r.Intn(len(alnum))])
		}
	}
	return sb.String()
}

func genDomain(r *lib.Rand) string {
	var labels []string
	n := 1 + r.Intn(4)
	if r.Chance(1, 8) { // around the 253-byte limit
		total := 0
		target := 248 + r.Intn(10)
		for total < target {
			l := genLabel(r)
			if len(l) > 40 {
				l = l[:40]
			}
			labels = append(labels, l)
			total += len(l) + 1
		}
	} else {
		for i := 0; i < n; i++ {
			labels = append(labels, genLabel(r))
		}
	}
	d := strings.Join(labels, ".")
	switch r.Intn(30) {
	case 0:
		d += "."
	case 1:
		d = "." + d
	case 2:
		d = strings.Replace(d, ".", "..", 1)
	}
	return d
}

func genIP4(r *lib.Rand) string {
	fields := []string{"0", "1", "9", "10", "99", "127", "199", "249", "255", "256", "260", "300", "00", "01", "001", "", "a", "1a", "0x1", "1000", "-1", "+1"}
	n := 4
	if r.Chance(1, 6) {
		n = 1 + r.Intn(6)
	}
	var fs []string
	for i := 0; i < n; i++ {
		if r.Chance(4, 5) {
			fs = append(fs, fmt.Sprint(r.Intn(256)))
		} else {
			fs = append(fs, pick(r, fields))
		}
	}
	return strings.Join(fs, ".")
}

func genIP6(r *lib.Rand) string {
	hexd := "0123456789abcdefABCDEF"
	grp := func() string {
		n := 1 + r.Intn(4)
		switch r.Intn(15) {
		case 0:
			n = 5
		case 1:
			n = 0
		}
		var sb strings.Builder
		for i := 0; i < n; i++ {
			sb.WriteByte(hexd[r.Intn(len(hexd))])
		}
		if r.Chance(1, 40) {
			sb.WriteByte("gxz-/ "[r.Intn(6)])
		}
		return sb.String()
	}
	n := r.Intn(10)
	ell := -1
	if r.Chance(3, 5) {
		ell = r.Intn(n + 1)
		if r.Chance(1, 2) && n > 7 {
			n = r.Intn(8)
			ell = r.Intn(n + 1)
		}
	} else if r.Chance(2, 3) {
		n = 8
	}
	v4 := r.Chance(1, 4)
	var sb strings.Builder
	for i := 0; i < n; i++ {
		if i == ell {
			if i == 0 {
				sb.WriteString("::")
			} else {
				sb.WriteString(":")
			}
		}
		sb.WriteString(grp())
		if i < n-1 || v4 {
			sb.WriteString(":")
		}
	}
	if ell == n {
		if n == 0 || v4 {
			sb.WriteString(":")
			if n == 0 {
				sb.WriteString(":")
			}
		} else {
			sb.WriteString("::")
		}
	}
	if v4 {
		sb.WriteString(genIP4(r))
	}
	s := sb.String()
	switch r.Intn(25) {
	case 0:
		s += "%eth0"
	case 1:
		s += "%"
	case 2:
		s += ":"
	case 3:
		s = ":" + s
	case 4:
		s = strings.Replace(s, ":", "::", 1)
	}
	return s
}

func genPort(r *lib.Rand) string {
	switch r.Intn(12) {
	case 0:
		return pick(r, []string{"", "0", "00", "1", "65535", "65536", "65534", "+1", "-1", "+", "-", "+0", "-0", "+65535", "+65536", "0080", "000000000000000000000080",
			"99999999999999999999", "9223372036854775807", "9223372036854775808", "18446744073709551616", "1_0", "0x50", "8o", " 80", "80 ", "８０", "1e3", "٣"})
	case 1:
		return fmt.Sprint(65530 + r.Intn(12))
	case 2:
		return "+" + fmt.Sprint(r.Intn(70000))
	case 3:
		return strings.Repeat("0", r.Intn(22)) + fmt.Sprint(r.Intn(70000))
	default:
		return fmt.Sprint(1 + r.Intn(65535))
	}
}

func genHost(r *lib.Rand) string {
	switch r.Intn(6) {
	case 0:
		return genIP4(r)
	case 1, 2:
		return genIP6(r)
	default:
		return genDomain(r)
	}
}

func genAddress(r *lib.Rand) string {
	var a string
	switch r.Intn(10) {
	case 0, 1:
		a = genHost(r) // no port
	case 2, 3, 4:
		a = "[" + genHost(r) + "]:" + genPort(r)
	default:
		a = genHost(r) + ":" + genPort(r)
	}
	return wrapMut(r, a, "[]:%./ ")
}

// wrap in spaces (ASCII and Unicode, also broken sequences) and mutate a byte now and then
func wrapMut(r *lib.Rand, s string, special string) string {
	if r.Chance(1, 4) {
		for k := r.Intn(3); k >= 0; k-- {
			s = pick(r, spaces) + s
		}
	}
	if r.Chance(1, 4) {
		for k := r.Intn(3); k >= 0; k-- {
			s = s + pick(r, spaces)
		}
	}
	if r.Chance(1, 5) && len(s) > 0 {
		i := r.Intn(len(s) + 1)
		ins := string(special[r.Intn(len(special))])
		switch r.Intn(3) {
		case 0:
			s = s[:i] + ins + s[i:]
		case 1:
			if i < len(s) {
				s = s[:i] + s[i+1:]
			}
		default:
			if i < len(s) {
				s = s[:i] + ins + s[i+1:]
			}
		}
	}
	return s
}

func genPath(r *lib.Rand) string {
	n := r.Intn(12)
	if r.Chance(1, 10) {
		n = 100 + r.Intn(300)
	}
	var sb strings.Builder
	if !r.Chance(1, 20) {
		sb.WriteByte('/')
	}
	for i := 0; i < n; i++ {
		switch {
		case r.Chance(1, 6):
			sb.WriteString(pick(r, []string{":", ":/", "/", "//", "::", ":/:", "a:b:/"}))
		case r.Chance(1, 12):
			hexd := "0123456789abcdefABCDEFgG"
			sb.WriteByte('%')
			sb.WriteByte(hexd[r.Intn(len(hexd))])
			if !r.Chance(1, 10) {
				sb.WriteByte(hexd[r.Intn(len(hexd))])
			}
		case r.Chance(1, 60):
			sb.WriteString(pick(r, []string{" ", "\"", "#", "?", "[", "]", "\\", "^", "`", "{", "|", "}", "<", ">", "\x00", "\x7f", "\u00e9", "\u212a", "\n"}))
		default:
			sb.WriteByte(pathOK[r.Intn(len(pathOK))])
		}
	}
	return wrapMut(r, sb.String(), ":/% ")
}

func genSeg(r *lib.Rand) string {
	s := genPath(r)
	switch r.Intn(4) {
	case 0:
		return strings.TrimLeft(s, "/")
	case 1:
		return "//" + s
	case 2:
		return pick(r, []string{"", " ", "/", "//", "/ ", " /", "\u3000", "\u3000/", "a", "..", ".", "@future@123", "a/b", "a:", ":/"})
	}
	return s
}

// ---- a running actor system: FindActor(ref.String()) of live actors (records the ParseRef observation) ----
func (h *H) systemScenario() {
	done := make(chan struct{})
	go func() {
		defer close(done)
		defer func() {
			if r := recover(); r != nil {
				h.o.Monitor("panic:system", nil, fmt.Sprint(r))
			}
		}()
		sys := bootstrap.NewActorSystem(vivid.WithActorSystemLogger(log.NewSilentLogger()))
		if err := sys.Start(); err != nil {
			h.o.Info["system"] = "start failed: " + err.Error()
			return
		}
		defer sys.Stop()
		type spawned struct {
			name string
			ref  vivid.ActorRef
		}
		ch := make(chan spawned, 16)
		names := []string{"plain", "a:b", "a:b:", "::"}
		for _, name := range names {
			name := name
			_, err := sys.ActorOf(vivid.ActorFN(func(ctx vivid.ActorContext) {
				if _, ok := ctx.Message().(*vivid.OnLaunch); ok {
					c, err := ctx.ActorOf(vivid.ActorFN(func(vivid.ActorContext) {}), vivid.WithActorName("c"))
					if err != nil {
						ch <- spawned{name, nil}
						return
					}
					ch <- spawned{name, c}
				}
			}), vivid.WithActorName(name))
			if err != nil {
				ch <- spawned{name, nil}
			}
		}
		res := map[string]string{}
		for range names {
			select {
			case s := <-ch:
				if s.ref == nil {
					res[s.name] = "not spawned"
					continue
				}
				str := s.ref.String()
				in := lib.L(lib.N(12), lib.S(str))
				_, err := sys.FindActor(str)
				switch {
				case err == nil:
					res[s.name] = "found"
				case ambiguous(s.ref.GetAddress(), s.ref.GetPath()):
					// observation (public helper ParseRef), not a property violation: recorded in the report only
					res[s.name] = fmt.Sprintf("observation: live actor (%q, %q), FindActor(ref.String() = %q) fails: %v", s.ref.GetAddress(), s.ref.GetPath(), str, err)
				default:
					res[s.name] = "FindActor(ref.String()) fails: " + err.Error()
					h.o.Monitor("live-actor-not-found-by-its-string", in, fmt.Sprintf("live actor (%q, %q), FindActor(%q): %v", s.ref.GetAddress(), s.ref.GetPath(), str, err))
				}
			case <-time.After(10 * time.Second):
				res["timeout"] = "an actor did not launch within 10 s"
			}
		}
		h.o.Info["system"] = res
	}()
	select {
	case <-done:
	case <-time.After(40 * time.Second):
		h.o.Info["system"] = "system scenario did not finish within 40 s (skipped)"
	}
}

func main() {
	f := lib.ParseFlags()
	o := lib.NewOut(f.Out)
	r := lib.NewRand(f.Seed)
	h := &H{o: o, byString: map[string][2]string{}}
	thorough := f.Tier == "thorough"

	// 0. fixed: documented forms, the witness of the ParseRef observation, boundary values
	for _, s := range []string{"", "host/a", "host:80:/a", "example.com:8080/user/a", "host/a:b:/c", "host:80:/a:b:/c", "host/a:/c", "host:/a", ":/a", "/a", "host", "host:80",
		"[::1]:80:/a", "[::1]/a", "::1/a", " host/a ", "host /a", "host/ a", "h:1:/", "h/", "h:1/a", "h:1:a", "a:b:/c", "1.2.3.4/a", "1.2.3.4:1:/a", "\u212a/\u212a", "\u017f:1:/a"} {
		h.strAll("str-fixed", s)
	}
	for _, c := range [][2]string{{"host", "/a:b:/c"}, {"host:80", "/a:b:/c"}, {"host", "/"}, {" host ", " /a "}, {"\u00a0host:80\u2003", "\u3000/a\u0085"}, {"[::1]:80", "/x"},
		{"[::ffff:1.2.3.4]:+80", "/%41"}, {"1.2.3.4", "/a"}, {"1.2.3.256", "/a"}, {"01.2.3.4", "/a"}, {"\u212a", "/a"}, {"host", "/::/c"}, {"host", ""}, {"", "/a"}, {"host", "a"}} {
		h.pairAll("pair-fixed", c[0], c[1])
	}

	h.addrList("addrlist-fixed", nil)
	h.addrList("addrlist-fixed", []string{" a:1 ", "bad host", "", "1.2.3.4", "b", "[::1]:2", "[::1]", "c:0", "\u00a0d:65535\u2003"})

	// 0b. the length limits of IsDomainName: 253 bytes in all, 63 RUNES per label (U+212A counts as one)
	evenDomain := func(total int) string { // five labels, total bytes incl. the four dots
		chars := total - 4
		var labels []string
		for i := 0; i < 5; i++ {
			n := chars / 5
			if i < chars%5 {
				n++
			}
			labels = append(labels, strings.Repeat(string(rune('a'+i)), n))
		}
		return strings.Join(labels, ".")
	}
	for total := 249; total <= 257; total++ {
		d := evenDomain(total)
		h.strAll("str-domain-limits", d)
		h.strAll("str-domain-limits", d+":80")
		h.pairAll("pair-domain-limits", d, "/a")
		h.pairAll("pair-domain-limits", "["+d+"]:80", "/a")
	}
	for n := 61; n <= 65; n++ {
		for _, l := range []string{strings.Repeat("a", n), strings.Repeat("a", n-1) + "\u212a", "\u017f" + strings.Repeat("a", n-1), strings.Repeat("a", n-2) + "-b", strings.Repeat("a", n-1) + "-"} {
			h.strAll("str-domain-limits", l)
			h.strAll("str-domain-limits", "x."+l+".y:1")
			h.pairAll("pair-domain-limits", l+".y", "/a")
		}
	}

	// 1. exhaustive over short strings from a small alphabet that contains the special characters
	alpha := []string{":", "/", ".", "[", "]", "%", " ", "1", "a", "-", "0", "f"}
	depth := 4
	if thorough {
		depth = 5
	}
	cnt := 0
	seqs(alpha, depth, func(s string) { h.strAll("str-exhaustive", s); cnt++ })
	o.Info["exhaustive-strings"] = fmt.Sprintf("all %d strings of length <= %d over the alphabet %q: TrimSpace, SplitHostPort, ParseIP, IsDomainName, IsValidHost, IsValidPort, IsValidPath, NormalizeAddress, NormalizePath, ParseRef", cnt, depth, strings.Join(alpha, ""))

	// 2. exhaustive over short sequences of multi-byte tokens
	toks := []string{"::", ":", "1.2.3.4", "[", "]", "80", "a", "-", ".", "%", "\u0085", "\u2000", "\u212a", "\u017f", " ", "/", ":/", "%41", "+", "65535", "65536", "ffff", "0", "\xe2\x80", "1:2:3:4:5:6:7", "a:1"}
	tdepth := 3
	cnt = 0
	seqs(toks, tdepth, func(s string) { h.strAll("str-tokens", s); cnt++ })
	if thorough { // depth 4 over a reduced token set
		toks4 := []string{"::", ":", "1.2.3.4", "[", "]", "80", "a", ".", "\u2000", "\u212a", " ", "/", ":/", "%41", "+", "ffff", "1:2:3:4:5:6:7"}
		seqs(toks4, 4, func(s string) { h.strAll("str-tokens", s); cnt++ })
	}
	o.Info["token-strings"] = fmt.Sprintf("%d token sequences (depth %d over %d tokens incl. '::', dotted quad, brackets, Unicode spaces, KELVIN SIGN, LONG S, ':/', '%%41', truncated UTF-8)", cnt, tdepth, len(toks))

	// 3. (address, path) pairs: addresses x all short paths over path tokens
	addrs := []string{"host", "host:80", "h", "h:1", "[::1]:1", "[h]:1", " h ", "h:+1", "1.2.3.4", "1.2.3.4:5", "", "h:", "[::1]", "::1", "h/", "h:1/", "a.b-c.d", "\u212a:1", "H:65535", "h:65536", "h:0"}
	ptoks := []string{"/", "a", ":", "b", "%41", "%", " ", ".", "@", "1", ":/"}
	pdepth := 3
	if thorough {
		pdepth = 4
	}
	cnt = 0
	seqs(ptoks, pdepth, func(p string) {
		for _, a := range addrs {
			if !thorough && cnt%3 != 0 && len(p) > 3 && a != "host" && a != "host:80" { // quick: every address for short paths, a third for the rest
				cnt++
				continue
			}
			h.pairAll("pair-exhaustive", a, p)
			cnt++
		}
	})
	o.Info["pairs"] = fmt.Sprintf("%d addresses x all paths of <= %d tokens over %q: FormatRefString, NewRef, String, ParseRef(String), NewRef again, Clone/Equals", len(addrs), pdepth, strings.Join(ptoks, " "))

	// 4. JoinPath and Child: bases x segments
	bases := []string{"", "/", "/a", "/a/", "/a/b", "//", "a", "/a//", "/a:b:", " /a "}
	stoks := []string{"/", "a", " ", ":", "..", "\u3000", "%41", "%", "b/c"}
	sdepth := 3
	if thorough {
		sdepth = 4
	}
	seqs(stoks, sdepth, func(sg string) {
		for _, b := range bases {
			h.join("join-exhaustive", b, sg)
		}
		for _, a := range []string{"host", "host:80"} {
			for _, p := range []string{"/", "/a", "/a/", "/a:b:"} {
				h.child("child-exhaustive", a, p, sg)
			}
		}
	})

	// 5. Equals over a small set of refs (all ordered pairs)
	eq := [][2]string{{"host", "/a"}, {" host", "/a "}, {"host", "/a/"}, {"host:80", "/a"}, {"HOST", "/a"}, {"host", "/A"}, {"host", "//a"}, {"host:080", "/a"}, {"bad host", "/a"}}
	for _, x := range eq {
		for _, y := range eq {
			h.equals("equals", x[0], x[1], y[0], y[1])
		}
	}

	// 6. random structured long inputs
	n := 6000
	if thorough {
		n = 300000
	}
	if f.N > 0 {
		n = f.N
	}
	for i := 0; i < n; i++ {
		switch r.Intn(12) {
		case 0:
			h.strAll("str-random-address", genAddress(r))
		case 1:
			s := genIP6(r)
			h.one("parseip-random", 2, s, func() lib.T { return lib.Bool(net.ParseIP(s) != nil) }, net.ParseIP(s) != nil)
			h.strAll("str-random-host", "["+s+"]:"+genPort(r))
		case 2:
			s := genIP4(r)
			h.one("parseip-random", 2, s, func() lib.T { return lib.Bool(net.ParseIP(s) != nil) }, net.ParseIP(s) != nil)
			h.strAll("str-random-host", s)
		case 3:
			s := wrapMut(r, genDomain(r), "-._ :")
			h.one("domain-random", 3, s, func() lib.T { return lib.Bool(utils.IsDomainName(s)) }, utils.IsDomainName(s))
			h.strAll("str-random-host", s)
		case 4:
			s := genPort(r)
			h.one("port-random", 5, s, func() lib.T { return lib.Bool(utils.IsValidPort(s)) }, utils.IsValidPort(s))
		case 5:
			s := genPath(r)
			h.one("path-random", 8, s, func() lib.T { np, ok := utils.NormalizePath(s); return topt(ok, np) }, utils.IsValidPath(strings.TrimSpace(s)))
		case 6: // a printed valid ref, mutated: ParseRef
			a, p := genAddress(r), genPath(r)
			s := utils.FormatRefString(strings.TrimSpace(a), strings.TrimSpace(p))
			h.strAll("str-random-refstring", wrapMut(r, s, ":/ "))
		case 7:
			h.child("child-random", genAddress(r), genPath(r), genSeg(r))
		case 8:
			h.join("join-random", genPath(r), genSeg(r))
			l := make([]string, r.Intn(6))
			for k := range l {
				l[k] = genAddress(r)
			}
			h.addrList("addrlist-random", l)
		case 9:
			a, p := genAddress(r), genPath(r)
			if r.Bool() {
				h.equals("equals-random", a, p, wrapMut(r, a, ":"), wrapMut(r, p, ":/"))
			} else {
				h.equals("equals-random", a, p, genAddress(r), p)
			}
		default:
			h.pairAll("pair-random", genAddress(r), genPath(r))
		}
	}

	// 7. live actors found through their own String() on a running system
	h.systemScenario()

	o.Info["valid-refs-checked"] = h.nValid
	o.Info["observation-ambiguous-refs-whose-string-ParseRef-rejects"] = h.nAmbig
	o.Info["observation-ambiguous-refs-whose-string-parsed-back"] = h.nAmbigParsed
	o.Info["observation-example"] = h.ambigExample
	o.Info["distinct-ref-strings"] = len(h.byString)
	o.Close(f.Report)
	if len(o.Monitors) > 0 {
		os.Exit(3)
	}
}
