// syncops: source-level inventory of the synchronisation operations of the two files that the mailbox models
// (coq/Mailbox/MbModel.v, MbFine.v) describe: internal/queues/ring.go and internal/mailbox/unbounded_mailbox.go of
// the tree under test. It writes coq/Generated/MbSyncOps.v:
//
//	Definition src_sync_classes : list (string * string) := [ ("Lock:lock", "lock"); ("atomic.AddInt32:num", "rmw"); ... ].
//
// the SET (sorted, without duplicates) of operation classes found in the source, each with its kind. A class says
// WHAT an operation does - kind of operation + the field / object it acts on - and nothing about where it is
// written: the enclosing function and the receiver variable are dropped, exactly as the lock-step harness does with
// the instrumenter's labels (harness/cmd/mailbox classOf, coq/Mailbox/MbClass.v class_name). Moving an operation into
// a helper function, renaming a receiver, turning a goto loop into a for loop does not change the set.
//
// coq/Mailbox/MbInventory.v holds the model's table (class, kind, the model step class that performs it);
// Properties/C01_fine.v demands (Example C01_fine_sync_inventory, vm_compute): no source class of a kind other than
// "load" is missing from the table (a new write / CAS / lock / go / channel operation / queue call / sync-typed field
// is an operation the model has no step for), and no class of the table is missing from the source (an operation the
// model relies on has disappeared). A new read-only class (kind "load") is not an error: the lock-step run treats
// such a step as a stuttering step if the state is unchanged across it and reports it.
//
// Classes:
//
//	atomic.F(&x.f, ..)            "atomic.F:f"            kind load (Load*), store (Store*), rmw (everything else)
//	x.f.Lock() / Unlock() / ...   "Lock:f" ...            kind lock / unlock
//	x.f.M(..), f of a sync./atomic. type   "method:M:f"   kind load (Load), store (Store), rmw (other)
//	x.f.M(..), f any other field  "call:f.M"              kind call   (the queue API, the handler)
//	go x.g(..)                    "go:g"                  kind go
//	ch <- v, <-ch, close(ch), select                      "chan:send" ...   kind chan
//	struct field of a sync./atomic. type   "field:f:T"    kind field
package main

import (
	"bytes"
	"flag"
	"fmt"
	"go/ast"
	"go/parser"
	"go/printer"
	"go/token"
	"os"
	"path/filepath"
	"sort"
	"strings"
)

var fset = token.NewFileSet()

func show(n ast.Node) string {
	var b bytes.Buffer
	printer.Fprint(&b, fset, n)
	return strings.Join(strings.Fields(b.String()), " ")
}

func stripRecv(s string) string {
	s = strings.TrimPrefix(s, "&")
	if i := strings.Index(s, "."); i >= 0 {
		return s[i+1:]
	}
	return s
}

var lockMethods = map[string]string{"Lock": "lock", "RLock": "lock", "TryLock": "lock", "TryRLock": "lock", "Unlock": "unlock", "RUnlock": "unlock"}

func atomicKind(name string) string {
	switch {
	case strings.HasPrefix(name, "Load"):
		return "load"
	case strings.HasPrefix(name, "Store"):
		return "store"
	}
	return "rmw"
}

type entry struct{ class, kind string }

func inventory(path string, out map[entry]bool, syncFields map[string]bool) error {
	f, err := parser.ParseFile(fset, path, nil, 0)
	if err != nil {
		return err
	}
	// pass 1: fields of sync./atomic. types
	for _, d := range f.Decls {
		g, ok := d.(*ast.GenDecl)
		if !ok {
			continue
		}
		for _, sp := range g.Specs {
			ts, ok := sp.(*ast.TypeSpec)
			if !ok {
				continue
			}
			st, ok := ts.Type.(*ast.StructType)
			if !ok {
				continue
			}
			for _, fld := range st.Fields.List {
				t := show(fld.Type)
				if !strings.Contains(t, "sync.") && !strings.Contains(t, "atomic.") {
					continue
				}
				for _, nm := range fld.Names {
					syncFields[nm.Name] = true
					out[entry{"field:" + nm.Name + ":" + t, "field"}] = true
				}
				if len(fld.Names) == 0 {
					out[entry{"field:(embedded):" + t, "field"}] = true
				}
			}
		}
	}
	// pass 2: operations
	for _, d := range f.Decls {
		fd, ok := d.(*ast.FuncDecl)
		if !ok || fd.Body == nil {
			continue
		}
		var visit func(n ast.Node) bool
		visit = func(n ast.Node) bool {
			switch y := n.(type) {
			case *ast.GoStmt:
				out[entry{"go:" + stripRecv(show(y.Call.Fun)), "go"}] = true
				for _, a := range y.Call.Args {
					ast.Inspect(a, visit)
				}
				if fl, ok := y.Call.Fun.(*ast.FuncLit); ok {
					ast.Inspect(fl.Body, visit)
				}
				return false
			case *ast.SendStmt:
				out[entry{"chan:send", "chan"}] = true
			case *ast.SelectStmt:
				out[entry{"chan:select", "chan"}] = true
			case *ast.UnaryExpr:
				if y.Op == token.ARROW {
					out[entry{"chan:recv", "chan"}] = true
				}
			case *ast.CallExpr:
				callee := show(y.Fun)
				if callee == "close" {
					out[entry{"chan:close", "chan"}] = true
					return true
				}
				if strings.HasPrefix(callee, "atomic.") {
					arg := ""
					if len(y.Args) > 0 {
						arg = stripRecv(show(y.Args[0]))
					}
					out[entry{callee + ":" + arg, atomicKind(strings.TrimPrefix(callee, "atomic."))}] = true
					return true
				}
				s, ok := y.Fun.(*ast.SelectorExpr)
				if !ok {
					return true
				}
				if k, ok := lockMethods[s.Sel.Name]; ok {
					out[entry{s.Sel.Name + ":" + stripRecv(show(s.X)), k}] = true
					return true
				}
				// recv.field.Method(..): a call through a field of the struct
				if inner, ok := s.X.(*ast.SelectorExpr); ok {
					field := inner.Sel.Name
					if syncFields[field] {
						out[entry{"method:" + s.Sel.Name + ":" + field, atomicKind(s.Sel.Name)}] = true
					} else {
						out[entry{"call:" + stripRecv(callee), "call"}] = true
					}
				}
			}
			return true
		}
		ast.Inspect(fd.Body, visit)
	}
	return nil
}

func coqString(s string) string { return `"` + strings.ReplaceAll(s, `"`, `""`) + `"` }

func main() {
	repo := flag.String("repo", "/repo", "tree under test")
	outp := flag.String("out", "", "Coq file to write (only if its content changes)")
	flag.Parse()
	files := []string{"internal/queues/ring.go", "internal/mailbox/unbounded_mailbox.go"}
	set := map[entry]bool{}
	syncFields := map[string]bool{}
	for _, rel := range files {
		if err := inventory(filepath.Join(*repo, rel), set, syncFields); err != nil {
			fmt.Fprintln(os.Stderr, "syncops:", err)
			os.Exit(2)
		}
	}
	var all []entry
	for e := range set {
		all = append(all, e)
	}
	sort.Slice(all, func(i, j int) bool {
		if all[i].class != all[j].class {
			return all[i].class < all[j].class
		}
		return all[i].kind < all[j].kind
	})
	var b strings.Builder
	b.WriteString("(* generated by bin/gen_syncops (harness/cmd/syncops) from internal/queues/ring.go and\n")
	b.WriteString("   internal/mailbox/unbounded_mailbox.go of the tree under test; DO NOT EDIT.\n")
	b.WriteString("   The set of (operation class, kind) of the synchronisation operations found in the source. *)\n")
	b.WriteString("From Coq Require Import List String.\nImport ListNotations.\nLocal Open Scope string_scope.\n\n")
	b.WriteString("Definition src_sync_classes : list (string * string) := [\n")
	for i, e := range all {
		sep := ";"
		if i == len(all)-1 {
			sep = ""
		}
		fmt.Fprintf(&b, "  (%s, %s)%s\n", coqString(e.class), coqString(e.kind), sep)
	}
	b.WriteString("].\n")
	if *outp == "" {
		fmt.Print(b.String())
		return
	}
	old, _ := os.ReadFile(*outp)
	if string(old) == b.String() {
		fmt.Printf("syncops: %s unchanged (%d classes)\n", *outp, len(all))
		return
	}
	if err := os.WriteFile(*outp, []byte(b.String()), 0o644); err != nil {
		fmt.Fprintln(os.Stderr, "syncops:", err)
		os.Exit(2)
	}
	fmt.Printf("syncops: wrote %s (%d classes)\n", *outp, len(all))
}
