// accessgen: the C10 translator. Inventories the read/write sites of the shared fields of DESIGN §4-C10
// in the tree under test ($VERIF_REPO, default /repo) and writes coq/Generated/AccessTable.v (only when the
// content changed, so that an unchanged tree does not trigger a Coq rebuild).
//
//	accessgen [-repo dir] [-out file] [-hooks dir] [-dump]
//
// Exit code 0 also when the discipline is violated (that verdict belongs to Coq: Properties/C10.v); the
// violating sites are printed so that they end up in the check's log.
package main

import (
	"flag"
	"fmt"
	"os"
	"path/filepath"

	"github.com/kercylan98/vivid/xverif/cmd/accessgen/gen"
)

func main() {
	repo := os.Getenv("VERIF_REPO")
	if repo == "" {
		repo = "/repo"
	}
	flag.StringVar(&repo, "repo", repo, "tree under test")
	out := flag.String("out", "", "output .v file (default: <verif>/coq/Generated/AccessTable.v next to the harness directory)")
	dump := flag.Bool("dump", false, "print every site")
	hooks := flag.String("hooks", "", "directory for the window-hook copy of internal/actor/context.go (C10 tree scenarios)")
	flag.Parse()
	if *hooks != "" {
		n, err := gen.WriteHooked(repo, *hooks)
		if err != nil {
			fmt.Fprintln(os.Stderr, "accessgen: hooks:", err)
		}
		fmt.Printf("accessgen: %d lock-acquisition hooks in %s/context.go\n", n, *hooks)
	}
	t, err := gen.Generate(repo)
	if err != nil {
		fmt.Fprintln(os.Stderr, "accessgen:", err)
		os.Exit(2)
	}
	if *dump {
		for _, a := range t.Accesses {
			fmt.Println(a.Site, a.Describe())
		}
		for _, ps := range t.Panics {
			fmt.Println("panic-site", ps.ID, ps.Describe())
		}
	}
	fmt.Print(t.Report())
	if *out == "" {
		fmt.Fprintln(os.Stderr, "accessgen: no -out given, nothing written")
		return
	}
	txt := t.Coq()
	if old, err := os.ReadFile(*out); err == nil && string(old) == txt {
		fmt.Printf("accessgen: %s is up to date (%d sites)\n", *out, len(t.Accesses))
		return
	}
	if err := os.MkdirAll(filepath.Dir(*out), 0o755); err != nil {
		fmt.Fprintln(os.Stderr, "accessgen:", err)
		os.Exit(2)
	}
	tmp := *out + ".tmp"
	if err := os.WriteFile(tmp, []byte(txt), 0o644); err != nil {
		fmt.Fprintln(os.Stderr, "accessgen:", err)
		os.Exit(2)
	}
	if err := os.Rename(tmp, *out); err != nil {
		fmt.Fprintln(os.Stderr, "accessgen:", err)
		os.Exit(2)
	}
	fmt.Printf("accessgen: wrote %s (%d sites)\n", *out, len(t.Accesses))
}
