package gen

// hooks.go: the window-hook copy of internal/actor/context.go for the C10 tree scenarios (harness/cmd/race/tree.go).
//
// The copy is generated from the CURRENT source of the tree under test (never a stored file): before every statement
// `X.mu.Lock()` / `X.mu.RLock()` (a call statement on a selector, no arguments) the call `xvRaceHook("<func>", "<X.mu>")`
// is inserted ON THE SAME LINE (and `xvRaceHook("<func>", "state-read")` before every if statement that reads a state word
// with atomic.LoadInt32) (so that line numbers - race reports, the access inventory - do not move). xvRaceHook is
// defined in the accessor file harness/acc/actor/xv_race_verif.go: one atomic load and, when the harness armed it, a
// callback on the calling goroutine. The copy replaces the original through `go build -overlay`; /repo is not touched.
// With the hook not armed the code under test behaves exactly as the original (the stress phases never arm it).

import (
	"fmt"
	"go/ast"
	"go/parser"
	"go/token"
	"os"
	"path/filepath"
	"sort"
)

// HookedSource returns src with the hook calls inserted and the number of hooks.
func HookedSource(filename string, src []byte) ([]byte, int, error) {
	fset := token.NewFileSet()
	f, err := parser.ParseFile(fset, filename, src, parser.SkipObjectResolution)
	if err != nil {
		return nil, 0, err
	}
	type ins struct {
		off  int
		text string
	}
	var all []ins
	for _, d := range f.Decls {
		fd, ok := d.(*ast.FuncDecl)
		if !ok || fd.Body == nil {
			continue
		}
		tn, _ := recvInfo(fd)
		name := fd.Name.Name
		if tn != "" {
			name = tn + "." + name
		}
		ast.Inspect(fd.Body, func(n ast.Node) bool {
			if _, lit := n.(*ast.FuncLit); lit {
				return false // closures run elsewhere; keep them untouched
			}
			es, ok := n.(*ast.ExprStmt)
			if !ok {
				return true
			}
			c, ok := es.X.(*ast.CallExpr)
			if !ok || len(c.Args) != 0 {
				return true
			}
			se, ok := c.Fun.(*ast.SelectorExpr)
			if !ok || (se.Sel.Name != "Lock" && se.Sel.Name != "RLock") {
				return true
			}
			if _, isSel := se.X.(*ast.SelectorExpr); !isSel {
				return true
			}
			all = append(all, ins{fset.Position(es.Pos()).Offset, fmt.Sprintf("xvRaceHook(%q, %q); ", name, exprString(se.X))})
			return true
		})
		// a second kind of hook: in front of every `if` statement (an element of a statement list, without init clause) whose
		// init clause or condition reads a synchronised word (atomic.LoadInt32, a sync.Map / atomic-type Load) - e.g. the read of the new child's state inside the childrenLock
		// section of Context.ActorOf: xvRaceHook("<func>", "state-read")
		hookIfs := func(list []ast.Stmt) {
			for _, st := range list {
				is, ok := st.(*ast.IfStmt)
				if !ok {
					continue
				}
				reads := false
				look := func(n ast.Node) bool {
					if c, ok := n.(*ast.CallExpr); ok {
						if se, ok := c.Fun.(*ast.SelectorExpr); ok && (se.Sel.Name == "LoadInt32" || se.Sel.Name == "Load") {
							reads = true
						}
					}
					return true
				}
				if is.Init != nil {
					ast.Inspect(is.Init, look)
				}
				ast.Inspect(is.Cond, look)
				if reads {
					all = append(all, ins{fset.Position(is.Pos()).Offset, fmt.Sprintf("xvRaceHook(%q, %q); ", name, "state-read")})
				}
			}
		}
		ast.Inspect(fd.Body, func(n ast.Node) bool {
			switch x := n.(type) {
			case *ast.FuncLit:
				return false
			case *ast.BlockStmt:
				hookIfs(x.List)
			case *ast.CaseClause:
				hookIfs(x.Body)
			case *ast.CommClause:
				hookIfs(x.Body)
			}
			return true
		})
	}
	sort.Slice(all, func(i, j int) bool { return all[i].off > all[j].off })
	out := append([]byte(nil), src...)
	for _, in := range all {
		out = append(out[:in.off], append([]byte(in.text), out[in.off:]...)...)
	}
	// the result must still parse
	if _, err := parser.ParseFile(token.NewFileSet(), filename, out, parser.SkipObjectResolution); err != nil {
		return nil, 0, fmt.Errorf("hooked copy does not parse: %w", err)
	}
	return out, len(all), nil
}

// WriteHooked writes <dir>/context.go, the hooked copy of <repo>/internal/actor/context.go (an unmodified copy with a
// note when the hooks cannot be placed: the harness then reports the window scenarios as not run instead of failing to build).
func WriteHooked(repo, dir string) (int, error) {
	srcPath := filepath.Join(repo, "internal", "actor", "context.go")
	src, err := os.ReadFile(srcPath)
	if err != nil {
		return 0, err
	}
	out, n, herr := HookedSource(srcPath, src)
	if herr != nil {
		out, n = src, 0
	}
	if err := os.MkdirAll(dir, 0o755); err != nil {
		return 0, err
	}
	dst := filepath.Join(dir, "context.go")
	if old, err := os.ReadFile(dst); err == nil && string(old) == string(out) {
		return n, herr
	}
	if err := os.WriteFile(dst, out, 0o644); err != nil {
		return 0, err
	}
	return n, herr
}
