package gen

// panics.go: the inventory of PANIC SITES ("no crash" clause of C10) in the same three packages, with the guard the code
// provides for each, found by the same lexical flow analysis as the access inventory:
//
//   unlock      `B.mu.Unlock()` / `B.mu.RUnlock()` (statement or deferred): "sync: unlock of unlocked mutex" is a fatal error.
//               Guard: the lock is in the must-hold set, in the matching mode, at the statement (for a deferred unlock: at the
//               defer statement, and no explicit unlock of the same lock follows in the function).
//   close       `close(B.ch)` of a channel field: closing a closed channel panics.
//               Guard: the site lies in the "claimed" phase of a once-event of the same object (after the winning
//               CompareAndSwap(false, true) of the gate field): at most one goroutine ever gets there, once.
//   send        `B.ch <- v` on a channel field that has a close site: sending on a closed channel panics.
//               Guard: the site lies in the "claimed" phase of the event whose fire is the close (before the close, by the closer).
//   map-write   `E[k] = v` where E is a tracked map field, an inner map reached through it, or a local alias of one: assignment
//               to an entry of a nil map panics. Guard: E is established non-nil on every path to the site: assigned a fresh
//               map (make / literal), tested `E == nil` with the nil branch assigning a fresh map, obtained by `x, ok := M[k]`
//               with the `!ok` branch assigning a fresh map (the values stored in M are never nil: kind map-store), or E is a
//               monotone field that every constructor initialises.
//               A field is "monotone" when every assignment `B.f = e` in the package assigns a fresh map: a non-nil monotone field
//               never becomes nil again. Only for monotone fields do the constructor argument and facts established before a
//               lock release count; facts about other fields are dropped when a lock of their base is released.
//   map-store   `B.f[k] = e` for a tracked map-of-maps: Guard: e is non-nil (fresh, or established non-nil as above).
//
// Not covered (limits): nil pointer dereferences, unchecked type assertions (e.g. recipient.(*Ref) in Context.ask: a nil or
// foreign vivid.ActorRef passed to Ask panics on the CALLER's goroutine - an argument-validation matter, not a concurrency one),
// slice indexing, integer division, panics raised by user code (recovered by the supervision machinery: C08), the close of
// System.guardClosedSignal in internal/guard (guarded by "an actor handles its own OnKilled at most once": property C06).

import (
	"fmt"
	"go/ast"
	"go/token"
	"go/types"
)

type PanicSite struct {
	ID     int
	Kind   string // unlock close send map-write map-assign map-store
	File   string
	Line   int
	Col    int
	Func   string
	Expr   string
	Guard  string // how the site is guarded ("" = not guarded)
	OK     bool
	Class  int // channel / map location class (0: none)
	Phase  int
	Event  int
}

func (p PanicSite) Describe() string {
	g := p.Guard
	if !p.OK {
		g = "NOT GUARDED: " + p.Guard
	}
	return fmt.Sprintf("%s:%d:%d %s [%s] `%s` %s", p.File, p.Line, p.Col, p.Func, p.Kind, p.Expr, g)
}

var panicKinds = map[string]int{"unlock": 1, "close": 2, "send": 3, "map-write": 4, "map-store": 6}

func (w *walker) psite(pos token.Pos, kind string, e ast.Node, ok bool, guard string, class, phase, event int) {
	if w.quiet || w.only != nil {
		return
	}
	position := w.p.fset.Position(pos)
	expr := ""
	switch x := e.(type) {
	case ast.Expr:
		expr = exprString(x)
	case *ast.SendStmt:
		expr = exprString(x.Chan) + " <- " + exprString(x.Value)
	case *ast.DeferStmt:
		expr = "defer " + exprString(x.Call)
	}
	w.g.tab.Panics = append(w.g.tab.Panics, PanicSite{Kind: kind, File: w.file, Line: position.Line, Col: position.Column, Func: w.fn, Expr: expr,
		Guard: guard, OK: ok, Class: class, Phase: phase, Event: event})
}

// unlockSite: B.mu.Unlock() / RUnlock() as a statement (deferred = false) or in a defer statement
func (w *walker) unlockSite(pos token.Pos, n ast.Node, k lockKey, op string, fl *flow, deferred bool) {
	name := w.p.fields[k.obj].name
	excl, held := fl.locks[k]
	wantExcl := op == "Unlock"
	switch {
	case !held:
		w.psite(pos, "unlock", n, false, k.base+"."+name+" is not in the must-hold set here", 0, 0, 0)
	case excl != wantExcl:
		// (an RWMutex held for writing and released with RUnlock, or the other way round)
		if w.p.fields[k.obj].rw {
			w.psite(pos, "unlock", n, false, k.base+"."+name+" is held in the other mode", 0, 0, 0)
		} else {
			w.psite(pos, "unlock", n, true, "held ("+name+")", 0, 0, 0)
		}
	case !deferred && fl.deferred[k]:
		w.psite(pos, "unlock", n, false, k.base+"."+name+" is also released by a deferred unlock of this function", 0, 0, 0)
	default:
		g := "held since the Lock above"
		if deferred {
			g = "held at the defer statement, released once at return"
		}
		w.psite(pos, "unlock", n, true, g+" ("+name+")", 0, 0, 0)
	}
	if deferred {
		fl.deferred[k] = true
		return
	}
	// the lock is released: what was established about non-monotone map fields of this object no longer holds
	for key := range fl.nonnil {
		if len(key) > len(k.base)+1 && key[:len(k.base)+1] == k.base+"." {
			keep := false
			for i := range tracked {
				if tracked[i].Pkg == w.p.dir && key == k.base+"."+tracked[i].Field && w.g.monotone[&tracked[i]] {
					keep = true
				}
			}
			if !keep {
				delete(fl.nonnil, key)
			}
		}
	}
}

// isFreshMap: make(map...) / a composite literal / a call of a fresh-returning function (maps.Clone(nil) is nil: not counted)
func (w *walker) isFreshMap(e ast.Expr) bool {
	for {
		if pe, ok := e.(*ast.ParenExpr); ok {
			e = pe.X
			continue
		}
		break
	}
	switch x := e.(type) {
	case *ast.CompositeLit:
		return true
	case *ast.CallExpr:
		if id, ok := x.Fun.(*ast.Ident); ok && id.Name == "make" {
			return true
		}
		if n := w.p.calleeName(x); n != "" && w.g.freshRet[n] {
			return true
		}
	}
	return false
}

func isMapType(p *pkgData, e ast.Expr) bool {
	if tv, ok := p.info.Types[e]; ok && tv.Type != nil {
		_, m := tv.Type.Underlying().(*types.Map)
		return m
	}
	return false
}

// nonNilExpr: e is known to be a non-nil map here
func (w *walker) nonNilExpr(e ast.Expr, fl *flow) (bool, string) {
	if w.isFreshMap(e) {
		return true, "a fresh map"
	}
	key := exprString(e)
	if fl.nonnil[key] {
		return true, "`" + key + "` was established non-nil on every path (fresh assignment / nil test / !ok branch)"
	}
	if fi, _, ok := w.field(e); ok && fi.spec != nil && w.g.alwaysInit[fi.spec] && w.g.monotone[fi.spec] {
		return true, fi.spec.Struct + "." + fi.spec.Field + " is initialised by every constructor and only ever assigned fresh maps"
	}
	return false, "`" + key + "` may be nil here"
}

// noteAssignNonNil maintains the non-nil facts at `lhs = rhs` (single-value form)
func (w *walker) noteAssignNonNil(lhs, rhs ast.Expr, fl *flow) {
	switch lhs.(type) {
	case *ast.Ident, *ast.SelectorExpr:
	default:
		return
	}
	key := exprString(lhs)
	if key == "_" {
		return
	}
	if ok, _ := w.nonNilExpr(rhs, fl); ok && isMapType(w.p, rhs) {
		fl.nonnil[key] = true
	} else {
		delete(fl.nonnil, key)
	}
}

// condFacts: what a condition establishes in its then / else branch
func (w *walker) condFacts(cond ast.Expr, thenF, elseF *flow) {
	for {
		if pe, ok := cond.(*ast.ParenExpr); ok {
			cond = pe.X
			continue
		}
		break
	}
	switch c := cond.(type) {
	case *ast.BinaryExpr:
		isNil := func(e ast.Expr) bool { id, ok := e.(*ast.Ident); return ok && id.Name == "nil" }
		var other ast.Expr
		if isNil(c.Y) {
			other = c.X
		} else if isNil(c.X) {
			other = c.Y
		}
		if other != nil && isMapType(w.p, other) {
			switch c.Op {
			case token.EQL:
				elseF.nonnil[exprString(other)] = true
			case token.NEQ:
				thenF.nonnil[exprString(other)] = true
			}
		}
		if c.Op == token.LAND { // a && b: both hold in the then branch
			w.condFacts(c.X, thenF, newFlow())
			w.condFacts(c.Y, thenF, newFlow())
		}
	case *ast.UnaryExpr:
		if c.Op == token.NOT {
			w.condFacts(c.X, elseF, thenF)
		}
	case *ast.Ident:
		// `ok` of `x, ok := M[k]` where the values of M are never nil (tracked map-of-maps: kind map-store checks the stores)
		if x, has := w.okOf[objOf(w.p, c)]; has {
			thenF.nonnil[x] = true
		}
	}
}

// findAlwaysInit: tracked MAP fields that every composite literal of their struct initialises with a fresh map
func (g *generator) findAlwaysInit(pkgs []*pkgData) {
	g.alwaysInit = map[*fieldSpec]bool{}
	g.monotone = map[*fieldSpec]bool{}
	for i := range tracked {
		g.monotone[&tracked[i]] = true
	}
	for _, p := range pkgs {
		for name, fd := range p.funcs {
			tn, rn := recvInfo(fd)
			w := &walker{g: g, p: p, fn: name, recv: rn, recvT: tn, alias: map[types.Object]aliasInfo{}, outer: map[types.Object]containerAlias{}, selfs: map[string]bool{}, quiet: true}
			ast.Inspect(fd.Body, func(n ast.Node) bool {
				as, ok := n.(*ast.AssignStmt)
				if !ok {
					return true
				}
				for i, l := range as.Lhs {
					se, ok := l.(*ast.SelectorExpr)
					if !ok {
						continue
					}
					if fi, _, ok := w.field(se); ok && fi.spec != nil && w.isMapField(fi, se) {
						if len(as.Lhs) != len(as.Rhs) || !w.isFreshMap(as.Rhs[i]) {
							g.monotone[fi.spec] = false
						}
					}
				}
				return true
			})
		}
	}
	for i := range tracked {
		spec := &tracked[i]
		lits, inited := 0, 0
		for _, p := range pkgs {
			if p.dir != spec.Pkg {
				continue
			}
			for _, f := range p.files {
				ast.Inspect(f, func(n ast.Node) bool {
					cl, ok := n.(*ast.CompositeLit)
					if !ok {
						return true
					}
					t := cl.Type
					for {
						switch x := t.(type) {
						case *ast.IndexExpr:
							t = x.X
							continue
						case *ast.IndexListExpr:
							t = x.X
							continue
						}
						break
					}
					id, ok := t.(*ast.Ident)
					if !ok || id.Name != spec.Struct {
						return true
					}
					lits++
					for _, el := range cl.Elts {
						if kv, ok := el.(*ast.KeyValueExpr); ok {
							if k, ok := kv.Key.(*ast.Ident); ok && k.Name == spec.Field {
								if c, ok := kv.Value.(*ast.CallExpr); ok {
									if fn, ok := c.Fun.(*ast.Ident); ok && fn.Name == "make" {
										inited++
									}
								} else if _, ok := kv.Value.(*ast.CompositeLit); ok {
									inited++
								}
							}
						}
					}
					return true
				})
			}
		}
		if lits > 0 && lits == inited {
			g.alwaysInit[spec] = true
		}
	}
}
