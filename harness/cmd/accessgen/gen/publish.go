package gen

// publish.go: two extensions of the inventory that close documented blind spots of gen.go.
//
// (1) Publication of inner maps (event 2, see the comment at publicationEvent): which locals / function results are
//     stored into a tracked map-of-maps, so that accesses to them BEFORE the store are construction of a still private
//     object (phase "claimed") and accesses AFTER the store go through an alias of a shared inner map (phase "fired",
//     and only the locks held at that point count).
// (2) Aliases passed to callees: when an inner map (or a local alias of a tracked map) is passed as an argument to a
//     function declared in the same package, the callee's body is walked with the parameter bound to that alias and with
//     the CALLER's lock set (the callee runs inside the caller's critical section, on the caller's goroutine). Known
//     library functions that write their argument (maps.Copy dst, maps.DeleteFunc, maps.Insert, clear) are writes.

import (
	"fmt"
	"go/ast"
	"go/token"
	"go/types"
)

// isFreshExpr: an expression whose value is a map nobody else can reach yet.
func (g *generator) isFreshExpr(p *pkgData, e ast.Expr) bool {
	for {
		if pe, ok := e.(*ast.ParenExpr); ok {
			e = pe.X
			continue
		}
		break
	}
	switch x := e.(type) {
	case *ast.CompositeLit:
		return true
	case *ast.CallExpr:
		if id, ok := x.Fun.(*ast.Ident); ok && id.Name == "make" {
			return true
		}
		if se, ok := x.Fun.(*ast.SelectorExpr); ok {
			if id, ok := se.X.(*ast.Ident); ok && id.Name == "maps" && se.Sel.Name == "Clone" {
				return true
			}
		}
		if n := p.calleeName(x); n != "" && g.freshRet[n] {
			return true
		}
	}
	return false
}

func objOf(p *pkgData, id *ast.Ident) types.Object {
	if o := p.info.Defs[id]; o != nil {
		return o
	}
	return p.info.Uses[id]
}

// definitions of a local inside a function body: every `x := e`, `x = e`, `var x = e` (single-value forms)
func definitionsOf(p *pkgData, body *ast.BlockStmt, obj types.Object) (rhs []ast.Expr, other bool) {
	ast.Inspect(body, func(n ast.Node) bool {
		switch x := n.(type) {
		case *ast.AssignStmt:
			for i, l := range x.Lhs {
				if id, ok := l.(*ast.Ident); ok && objOf(p, id) == obj {
					if len(x.Lhs) == len(x.Rhs) {
						rhs = append(rhs, x.Rhs[i])
					} else {
						other = true // multi-value form (map load with ok, call with several results)
					}
				}
			}
		case *ast.ValueSpec:
			for i, id := range x.Names {
				if objOf(p, id) == obj {
					if i < len(x.Values) {
						rhs = append(rhs, x.Values[i])
					} else if len(x.Values) != 0 {
						other = true
					}
				}
			}
		case *ast.RangeStmt:
			for _, e := range []ast.Expr{x.Key, x.Value} {
				if id, ok := e.(*ast.Ident); ok && objOf(p, id) == obj {
					other = true
				}
			}
		}
		return true
	})
	return
}

// findFreshReturning: functions with one result all of whose return statements return a local that is only ever
// assigned fresh maps (make / maps.Clone / composite literal / another fresh-returning function).
func (g *generator) findFreshReturning(p *pkgData) {
	for round := 0; round < 3; round++ {
		for name, fd := range p.funcs {
			if g.freshRet[name] || fd.Type.Results == nil || len(fd.Type.Results.List) != 1 || len(fd.Type.Results.List[0].Names) > 1 {
				continue
			}
			ok, any := true, false
			ast.Inspect(fd.Body, func(n ast.Node) bool {
				if _, lit := n.(*ast.FuncLit); lit {
					return false
				}
				rs, isRet := n.(*ast.ReturnStmt)
				if !isRet {
					return true
				}
				if len(rs.Results) != 1 {
					ok = false
					return true
				}
				any = true
				if g.isFreshExpr(p, rs.Results[0]) {
					return true
				}
				id, isId := rs.Results[0].(*ast.Ident)
				if !isId {
					ok = false
					return true
				}
				obj := objOf(p, id)
				if obj == nil {
					ok = false
					return true
				}
				if tv, has := p.info.Types[rs.Results[0]]; !has || tv.Type == nil {
					ok = false
					return true
				} else if _, isMap := tv.Type.Underlying().(*types.Map); !isMap {
					ok = false
					return true
				}
				defs, other := definitionsOf(p, fd.Body, obj)
				if other || len(defs) == 0 {
					ok = false
					return true
				}
				for _, d := range defs {
					if !g.isFreshExpr(p, d) {
						ok = false
					}
				}
				return true
			})
			if ok && any {
				g.freshRet[name] = true
			}
		}
	}
}

// findPublications: `B.f[k] = x` / `B.f[k] = g(...)` for a tracked map-of-maps field f; the locals and functions
// involved (transitively through `x := g(...)` and `return x`).
func (g *generator) findPublications(p *pkgData) {
	for name, fd := range p.funcs {
		tn, rn := recvInfo(fd)
		w := &walker{g: g, p: p, fn: name, recv: rn, recvT: tn, alias: map[types.Object]aliasInfo{}, outer: map[types.Object]containerAlias{}, selfs: map[string]bool{}, quiet: true}
		note := func(rhs ast.Expr, spec *fieldSpec) {
			for {
				if pe, ok := rhs.(*ast.ParenExpr); ok {
					rhs = pe.X
					continue
				}
				break
			}
			switch r := rhs.(type) {
			case *ast.Ident:
				if obj := objOf(p, r); obj != nil {
					if _, isVar := obj.(*types.Var); isVar {
						g.pubLocals[obj] = spec
					}
				}
			case *ast.CallExpr:
				if n := p.calleeName(r); n != "" && p.funcs[n] != nil {
					g.publishers[n] = spec
				}
			}
		}
		ast.Inspect(fd.Body, func(n ast.Node) bool {
			switch x := n.(type) {
			case *ast.AssignStmt:
				if len(x.Lhs) == 1 && len(x.Rhs) == 1 {
					if ie, ok := x.Lhs[0].(*ast.IndexExpr); ok {
						if fi, _, ok := w.field(ie.X); ok && fi.spec != nil && fi.spec.Inner != 0 {
							note(x.Rhs[0], fi.spec)
						}
					}
				}
				// x := g(...) / x = g(...) for a local that is published later: g's result is what gets published
				if len(x.Lhs) == len(x.Rhs) {
					for i, l := range x.Lhs {
						if id, ok := l.(*ast.Ident); ok {
							if spec := g.pubLocals[objOf(p, id)]; spec != nil {
								if c, ok := x.Rhs[i].(*ast.CallExpr); ok {
									if cn := p.calleeName(c); cn != "" && p.funcs[cn] != nil {
										g.publishers[cn] = spec
									}
								}
							}
						}
					}
				}
			case *ast.ReturnStmt:
				if spec := g.publishers[name]; spec != nil && len(x.Results) == 1 {
					note(x.Results[0], spec)
				}
			}
			return true
		})
	}
}

// noteDefinition: local `id` is (re)defined by `rhs`. If the local is one that gets published into a tracked container,
// a fresh value makes it a private map under construction; anything else that is not a load from the container (handled by
// maybeAlias) is a map of unknown provenance that will be shared: treated as shared from here on (no lock can be credited).
func (w *walker) noteDefinition(id *ast.Ident, rhs ast.Expr, single bool) {
	obj := objOf(w.p, id)
	if obj == nil {
		return
	}
	spec := w.g.pubLocals[obj]
	if spec == nil {
		delete(w.fresh, obj)
		return
	}
	if single && w.g.isFreshExpr(w.p, rhs) {
		w.fresh[obj] = spec
		delete(w.alias, obj)
		return
	}
	delete(w.fresh, obj)
	if _, isAlias := w.alias[obj]; !isAlias && !w.quiet {
		w.alias[obj] = aliasInfo{spec, "?"}
		w.g.tab.Notes = append(w.g.tab.Notes, fmt.Sprintf("publication: %s local `%s` in %s is stored into %s.%s but is not a fresh map (%s); its uses are inventoried as accesses of a shared inner map with no lock credited",
			w.p.fset.Position(id.Pos()), id.Name, w.fn, spec.Struct, spec.Field, exprString(rhs)))
	}
}

// parameters bound to fresh values: a function whose result is published and that fills a parameter... not followed.

// publishLocal: the statement `B.f[k] = x` has just been walked: from here on x is an alias of a shared inner map of B.f
func (w *walker) publishLocal(lhs ast.Expr, rhs ast.Expr) {
	ie, ok := lhs.(*ast.IndexExpr)
	if !ok {
		return
	}
	fi, b, ok := w.field(ie.X)
	if !ok || fi.spec == nil || fi.spec.Inner == 0 {
		return
	}
	id, ok := rhs.(*ast.Ident)
	if !ok {
		return
	}
	obj := objOf(w.p, id)
	if obj == nil {
		return
	}
	delete(w.fresh, obj)
	w.alias[obj] = aliasInfo{fi.spec, b}
}

// argWrites: does the call write the map passed as argument number i? (library functions; in-package callees are followed)
func argWrites(c *ast.CallExpr, i int) bool {
	if se, ok := c.Fun.(*ast.SelectorExpr); ok {
		if id, ok := se.X.(*ast.Ident); ok && id.Name == "maps" && i == 0 {
			switch se.Sel.Name {
			case "Copy", "DeleteFunc", "Insert":
				return true
			}
		}
	}
	if id, ok := c.Fun.(*ast.Ident); ok && id.Name == "clear" && i == 0 {
		return true
	}
	return false
}

// paramObject: the object of parameter number i of fd (nil when unnamed / variadic mismatch)
func paramObject(p *pkgData, fd *ast.FuncDecl, i int) types.Object {
	n := 0
	for _, f := range fd.Type.Params.List {
		if len(f.Names) == 0 {
			n++
			continue
		}
		for _, nm := range f.Names {
			if n == i {
				if _, variadic := f.Type.(*ast.Ellipsis); variadic {
					return nil
				}
				return objOf(p, nm)
			}
			n++
		}
	}
	return nil
}

// followCallee: argument number i of call c is an alias (inner map: ai != nil, or a whole tracked map: ca != nil) and the
// callee is declared in this package: walk the callee's body with the parameter bound to the alias, under the caller's flow.
func (w *walker) followCallee(c *ast.CallExpr, i int, ai *aliasInfo, fresh *fieldSpec, ca *containerAlias, fl *flow) bool {
	name := w.p.calleeName(c)
	fd := w.p.funcs[name]
	if name == "" || fd == nil || w.depth >= 3 {
		return false
	}
	obj := paramObject(w.p, fd, i)
	if obj == nil {
		return false
	}
	key := fmt.Sprintf("%s#%d@%s", name, i, w.p.fset.Position(c.Pos()))
	if w.g.following[key] {
		return false
	}
	w.g.following[key] = true
	defer delete(w.g.following, key)
	tn, rn := recvInfo(fd)
	sub := &walker{g: w.g, p: w.p, file: w.p.funcFile[fd], recv: rn, recvT: tn, owner: w.owner, selfs: w.selfs,
		alias: map[types.Object]aliasInfo{}, outer: map[types.Object]containerAlias{}, fresh: map[types.Object]*fieldSpec{}, fdecl: fd, depth: w.depth + 1,
		only: map[types.Object]bool{obj: true}}
	sub.fn = fmt.Sprintf("%s (argument %d of the call at %s:%d in %s)", name, i+1, w.file, w.p.fset.Position(c.Pos()).Line, w.fn)
	switch {
	case ai != nil:
		sub.alias[obj] = *ai
	case fresh != nil:
		sub.fresh[obj] = fresh
	case ca != nil:
		sub.outer[obj] = *ca
	}
	sub.block(fd.Body.List, fl.clone())
	return true
}

// inOnly: a sub-walker that follows one parameter records only the accesses made through that parameter (everything
// else in the callee is inventoried when the callee is walked as a function of its own)
func (w *walker) restricted() bool { return w.only != nil }

var _ = token.NoPos
