// Package gen is the C10 translator (DESIGN §2.4.5): it inventories every read/write site of the
// shared fields listed in DESIGN §4-C10 in the tree under test and renders the inventory as the Coq
// list literal coq/Generated/AccessTable.v.
//
// How sites are found. The three packages that can name the (unexported) fields are parsed with
// go/parser and type-checked with go/types using an importer that answers every import with an EMPTY
// package (type errors are ignored). Everything declared inside the package keeps its real type, so a
// selector `x.children` is resolved to the field object of struct Context through go/types' selection
// table whatever the variable is called and through embedding (`s.children` with s *System). A
// selector whose name is one of the tracked field names and that go/types could NOT resolve is kept
// as an unprotected write by any goroutine (so the discipline fails loudly instead of the site
// being dropped silently). Atomic / sync.Map / channel / mutex fields are recognised from the
// declared type expression of the field (sync.Mutex, sync.RWMutex, sync.Map, atomic.*, chan).
//
// How locks are approximated (lexical, per function, flow-insensitive across calls):
//   - `B.mu.Lock()` / `B.mu.RLock()` as a statement adds (B, mu) to the held set, `B.mu.Unlock()` /
//     `B.mu.RUnlock()` removes it, `defer B.mu.Unlock()` leaves it held to the end of the function;
//   - at a join of structured control flow (if/else, switch, select, loop back-edge and exit) the held
//     set is the INTERSECTION of the sets of the branches that can fall through (a branch ending in
//     return / panic / break / continue / goto does not count);
//   - a lock counts for an access only if the lock and the field are selected from the SAME base
//     expression text (`c.childrenLock` protects `c.children`, not `d.children`);
//   - function literals start with nothing held (their body runs later or elsewhere);
//   - locks held by a caller are unknown inside the callee.
//
// Which way it errs. Towards false alarms (a protected site reported as unprotected): caller-held
// locks, locks taken through helpers or aliases, immediately-invoked closures. Towards MISSING a race
// only in these cases: the base variable is re-assigned between Lock and the access; a callee or a
// closure releases the caller's lock; Unlock is called through an alias/pointer of the mutex; the
// content of a field (map, slice, pointer) escapes into a local variable, a struct or a return value
// and is used after the lock is released (followed: local aliases of INNER maps, and local aliases of a
// tracked MAP field itself - see "container aliases" below); accesses through reflection, unsafe or code
// outside the three packages. These are limits of the check.
//
// Container aliases (time-of-check / time-of-use on the table itself). `x := B.f` for a tracked plain map
// field f, or `x := B.helper()` where helper is a method whose return statement is `return R.f` on its
// receiver R, makes the local x an alias of B.f. Every `x[k]`, `x[k] = v`, `delete(x, k)`, `len(x)`,
// `range x` is inventoried as an access of f's location class through base B. A lock of B counts for such an
// access ONLY IF IT IS STILL THE SAME ACQUISITION under which the alias was read from the field (every Lock
// statement starts a new acquisition; a helper's own critical section has ended when it returns): a map
// captured in one critical section and written in a later one may no longer be the map the field refers to
// (the field can have been re-assigned in between), so the later lock does not protect "the children of B",
// only a map that used to be it. Such a site appears in the table without the lock and breaks the discipline.
package gen

import (
	"fmt"
	"go/ast"
	"go/parser"
	"go/token"
	"go/types"
	"os"
	"path/filepath"
	"sort"
	"strings"
)

// ---------------------------------------------------------------- configuration

type fieldSpec struct {
	Pkg, Struct, Field string
	Loc                int // location class id
	Inner              int // location class id of the inner maps (0: none)
}

// the shared fields of DESIGN §4-C10
var tracked = []fieldSpec{
	{"internal/actor", "Context", "children", 1, 0},
	{"internal/actor", "Context", "watchers", 2, 0},
	{"internal/actor", "Context", "stash", 3, 0},
	{"internal/actor", "Context", "state", 4, 0},
	{"internal/actor", "Context", "zombie", 5, 0},
	{"internal/actor", "Context", "restarting", 6, 0},
	{"internal/actor", "System", "futureAgents", 7, 8},
	{"internal/actor", "System", "actorContexts", 9, 0},
	{"internal/actor", "eventStream", "subscribers", 10, 11},
	{"internal/actor", "eventStream", "subscriberTypes", 12, 13},
	{"internal/future", "Future", "closed", 14, 0},
	{"internal/future", "Future", "err", 15, 0},
	{"internal/future", "Future", "message", 16, 0},
	{"internal/future", "Future", "forwarders", 17, 0},
	{"internal/future", "Future", "done", 18, 0},
	{"internal/future", "Future", "timer", 19, 0},
	{"internal/actor", "Ref", "cache", 20, 0},
	{"internal/remoting", "MailboxCentral", "mailboxes", 21, 0},
	{"internal/actor", "Scheduler", "jobKeys", 22, 0},
}

// LocNames: id -> name
func LocNames() map[int]string {
	m := map[int]string{}
	for _, f := range tracked {
		m[f.Loc] = f.Struct + "." + f.Field
		if f.Inner != 0 {
			m[f.Inner] = f.Struct + "." + f.Field + "[*] (inner maps)"
		}
	}
	return m
}

// the once-only publication protocol of future.Future: gate = a successful closed.CompareAndSwap(false,true),
// fire = close(done), observe = <-done. Event id 1.
type eventSpec struct {
	Pkg, Struct, Gate, Signal string
	ID                        int
}

var events = []eventSpec{{"internal/future", "Future", "closed", "done", 1}}

// Event 2: publication of an inner map into its container. An inner map of a tracked map-of-maps field (fieldSpec.Inner)
// is an object of its own: it is CREATED by one goroutine (make / maps.Clone / a composite literal / a function that
// returns such a fresh map), possibly filled while it is still private to its creator, and becomes reachable by other
// goroutines only through the store `B.f[k] = m` into the container (the store is the "fire" of the once-event, the
// creator is its only claimant). Sites on the still-private map get phase "claimed" (after-claim), every site that
// reaches an inner map THROUGH the container (B.f[k], a local loaded from it, a parameter bound to it) gets phase
// "fired" (after-fire): whoever got the reference from the container got it after the store. With this, a copy-on-write
// table (inner maps never written after publication, read without the lock) is accepted as ONCE-PUBLISHED - and a write
// through an alias after the store, or a write through the container outside the lock, is a discipline violation.
const publicationEvent = 2

// Thread roles. Every function is "any" (callable from any goroutine) unless listed here. A listed
// function runs only on the goroutine that currently processes the mailbox of the actor whose Context
// it works on (at most one at a time: C01_single_consumer). The generator checks the list against the
// static call graph: every in-package caller of a listed function must itself be listed (otherwise the
// function is demoted to "any" and a note is written). Exported ActorContext / Scheduler methods have
// no in-package caller: they are owner-only by the documented contract of vivid.ActorContext ("not
// safe for concurrent use; call from the actor's own message handler").
var ownerFuncs = map[string]string{
	"actor.Context.HandleEnvelop":               "entry: called by the mailbox's processing goroutine, and re-entrantly by killedHandler.handleRestart on that goroutine",
	"actor.Context.executeBehaviorWithRecovery": "handler internals",
	"actor.Context.onScheduler":                 "handler internals",
	"actor.Context.onCommand":                   "handler internals",
	"actor.Context.onPing":                      "handler internals",
	"actor.Context.onWatch":                     "handler internals",
	"actor.Context.onUnwatch":                   "handler internals",
	"actor.Context.onRestart":                   "handler internals",
	"actor.Context.onKill":                      "handler internals",
	"actor.Context.doKill":                      "handler internals",
	"actor.Context.onKilled":                    "handler internals",
	"actor.Context.onSupervise":                 "handler internals",
	"actor.Context.failed":                      "handler internals (deferred recovery of the handler)",
	"actor.killedHandler.handleChildDeath":      "step of Context.onKilled",
	"actor.killedHandler.checkAndMarkKilled":    "step of Context.onKilled",
	"actor.killedHandler.prepareSelfKilledMessage": "step of Context.onKilled",
	"actor.killedHandler.executeBehavior":       "step of Context.onKilled",
	"actor.killedHandler.cleanupIfNotRestarting": "step of Context.onKilled",
	"actor.killedHandler.cleanupScheduler":      "step of Context.onKilled",
	"actor.killedHandler.handleRestart":         "step of Context.onKilled",
	"actor.Context.Stash":                       "vivid.ActorContext API (owner-only by contract)",
	"actor.Context.Unstash":                     "vivid.ActorContext API (owner-only by contract)",
	"actor.Context.StashCount":                  "vivid.ActorContext API (owner-only by contract)",
	"actor.Scheduler.Clear":                     "called by killedHandler.cleanupScheduler",
	"actor.Scheduler.scheduleJob":               "vivid.ActorContext.Scheduler() API (owner-only by contract)",
	"actor.Scheduler.Exists":                    "vivid.ActorContext.Scheduler() API (owner-only by contract)",
	"actor.Scheduler.Cron":                      "vivid.ActorContext.Scheduler() API (owner-only by contract)",
	"actor.Scheduler.Once":                      "vivid.ActorContext.Scheduler() API (owner-only by contract)",
	"actor.Scheduler.Loop":                      "vivid.ActorContext.Scheduler() API (owner-only by contract)",
	"actor.Scheduler.Cancel":                    "vivid.ActorContext.Scheduler() API (owner-only by contract)",
}

// the expression through which an owner function reaches "its own" object, relative to the receiver
// name r: an access through any other base is a foreign access and gets role "any".
func selfBases(recvType, recvName string) map[string]bool {
	m := map[string]bool{recvName: true}
	if recvType == "killedHandler" {
		m = map[string]bool{recvName + ".ctx": true}
	}
	return m
}

// ---------------------------------------------------------------- result types

type HeldLock struct {
	ID   int
	Name string
	Excl bool
}

type Access struct {
	Site   int
	File   string
	Line   int
	Col    int
	Func   string
	Loc    int
	Write  bool
	Atomic bool
	Locks  []HeldLock
	Owner  bool
	Phase  int // 0 none, 1 claimed, 2 fired
	Event  int
	Base   string
	Expr   string
	Note   string
}

func (a Access) Where() string { return fmt.Sprintf("%s:%d:%d", a.File, a.Line, a.Col) }

type Table struct {
	Accesses   []Access
	Panics     []PanicSite // the panic-site inventory (panics.go)
	LockNames  map[int]string
	Inits      int      // composite-literal field initialisers of tracked fields (not accesses)
	Notes      []string // demotions, unresolved selectors
	Unresolved int
	Files      int
}

// ---------------------------------------------------------------- loading

type fakeImporter struct{ pkgs map[string]*types.Package }

// Stubs of the two synchronisation packages: with them `v, ok := s.actorContexts.Load(k)` has type any (so that
// `v.(*Context).field` is typed) and atomic.Pointer[T].Load() has type *T. Every other import is an EMPTY package.
var stubs = map[string]string{
	"sync": `package sync
type Locker interface { Lock(); Unlock() }
type Mutex struct{ _ int }
func (m *Mutex) Lock()
func (m *Mutex) Unlock()
func (m *Mutex) TryLock() bool
type RWMutex struct{ _ int }
func (m *RWMutex) Lock()
func (m *RWMutex) Unlock()
func (m *RWMutex) RLock()
func (m *RWMutex) RUnlock()
func (m *RWMutex) TryLock() bool
func (m *RWMutex) TryRLock() bool
func (m *RWMutex) RLocker() Locker
type Map struct{ _ int }
func (m *Map) Load(key any) (value any, ok bool)
func (m *Map) Store(key, value any)
func (m *Map) LoadOrStore(key, value any) (actual any, loaded bool)
func (m *Map) LoadAndDelete(key any) (value any, loaded bool)
func (m *Map) Delete(key any)
func (m *Map) Swap(key, value any) (previous any, loaded bool)
func (m *Map) CompareAndSwap(key, old, new any) (swapped bool)
func (m *Map) CompareAndDelete(key, old any) (deleted bool)
func (m *Map) Range(f func(key, value any) bool)
func (m *Map) Clear()
type WaitGroup struct{ _ int }
func (w *WaitGroup) Add(delta int)
func (w *WaitGroup) Done()
func (w *WaitGroup) Wait()
func (w *WaitGroup) Go(f func())
type Once struct{ _ int }
func (o *Once) Do(f func())
type Pool struct{ New func() any }
func (p *Pool) Get() any
func (p *Pool) Put(x any)
type Cond struct{ L Locker }
func NewCond(l Locker) *Cond
func (c *Cond) Wait()
func (c *Cond) Signal()
func (c *Cond) Broadcast()
func OnceFunc(f func()) func()
`,
	"sync/atomic": `package atomic
import "unsafe"
type Bool struct{ _ int }
func (x *Bool) Load() bool
func (x *Bool) Store(val bool)
func (x *Bool) Swap(new bool) (old bool)
func (x *Bool) CompareAndSwap(old, new bool) (swapped bool)
type Int32 struct{ _ int }
func (x *Int32) Load() int32
func (x *Int32) Store(val int32)
func (x *Int32) Swap(new int32) (old int32)
func (x *Int32) CompareAndSwap(old, new int32) (swapped bool)
func (x *Int32) Add(delta int32) (new int32)
type Int64 struct{ _ int }
func (x *Int64) Load() int64
func (x *Int64) Store(val int64)
func (x *Int64) Swap(new int64) (old int64)
func (x *Int64) CompareAndSwap(old, new int64) (swapped bool)
func (x *Int64) Add(delta int64) (new int64)
type Uint32 struct{ _ int }
func (x *Uint32) Load() uint32
func (x *Uint32) Store(val uint32)
func (x *Uint32) Swap(new uint32) (old uint32)
func (x *Uint32) CompareAndSwap(old, new uint32) (swapped bool)
func (x *Uint32) Add(delta uint32) (new uint32)
type Uint64 struct{ _ int }
func (x *Uint64) Load() uint64
func (x *Uint64) Store(val uint64)
func (x *Uint64) Swap(new uint64) (old uint64)
func (x *Uint64) CompareAndSwap(old, new uint64) (swapped bool)
func (x *Uint64) Add(delta uint64) (new uint64)
type Pointer[T any] struct{ _ int }
func (x *Pointer[T]) Load() *T
func (x *Pointer[T]) Store(val *T)
func (x *Pointer[T]) Swap(new *T) (old *T)
func (x *Pointer[T]) CompareAndSwap(old, new *T) (swapped bool)
type Value struct{ _ int }
func (v *Value) Load() (val any)
func (v *Value) Store(val any)
func (v *Value) Swap(new any) (old any)
func (v *Value) CompareAndSwap(old, new any) (swapped bool)
func LoadInt32(addr *int32) (val int32)
func StoreInt32(addr *int32, val int32)
func SwapInt32(addr *int32, new int32) (old int32)
func AddInt32(addr *int32, delta int32) (new int32)
func CompareAndSwapInt32(addr *int32, old, new int32) (swapped bool)
func LoadInt64(addr *int64) (val int64)
func StoreInt64(addr *int64, val int64)
func SwapInt64(addr *int64, new int64) (old int64)
func AddInt64(addr *int64, delta int64) (new int64)
func CompareAndSwapInt64(addr *int64, old, new int64) (swapped bool)
func LoadUint32(addr *uint32) (val uint32)
func StoreUint32(addr *uint32, val uint32)
func SwapUint32(addr *uint32, new uint32) (old uint32)
func AddUint32(addr *uint32, delta uint32) (new uint32)
func CompareAndSwapUint32(addr *uint32, old, new uint32) (swapped bool)
func LoadUint64(addr *uint64) (val uint64)
func StoreUint64(addr *uint64, val uint64)
func SwapUint64(addr *uint64, new uint64) (old uint64)
func AddUint64(addr *uint64, delta uint64) (new uint64)
func CompareAndSwapUint64(addr *uint64, old, new uint64) (swapped bool)
func LoadPointer(addr *unsafe.Pointer) (val unsafe.Pointer)
func StorePointer(addr *unsafe.Pointer, val unsafe.Pointer)
`,
}

func (f fakeImporter) Import(path string) (*types.Package, error) {
	if p, ok := f.pkgs[path]; ok {
		return p, nil
	}
	if path == "unsafe" {
		return types.Unsafe, nil
	}
	if src, ok := stubs[path]; ok {
		fset := token.NewFileSet()
		if file, err := parser.ParseFile(fset, path+"/stub.go", src, 0); err == nil {
			conf := types.Config{Importer: f, Error: func(error) {}}
			if p, _ := conf.Check(path, fset, []*ast.File{file}, nil); p != nil {
				f.pkgs[path] = p
				return p, nil
			}
		}
	}
	name := path
	if i := strings.LastIndex(path, "/"); i >= 0 {
		name = path[i+1:]
	}
	name = strings.ReplaceAll(name, "-", "_")
	p := types.NewPackage(path, name)
	p.MarkComplete()
	f.pkgs[path] = p
	return p, nil
}

type fieldKind int

const (
	kPlain fieldKind = iota
	kAtomic
	kSyncMap
	kChan
	kMutex
)

type fieldInfo struct {
	spec *fieldSpec // nil for untracked (mutex) fields
	kind fieldKind
	rw   bool // RWMutex
	name string
}

type pkgData struct {
	dir     string // relative
	name    string
	fset    *token.FileSet
	files   []*ast.File
	fnames  []string
	info    *types.Info
	fields  map[*types.Var]*fieldInfo
	imports map[*ast.File]map[string]string // local name -> import path
	funcs   map[string]*ast.FuncDecl         // "pkg.Type.method" / "pkg.func" -> declaration
	funcFile map[*ast.FuncDecl]string        // declaration -> relative file name
}

type generator struct {
	repo    string
	tab     *Table
	lockIDs map[string]int
	owner   map[string]bool // effective owner set (after demotion)
	// methods whose return statement hands out the map of a tracked field of their receiver: name -> field
	containerHelpers map[string]*fieldSpec
	epochs           int
	// publication of inner maps (event 2): locals that are stored into a tracked container (or returned by a function whose
	// result is stored into one), the functions whose result is stored, and the functions that return a fresh map
	pubLocals  map[types.Object]*fieldSpec
	publishers map[string]*fieldSpec
	freshRet   map[string]bool
	following  map[string]bool // callee inlinings in progress (recursion guard)
	alwaysInit map[*fieldSpec]bool // tracked map fields initialised by every constructor (panics.go)
	monotone   map[*fieldSpec]bool // tracked map fields only ever assigned fresh maps (panics.go)
}

// Generate inventories the tree at repo.
func Generate(repo string) (*Table, error) {
	g := &generator{repo: repo, tab: &Table{LockNames: map[int]string{}}, lockIDs: map[string]int{}, owner: map[string]bool{}}
	for k := range ownerFuncs {
		g.owner[k] = true
	}
	dirs := []string{}
	seen := map[string]bool{}
	for _, f := range tracked {
		if !seen[f.Pkg] {
			seen[f.Pkg] = true
			dirs = append(dirs, f.Pkg)
		}
	}
	sort.Strings(dirs)
	var pkgs []*pkgData
	for _, d := range dirs {
		p, err := g.load(d)
		if err != nil {
			return nil, err
		}
		pkgs = append(pkgs, p)
	}
	// every tracked field must exist (a renamed field must not silently empty the inventory)
	for i := range tracked {
		f := &tracked[i]
		found := false
		for _, p := range pkgs {
			for _, fi := range p.fields {
				if fi.spec == f {
					found = true
				}
			}
		}
		if !found {
			return nil, fmt.Errorf("tracked field %s.%s not found in %s", f.Struct, f.Field, f.Pkg)
		}
	}
	// pass 1: call graph check of the owner list (may demote), pass 2: inventory
	for round := 0; round < 4; round++ {
		changed := false
		for _, p := range pkgs {
			if g.checkCallers(p) {
				changed = true
			}
		}
		if !changed {
			break
		}
	}
	g.containerHelpers = map[string]*fieldSpec{}
	for _, p := range pkgs {
		g.findContainerHelpers(p)
	}
	g.pubLocals, g.publishers, g.freshRet, g.following = map[types.Object]*fieldSpec{}, map[string]*fieldSpec{}, map[string]bool{}, map[string]bool{}
	for _, p := range pkgs {
		g.findFreshReturning(p)
	}
	for round := 0; round < 3; round++ {
		for _, p := range pkgs {
			g.findPublications(p)
		}
	}
	g.findAlwaysInit(pkgs)
	for _, p := range pkgs {
		g.inventory(p)
	}
	for i := range g.tab.Accesses {
		g.tab.Accesses[i].Site = i
	}
	for i := range g.tab.Panics {
		g.tab.Panics[i].ID = i
	}
	return g.tab, nil
}

func (g *generator) load(dir string) (*pkgData, error) {
	abs := filepath.Join(g.repo, dir)
	ents, err := os.ReadDir(abs)
	if err != nil {
		return nil, err
	}
	p := &pkgData{dir: dir, fset: token.NewFileSet(), fields: map[*types.Var]*fieldInfo{}, imports: map[*ast.File]map[string]string{},
		funcs: map[string]*ast.FuncDecl{}, funcFile: map[*ast.FuncDecl]string{}}
	var names []string
	for _, e := range ents {
		n := e.Name()
		if e.IsDir() || !strings.HasSuffix(n, ".go") || strings.HasSuffix(n, "_test.go") {
			continue
		}
		names = append(names, n)
	}
	sort.Strings(names)
	for _, n := range names {
		f, err := parser.ParseFile(p.fset, filepath.Join(abs, n), nil, parser.ParseComments|parser.SkipObjectResolution)
		if err != nil {
			return nil, fmt.Errorf("parse %s/%s: %w", dir, n, err)
		}
		// files excluded by a build constraint other than the default build are skipped
		skip := false
		for _, cg := range f.Comments {
			if cg.Pos() > f.Package {
				break
			}
			for _, c := range cg.List {
				if strings.HasPrefix(c.Text, "//go:build ") && (strings.Contains(c.Text, "ignore") || strings.Contains(c.Text, "verif")) {
					skip = true
				}
			}
		}
		if skip {
			continue
		}
		p.files = append(p.files, f)
		p.fnames = append(p.fnames, filepath.ToSlash(filepath.Join(dir, n)))
		im := map[string]string{}
		for _, is := range f.Imports {
			path := strings.Trim(is.Path.Value, "\"")
			name := path
			if i := strings.LastIndex(path, "/"); i >= 0 {
				name = path[i+1:]
			}
			if is.Name != nil {
				name = is.Name.Name
			}
			im[name] = path
		}
		p.imports[f] = im
	}
	g.tab.Files += len(p.files)
	if len(p.files) == 0 {
		return nil, fmt.Errorf("no Go files in %s", abs)
	}
	p.name = p.files[0].Name.Name
	p.info = &types.Info{
		Selections: map[*ast.SelectorExpr]*types.Selection{},
		Uses:       map[*ast.Ident]types.Object{},
		Defs:       map[*ast.Ident]types.Object{},
		Types:      map[ast.Expr]types.TypeAndValue{},
	}
	conf := types.Config{Importer: fakeImporter{map[string]*types.Package{}}, Error: func(error) {}, FakeImportC: true}
	pkg, _ := conf.Check("github.com/kercylan98/vivid/"+dir, p.fset, p.files, p.info)
	if pkg == nil {
		return nil, fmt.Errorf("type check of %s produced no package", dir)
	}
	for i, f := range p.files {
		for _, d := range f.Decls {
			if fd, ok := d.(*ast.FuncDecl); ok && fd.Body != nil {
				p.funcs[funcName(p.name, fd)] = fd
				p.funcFile[fd] = p.fnames[i]
			}
		}
	}
	// classify the fields of every struct declared in the package from the declared type expression
	for _, f := range p.files {
		im := p.imports[f]
		for _, d := range f.Decls {
			gd, ok := d.(*ast.GenDecl)
			if !ok || gd.Tok != token.TYPE {
				continue
			}
			for _, s := range gd.Specs {
				ts := s.(*ast.TypeSpec)
				stt, ok := ts.Type.(*ast.StructType)
				if !ok {
					continue
				}
				for _, fl := range stt.Fields.List {
					kind, rw := classifyType(fl.Type, im)
					for _, nm := range fl.Names {
						obj, _ := p.info.Defs[nm].(*types.Var)
						if obj == nil {
							continue
						}
						fi := &fieldInfo{kind: kind, rw: rw, name: ts.Name.Name + "." + nm.Name}
						for i := range tracked {
							t := &tracked[i]
							if t.Pkg == dir && t.Struct == ts.Name.Name && t.Field == nm.Name {
								fi.spec = t
							}
						}
						if fi.spec != nil || kind == kMutex {
							p.fields[obj] = fi
						}
					}
				}
			}
		}
	}
	return p, nil
}

func classifyType(e ast.Expr, im map[string]string) (fieldKind, bool) {
	switch t := e.(type) {
	case *ast.ChanType:
		return kChan, false
	case *ast.IndexExpr: // atomic.Pointer[T]
		return classifyType(t.X, im)
	case *ast.SelectorExpr:
		if id, ok := t.X.(*ast.Ident); ok {
			switch im[id.Name] {
			case "sync":
				switch t.Sel.Name {
				case "Mutex":
					return kMutex, false
				case "RWMutex":
					return kMutex, true
				case "Map":
					return kSyncMap, false
				}
			case "sync/atomic":
				return kAtomic, false
			}
		}
	}
	return kPlain, false
}

// ---------------------------------------------------------------- function naming and roles

func recvInfo(fd *ast.FuncDecl) (typeName, recvName string) {
	if fd.Recv == nil || len(fd.Recv.List) == 0 {
		return "", ""
	}
	r := fd.Recv.List[0]
	if len(r.Names) > 0 {
		recvName = r.Names[0].Name
	}
	t := r.Type
	for {
		switch x := t.(type) {
		case *ast.StarExpr:
			t = x.X
			continue
		case *ast.IndexExpr:
			t = x.X
			continue
		case *ast.IndexListExpr:
			t = x.X
			continue
		case *ast.ParenExpr:
			t = x.X
			continue
		case *ast.Ident:
			return x.Name, recvName
		}
		return "", recvName
	}
}

func funcName(pkg string, fd *ast.FuncDecl) string {
	tn, _ := recvInfo(fd)
	if tn != "" {
		return pkg + "." + tn + "." + fd.Name.Name
	}
	return pkg + "." + fd.Name.Name
}

// calleeName resolves a call to "pkg.Type.method" / "pkg.func" when the callee is declared in the
// package; otherwise "?."+bare name (matched conservatively by bare name).
func (p *pkgData) calleeName(call *ast.CallExpr) string {
	switch f := call.Fun.(type) {
	case *ast.SelectorExpr:
		if sel, ok := p.info.Selections[f]; ok {
			if fn, ok := sel.Obj().(*types.Func); ok {
				fn = fn.Origin()
				if sig, ok := fn.Type().(*types.Signature); ok && sig.Recv() != nil {
					t := sig.Recv().Type()
					if pt, ok := t.(*types.Pointer); ok {
						t = pt.Elem()
					}
					if nt, ok := t.(*types.Named); ok {
						return p.name + "." + nt.Obj().Name() + "." + fn.Name()
					}
				}
			}
			return ""
		}
		return "?." + f.Sel.Name
	case *ast.Ident:
		if obj, ok := p.info.Uses[f]; ok {
			if fn, ok := obj.(*types.Func); ok && fn.Pkg() != nil && fn.Pkg().Name() == p.name {
				return p.name + "." + fn.Name()
			}
			return ""
		}
		return "?." + f.Name
	}
	return ""
}

// checkCallers demotes owner functions that are called from a non-owner context.
func (g *generator) checkCallers(p *pkgData) bool {
	changed := false
	for _, f := range p.files {
		for _, d := range f.Decls {
			fd, ok := d.(*ast.FuncDecl)
			if !ok || fd.Body == nil {
				continue
			}
			caller := funcName(p.name, fd)
			var visit func(n ast.Node, ctxOwner bool)
			visit = func(n ast.Node, ctxOwner bool) {
				ast.Inspect(n, func(x ast.Node) bool {
					switch v := x.(type) {
					case *ast.GoStmt:
						// the spawned call runs on another goroutine
						for _, a := range v.Call.Args {
							visit(a, ctxOwner)
						}
						g.noteCall(p, v.Call, caller+" (go statement)", false, &changed)
						if fl, ok := v.Call.Fun.(*ast.FuncLit); ok {
							visit(fl.Body, false)
						}
						return false
					case *ast.CallExpr:
						g.noteCall(p, v, caller, ctxOwner, &changed)
						if fl, ok := v.Fun.(*ast.FuncLit); ok { // immediately invoked
							visit(fl.Body, ctxOwner)
							for _, a := range v.Args {
								visit(a, ctxOwner)
							}
							return false
						}
						for _, a := range v.Args {
							if fl, ok := a.(*ast.FuncLit); ok && !isRecoverExec(v) { // callback: unknown goroutine
								visit(fl.Body, false)
							} else {
								visit(a, ctxOwner)
							}
						}
						visit(v.Fun, ctxOwner)
						return false
					case *ast.DeferStmt:
						g.noteCall(p, v.Call, caller, ctxOwner, &changed)
						if fl, ok := v.Call.Fun.(*ast.FuncLit); ok {
							visit(fl.Body, ctxOwner)
						}
						for _, a := range v.Call.Args {
							visit(a, ctxOwner)
						}
						return false
					case *ast.FuncLit:
						visit(v.Body, false)
						return false
					}
					return true
				})
			}
			visit(fd.Body, g.owner[caller])
		}
	}
	return changed
}

// recoverExec(logger, name, flag, func() error {...}) runs its closure synchronously on the calling
// goroutine (internal/actor/restart_message.go); chain.VoidFN(h.method) values are run by .Run() on the
// calling goroutine as well (they are method values, not literals, and are seen as calls by name below).
func isRecoverExec(call *ast.CallExpr) bool {
	if s, ok := call.Fun.(*ast.SelectorExpr); ok {
		return s.Sel.Name == "recoverExec"
	}
	return false
}

func (g *generator) noteCall(p *pkgData, call *ast.CallExpr, caller string, ctxOwner bool, changed *bool) {
	name := p.calleeName(call)
	if name == "" {
		return
	}
	var targets []string
	if strings.HasPrefix(name, "?.") {
		bare := name[2:]
		for k := range g.owner {
			if g.owner[k] && strings.HasSuffix(k, "."+bare) {
				targets = append(targets, k)
			}
		}
	} else if g.owner[name] {
		targets = []string{name}
	}
	if ctxOwner {
		return
	}
	sort.Strings(targets)
	for _, t := range targets {
		g.owner[t] = false
		*changed = true
		g.tab.Notes = append(g.tab.Notes, fmt.Sprintf("role: %s is listed owner-only but is called from the non-owner context %s (%s): demoted to any", t, caller, p.fset.Position(call.Pos())))
	}
}

// ---------------------------------------------------------------- the inventory walk

type lockKey struct {
	base string
	obj  *types.Var
}

type flow struct {
	locks map[lockKey]bool // held -> exclusive?
	phase map[string]int   // base -> phase of the completion event
	epoch map[lockKey]int  // held -> which acquisition (Lock statement instance) this is; -1: differs between paths
	nonnil   map[string]bool  // expressions (locals, field selectors) holding a map established non-nil on every path (panics.go)
	deferred map[lockKey]bool // locks whose unlock has been deferred in this function
}

func newFlow() *flow {
	return &flow{locks: map[lockKey]bool{}, phase: map[string]int{}, epoch: map[lockKey]int{}, nonnil: map[string]bool{}, deferred: map[lockKey]bool{}}
}

func (f *flow) clone() *flow {
	n := newFlow()
	for k, v := range f.locks {
		n.locks[k] = v
	}
	for k, v := range f.epoch {
		n.epoch[k] = v
	}
	for k, v := range f.phase {
		n.phase[k] = v
	}
	for k, v := range f.nonnil {
		n.nonnil[k] = v
	}
	for k, v := range f.deferred {
		n.deferred[k] = v
	}
	return n
}

func (f *flow) equal(o *flow) bool {
	if len(f.locks) != len(o.locks) || len(f.phase) != len(o.phase) || len(f.nonnil) != len(o.nonnil) {
		return false
	}
	for k := range f.nonnil {
		if !o.nonnil[k] {
			return false
		}
	}
	for k, v := range f.locks {
		if w, ok := o.locks[k]; !ok || w != v {
			return false
		}
	}
	for k, v := range f.phase {
		if o.phase[k] != v {
			return false
		}
	}
	for k := range f.locks {
		if f.epoch[k] != o.epoch[k] {
			return false
		}
	}
	return true
}

// meet: what is certainly true on both paths
func meet(fs []*flow) *flow {
	if len(fs) == 0 {
		return nil
	}
	r := fs[0].clone()
	for _, o := range fs[1:] {
		for k, v := range r.locks {
			w, ok := o.locks[k]
			if !ok {
				delete(r.locks, k)
				delete(r.epoch, k)
			} else {
				if v && !w {
					r.locks[k] = false
				}
				if r.epoch[k] != o.epoch[k] {
					r.epoch[k] = -1
				}
			}
		}
		for k, v := range r.phase {
			if o.phase[k] != v {
				delete(r.phase, k)
			}
		}
		for k := range r.nonnil {
			if !o.nonnil[k] {
				delete(r.nonnil, k)
			}
		}
		for k := range o.deferred {
			r.deferred[k] = true
		}
	}
	return r
}

type aliasInfo struct {
	spec *fieldSpec
	base string
}

// containerAlias: a local variable holding the map of a tracked field (not an inner map)
type containerAlias struct {
	spec   *fieldSpec
	base   string
	epochs map[lockKey]int // the acquisitions of base's locks under which the alias was read from the field
	how    string
}

type walker struct {
	g      *generator
	p      *pkgData
	file   string
	fn     string
	owner  bool
	selfs  map[string]bool
	recv   string
	recvT  string
	alias  map[types.Object]aliasInfo
	outer  map[types.Object]containerAlias
	nclos  int
	fdecl  *ast.FuncDecl
	fresh  map[types.Object]*fieldSpec // locals holding a still private map that will be published into a tracked container
	depth  int                         // callee inlining depth (followCallee)
	only   map[types.Object]bool       // non-nil: a sub-walker following one parameter; records only accesses made through aliases
	allow  bool                        // (restricted mode) the emission in progress goes through a followed alias
	quiet  bool                        // pre-pass walker: resolves fields only, writes nothing
	okOf   map[types.Object]string     // `x, ok := M[k]`: ok -> printed x (panics.go)
}

func (g *generator) inventory(p *pkgData) {
	for i, f := range p.files {
		for _, d := range f.Decls {
			fd, ok := d.(*ast.FuncDecl)
			if !ok || fd.Body == nil {
				continue
			}
			tn, rn := recvInfo(fd)
			w := &walker{g: g, p: p, file: p.fnames[i], fn: funcName(p.name, fd), recv: rn, recvT: tn, alias: map[types.Object]aliasInfo{}, outer: map[types.Object]containerAlias{}, fresh: map[types.Object]*fieldSpec{}, fdecl: fd}
			w.owner = g.owner[w.fn]
			w.selfs = selfBases(tn, rn)
			fl := newFlow()
			w.block(fd.Body.List, fl)
		}
		// package-level variable initialisers
		for _, d := range f.Decls {
			if gd, ok := d.(*ast.GenDecl); ok && gd.Tok == token.VAR {
				w := &walker{g: g, p: p, file: p.fnames[i], fn: p.name + ".<package var>", alias: map[types.Object]aliasInfo{}, outer: map[types.Object]containerAlias{}, fresh: map[types.Object]*fieldSpec{}, selfs: map[string]bool{}}
				fl := newFlow()
				for _, s := range gd.Specs {
					for _, v := range s.(*ast.ValueSpec).Values {
						w.expr(v, fl)
					}
				}
			}
		}
	}
}

func exprString(e ast.Expr) string { return types.ExprString(e) }

// field resolves a selector to a tracked / mutex field.
func (w *walker) field(e ast.Expr) (*fieldInfo, string, bool) {
	se, ok := e.(*ast.SelectorExpr)
	if !ok {
		return nil, "", false
	}
	if sel, ok := w.p.info.Selections[se]; ok {
		if v, ok := sel.Obj().(*types.Var); ok && v.IsField() {
			if fi, ok := w.p.fields[v.Origin()]; ok {
				return fi, exprString(se.X), true
			}
		}
		return nil, "", false
	}
	// unresolved selector with a tracked name: syntactic fallback on the receiver, else unresolved
	for i := range tracked {
		t := &tracked[i]
		if t.Pkg == w.p.dir && t.Field == se.Sel.Name {
			if id, ok := se.X.(*ast.Ident); ok && id.Name == w.recv && w.recvT == t.Struct {
				for _, fi := range w.p.fields {
					if fi.spec == t {
						return fi, id.Name, true
					}
				}
			}
			// is it a package-qualified identifier or a known non-field? go/types records those in Uses
			if _, used := w.p.info.Uses[se.Sel]; used {
				return nil, "", false
			}
			if w.quiet {
				return nil, "", false
			}
			w.g.tab.Unresolved++
			w.g.tab.Notes = append(w.g.tab.Notes, fmt.Sprintf("unresolved: %s `%s` in %s has the name of a tracked field but could not be typed; kept as an unprotected write", w.p.fset.Position(se.Pos()), exprString(se), w.fn))
			for _, fi := range w.p.fields {
				if fi.spec == t {
					return &fieldInfo{spec: t, kind: kPlain, name: fi.name + " (unresolved)"}, "?", true
				}
			}
		}
	}
	return nil, "", false
}

func (w *walker) emit(pos token.Pos, loc int, write, atomic bool, base string, fl *flow, e ast.Expr, note string) int {
	if w.quiet || (w.only != nil && !w.allow) {
		return -1
	}
	position := w.p.fset.Position(pos)
	a := Access{File: w.file, Line: position.Line, Col: position.Column, Func: w.fn, Loc: loc, Write: write, Atomic: atomic, Base: base, Expr: exprString(e), Note: note}
	a.Owner = w.owner && w.selfs[base]
	if base == "?" {
		a.Owner = false
	}
	var keys []lockKey
	for k := range fl.locks {
		if k.base == base {
			keys = append(keys, k)
		}
	}
	sort.Slice(keys, func(i, j int) bool { return w.p.fields[keys[i].obj].name < w.p.fields[keys[j].obj].name })
	for _, k := range keys {
		name := w.p.fields[k.obj].name
		id, ok := w.g.lockIDs[name]
		if !ok {
			id = len(w.g.lockIDs) + 1
			w.g.lockIDs[name] = id
			w.g.tab.LockNames[id] = name
		}
		a.Locks = append(a.Locks, HeldLock{ID: id, Name: name, Excl: fl.locks[k]})
	}
	for _, ev := range events {
		if ev.Pkg == w.p.dir {
			if ph := fl.phase[base]; ph != 0 {
				a.Phase, a.Event = ph, ev.ID
			}
		}
	}
	w.g.tab.Accesses = append(w.g.tab.Accesses, a)
	return len(w.g.tab.Accesses) - 1
}

// closure walks a function literal as a function of its own: nothing held, no phase.
func (w *walker) closure(fl *ast.FuncLit, inheritRole bool) {
	w.nclos++
	sub := *w
	sub.fn = fmt.Sprintf("%s$%d", w.fn, w.nclos)
	if !inheritRole {
		sub.owner = false
	}
	nf := newFlow()
	sub.block(fl.Body.List, nf)
	w.nclos = sub.nclos
}

func isTerminatingCall(e ast.Expr) bool {
	if c, ok := e.(*ast.CallExpr); ok {
		if id, ok := c.Fun.(*ast.Ident); ok && id.Name == "panic" {
			return true
		}
	}
	return false
}

// lockCall recognises B.mu.Lock() etc. on a mutex FIELD.
func (w *walker) lockCall(e ast.Expr) (lockKey, string, bool) {
	c, ok := e.(*ast.CallExpr)
	if !ok || len(c.Args) != 0 {
		return lockKey{}, "", false
	}
	se, ok := c.Fun.(*ast.SelectorExpr)
	if !ok {
		return lockKey{}, "", false
	}
	switch se.Sel.Name {
	case "Lock", "Unlock", "RLock", "RUnlock":
	default:
		return lockKey{}, "", false
	}
	fi, base, ok := w.field(se.X)
	if !ok || fi.kind != kMutex {
		return lockKey{}, "", false
	}
	inner := se.X.(*ast.SelectorExpr)
	sel := w.p.info.Selections[inner]
	if sel == nil {
		return lockKey{}, "", false
	}
	return lockKey{base: base, obj: sel.Obj().(*types.Var).Origin()}, se.Sel.Name, true
}

// gate recognises [!]B.closed.CompareAndSwap(false, true) for a configured event.
func (w *walker) gate(e ast.Expr) (base string, negated, ok bool) {
	if u, isU := e.(*ast.UnaryExpr); isU && u.Op == token.NOT {
		b, _, ok2 := w.gate(u.X)
		return b, true, ok2
	}
	if p, isP := e.(*ast.ParenExpr); isP {
		return w.gate(p.X)
	}
	c, isC := e.(*ast.CallExpr)
	if !isC || len(c.Args) != 2 {
		return "", false, false
	}
	se, isS := c.Fun.(*ast.SelectorExpr)
	if !isS || se.Sel.Name != "CompareAndSwap" {
		return "", false, false
	}
	a0, ok0 := c.Args[0].(*ast.Ident)
	a1, ok1 := c.Args[1].(*ast.Ident)
	if !ok0 || !ok1 || a0.Name != "false" || a1.Name != "true" {
		return "", false, false
	}
	fi, b, okf := w.field(se.X)
	if !okf || fi.spec == nil {
		return "", false, false
	}
	for _, ev := range events {
		if ev.Pkg == w.p.dir && ev.Struct == fi.spec.Struct && ev.Gate == fi.spec.Field {
			return b, false, true
		}
	}
	return "", false, false
}

// signal recognises close(B.done) / <-B.done for a configured event; returns the base.
func (w *walker) signal(e ast.Expr) (string, bool) {
	var arg ast.Expr
	switch x := e.(type) {
	case *ast.CallExpr:
		if id, ok := x.Fun.(*ast.Ident); ok && id.Name == "close" && len(x.Args) == 1 {
			arg = x.Args[0]
		}
	case *ast.UnaryExpr:
		if x.Op == token.ARROW {
			arg = x.X
		}
	}
	if arg == nil {
		return "", false
	}
	fi, b, ok := w.field(arg)
	if !ok || fi.spec == nil {
		return "", false
	}
	for _, ev := range events {
		if ev.Pkg == w.p.dir && ev.Struct == fi.spec.Struct && ev.Signal == fi.spec.Field {
			return b, true
		}
	}
	return "", false
}

// block walks a statement list; returns true when control cannot fall out of its end.
func (w *walker) block(list []ast.Stmt, fl *flow) bool {
	term := false
	for _, s := range list {
		if w.stmt(s, fl) {
			term = true
		}
	}
	return term
}

func (w *walker) stmt(s ast.Stmt, fl *flow) bool {
	switch x := s.(type) {
	case nil:
		return false
	case *ast.ExprStmt:
		if k, op, ok := w.lockCall(x.X); ok {
			switch op {
			case "Lock":
				fl.locks[k] = true
				w.g.epochs++
				fl.epoch[k] = w.g.epochs
			case "RLock":
				if _, held := fl.locks[k]; !held {
					fl.locks[k] = false
					w.g.epochs++
					fl.epoch[k] = w.g.epochs
				}
			default:
				w.unlockSite(x.Pos(), x.X, k, op, fl, false)
				delete(fl.locks, k)
				delete(fl.epoch, k)
			}
			return false
		}
		w.expr(x.X, fl)
		if b, ok := w.signal(x.X); ok {
			fl.phase[b] = 2
		}
		return isTerminatingCall(x.X)
	case *ast.AssignStmt:
		w.assign(x, fl)
		for _, r := range x.Rhs {
			if b, ok := w.signal(r); ok {
				fl.phase[b] = 2
			}
		}
		return false
	case *ast.IncDecStmt:
		w.lhs(x.X, fl)
		return false
	case *ast.DeclStmt:
		if gd, ok := x.Decl.(*ast.GenDecl); ok {
			for _, sp := range gd.Specs {
				if vs, ok := sp.(*ast.ValueSpec); ok {
					if len(vs.Values) == 1 && len(vs.Names) >= 1 {
						w.maybeAlias(vs.Names[0], vs.Values[0])
						w.maybeContainerAlias(vs.Names[0], vs.Values[0], fl)
						if w.only == nil {
							w.noteDefinition(vs.Names[0], vs.Values[0], len(vs.Names) == 1)
						}
					}
					for _, v := range vs.Values {
						w.expr(v, fl)
					}
				}
			}
		}
		return false
	case *ast.ReturnStmt:
		for _, r := range x.Results {
			w.expr(r, fl)
		}
		return true
	case *ast.BranchStmt:
		return x.Tok != token.FALLTHROUGH
	case *ast.BlockStmt:
		return w.block(x.List, fl)
	case *ast.LabeledStmt:
		return w.stmt(x.Stmt, fl)
	case *ast.GoStmt:
		for _, a := range x.Call.Args {
			w.expr(a, fl)
		}
		if lit, ok := x.Call.Fun.(*ast.FuncLit); ok {
			w.closure(lit, false)
		} else {
			w.expr(x.Call.Fun, fl)
		}
		return false
	case *ast.DeferStmt:
		if k, op, ok := w.lockCall(x.Call); ok {
			if op == "Unlock" || op == "RUnlock" {
				w.unlockSite(x.Pos(), x, k, op, fl, true)
			}
			return false // held to the end of the function
		}
		for _, a := range x.Call.Args {
			w.expr(a, fl)
		}
		if lit, ok := x.Call.Fun.(*ast.FuncLit); ok {
			w.closure(lit, true)
		} else {
			w.expr(x.Call.Fun, fl)
		}
		return false
	case *ast.SendStmt:
		if fi, b, ok := w.field(x.Chan); ok && fi.spec != nil && fi.kind == kChan {
			ph := fl.phase[b]
			w.psite(x.Pos(), "send", x, ph == 1, map[bool]string{true: "sent by the claimant of the once-event, before it closes the channel", false: "not in the claimed phase of the channel's once-event"}[ph == 1], fi.spec.Loc, ph, 1)
			w.emit(x.Chan.Pos(), fi.spec.Loc, false, true, b, fl, x.Chan, "channel send")
		} else {
			w.expr(x.Chan, fl)
		}
		w.expr(x.Value, fl)
		return false
	case *ast.IfStmt:
		w.stmt(x.Init, fl)
		w.expr(x.Cond, fl)
		thenF, elseF := fl.clone(), fl.clone()
		w.condFacts(x.Cond, thenF, elseF)
		if b, neg, ok := w.gate(x.Cond); ok {
			if neg {
				elseF.phase[b] = 1
			} else {
				thenF.phase[b] = 1
			}
		}
		t1 := w.block(x.Body.List, thenF)
		t2 := false
		if x.Else != nil {
			t2 = w.stmt(x.Else, elseF)
		}
		var outs []*flow
		if !t1 {
			outs = append(outs, thenF)
		}
		if !t2 {
			outs = append(outs, elseF)
		}
		if m := meet(outs); m != nil {
			*fl = *m
			return false
		}
		return true
	case *ast.ForStmt:
		w.stmt(x.Init, fl)
		w.loop(fl, func(f *flow) bool {
			if x.Cond != nil {
				w.expr(x.Cond, f)
			}
			t := w.block(x.Body.List, f)
			w.stmt(x.Post, f)
			return t
		})
		return false
	case *ast.RangeStmt:
		w.rangeExpr(x.X, fl)
		if x.Tok == token.ASSIGN {
			if x.Key != nil {
				w.lhs(x.Key, fl)
			}
			if x.Value != nil {
				w.lhs(x.Value, fl)
			}
		}
		w.loop(fl, func(f *flow) bool { return w.block(x.Body.List, f) })
		return false
	case *ast.SwitchStmt:
		w.stmt(x.Init, fl)
		if x.Tag != nil {
			w.expr(x.Tag, fl)
		}
		return w.clauses(x.Body, fl)
	case *ast.TypeSwitchStmt:
		w.stmt(x.Init, fl)
		w.stmt(x.Assign, fl)
		return w.clauses(x.Body, fl)
	case *ast.SelectStmt:
		return w.clauses(x.Body, fl)
	case *ast.EmptyStmt:
		return false
	}
	// anything else: scan its expressions
	ast.Inspect(s, func(n ast.Node) bool {
		if e, ok := n.(ast.Expr); ok {
			w.expr(e, fl)
			return false
		}
		return true
	})
	return false
}

// loop: the body is analysed with what certainly holds at EVERY entry (first entry and back-edges).
func (w *walker) loop(fl *flow, body func(*flow) bool) {
	entry := fl.clone()
	for i := 0; i < 4; i++ {
		mark := len(w.g.tab.Accesses)
		nclos := w.nclos
		f := entry.clone()
		term := body(f)
		next := entry
		if !term {
			next = meet([]*flow{entry, f})
		}
		if next.equal(entry) {
			break
		}
		// re-analyse with the weaker entry state
		w.g.tab.Accesses = w.g.tab.Accesses[:mark]
		w.nclos = nclos
		entry = next
	}
	*fl = *entry
}

func (w *walker) clauses(body *ast.BlockStmt, fl *flow) bool {
	var outs []*flow
	hasDefault := false
	for _, c := range body.List {
		f := fl.clone()
		var list []ast.Stmt
		switch cc := c.(type) {
		case *ast.CaseClause:
			if cc.List == nil {
				hasDefault = true
			}
			for _, e := range cc.List {
				w.expr(e, f)
			}
			list = cc.Body
		case *ast.CommClause:
			if cc.Comm == nil {
				hasDefault = true
			}
			w.stmt(cc.Comm, f)
			list = cc.Body
		}
		if !w.block(list, f) {
			outs = append(outs, f)
		}
	}
	if !hasDefault {
		// a switch without default may run no clause at all (a select without default blocks; the
		// meet with the entry state is the conservative choice for both)
		outs = append(outs, fl.clone())
	}
	if m := meet(outs); m != nil {
		*fl = *m
		return false
	}
	return true
}

// ---------------------------------------------------------------- expressions

// innerOf: is e an expression denoting an inner map of a tracked field (B.f[k] or a local alias)?
func (w *walker) innerOf(e ast.Expr) (*fieldSpec, string, ast.Expr, bool) {
	spec, base, idx, _, ok := w.innerOf2(e)
	return spec, base, idx, ok
}

// innerOf2 also tells whether the map is a still private one (a fresh local that will be published later)
func (w *walker) innerOf2(e ast.Expr) (spec *fieldSpec, base string, idx ast.Expr, fresh bool, ok bool) {
	switch x := e.(type) {
	case *ast.ParenExpr:
		return w.innerOf2(x.X)
	case *ast.IndexExpr:
		if fi, b, ok := w.field(x.X); ok && fi.spec != nil && fi.spec.Inner != 0 {
			return fi.spec, b, x, false, true
		}
	case *ast.Ident:
		if obj := w.p.info.Uses[x]; obj != nil {
			if a, ok := w.alias[obj]; ok {
				return a.spec, a.base, nil, false, true
			}
			if sp, ok := w.fresh[obj]; ok {
				return sp, "<private>", nil, true, true
			}
		}
	}
	return nil, "", nil, false, false
}

// touchInner records an access to the inner map denoted by e (and the outer index read it implies).
func (w *walker) touchInner(e ast.Expr, write bool, fl *flow, note string) bool {
	spec, base, idx, fresh, ok := w.innerOf2(e)
	if !ok {
		return false
	}
	if idx != nil {
		ie := idx.(*ast.IndexExpr)
		w.emit(ie.X.Pos(), spec.Loc, false, false, base, fl, ie.X, "index (to reach the inner map)")
		w.expr(ie.Index, fl)
	}
	if fresh {
		note += "; the map is still private to its creator (stored into " + spec.Struct + "." + spec.Field + " later)"
	}
	w.allow = idx == nil
	i := w.emit(e.Pos(), spec.Inner, write, false, base, fl, e, note)
	w.allow = false
	if i >= 0 && w.g.tab.Accesses[i].Phase == 0 {
		// publication discipline of inner maps (event 2): private before the store into the container, reached through it after
		w.g.tab.Accesses[i].Event = publicationEvent
		if fresh {
			w.g.tab.Accesses[i].Phase = 1
		} else {
			w.g.tab.Accesses[i].Phase = 2
		}
	}
	return true
}

// isMapField: fi is a tracked plain field whose declared type is a map
func (w *walker) isMapField(fi *fieldInfo, e ast.Expr) bool {
	if fi == nil || fi.spec == nil || fi.kind != kPlain {
		return false
	}
	if tv, ok := w.p.info.Types[e]; ok && tv.Type != nil {
		_, isMap := tv.Type.Underlying().(*types.Map)
		return isMap
	}
	return false
}

func (w *walker) heldEpochs(base string, fl *flow) map[lockKey]int {
	m := map[lockKey]int{}
	for k := range fl.locks {
		if k.base == base && fl.epoch[k] > 0 {
			m[k] = fl.epoch[k]
		}
	}
	return m
}

func (w *walker) maybeContainerAlias(name *ast.Ident, rhs ast.Expr, fl *flow) {
	if w.only != nil {
		return
	}
	obj := w.p.info.Defs[name]
	if obj == nil {
		obj = w.p.info.Uses[name]
	}
	if obj == nil {
		return
	}
	for {
		if pe, ok := rhs.(*ast.ParenExpr); ok {
			rhs = pe.X
			continue
		}
		break
	}
	switch x := rhs.(type) {
	case *ast.SelectorExpr:
		if fi, b, ok := w.field(x); ok && w.isMapField(fi, x) {
			w.outer[obj] = containerAlias{fi.spec, b, w.heldEpochs(b, fl), "read from the field at line " + fmt.Sprint(w.p.fset.Position(x.Pos()).Line)}
			return
		}
	case *ast.CallExpr:
		if se, ok := x.Fun.(*ast.SelectorExpr); ok && len(x.Args) == 0 {
			if spec := w.g.containerHelpers[w.p.calleeName(x)]; spec != nil {
				b := exprString(se.X)
				// the helper's own critical section (if any) has ended when it returns: only locks the CALLER holds count
				w.outer[obj] = containerAlias{spec, b, w.heldEpochs(b, fl), fmt.Sprintf("returned by %s() at line %d", se.Sel.Name, w.p.fset.Position(x.Pos()).Line)}
				return
			}
		}
	case *ast.Ident:
		if o2 := w.p.info.Uses[x]; o2 != nil {
			if a, ok := w.outer[o2]; ok {
				w.outer[obj] = a
				return
			}
		}
	}
	delete(w.outer, obj) // re-assigned to something else
}

// containerOf: is e a local alias of the map of a tracked field?
func (w *walker) containerOf(e ast.Expr) (containerAlias, bool) {
	for {
		if pe, ok := e.(*ast.ParenExpr); ok {
			e = pe.X
			continue
		}
		break
	}
	if id, ok := e.(*ast.Ident); ok {
		if obj := w.p.info.Uses[id]; obj != nil {
			a, ok := w.outer[obj]
			return a, ok
		}
	}
	return containerAlias{}, false
}

// touchContainer records an access to a tracked map through a local alias. A lock of the alias' base counts
// only if it is still the acquisition under which the alias was read from the field.
func (w *walker) touchContainer(e ast.Expr, whole ast.Expr, write bool, fl *flow, what string) bool {
	a, ok := w.containerOf(e)
	if !ok {
		return false
	}
	f2 := fl.clone()
	stale := false
	for k := range f2.locks {
		if k.base != a.base {
			continue
		}
		if ep, had := a.epochs[k]; !had || ep != f2.epoch[k] {
			delete(f2.locks, k)
			delete(f2.epoch, k)
			stale = true
		}
	}
	note := what + " through the local alias `" + exprString(e) + "` of the map (" + a.how + ")"
	if stale {
		note += "; the lock held here is NOT the critical section in which the map was read from the field, so it does not count (stale table: the field may have been re-assigned in between)"
	}
	w.allow = true
	w.emit(whole.Pos(), a.spec.Loc, write, false, a.base, f2, whole, note)
	w.allow = false
	return true
}

// findContainerHelpers: methods `func (R *T) m() M { ... return R.f }` for a tracked plain map field f.
func (g *generator) findContainerHelpers(p *pkgData) {
	for _, f := range p.files {
		for _, d := range f.Decls {
			fd, ok := d.(*ast.FuncDecl)
			if !ok || fd.Body == nil || fd.Recv == nil || fd.Type.Results == nil || len(fd.Type.Results.List) != 1 {
				continue
			}
			_, rn := recvInfo(fd)
			if rn == "" {
				continue
			}
			ast.Inspect(fd.Body, func(n ast.Node) bool {
				if _, isLit := n.(*ast.FuncLit); isLit {
					return false
				}
				rs, ok := n.(*ast.ReturnStmt)
				if !ok || len(rs.Results) != 1 {
					return true
				}
				se, ok := rs.Results[0].(*ast.SelectorExpr)
				if !ok {
					return true
				}
				if id, ok := se.X.(*ast.Ident); !ok || id.Name != rn {
					return true
				}
				sel, ok := p.info.Selections[se]
				if !ok {
					return true
				}
				v, ok := sel.Obj().(*types.Var)
				if !ok || !v.IsField() {
					return true
				}
				fi := p.fields[v.Origin()]
				if fi == nil || fi.spec == nil || fi.kind != kPlain {
					return true
				}
				if _, isMap := v.Type().Underlying().(*types.Map); !isMap {
					return true
				}
				name := funcName(p.name, fd)
				if g.containerHelpers[name] == nil {
					g.containerHelpers[name] = fi.spec
					g.tab.Notes = append(g.tab.Notes, fmt.Sprintf("container helper: %s returns the map %s.%s of its receiver; callers' uses of the result are inventoried as accesses of that field", name, fi.spec.Struct, fi.spec.Field))
				}
				return true
			})
		}
	}
}

func (w *walker) maybeAlias(name *ast.Ident, rhs ast.Expr) {
	if id, ok := rhs.(*ast.Ident); ok { // y := x for an alias / private map x
		if src := w.p.info.Uses[id]; src != nil {
			if dst := objOf(w.p, name); dst != nil && dst != src {
				if a, ok := w.alias[src]; ok {
					w.alias[dst] = a
					delete(w.fresh, dst)
				} else if sp, ok := w.fresh[src]; ok {
					w.fresh[dst] = sp
					delete(w.alias, dst)
				}
			}
		}
		return
	}
	if w.only != nil {
		return
	}
	if ie, ok := rhs.(*ast.IndexExpr); ok {
		if fi, b, ok := w.field(ie.X); ok && fi.spec != nil && fi.spec.Inner != 0 {
			obj := w.p.info.Defs[name]
			if obj == nil {
				obj = w.p.info.Uses[name]
			}
			if obj != nil {
				w.alias[obj] = aliasInfo{fi.spec, b}
			}
		}
	}
}

func (w *walker) assign(x *ast.AssignStmt, fl *flow) {
	if len(x.Rhs) == 1 && len(x.Lhs) >= 1 {
		if id, ok := x.Lhs[0].(*ast.Ident); ok {
			w.maybeAlias(id, x.Rhs[0])
			if len(x.Lhs) == 1 {
				w.maybeContainerAlias(id, x.Rhs[0], fl)
			}
			if w.only == nil {
				w.noteDefinition(id, x.Rhs[0], len(x.Lhs) == 1)
			}
		}
	}
	for _, r := range x.Rhs {
		w.expr(r, fl)
	}
	if len(x.Lhs) == len(x.Rhs) {
		for i, l := range x.Lhs {
			w.mapAssignSites(l, x.Rhs[i], fl)
		}
	}
	for _, l := range x.Lhs {
		w.lhs(l, fl)
	}
	if len(x.Lhs) == len(x.Rhs) {
		for i, l := range x.Lhs {
			w.noteAssignNonNil(l, x.Rhs[i], fl)
		}
	} else {
		for _, l := range x.Lhs {
			if id, ok := l.(*ast.Ident); ok {
				delete(fl.nonnil, id.Name)
			}
		}
		// x, ok := M[k] for a tracked map-of-maps M (whose stored values are never nil: kind map-store)
		if len(x.Lhs) == 2 && len(x.Rhs) == 1 {
			if ie, isIdx := x.Rhs[0].(*ast.IndexExpr); isIdx {
				if fi, _, isF := w.field(ie.X); isF && fi.spec != nil && fi.spec.Inner != 0 {
					if xv, ok1 := x.Lhs[0].(*ast.Ident); ok1 {
						if okv, ok2 := x.Lhs[1].(*ast.Ident); ok2 && okv.Name != "_" {
							if w.okOf == nil {
								w.okOf = map[types.Object]string{}
							}
							if o := objOf(w.p, okv); o != nil {
								w.okOf[o] = xv.Name
							}
						}
					}
				}
			}
		}
	}
	if len(x.Lhs) == 1 && len(x.Rhs) == 1 && w.only == nil {
		w.publishLocal(x.Lhs[0], x.Rhs[0])
	}
}

// mapAssignSites: the panic-site kinds map-write / map-store / map-assign for one `lhs = rhs`
func (w *walker) mapAssignSites(lhs, rhs ast.Expr, fl *flow) {
	switch l := lhs.(type) {
	case *ast.IndexExpr:
		// the map that is written: a tracked field, an inner map, a local alias of either
		var class int
		tracked := false
		if fi, _, ok := w.field(l.X); ok && fi.spec != nil && w.isMapField(fi, l.X) {
			class, tracked = fi.spec.Loc, true
			if fi.spec.Inner != 0 { // B.f[k] = e stores an inner map
				okv, why := w.nonNilExpr(rhs, fl)
				w.psite(l.Pos(), "map-store", l, okv, "stored value: "+why, fi.spec.Inner, 0, 0)
			}
		} else if spec, _, _, _, ok := w.innerOf2(l.X); ok {
			class, tracked = spec.Inner, true
		} else if ca, ok := w.containerOf(l.X); ok {
			class, tracked = ca.spec.Loc, true
		}
		if tracked {
			okv, why := w.nonNilExpr(l.X, fl)
			w.psite(l.Pos(), "map-write", l, okv, why, class, 0, 0)
		}
	}
}

// lhs: e is assigned to.
func (w *walker) lhs(e ast.Expr, fl *flow) {
	switch x := e.(type) {
	case *ast.ParenExpr:
		w.lhs(x.X, fl)
		return
	case *ast.SelectorExpr:
		if fi, b, ok := w.field(x); ok && fi.spec != nil {
			w.emit(x.Pos(), fi.spec.Loc, true, false, b, fl, x, "field assigned")
			w.expr(x.X, fl)
			return
		}
	case *ast.IndexExpr:
		if fi, b, ok := w.field(x.X); ok && fi.spec != nil {
			w.emit(x.X.Pos(), fi.spec.Loc, true, false, b, fl, x, "element assigned")
			w.expr(x.X.(*ast.SelectorExpr).X, fl)
			w.expr(x.Index, fl)
			return
		}
		if w.touchInner(x.X, true, fl, "inner element assigned") {
			w.expr(x.Index, fl)
			return
		}
		if w.touchContainer(x.X, x, true, fl, "element assigned") {
			w.expr(x.Index, fl)
			return
		}
	case *ast.Ident:
		return
	}
	w.expr(e, fl)
}

func (w *walker) rangeExpr(e ast.Expr, fl *flow) {
	if w.touchInner(e, false, fl, "range over the inner map") {
		return
	}
	if w.touchContainer(e, e, false, fl, "range") {
		return
	}
	w.expr(e, fl)
}

func (w *walker) atomicPkg(id *ast.Ident) bool {
	for f, im := range w.p.imports {
		if w.p.fset.Position(f.Pos()).Filename == w.p.fset.Position(id.Pos()).Filename {
			return im[id.Name] == "sync/atomic"
		}
	}
	return false
}

func (w *walker) call(c *ast.CallExpr, fl *flow) {
	// builtins
	if id, ok := c.Fun.(*ast.Ident); ok {
		switch id.Name {
		case "delete":
			if len(c.Args) == 2 {
				if fi, b, ok := w.field(c.Args[0]); ok && fi.spec != nil {
					w.emit(c.Args[0].Pos(), fi.spec.Loc, true, false, b, fl, c, "delete")
					w.expr(c.Args[0].(*ast.SelectorExpr).X, fl)
				} else if !w.touchInner(c.Args[0], true, fl, "delete from the inner map") && !w.touchContainer(c.Args[0], c, true, fl, "delete") {
					w.expr(c.Args[0], fl)
				}
				w.expr(c.Args[1], fl)
				return
			}
		case "len", "cap":
			if len(c.Args) == 1 {
				if !w.touchInner(c.Args[0], false, fl, id.Name+" of the inner map") && !w.touchContainer(c.Args[0], c, false, fl, id.Name) {
					w.expr(c.Args[0], fl)
				}
				return
			}
		case "clear":
			if len(c.Args) == 1 {
				if fi, b, ok := w.field(c.Args[0]); ok && fi.spec != nil {
					w.emit(c.Args[0].Pos(), fi.spec.Loc, true, false, b, fl, c, "clear")
					w.expr(c.Args[0].(*ast.SelectorExpr).X, fl)
				} else if !w.touchInner(c.Args[0], true, fl, "clear of the inner map") && !w.touchContainer(c.Args[0], c, true, fl, "clear") {
					w.expr(c.Args[0], fl)
				}
				return
			}
		case "close":
			if len(c.Args) == 1 {
				if fi, b, ok := w.field(c.Args[0]); ok && fi.spec != nil && fi.kind == kChan {
					ph := fl.phase[b]
					w.psite(c.Pos(), "close", c, ph == 1, map[bool]string{true: "only the winner of the once-event's CompareAndSwap(false, true) gets here, once", false: "not in the claimed phase of a once-event of `" + b + "`"}[ph == 1], fi.spec.Loc, ph, 1)
					w.emit(c.Args[0].Pos(), fi.spec.Loc, false, true, b, fl, c, "channel close")
					w.expr(c.Args[0].(*ast.SelectorExpr).X, fl)
					return
				}
			}
		}
	}
	if se, ok := c.Fun.(*ast.SelectorExpr); ok {
		// atomic.F(&B.f, ...)
		if id, ok := se.X.(*ast.Ident); ok && w.atomicPkg(id) && len(c.Args) >= 1 {
			if u, ok := c.Args[0].(*ast.UnaryExpr); ok && u.Op == token.AND {
				if fi, b, ok := w.field(u.X); ok && fi.spec != nil {
					write := !strings.HasPrefix(se.Sel.Name, "Load")
					w.emit(u.X.Pos(), fi.spec.Loc, write, true, b, fl, c, "sync/atomic."+se.Sel.Name)
					w.expr(u.X.(*ast.SelectorExpr).X, fl)
					for _, a := range c.Args[1:] {
						w.expr(a, fl)
					}
					return
				}
			}
		}
		// method call on a tracked field
		if fi, b, ok := w.field(se.X); ok && fi.spec != nil {
			m := se.Sel.Name
			switch fi.kind {
			case kAtomic:
				w.emit(se.X.Pos(), fi.spec.Loc, m != "Load", true, b, fl, c, "atomic type method "+m)
			case kSyncMap:
				w.emit(se.X.Pos(), fi.spec.Loc, !(m == "Load" || m == "Range"), true, b, fl, c, "sync.Map method "+m)
			default:
				w.emit(se.X.Pos(), fi.spec.Loc, false, false, b, fl, se.X, "method call on the field value: "+m)
			}
			w.expr(se.X.(*ast.SelectorExpr).X, fl)
			w.args(c, fl)
			return
		}
		if fi, _, ok := w.field(se.X); ok && fi.kind == kMutex {
			// a lock operation in expression position (not a plain statement): not tracked
			w.g.tab.Notes = append(w.g.tab.Notes, fmt.Sprintf("lock: %s `%s` is not a plain statement; ignored by the lexical lock tracking", w.p.fset.Position(c.Pos()), exprString(c)))
			return
		}
	}
	if lit, ok := c.Fun.(*ast.FuncLit); ok {
		w.args(c, fl)
		w.closure(lit, true) // immediately invoked: same goroutine (nothing held: conservative)
		return
	}
	w.expr(c.Fun, fl)
	w.args(c, fl)
}

func (w *walker) args(c *ast.CallExpr, fl *flow) {
	for i, a := range c.Args {
		if lit, ok := a.(*ast.FuncLit); ok {
			w.closure(lit, isRecoverExec(c)) // a callback runs on an unknown goroutine (recoverExec: synchronously)
			continue
		}
		if spec, base, _, fresh, ok := w.innerOf2(a); ok {
			wr := argWrites(c, i)
			name := w.p.calleeName(c)
			note := "inner map passed to a call"
			switch {
			case wr:
				note = "inner map passed to a library function that writes it"
			case name != "" && w.p.funcs[name] != nil:
				note = "inner map passed to " + name + " (the callee's uses of the parameter are inventoried as sites of their own)"
			default:
				note = "inner map passed to a call outside the package (assumed to read it only)"
			}
			w.touchInner(a, wr, fl, note)
			if !wr {
				if fresh {
					w.followCallee(c, i, nil, spec, nil, fl)
				} else {
					w.followCallee(c, i, &aliasInfo{spec, base}, nil, nil, fl)
				}
			}
			continue
		}
		if ca, ok := w.containerOf(a); ok {
			name := w.p.calleeName(c)
			note := "map passed to a call outside the package (what the callee does with it is not followed)"
			if name != "" && w.p.funcs[name] != nil {
				note = "map passed to " + name + " (the callee's uses of the parameter are inventoried as sites of their own)"
			}
			w.touchContainer(a, a, argWrites(c, i), fl, note)
			w.followCallee(c, i, nil, nil, &ca, fl)
			continue
		}
		w.expr(a, fl)
	}
}

// expr: e is evaluated for its value (read context).
func (w *walker) expr(e ast.Expr, fl *flow) {
	switch x := e.(type) {
	case nil:
		return
	case *ast.Ident, *ast.BasicLit:
		return
	case *ast.ParenExpr:
		w.expr(x.X, fl)
	case *ast.SelectorExpr:
		if fi, b, ok := w.field(x); ok && fi.spec != nil {
			w.emit(x.Pos(), fi.spec.Loc, false, false, b, fl, x, "read")
		}
		w.expr(x.X, fl)
	case *ast.CallExpr:
		w.call(x, fl)
	case *ast.IndexExpr:
		if fi, b, ok := w.field(x.X); ok && fi.spec != nil {
			w.emit(x.X.Pos(), fi.spec.Loc, false, false, b, fl, x, "element read")
			w.expr(x.X.(*ast.SelectorExpr).X, fl)
			w.expr(x.Index, fl)
			return
		}
		if w.touchInner(x.X, false, fl, "inner element read") {
			w.expr(x.Index, fl)
			return
		}
		if w.touchContainer(x.X, x, false, fl, "element read") {
			w.expr(x.Index, fl)
			return
		}
		w.expr(x.X, fl)
		w.expr(x.Index, fl)
	case *ast.IndexListExpr:
		w.expr(x.X, fl)
	case *ast.SliceExpr:
		w.expr(x.X, fl)
		w.expr(x.Low, fl)
		w.expr(x.High, fl)
		w.expr(x.Max, fl)
	case *ast.StarExpr:
		w.expr(x.X, fl)
	case *ast.UnaryExpr:
		switch x.Op {
		case token.AND:
			if fi, b, ok := w.field(x.X); ok && fi.spec != nil {
				w.emit(x.X.Pos(), fi.spec.Loc, true, false, b, fl, x, "address taken outside sync/atomic (treated as a write)")
				w.expr(x.X.(*ast.SelectorExpr).X, fl)
				return
			}
		case token.ARROW:
			if fi, b, ok := w.field(x.X); ok && fi.spec != nil && fi.kind == kChan {
				w.emit(x.X.Pos(), fi.spec.Loc, false, true, b, fl, x, "channel receive")
				w.expr(x.X.(*ast.SelectorExpr).X, fl)
				return
			}
		}
		w.expr(x.X, fl)
	case *ast.BinaryExpr:
		w.expr(x.X, fl)
		w.expr(x.Y, fl)
	case *ast.KeyValueExpr:
		w.expr(x.Key, fl)
		w.expr(x.Value, fl)
	case *ast.TypeAssertExpr:
		w.expr(x.X, fl)
	case *ast.FuncLit:
		w.closure(x, false)
	case *ast.CompositeLit:
		tracked := w.litStruct(x)
		for _, el := range x.Elts {
			if kv, ok := el.(*ast.KeyValueExpr); ok {
				if id, ok := kv.Key.(*ast.Ident); ok && tracked[id.Name] {
					w.g.tab.Inits++
				} else if _, isId := kv.Key.(*ast.Ident); !isId {
					w.expr(kv.Key, fl)
				}
				w.expr(kv.Value, fl)
				continue
			}
			w.expr(el, fl)
		}
	default:
		// types and anything else: nothing to read
	}
}

// litStruct: names of tracked fields of the struct a composite literal builds
func (w *walker) litStruct(c *ast.CompositeLit) map[string]bool {
	m := map[string]bool{}
	t := c.Type
	for {
		switch x := t.(type) {
		case *ast.IndexExpr:
			t = x.X
			continue
		case *ast.IndexListExpr:
			t = x.X
			continue
		}
		break
	}
	id, ok := t.(*ast.Ident)
	if !ok {
		return m
	}
	for _, tr := range tracked {
		if tr.Pkg == w.p.dir && tr.Struct == id.Name {
			m[tr.Field] = true
		}
	}
	return m
}
