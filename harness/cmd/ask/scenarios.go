package main

import (
	"errors"
	"fmt"
	"sync"
	"sync/atomic"
	"time"

	"github.com/kercylan98/vivid"
	"github.com/kercylan98/vivid/xverif/lib"
)

// ---- asker death with pending Asks racing completions ----
//
// One trial: a fresh asker actor whose ActorContext is handed out; Ask #1 (the asker's only pending Ask) to a gate
// actor; at the same instant Ask #1 completes (the gate's reply, or Close by its holder) and several goroutines issue
// further Asks through the SAME asker context to an actor that never answers (timeout: one minute); when all Asks have
// returned the asker is killed. Every Ask that is still pending must now complete promptly with the actor-dead error,
// exactly once - none may hang to its timeout.

type gateReq struct {
	release *atomic.Bool
	spin    int
}

func spinUntil(release *atomic.Bool, spin int) {
	for !release.Load() {
	}
	for i := 0; i < spin; i++ {
		_ = release.Load()
	}
}

func (h *H) racing(r *lib.Rand, thorough bool) {
	maxTrials, budget, workers := 250, 6*time.Second, 3
	if thorough {
		maxTrials, budget = 6000, 90*time.Second
	}
	const grace = 3 * time.Second
	sys := h.sys
	blackhole, err := sys.ActorOf(vivid.ActorFN(func(ctx vivid.ActorContext) {}))
	if err != nil {
		h.hit("harness", err.Error())
		return
	}
	gate, err := sys.ActorOf(vivid.ActorFN(func(ctx vivid.ActorContext) {
		if m, ok := ctx.Message().(*gateReq); ok {
			spinUntil(m.release, m.spin)
			ctx.Reply("ok")
		}
	}))
	if err != nil {
		h.hit("harness", err.Error())
		return
	}
	start := time.Now()
	for trial := 0; trial < maxTrials && time.Since(start) < budget; trial++ {
		h.count("racing-trial")
		ctxCh := make(chan vivid.ActorContext, 1)
		askerRef, err := sys.ActorOf(vivid.ActorFN(func(ctx vivid.ActorContext) {
			if _, ok := ctx.Message().(*vivid.OnLaunch); ok {
				ctxCh <- ctx
			}
		}))
		if err != nil {
			h.hit("harness", err.Error())
			return
		}
		var askerCtx vivid.ActorContext
		select {
		case askerCtx = <-ctxCh:
		case <-time.After(margin):
			h.hit("harness", "asker did not launch")
			return
		}
		release := new(atomic.Bool)
		byClose := trial%3 == 2
		var first vivid.Future[vivid.Message]
		errClosed := errors.New("closed by holder")
		if byClose {
			first = askerCtx.Ask(blackhole, "closed by its holder", time.Minute)
		} else {
			first = askerCtx.Ask(gate, &gateReq{release: release, spin: r.Intn(4000)}, time.Minute)
		}
		pending := make([]vivid.Future[vivid.Message], workers)
		var ready, done sync.WaitGroup
		ready.Add(workers)
		done.Add(workers)
		for i := 0; i < workers; i++ {
			spin := r.Intn(4000)
			go func(i int) {
				defer done.Done()
				ready.Done()
				spinUntil(release, spin)
				pending[i] = askerCtx.Ask(blackhole, "never answered", time.Minute)
			}(i)
		}
		if byClose {
			spin := r.Intn(4000)
			ready.Add(1)
			done.Add(1)
			go func() {
				defer done.Done()
				ready.Done()
				spinUntil(release, spin)
				first.Close(errClosed)
			}()
		}
		ready.Wait()
		time.Sleep(20 * time.Microsecond)
		release.Store(true)
		done.Wait()
		if m, e, ok := h.resultWithin(first, grace, "racing: first Ask"); ok {
			if byClose && !errors.Is(e, errClosed) || !byClose && (e != nil || m != "ok") {
				h.hit("wrong-result", fmt.Sprintf("racing trial %d: the first Ask returned (%v,%v)", trial, m, e))
			}
		}
		sys.Kill(askerRef, false, "verif: racing")
		deadline := time.Now().Add(grace)
		for i, fut := range pending {
			type res struct {
				m vivid.Message
				e error
			}
			ch := make(chan res, 1)
			go func() { m, e := fut.Result(); ch <- res{m, e} }()
			select {
			case x := <-ch:
				if !errors.Is(x.e, vivid.ErrorActorDeaded) || x.m != nil {
					h.hit("c04-pending-ask-wrong-result-at-asker-death", fmt.Sprintf("racing trial %d: Ask %d (never answered, timeout 1m, pending when its asker was killed) completed with (%v,%v), want the actor-dead error", trial, i, x.m, x.e))
				} else if m2, e2 := fut.Result(); m2 != nil || !errors.Is(e2, vivid.ErrorActorDeaded) {
					h.hit("completed-twice", fmt.Sprintf("racing trial %d: Ask %d: second Result differs", trial, i))
				}
			case <-time.After(time.Until(deadline)):
				h.hit("c04-pending-ask-not-dead-at-asker-death", fmt.Sprintf("racing trial %d (first Ask completed by %s while %d goroutines were in Ask on the same asker context): Ask %d (timeout 1m) is still pending %v after its asking actor was killed: no actor-dead completion, Result/Wait keep blocking", trial, map[bool]string{false: "reply", true: "Close"}[byClose], workers, i, grace))
				return // one failing trial is enough; the future hangs for a minute
			}
		}
	}
}

// ---- Asks issued by the asker's own kill processing ----
//
// doKill closes the futures the dying actor is waiting on FIRST and runs the actor's OnKill / child-OnKilled / own-OnKilled
// handlers afterwards; an Ask issued by those handlers is registered after that clean-up. Before /repo 3f0f6ad nothing
// completed such an Ask when it had no timer and nobody answered (finding C04-ask-during-kill, now repaired): the kill
// chain cleans up once more after the incarnation's last handler. Regression: every such Ask completes promptly after
// the asker has terminated - with actor-dead (or, when it has a short timer that fired first, with its timeout).
func (h *H) askDuringKill(thorough bool) {
	sys := h.sys
	silent, err := sys.ActorOf(vivid.ActorFN(func(ctx vivid.ActorContext) {}))
	if err != nil {
		h.hit("harness", err.Error())
		return
	}
	type variant struct {
		name      string
		handler   func(ctx vivid.ActorContext) bool // true: this is the message in whose handler the Ask is issued
		timeout   []time.Duration
		withChild bool
	}
	isKill := func(ctx vivid.ActorContext) bool { _, ok := ctx.Message().(*vivid.OnKill); return ok }
	isKilled := func(ctx vivid.ActorContext) bool {
		m, ok := ctx.Message().(*vivid.OnKilled)
		return ok && m.Ref.Equals(ctx.Ref())
	}
	isChildKilled := func(ctx vivid.ActorContext) bool {
		m, ok := ctx.Message().(*vivid.OnKilled)
		return ok && !m.Ref.Equals(ctx.Ref())
	}
	variants := []variant{
		{"OnKill handler, timeout 40ms", isKill, []time.Duration{40 * time.Millisecond}, false},
		{"OnKill handler, default timeout", isKill, nil, false},
		{"OnKill handler, no timer (timeout 0)", isKill, []time.Duration{0}, false},
		{"OnKilled handler, no timer (timeout 0)", isKilled, []time.Duration{0}, false},
		{"child-OnKilled handler, no timer (timeout 0)", isChildKilled, []time.Duration{0}, true},
	}
	rounds := 1
	if thorough {
		rounds = 20
	}
	for round := 0; round < rounds; round++ {
		for _, v := range variants {
			v := v
			h.count("ask-during-kill")
			out := make(chan vivid.Future[vivid.Message], 4)
			terminated := make(chan struct{})
			var once sync.Once
			ref, err := sys.ActorOf(vivid.ActorFN(func(ctx vivid.ActorContext) {
				if _, ok := ctx.Message().(*vivid.OnLaunch); ok && v.withChild {
					if _, err := ctx.ActorOf(vivid.ActorFN(func(vivid.ActorContext) {})); err != nil {
						h.hit("harness", err.Error())
					}
				}
				if v.handler(ctx) {
					out <- ctx.Ask(silent, "asked while being killed", v.timeout...)
				}
				if isKilled(ctx) {
					once.Do(func() { close(terminated) })
				}
			}))
			if err != nil {
				h.hit("harness", err.Error())
				return
			}
			time.Sleep(5 * time.Millisecond) // let OnLaunch (and the child) happen
			sys.Kill(ref, false, "verif: ask during kill")
			var fut vivid.Future[vivid.Message]
			select {
			case fut = <-out:
			case <-time.After(margin):
				h.hit("harness", "the dying actor did not ask: "+v.name)
				continue
			}
			select {
			case <-terminated:
			case <-time.After(margin):
				h.hit("harness", "the asker did not terminate: "+v.name)
				continue
			}
			wait := 600 * time.Millisecond
			type res struct {
				m vivid.Message
				e error
			}
			ch := make(chan res, 1)
			go func() { m, e := fut.Result(); ch <- res{m, e} }()
			select {
			case x := <-ch:
				switch {
				case x.m != nil || x.e == nil:
					h.hit("wrong-result", fmt.Sprintf("ask during kill (%s): never answered but completed with (%v,%v)", v.name, x.m, x.e))
				case errors.Is(x.e, vivid.ErrorActorDeaded):
				case errors.Is(x.e, vivid.ErrorFutureTimeout) && len(v.timeout) == 1 && v.timeout[0] > 0 && v.timeout[0] < wait:
				default:
					h.hit("wrong-result", fmt.Sprintf("ask during kill (%s): completed with %v, want actor-dead", v.name, x.e))
				}
				if m2, e2 := fut.Result(); m2 != x.m || e2 != x.e {
					h.hit("completed-twice", fmt.Sprintf("ask during kill (%s): second Result differs", v.name))
				}
			case <-time.After(wait):
				futs, agents, _, ok := regCounts(sys)
				h.mu.Lock()
				h.leakedFuts++
				h.leakedAgents++
				h.mu.Unlock()
				h.hit("c04-ask-during-kill-never-completed", fmt.Sprintf("an Ask issued by the asker's %s and never answered is still pending %v after its asking actor terminated: no actor-dead completion by the clean-up after the incarnation's last handler, Result/Wait keep blocking and its registration stays (tables readable=%v: %d futures in actorContexts, %d registry entries)", v.name, wait, ok, futs, agents))
			}
		}
	}
}

// ---- Entrust (context.go): a future completed by a task goroutine instead of a reply ----
//
// The task's message, its error, a panic (wrapped in ErrorFutureUnexpectedError) or the timeout complete the future -
// exactly once: a task that finishes after the timeout must not change the result.
type taskFn func() (vivid.Message, error)

func (t taskFn) Run() (vivid.Message, error) { return t() }

func (h *H) entrust() {
	sys := h.sys
	errTask := errors.New("task failed")
	type tc struct {
		name    string
		timeout time.Duration
		task    taskFn
		check   func(m vivid.Message, e error) bool
	}
	release := make(chan struct{})
	cases := []tc{
		{"message", 5 * time.Second, func() (vivid.Message, error) { return "done", nil }, func(m vivid.Message, e error) bool { return m == "done" && e == nil }},
		{"error", 5 * time.Second, func() (vivid.Message, error) { return nil, errTask }, func(m vivid.Message, e error) bool { return m == nil && errors.Is(e, errTask) }},
		{"panic", 5 * time.Second, func() (vivid.Message, error) { panic("boom") }, func(m vivid.Message, e error) bool { return m == nil && errors.Is(e, vivid.ErrorFutureUnexpectedError) }},
		{"slower than the timeout", 30 * time.Millisecond, func() (vivid.Message, error) { <-release; return "late", nil }, func(m vivid.Message, e error) bool { return m == nil && errors.Is(e, vivid.ErrorFutureTimeout) }},
	}
	for _, c := range cases {
		h.count("entrust")
		t0 := time.Now()
		fut := sys.Entrust(c.timeout, c.task)
		m, e, done := h.resultWithin(fut, margin, "entrust "+c.name)
		if !done {
			continue
		}
		if !c.check(m, e) {
			h.hit("wrong-result", fmt.Sprintf("entrust (%s) completed with (%v,%v)", c.name, m, e))
		}
		if errors.Is(e, vivid.ErrorFutureTimeout) && time.Since(t0) < c.timeout {
			h.hit("timeout-too-early", fmt.Sprintf("entrust (%s): timeout %v reported after %v", c.name, c.timeout, time.Since(t0)))
		}
		if c.name == "slower than the timeout" {
			close(release) // the task now finishes: the result must stay the timeout
			time.Sleep(50 * time.Millisecond)
		}
		if m2, e2 := fut.Result(); m2 != m || e2 != e || fut.Wait() != e {
			h.hit("completed-twice", fmt.Sprintf("entrust (%s): the result changed from (%v,%v) to (%v,%v)", c.name, m, e, m2, e2))
		}
	}
}

// ---- a pending Ask must be failed at the START of the asker's termination ----
//
// doKill completes the futures the dying actor is waiting on with actor-dead BEFORE it kills the children and runs the
// OnKill handler (the first clean-up of the kill chain: `ord1` of `incarnation a pre ord1 mid ord2` in Future/SysCover.v
// comes before the handlers' Asks). If that clean-up is deferred to the end of the incarnation, anything on the
// termination path that waits for such a future (the actor's own OnKill handler draining its in-flight requests, or a
// child's OnKill handler) blocks until the future's own timeout - for ever without one -, the actor never finishes dying
// and its registration stays. Deterministic: the asker Asks a silent actor with a one-hour timeout from a message handler,
// is killed, and the waiting handler calls Result() with a harness-side bound; after the bound the harness closes the
// future by hand so that the run can go on.
type askKeep struct{ done chan struct{} }

func (h *H) waitInKill() {
	sys := h.sys
	const bound = 2 * time.Second
	errUnblock := errors.New("closed by the harness after the bound")
	silent, err := sys.ActorOf(vivid.ActorFN(func(ctx vivid.ActorContext) {}))
	if err != nil {
		h.hit("harness", err.Error())
		return
	}
	// waitBounded is what the waiting handler does: join a goroutine blocked in Result(), with a timer
	waitBounded := func(where string, fut vivid.Future[vivid.Message]) {
		type res struct {
			m vivid.Message
			e error
		}
		ch := make(chan res, 1)
		t0 := time.Now()
		go func() { m, e := fut.Result(); ch <- res{m, e} }()
		select {
		case x := <-ch:
			if x.m != nil || !errors.Is(x.e, vivid.ErrorActorDeaded) {
				h.hit("c04-pending-ask-not-failed-at-kill", fmt.Sprintf("%s: the Ask issued before the kill (never answered, timeout 1h) completed with (%v,%v) after %v, want the actor-dead error", where, x.m, x.e, time.Since(t0)))
			}
		case <-time.After(bound):
			h.hit("c04-pending-ask-not-failed-at-kill", fmt.Sprintf("%s: the Ask issued before the kill (never answered, timeout 1h) is still pending %v after the termination of its asker started: it was not failed with actor-dead at the start of the kill chain, Result/Wait block, the actor cannot finish dying", where, bound))
			fut.Close(errUnblock) // let the termination go on
			<-ch
		}
	}
	for _, inChild := range []bool{false, true} {
		inChild := inChild
		where := "Result() in the asker's own OnKill handler"
		if inChild {
			where = "Result() in the OnKill handler of a child of the asker"
		}
		h.count("wait-in-kill")
		var mu sync.Mutex
		var kept vivid.Future[vivid.Message]
		get := func() vivid.Future[vivid.Message] { mu.Lock(); defer mu.Unlock(); return kept }
		terminated := make(chan struct{})
		var once sync.Once
		asker, err := sys.ActorOf(vivid.ActorFN(func(ctx vivid.ActorContext) {
			switch m := ctx.Message().(type) {
			case *vivid.OnLaunch:
				if inChild {
					if _, err := ctx.ActorOf(vivid.ActorFN(func(c vivid.ActorContext) {
						if _, ok := c.Message().(*vivid.OnKill); ok {
							if f := get(); f != nil {
								waitBounded(where, f)
							}
						}
					})); err != nil {
						h.hit("harness", err.Error())
					}
				}
			case askKeep:
				f := ctx.Ask(silent, "in flight when the asker is killed", time.Hour)
				mu.Lock()
				kept = f
				mu.Unlock()
				close(m.done)
			case *vivid.OnKill:
				if f := get(); f != nil && !inChild {
					waitBounded(where, f)
				}
			case *vivid.OnKilled:
				if m.Ref.Equals(ctx.Ref()) {
					once.Do(func() { close(terminated) })
				}
			}
		}))
		if err != nil {
			h.hit("harness", err.Error())
			return
		}
		asked := make(chan struct{})
		sys.Tell(asker, askKeep{asked})
		select {
		case <-asked:
		case <-time.After(margin):
			h.hit("harness", "wait-in-kill: the asker did not ask")
			continue
		}
		sys.Kill(asker, false, "verif: wait in kill")
		select {
		case <-terminated:
		case <-time.After(bound + margin):
			h.hit("c04-asker-never-finished-dying", fmt.Sprintf("%s: the asker has not terminated %v after it was killed", where, bound+margin))
		}
		// whatever happened, the future issued before the kill is completed now, exactly once
		if f := get(); f != nil {
			m1, e1, ok := h.resultWithin(f, margin, "wait-in-kill: the kept future")
			if ok {
				if m2, e2 := f.Result(); m2 != m1 || e2 != e1 {
					h.hit("completed-twice", "wait-in-kill: second Result differs")
				}
			}
		}
	}
}
