//go:build !verif

package main

import "github.com/kercylan98/vivid"

// Built without the verif accessors (they did not compile against the tree under test): the monitors that need to look
// into the system's tables stay silent, everything observable through the public API is still checked.
const accessorsAvailable = false

func regCounts(sys vivid.PrimaryActorSystem) (futs, agents int, paths []string, ok bool) {
	return 0, 0, nil, false
}
