//go:build verif

package main

import (
	"github.com/kercylan98/vivid"
	"github.com/kercylan98/vivid/internal/actor"
)

const accessorsAvailable = true

// regCounts: futures in actorContexts, entries of the Ask registry, the paths of the futures (verif accessors).
func regCounts(sys vivid.PrimaryActorSystem) (futs, agents int, paths []string, ok bool) {
	s, isSys := sys.(*actor.System)
	if !isSys {
		return 0, 0, nil, false
	}
	_, futs, agents = actor.XVRegistryCounts(s)
	return futs, agents, actor.XVFuturePaths(s), true
}
