// ask: C04 monitors on a REAL started actor system through the public API, with real goroutines and real time
// (generous margins): many concurrent Asks with replies, tiny and large timeouts, late replies, askers killed
// before the reply, PipeTo racing with the completion, name reuse, asker death with pending Asks racing completions,
// Asks issued by the asker's own kill processing. No model cases are emitted (monitors only).
//
// main.go uses the PUBLIC API only. The two places that look into the system's tables (the leak check at the end and
// while draining) go through regCounts, implemented in acc_verif.go (build tag verif: add-only accessors injected by
// overlay) and stubbed in acc_public.go (no tag): when the accessors do not compile against the tree under test, the
// framework builds this command without the tag and the public-API monitors keep searching for a failing input.
package main

import (
	"errors"
	"fmt"
	"os"
	"sync"
	"sync/atomic"
	"time"

	"github.com/kercylan98/vivid"
	"github.com/kercylan98/vivid/pkg/bootstrap"
	"github.com/kercylan98/vivid/pkg/log"
	"github.com/kercylan98/vivid/xverif/lib"
)

type req struct {
	id    uint64
	delay time.Duration // reply after this delay (0 = at once)
	never bool          // never reply
	hold  chan struct{} // reply when this channel is closed (a LATE reply released by the harness)
}
type rep struct{ id uint64 }

type askCmd struct {
	target  vivid.ActorRef
	id      uint64
	timeout time.Duration
	out     chan vivid.Future[vivid.Message]
	never   bool
	hold    chan struct{}
}

const margin = 3 * time.Second

type H struct {
	o  *lib.Out
	mu sync.Mutex
	n  map[string]int
	// registrations that belong to Asks already reported as never completed (they are not counted a second time as leaks)
	leakedFuts, leakedAgents int
	sys                      vivid.PrimaryActorSystem
}

func (h *H) hit(name, detail string) {
	h.mu.Lock()
	defer h.mu.Unlock()
	h.o.Monitor(name, nil, detail)
}
func (h *H) count(k string) {
	h.mu.Lock()
	h.n[k]++
	h.mu.Unlock()
}

// resultWithin calls Result on its own goroutine so that a future that never completes is reported, not hung on.
func (h *H) resultWithin(f vivid.Future[vivid.Message], d time.Duration, what string) (vivid.Message, error, bool) {
	type r struct {
		m vivid.Message
		e error
	}
	ch := make(chan r, 1)
	go func() {
		m, e := f.Result()
		ch <- r{m, e}
	}()
	select {
	case x := <-ch:
		return x.m, x.e, true
	case <-time.After(d):
		h.hit("blocked-beyond-completion", what+fmt.Sprintf(": Result did not return within %v", d))
		return nil, nil, false
	}
}

func main() {
	f := lib.ParseFlags()
	o := lib.NewOut(f.Out)
	h := &H{o: o, n: map[string]int{}}
	r := lib.NewRand(f.Seed)
	rounds, par := 20, 24
	if f.Tier == "thorough" {
		rounds, par = 400, 48
	}
	if f.N > 0 {
		rounds = f.N
	}
	sys := bootstrap.NewActorSystem(vivid.WithActorSystemLogger(log.NewTextLogger(log.WithLevel(log.LevelError))))
	h.sys = sys
	o.Info["accessors"] = accessorsAvailable
	if err := sys.Start(); err != nil {
		panic(err)
	}
	// the responder: replies rep{id} at once, after a delay (from another goroutine, through the captured
	// context's Reply equivalent: Tell to the sender), or never
	responder, err := sys.ActorOf(vivid.ActorFN(func(ctx vivid.ActorContext) {
		if m, ok := ctx.Message().(req); ok {
			switch {
			case m.never:
			case m.hold != nil:
				sender := ctx.Sender()
				go func() {
					<-m.hold
					sys.Tell(sender, rep{m.id})
				}()
			case m.delay > 0:
				sender := ctx.Sender()
				go func() {
					time.Sleep(m.delay)
					sys.Tell(sender, rep{m.id})
				}()
			default:
				ctx.Reply(rep{m.id})
			}
		}
	}))
	if err != nil {
		panic(err)
	}
	// collectors count the PipeResults they get per request id
	var collMu sync.Mutex
	type got struct {
		n    int
		ok   bool
		what string
	}
	collected := map[string]*got{} // "collector/id"
	mkCollector := func(name string) vivid.ActorRef {
		ref, err := sys.ActorOf(vivid.ActorFN(func(ctx vivid.ActorContext) {
			if pr, ok := ctx.Message().(*vivid.PipeResult); ok {
				collMu.Lock()
				defer collMu.Unlock()
				key := "?"
				good := false
				if m, ok := pr.Message.(rep); ok {
					key = fmt.Sprintf("%s/%d", name, m.id)
					good = pr.Error == nil
				} else {
					key = fmt.Sprintf("%s/err", name)
				}
				g := collected[key]
				if g == nil {
					g = &got{}
					collected[key] = g
				}
				g.n++
				g.ok = good
				g.what = fmt.Sprintf("(%v,%v)", pr.Message, pr.Error)
			}
		}))
		if err != nil {
			panic(err)
		}
		return ref
	}
	collA, collB := mkCollector("A"), mkCollector("B")
	var nextID atomic.Uint64
	var expectPipes sync.Map // key -> true

	for round := 0; round < rounds; round++ {
		var wg sync.WaitGroup
		for g := 0; g < par; g++ {
			kind := r.Intn(6)
			tiny := time.Duration(1+r.Intn(2000)) * time.Microsecond
			if r.Chance(1, 4) {
				tiny = time.Duration(1 + r.Intn(50)) // nanoseconds
			}
			wg.Add(1)
			go func(kind int, tiny time.Duration) {
				defer wg.Done()
				id := nextID.Add(1)
				switch kind {
				case 0: // plain ask/reply: own reply
					h.count("ask-reply")
					fut := sys.Ask(responder, req{id: id}, 10*time.Second)
					m, e, done := h.resultWithin(fut, margin, fmt.Sprintf("ask %d", id))
					if !done {
						return
					}
					if e != nil {
						h.hit("wrong-result", fmt.Sprintf("ask %d with a prompt reply failed: %v", id, e))
					} else if x, ok := m.(rep); !ok || x.id != id {
						h.hit("reply-misrouted", fmt.Sprintf("ask %d got reply %v", id, m))
					}
					m2, e2 := fut.Result()
					if m2 != m || e2 != e || fut.Wait() != e {
						h.hit("completed-twice", fmt.Sprintf("ask %d: second Result differs", id))
					}
				case 1: // tiny timeout, nobody replies
					h.count("ask-timeout")
					t0 := time.Now()
					fut := sys.Ask(responder, req{id: id, never: true}, tiny)
					m, e, done := h.resultWithin(fut, tiny+margin, fmt.Sprintf("ask %d timeout %v", id, tiny))
					if !done {
						return
					}
					el := time.Since(t0)
					if !errors.Is(e, vivid.ErrorFutureTimeout) || m != nil {
						h.hit("wrong-result", fmt.Sprintf("ask %d (never answered, timeout %v) returned (%v,%v)", id, tiny, m, e))
					}
					if el < tiny {
						h.hit("timeout-too-early", fmt.Sprintf("ask %d: timeout %v reported after %v", id, tiny, el))
					}
				case 2: // late reply after the timeout: the result stays the timeout
					h.count("ask-late-reply")
					fut := sys.Ask(responder, req{id: id, delay: 30 * time.Millisecond}, tiny)
					_, e, done := h.resultWithin(fut, tiny+margin, fmt.Sprintf("ask %d late reply", id))
					if !done {
						return
					}
					time.Sleep(80 * time.Millisecond)
					m2, e2 := fut.Result()
					if e2 != e || (e != nil && m2 != nil) {
						h.hit("completed-twice", fmt.Sprintf("ask %d: result changed from (_,%v) to (%v,%v) after a late reply", id, e, m2, e2))
					}
					if e == nil {
						// the reply won the race against a tiny timeout: legitimate only if it is our reply
						if x, ok := m2.(rep); !ok || x.id != id {
							h.hit("reply-misrouted", fmt.Sprintf("ask %d got %v", id, m2))
						}
					} else if !errors.Is(e, vivid.ErrorFutureTimeout) {
						h.hit("wrong-result", fmt.Sprintf("ask %d: %v", id, e))
					}
				case 3: // asker killed before the reply
					h.count("asker-killed")
					out := make(chan vivid.Future[vivid.Message], 1)
					asker, err := sys.ActorOf(vivid.ActorFN(func(ctx vivid.ActorContext) {
						if c, ok := ctx.Message().(askCmd); ok {
							c.out <- ctx.Ask(c.target, req{id: c.id, never: true}, c.timeout)
						}
					}))
					if err != nil {
						h.hit("harness", err.Error())
						return
					}
					sys.Tell(asker, askCmd{target: responder, id: id, timeout: 20 * time.Second, out: out})
					var fut vivid.Future[vivid.Message]
					select {
					case fut = <-out:
					case <-time.After(margin):
						h.hit("harness", "asker did not ask")
						return
					}
					sys.Kill(asker, false, "verif")
					m, e, done := h.resultWithin(fut, margin, fmt.Sprintf("ask %d of a killed asker", id))
					if !done {
						return
					}
					if !errors.Is(e, vivid.ErrorActorDeaded) || m != nil {
						h.hit("wrong-result", fmt.Sprintf("ask %d of a killed asker returned (%v,%v), want actor-dead", id, m, e))
					}
				case 4: // Future.PipeTo racing with the completion
					h.count("future-pipeto")
					fut := sys.Ask(responder, req{id: id}, 10*time.Second)
					expectPipes.Store(fmt.Sprintf("A/%d", id), true)
					expectPipes.Store(fmt.Sprintf("B/%d", id), true)
					if err := fut.PipeTo(vivid.ActorRefs{collA}); err != nil {
						h.hit("harness", err.Error())
					}
					if err := fut.PipeTo(vivid.ActorRefs{collB}); err != nil {
						h.hit("harness", err.Error())
					}
					h.resultWithin(fut, margin, fmt.Sprintf("ask %d piped", id))
				case 5: // Context.PipeTo
					h.count("context-pipeto")
					expectPipes.Store(fmt.Sprintf("A/%d", id), true)
					expectPipes.Store(fmt.Sprintf("B/%d", id), true)
					sys.PipeTo(responder, req{id: id}, vivid.ActorRefs{collA, collB}, 10*time.Second)
				}
			}(kind, tiny)
		}
		wg.Wait()
	}
	// ---- name reuse: reply addresses must be unique across incarnations of the asking actor ----
	// generation g of the actor named `name` makes k Asks that are answered LATE (on release); they end by timeout or
	// by the asker's death; the actor terminates; generation g+1 is spawned under the SAME name and parent and makes its
	// k Asks (never answered); then the late replies of generation g are released. No future of generation g+1 may
	// complete with a reply produced for a request of generation g.
	askerActor := func() vivid.Actor {
		return vivid.ActorFN(func(ctx vivid.ActorContext) {
			if c, ok := ctx.Message().(askCmd); ok {
				c.out <- ctx.Ask(c.target, req{id: c.id, never: c.never, hold: c.hold}, c.timeout)
			}
		})
	}
	spawnNamed := func(name string) (vivid.ActorRef, bool) {
		deadline := time.Now().Add(margin)
		for {
			ref, err := sys.ActorOf(askerActor(), vivid.WithActorName(name))
			if err == nil {
				return ref, true
			}
			if time.Now().After(deadline) {
				h.hit("harness", fmt.Sprintf("cannot respawn %s: %v", name, err))
				return nil, false
			}
			time.Sleep(time.Millisecond)
		}
	}
	type pending struct {
		id  uint64
		fut vivid.Future[vivid.Message]
	}
	askVia := func(asker vivid.ActorRef, k int, timeout time.Duration, hold chan struct{}) []pending {
		var out []pending
		for i := 0; i < k; i++ {
			id := nextID.Add(1)
			ch := make(chan vivid.Future[vivid.Message], 1)
			sys.Tell(asker, askCmd{target: responder, id: id, timeout: timeout, out: ch, never: hold == nil, hold: hold})
			select {
			case fut := <-ch:
				out = append(out, pending{id, fut})
			case <-time.After(margin):
				h.hit("harness", "named asker did not ask")
				return out
			}
		}
		return out
	}
	// completedNow reports the result if the future is completed within a short window
	completedNow := func(fut vivid.Future[vivid.Message]) (vivid.Message, error, bool) {
		type r struct {
			m vivid.Message
			e error
		}
		ch := make(chan r, 1)
		go func() {
			m, e := fut.Result()
			ch <- r{m, e}
		}()
		select {
		case x := <-ch:
			return x.m, x.e, true
		case <-time.After(60 * time.Millisecond):
			return nil, nil, false
		}
	}
	checkOwn := func(p pending, what string) {
		if m, e, done := completedNow(p.fut); done && e == nil {
			if x, ok := m.(rep); !ok || x.id != p.id {
				h.hit("reply-misrouted", fmt.Sprintf("%s: the future of request %d completed with %v, the reply to a DIFFERENT request", what, p.id, m))
			} else {
				h.hit("wrong-result", fmt.Sprintf("%s: request %d is never answered but completed with %v", what, p.id, m))
			}
		}
	}
	reuse := func(name string, gens, k int, byTimeout bool) {
		var release []chan struct{}
		var old [][]pending
		for g := 0; g < gens; g++ {
			h.count("name-reuse-generation")
			asker, ok := spawnNamed(name)
			if !ok {
				return
			}
			var mine []pending
			last := g == gens-1
			if last {
				mine = askVia(asker, k, 20*time.Second, nil) // never answered
			} else {
				hold := make(chan struct{})
				release = append(release, hold)
				to := 20 * time.Second
				if byTimeout {
					to = 2 * time.Millisecond
				}
				mine = askVia(asker, k, to, hold)
				old = append(old, mine)
				if byTimeout {
					for _, p := range mine {
						if _, e, done := h.resultWithin(p.fut, margin, "named asker timeout"); done && !errors.Is(e, vivid.ErrorFutureTimeout) {
							h.hit("wrong-result", fmt.Sprintf("request %d: want timeout, got %v", p.id, e))
						}
					}
				}
				sys.Kill(asker, false, "verif: next incarnation")
				for _, p := range mine {
					if _, e, done := h.resultWithin(p.fut, margin, "named asker killed"); done && e == nil {
						h.hit("wrong-result", fmt.Sprintf("request %d completed without error although it is unanswered", p.id))
					}
				}
				continue
			}
			// the last generation is pending: release every late reply of the earlier generations
			for _, hold := range release {
				close(hold)
			}
			for _, p := range mine {
				checkOwn(p, "name reuse "+name)
			}
			// the old futures keep their result
			for _, gen := range old {
				for _, p := range gen {
					if m, e := p.fut.Result(); e == nil {
						h.hit("completed-twice", fmt.Sprintf("request %d: a late reply changed the result to (%v,nil)", p.id, m))
					}
				}
			}
			sys.Kill(asker, false, "verif: done")
			for _, p := range mine {
				m, e, done := h.resultWithin(p.fut, margin, "last named asker killed")
				if done && e == nil {
					if x, ok := m.(rep); !ok || x.id != p.id {
						h.hit("reply-misrouted", fmt.Sprintf("name reuse %s: the future of request %d completed with %v", name, p.id, m))
					}
				}
			}
		}
	}
	{
		names := 4
		if f.Tier == "thorough" {
			names = 24
		}
		var wg sync.WaitGroup
		for i := 0; i < names; i++ {
			wg.Add(1)
			go func(i int) {
				defer wg.Done()
				reuse(fmt.Sprintf("reuse-%d", i), 2+i%2, 1+i%3, i%2 == 0)
			}(i)
		}
		wg.Wait()
	}
	h.racing(r, f.Tier == "thorough")
	h.askDuringKill(f.Tier == "thorough")
	h.entrust()
	h.waitInKill()
	// let the pipes and late replies drain
	deadline := time.Now().Add(margin)
	for time.Now().Before(deadline) {
		missing := 0
		expectPipes.Range(func(k, _ any) bool {
			collMu.Lock()
			g := collected[k.(string)]
			collMu.Unlock()
			if g == nil {
				missing++
			}
			return true
		})
		futs, agents, _, _ := regCounts(sys)
		if missing == 0 && futs-h.leakedFuts == 0 && agents-h.leakedAgents == 0 {
			break
		}
		time.Sleep(20 * time.Millisecond)
	}
	expectPipes.Range(func(k, _ any) bool {
		collMu.Lock()
		g := collected[k.(string)]
		collMu.Unlock()
		switch {
		case g == nil:
			h.hit("forwarder-count", fmt.Sprintf("forwarder %s received no PipeResult", k))
		case g.n != 1:
			h.hit("forwarder-count", fmt.Sprintf("forwarder %s received %d PipeResults", k, g.n))
		case !g.ok:
			h.hit("forwarder-wrong-result", fmt.Sprintf("forwarder %s received %s", k, g.what))
		}
		return true
	})
	collMu.Lock()
	for k, g := range collected {
		if _, ok := expectPipes.Load(k); !ok {
			h.hit("forwarder-wrong-result", fmt.Sprintf("unexpected PipeResult %s %s (a prompt reply must be forwarded as its message)", k, g.what))
		}
	}
	collMu.Unlock()
	if futs, agents, paths, ok := regCounts(sys); ok && (futs-h.leakedFuts != 0 || agents-h.leakedAgents != 0) {
		h.hit("registration-left", fmt.Sprintf("all Asks completed, but actorContexts still holds %d futures and futureAgents %d entries (of which %d / %d belong to the never-completed Asks reported separately): %v", futs, agents, h.leakedFuts, h.leakedAgents, paths))
	}
	for k, v := range h.n {
		o.Stats[k] = v
	}
	o.Info["rounds"] = rounds
	o.Info["parallel"] = par
	_ = sys.Stop(5 * time.Second)
	o.Close(f.Report)
	if len(o.Monitors) > 0 {
		os.Exit(3)
	}
}
