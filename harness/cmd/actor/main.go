// actor: the REAL actor runtime (internal/actor + guard + event stream, with the mailbox file re-instrumented
// from the tree under test) driven by the controlled scheduler. Every mailbox-level step is projected to an
// ActorCore event; the Coq model (coq/Actor/Core.v) replays the same events and must predict where each
// enqueue lands, which message each handler receives, everything user code observes, and the final state.
// Independently of the model, monitors evaluate C03/C05/C06/C09 on what the real runtime did.
package main

import (
	"fmt"
	"os"
	"sort"
	"strconv"
	"strings"
	"time"

	"github.com/kercylan98/vivid"
	"github.com/kercylan98/vivid/internal/actor"
	"github.com/kercylan98/vivid/internal/mailbox"
	"github.com/kercylan98/vivid/internal/queues"
	"github.com/kercylan98/vivid/pkg/log"
	"github.com/kercylan98/vivid/pkg/ves"
	"github.com/kercylan98/vivid/xverif/lib"
	"github.com/kercylan98/vivid/xverif/vsched"
)

// ---------------------------------------------------------------- scenario language (mirrors coq/Actor/Core.v)

type RX struct {
	K int // 0 self 1 parent 2 sender 3 child 4 path 5 held 6 nil
	N uint64
	P []uint64
}

func (r RX) T() lib.T {
	switch r.K {
	case 3:
		return lib.L(lib.N(3), lib.N(r.N))
	case 4:
		return lib.L(lib.N(4), pathT(r.P))
	case 5:
		return lib.L(lib.N(5), lib.N(r.N))
	}
	return lib.L(lib.N(uint64(r.K)))
}

const (
	aTell = iota
	aTellSelf
	aSpawn
	aKill
	aStash
	aUnstash
	aPanic
	aWatch
	aUnwatch
	aSub
	aUnsub
	aUnsubAll
	aPub
	aBecome
	aUnbecome
)

type Action struct {
	K       int
	R       RX
	Tag     uint64
	Acts    []Action
	Spec    *Spec
	Poison  bool
	HasN    bool
	NZ      int64
	Ty      uint64
	Payload uint64
	Mode    uint64
	Discard bool
	Once    bool // harness-only: performed at most once per actor context (monitor-only scenarios, not replayed on the model)
}

type Spec struct {
	Name      uint64
	Launch    []Action
	Kill      []Action
	Killed    []Action
	Strategy  int
	Decisions []int
	Prelaunch bool
	Hooks     [][3]bool
	Provider  bool
}

func actsT(as []Action) lib.T {
	xs := make([]lib.T, len(as))
	for i, a := range as {
		xs[i] = a.T()
	}
	return lib.LS(xs)
}

func pathT(p []uint64) lib.T {
	xs := make([]lib.T, len(p))
	for i, n := range p {
		xs[i] = lib.N(n)
	}
	return lib.LS(xs)
}

func (s *Spec) T() lib.T {
	ds := make([]lib.T, len(s.Decisions))
	for i, d := range s.Decisions {
		ds[i] = lib.NI(d)
	}
	hs := make([]lib.T, len(s.Hooks))
	for i, h := range s.Hooks {
		hs[i] = lib.L(lib.Bool(h[0]), lib.Bool(h[1]), lib.Bool(h[2]))
	}
	return lib.L(lib.N(s.Name), actsT(s.Launch), actsT(s.Kill), actsT(s.Killed), lib.NI(s.Strategy), lib.LS(ds), lib.Bool(s.Prelaunch), lib.LS(hs), lib.Bool(s.Provider))
}

func (a Action) T() lib.T {
	switch a.K {
	case aTell:
		return lib.L(lib.N(0), a.R.T(), lib.N(a.Tag), actsT(a.Acts))
	case aTellSelf:
		return lib.L(lib.N(1), lib.N(a.Tag), actsT(a.Acts))
	case aSpawn:
		return lib.L(lib.N(2), a.Spec.T())
	case aKill:
		return lib.L(lib.N(3), a.R.T(), lib.Bool(a.Poison))
	case aStash:
		return lib.L(lib.N(4))
	case aUnstash:
		if a.HasN {
			return lib.L(lib.N(5), lib.Z(a.NZ))
		}
		return lib.L(lib.N(5))
	case aPanic:
		return lib.L(lib.N(6))
	case aWatch:
		return lib.L(lib.N(7), a.R.T())
	case aUnwatch:
		return lib.L(lib.N(8), a.R.T())
	case aSub:
		return lib.L(lib.N(9), lib.N(a.Ty))
	case aUnsub:
		return lib.L(lib.N(10), lib.N(a.Ty))
	case aUnsubAll:
		return lib.L(lib.N(11))
	case aPub:
		return lib.L(lib.N(12), lib.N(a.Ty), lib.N(a.Payload))
	case aBecome:
		return lib.L(lib.N(13), lib.N(a.Mode), lib.Bool(a.Discard))
	case aUnbecome:
		return lib.L(lib.N(14), lib.Bool(a.Discard))
	}
	panic("bad action")
}

// ---------------------------------------------------------------- messages and events of the harness actors

type UMsg struct {
	Tag  uint64
	Acts []Action
}
type Ev100 struct{ P uint64 }
type Ev101 struct{ P uint64 }
type Ev102 struct{ P uint64 }

func typedEvent(ty, p uint64) any {
	switch ty {
	case 1:
		return ves.DeathLetterEvent{}
	case 4:
		return ves.ActorKilledEvent{}
	case 100:
		return Ev100{p}
	case 101:
		return Ev101{p}
	}
	return Ev102{p}
}

// ---------------------------------------------------------------- one run

type key struct {
	path string
	gen  int
}

func parsePath(p string) []uint64 {
	var out []uint64
	for _, seg := range strings.Split(p, "/") {
		if seg == "" {
			continue
		}
		n, err := strconv.ParseUint(strings.TrimPrefix(seg, "a"), 10, 64)
		if err != nil {
			n = 999999
		}
		out = append(out, n)
	}
	return out
}
func pathString(p []uint64) string {
	if len(p) == 0 {
		return "/"
	}
	s := ""
	for _, n := range p {
		s += fmt.Sprintf("/a%d", n)
	}
	return s
}
func (k key) T() lib.T { return lib.L(pathT(parsePath(k.path)), lib.NI(k.gen)) }

type seen struct {
	who  key
	inst uint64
	mode uint64
	desc lib.T
	kind int // 1 launch 2 kill 3 killed 10 user 11 event
	ref  string
	tag  uint64
}

type run struct {
	sys        *actor.System
	keys       map[*actor.Context]key
	order      []*actor.Context
	perPath    map[string]int
	refKey     map[vivid.ActorRef]key
	obs        []lib.T
	seens      []seen
	panics     []panicRec   // scripted failures raised by user code, with the failing actor's state at that moment
	decs       []decRec     // every consultation of a scripted supervision strategy
	supCalls   []*supCall   // every handler call on a failure report
	provider   map[key]bool // contexts whose spec has an actor provider
	slog       []slogEv
	deadLaunch map[string]bool // paths whose OnLaunch was reported as a dead letter
	scripted   map[string]bool // paths of actors that were given a scripted strategy (others use the system default)
	spawnLog   []lib.T
	held       [][]vivid.ActorRef
	curExt     int
	panicked   string
	sends      map[uint64]int
	unbecomes  int
	ctxOf      map[key]*actor.Context
	spawnAt    []spawnRec              // successful ActorOf calls, with the position in the invocation log at which they returned
	early      []string                // termination reports sent / handled while the terminated context was still registered (C06)
	watchersAt map[key][]string        // context -> who was watching it when its behaviour saw its own OnKilled
	watching   map[key]map[string]bool // context -> paths whose Watch request it has handled (and no Unwatch since)
	stashCalls map[uint64]int          // tag -> Stash() calls made while that user message was the current one (each parks one more copy)
	onceDone   map[string]bool
}

func (r *run) keyOf(c *actor.Context) key {
	if k, ok := r.keys[c]; ok {
		return k
	}
	info := actor.XVInfo(c)
	k := key{info.Path, r.perPath[info.Path]}
	r.perPath[info.Path]++
	r.keys[c] = k
	if r.ctxOf == nil {
		r.ctxOf = map[key]*actor.Context{}
	}
	r.ctxOf[k] = c
	r.order = append(r.order, c)
	r.refKey[info.Ref] = k
	return k
}

func refT(ref vivid.ActorRef) lib.T {
	if ref == nil {
		return lib.L()
	}
	return lib.L(pathT(parsePath(ref.GetPath())))
}

// descriptor of a message (toRoot: a DeathLetterEvent addressed to the guard is the dead-letter report itself)
func (r *run) msgDesc(msg any, toRoot bool) (lib.T, int, string, uint64) {
	switch m := msg.(type) {
	case *vivid.OnLaunch:
		return lib.L(lib.N(1)), 1, "", 0
	case *vivid.OnKill:
		return lib.L(lib.N(2), refT(m.Killer), lib.Bool(m.Poison)), 2, "", 0
	case *vivid.OnKilled:
		p := ""
		if m.Ref != nil {
			p = m.Ref.GetPath()
		}
		return lib.L(lib.N(3), refT(m.Ref)), 3, p, 0
	case *UMsg:
		return lib.L(lib.N(10), lib.N(m.Tag)), 10, "", m.Tag
	case Ev100:
		return lib.L(lib.N(11), lib.N(100), lib.L(lib.N(m.P))), 11, "", 100
	case Ev101:
		return lib.L(lib.N(11), lib.N(101), lib.L(lib.N(m.P))), 11, "", 101
	case Ev102:
		return lib.L(lib.N(11), lib.N(102), lib.L(lib.N(m.P))), 11, "", 102
	case ves.DeathLetterEvent:
		inner, ik, _, itag := r.msgDesc(m.Envelope.Message(), false)
		if _, isLaunch := m.Envelope.Message().(*vivid.OnLaunch); isLaunch && m.Envelope.Receiver() != nil {
			if r.deadLaunch == nil {
				r.deadLaunch = map[string]bool{}
			}
			r.deadLaunch[m.Envelope.Receiver().GetPath()] = true // an OnLaunch that found its actor already terminated
		}
		if toRoot {
			return lib.L(lib.N(12), lib.Bool(m.Envelope.System()), inner), 12, "", itag
		}
		pl := lib.L(lib.N(0))
		if ik == 10 {
			pl = lib.L(lib.N(1), lib.N(itag))
		} else if ik == 11 {
			pl = lib.L(lib.N(2), lib.N(itag))
		}
		return lib.L(lib.N(11), lib.N(1), pl), 11, "", 1
	case ves.ActorKilledEvent:
		k, ok := r.refKey[m.ActorRef]
		pl := append(parsePath(m.ActorRef.GetPath()), 0)
		if ok {
			pl[len(pl)-1] = uint64(k.gen)
		}
		return lib.L(lib.N(11), lib.N(4), pathT(pl)), 11, "", 4
	}
	kind, ref, flag := actor.XVClassify(msg)
	switch kind {
	case 4:
		return lib.L(lib.N(4), refT(ref)), 4, "", 0
	case 5:
		return lib.L(lib.N(5)), 5, "", 0
	case 6:
		return lib.L(lib.N(6)), 6, "", 0
	case 7:
		return lib.L(lib.N(7), lib.Bool(flag)), 7, "", 0
	case 8:
		return lib.L(lib.N(8)), 8, "", 0
	case 9:
		return lib.L(lib.N(9)), 9, "", 0
	}
	return lib.L(lib.N(777), lib.S(fmt.Sprintf("%T", msg))), 777, "", 0
}

// ---- scripted actor

// slogEv is one entry of the event-stream order log (C19): 0 Subscribe, 1 Unsubscribe, 2 UnsubscribeAll, 3 Publish
// (each logged when the call has returned; the calls are atomic under the controlled scheduler), 4 = an event handled.
type slogEv struct {
	kind    int
	who     key
	ty      uint64
	payload uint64
}

// panicRec / decRec feed the C08 monitor "a failure of a running child is presented to its (surviving) parent's strategy".
// spawnRec: ActorOf(child) by parent returned without error when the invocation log had at entries
type spawnRec struct {
	parent key
	child  string
	at     int
}

type panicRec struct {
	who   key
	state int // state of the failing context when user code panicked: 0 running, 1 killing, 2 killed
}
type decRec struct {
	sup      string     // path of the supervising actor ("" if it has not handled a message yet)
	chain    []string   // paths of SupervisionContext.Child()
	children []string   // paths of SupervisionContext.Children() (what a one-for-all strategy returns as its targets)
	strategy int        // 1 one-for-one, 2 one-for-all
	decision int        // the value the scripted decision maker returned
	sub      [][]string // targets recorded in the sub-contexts of an escalated report (innermost last)
}

// supCall is one handler call of a supervisor on a failure report (C08): the consultations of its scripted strategy
// made during the call and every envelope the supervisor's thread inserted anywhere until the handler returned.
type supCall struct {
	sup     key
	state   int32 // the supervisor's own state during the call (0 running, 1 killing, 2 killed)
	zombie  bool
	child   string // the failing child named by the report
	decs    []decRec
	pushes  []supPush
	aborted bool // the run was cut before the handler returned
}
type supPush struct {
	kind   int    // 2 kill, 4 failure report (escalation), 5 pause, 6 resume, 7 restart
	flag   bool   // poison (kill) / graceful (restart)
	target string // path of the actor the envelope is addressed to
}

type shared struct {
	path    string // path of the actor running this spec (set when it handles its first message)
	spec    *Spec
	spawned bool
	hookK   int
	cur     [3]bool
	decK    int
	insts   uint64
}

type sa struct {
	r    *run
	sh   *shared
	inst uint64
}

func (a *sa) OnReceive(ctx vivid.ActorContext) { a.interp(ctx, 0) }

func (a *sa) OnPrelaunch(ctx vivid.PrelaunchContext) error {
	if !a.sh.spawned {
		a.sh.spawned = true
		if !a.sh.spec.Prelaunch {
			return fmt.Errorf("prelaunch refused")
		}
		return nil
	}
	if !a.sh.cur[2] {
		return fmt.Errorf("prelaunch refused after restart")
	}
	return nil
}
func (a *sa) OnPreRestart(ctx vivid.RestartContext) error {
	if a.sh.hookK < len(a.sh.spec.Hooks) {
		a.sh.cur = a.sh.spec.Hooks[a.sh.hookK]
		a.sh.hookK++
	} else {
		a.sh.cur = [3]bool{true, true, true}
	}
	if !a.sh.cur[0] {
		return fmt.Errorf("pre restart hook failed")
	}
	return nil
}
func (a *sa) OnRestarted(ctx vivid.RestartContext) error {
	if !a.sh.cur[1] {
		return fmt.Errorf("restarted hook failed")
	}
	return nil
}

func (r *run) newActor(spec *Spec) (*sa, []vivid.ActorOption) {
	sh := &shared{spec: spec}
	a := &sa{r: r, sh: sh}
	opts := []vivid.ActorOption{vivid.WithActorName(fmt.Sprintf("a%d", spec.Name))}
	if spec.Strategy != 0 {
		dm := vivid.SupervisionStrategyDecisionMakerFN(func(ctx vivid.SupervisionContext) (vivid.SupervisionDecision, string) {
			var chain, children []string
			for _, ch := range ctx.Child() {
				chain = append(chain, ch.GetPath())
			}
			for _, ch := range ctx.Children() {
				children = append(children, ch.GetPath())
			}
			d := 3
			if sh.decK < len(spec.Decisions) {
				d = spec.Decisions[sh.decK]
				sh.decK++
			}
			r.decs = append(r.decs, decRec{sup: sh.path, chain: chain, children: children, strategy: spec.Strategy, decision: d, sub: actor.XVSupSubTargets(ctx)})
			return vivid.SupervisionDecision(d), "scripted"
		})
		if spec.Strategy == 1 {
			opts = append(opts, vivid.WithActorSupervisionStrategy(vivid.OneForOneStrategy(dm)))
		} else {
			opts = append(opts, vivid.WithActorSupervisionStrategy(vivid.OneForAllStrategy(dm)))
		}
	}
	if spec.Provider {
		opts = append(opts, vivid.WithActorProvider(vivid.ActorProviderFN(func() vivid.Actor {
			sh.insts++
			return &sa{r: r, sh: sh, inst: sh.insts}
		})))
	}
	return a, opts
}

type apiCtx interface {
	Tell(vivid.ActorRef, vivid.Message)
	TellSelf(vivid.Message)
	Kill(vivid.ActorRef, bool, ...string)
	Watch(vivid.ActorRef)
	Unwatch(vivid.ActorRef)
	ActorOf(vivid.Actor, ...vivid.ActorOption) (vivid.ActorRef, error)
	Ref() vivid.ActorRef
	Parent() vivid.ActorRef
	Children() vivid.ActorRefs
	EventStream() vivid.EventStream
}

func (r *run) evalRef(c apiCtx, full vivid.ActorContext, x RX, ext int) vivid.ActorRef {
	switch x.K {
	case 0:
		return c.Ref()
	case 1:
		if ext >= 0 {
			return nil
		}
		return c.Parent()
	case 2:
		if full != nil {
			return full.Sender()
		}
		return nil
	case 3:
		want := strings.TrimSuffix(c.Ref().GetPath(), "/") + fmt.Sprintf("/a%d", x.N)
		for _, ch := range c.Children() {
			if ch.GetPath() == want {
				return ch
			}
		}
		ref, _ := r.sys.CreateRef(c.Ref().GetAddress(), want)
		return ref
	case 4:
		ref, _ := r.sys.CreateRef(r.sys.Ref().GetAddress(), pathString(x.P))
		return ref
	case 5:
		if ext >= 0 && int(x.N) < len(r.held[ext]) {
			return r.held[ext][x.N]
		}
		return nil
	}
	return nil
}

func spawnCode(err error) uint64 {
	if err == nil {
		return 0
	}
	s := err.Error()
	switch {
	case strings.Contains(s, "deaded"):
		return 1
	case strings.Contains(s, "prelaunch"):
		return 2
	case strings.Contains(s, "already exists"):
		return 3
	}
	return 9
}

func (r *run) exec(c apiCtx, full vivid.ActorContext, who key, a Action, ext int, mode func(uint64) vivid.Behavior) {
	if a.Once {
		k := fmt.Sprintf("%v/%d/%d", who, a.K, a.Tag)
		if r.onceDone[k] {
			return
		}
		r.onceDone[k] = true
	}
	switch a.K {
	case aTell:
		r.sends[a.Tag]++
		c.Tell(r.evalRef(c, full, a.R, ext), &UMsg{a.Tag, a.Acts})
	case aTellSelf:
		r.sends[a.Tag]++
		c.TellSelf(&UMsg{a.Tag, a.Acts})
	case aKill:
		c.Kill(r.evalRef(c, full, a.R, ext), a.Poison)
	case aWatch:
		c.Watch(r.evalRef(c, full, a.R, ext))
	case aUnwatch:
		c.Unwatch(r.evalRef(c, full, a.R, ext))
	case aSpawn:
		act, opts := r.newActor(a.Spec)
		before := len(r.seens) // the child can run (and even end) while ActorOf is still inserting its OnLaunch
		ref, err := c.ActorOf(act, opts...)
		r.obs = append(r.obs, lib.L(lib.N(2), who.T(), lib.N(a.Spec.Name), lib.N(spawnCode(err))))
		if err == nil && ref != nil {
			r.spawnAt = append(r.spawnAt, spawnRec{who, ref.GetPath(), before})
		}
		if err == nil && ext >= 0 {
			r.held[ext] = append(r.held[ext], ref)
		}
	case aStash:
		if u, ok := full.Message().(*UMsg); ok {
			r.stashCalls[u.Tag]++
		}
		full.Stash()
	case aUnstash:
		if a.HasN {
			full.Unstash(int(a.NZ))
		} else {
			full.Unstash()
		}
	case aPanic:
		if cc, ok := full.(*actor.Context); ok && full != nil {
			r.panics = append(r.panics, panicRec{who: who, state: int(actor.XVInfo(cc).State)})
		}
		if len(r.panics)%2 == 1 {
			full.Failed("scripted failure") // the reporting API: documented to be the same as a panic with that fault
		}
		panic(fmt.Sprintf("scripted failure"))
	case aSub:
		c.EventStream().Subscribe(full, typedEvent(a.Ty, 0))
		r.slog = append(r.slog, slogEv{0, who, a.Ty, 0})
	case aUnsub:
		c.EventStream().Unsubscribe(full, typedEvent(a.Ty, 0))
		r.slog = append(r.slog, slogEv{1, who, a.Ty, 0})
	case aUnsubAll:
		c.EventStream().UnsubscribeAll(full)
		r.slog = append(r.slog, slogEv{2, who, 0, 0})
	case aPub:
		r.slog = append(r.slog, slogEv{3, who, a.Ty, a.Payload}) // the subscriber snapshot is taken inside this call, before any yield
		c.EventStream().Publish(full, typedEvent(a.Ty, a.Payload))
	case aBecome:
		// every API variant: the documented default (no option) is DiscardOld = true
		if a.Discard && a.Mode%2 == 1 {
			full.Become(mode(a.Mode))
		} else {
			full.Become(mode(a.Mode), vivid.WithBehaviorDiscardOld(a.Discard))
		}
	case aUnbecome:
		r.unbecomes++
		if a.Discard && r.unbecomes%2 == 1 {
			full.UnBecome()
		} else {
			full.UnBecome(vivid.WithBehaviorDiscardOld(a.Discard))
		}
	}
}

// checkReleased (C06 "once terminated its path is released"): a termination report for x - OnKilled(x) to the parent or a
// watcher, ActorKilledEvent(x) to a subscriber - exists (is being inserted into a mailbox, or is being handled) while
// the registry still maps x's path to the very context that terminated: FindActor(x) still finds an actor already
// reported terminated and the parent cannot reuse the name
func (r *run) checkReleased(msg any, where string) {
	var ref vivid.ActorRef
	what := ""
	switch m := msg.(type) {
	case *vivid.OnKilled:
		ref, what = m.Ref, "OnKilled"
	case ves.ActorKilledEvent:
		ref, what = m.ActorRef, "ActorKilledEvent"
	default:
		return
	}
	if ref == nil {
		return
	}
	k, ok := r.refKey[ref]
	if !ok {
		return
	}
	if c := r.ctxOf[k]; c != nil && actor.XVRegistered(r.sys, c) {
		r.early = append(r.early, fmt.Sprintf("%s for %v (%s) while the registry still maps %s to that context", what, k, where, k.path))
	}
}

func (a *sa) interp(ctx vivid.ActorContext, mode uint64) {
	r := a.r
	c := ctx.(*actor.Context)
	who := r.keyOf(c)
	a.sh.path = who.path
	if a.sh.spec.Provider {
		if r.provider == nil {
			r.provider = map[key]bool{}
		}
		r.provider[who] = true
	}
	if a.sh.spec.Strategy != 0 {
		if r.scripted == nil {
			r.scripted = map[string]bool{}
		}
		r.scripted[who.path] = true
	}
	desc, kind, ref, tag := r.msgDesc(ctx.Message(), false)
	r.obs = append(r.obs, lib.L(lib.N(1), who.T(), lib.N(a.inst), lib.N(mode), desc))
	r.seens = append(r.seens, seen{who, a.inst, mode, desc, kind, ref, tag})
	switch ev := ctx.Message().(type) {
	case Ev100:
		r.slog = append(r.slog, slogEv{4, who, 100, ev.P})
	case Ev101:
		r.slog = append(r.slog, slogEv{4, who, 101, ev.P})
	case Ev102:
		r.slog = append(r.slog, slogEv{4, who, 102, ev.P})
	}
	if !(kind == 3 && ref == who.path) { // not the actor's own OnKilled: that is shown to the behaviour before the release
		r.checkReleased(ctx.Message(), fmt.Sprintf("%v handles it", who))
	}
	if kind == 3 && ref == who.path {
		if r.watchersAt == nil {
			r.watchersAt = map[key][]string{}
		}
		if info := actor.XVInfo(c); info.Restarting {
			delete(r.watchersAt, who) // the end of an incarnation that is being restarted: nobody is notified
		} else {
			var ws []string
			for w := range r.watching[who] {
				ws = append(ws, w)
			}
			sort.Strings(ws)
			r.watchersAt[who] = ws
		}
	}
	var acts []Action
	switch m := ctx.Message().(type) {
	case *vivid.OnLaunch:
		acts = a.sh.spec.Launch
	case *vivid.OnKill:
		acts = a.sh.spec.Kill
	case *vivid.OnKilled:
		acts = a.sh.spec.Killed
	case *UMsg:
		acts = m.Acts
	}
	for _, act := range acts {
		r.exec(c, ctx, who, act, -1, func(m uint64) vivid.Behavior {
			return func(cc vivid.ActorContext) { a.interp(cc, m) }
		})
	}
}

// ---------------------------------------------------------------- projection of the trace

type evRec struct {
	ev  lib.T
	out lib.T
}

type result struct {
	events           []evRec
	obs              []lib.T
	final            [][]lib.T
	query            []lib.T
	subs             lib.T
	overrun          bool
	stuck            string
	seens            []seen
	dead             map[uint64]int // tag -> dead-letter reports handled by the guard
	zombieAte        map[uint64]bool
	finals           []finalInfo
	sent             map[uint64]int
	stashed          map[uint64]int
	rootGot          map[uint64]int
	stashCalls       map[uint64]int // tag -> Stash() calls on it
	dlReports        map[uint64]int // tag -> dead-letter reports of it inserted into the guard's mailbox
	zombieAteN       map[uint64]int // tag -> handler calls on it at a zombie
	queued           map[uint64]int // tag -> copies still sitting in some user queue at quiescence
	choices          []vsched.Choice
	rootState        int32
	streamSubs       map[string][]string // event type -> subscriber paths at quiescence
	streamTypes      map[string][]string // subscriber path -> event types at quiescence
	panics           []panicRec
	decs             []decRec
	supCalls         []*supCall
	provider         map[key]bool
	watchersAt       map[key][]string
	spawnAt          []spawnRec
	early            []string
	restartWithStash int // Restart directives handled by an actor that had mail parked in its stash
	scripted         map[string]bool
	deadLaunch       map[string]bool
	slog             []slogEv
}

type finalInfo struct {
	k       key
	info    actor.XVCtxInfo
	paused  bool
	sysLen  int64
	userLen int64
	reg     bool
	stashed []uint64
	queued  []uint64
}

type pushInfo struct {
	desc   lib.T
	sys    bool
	tag    uint64
	kind   int
	ref    string // kind 4: path of the failing child the report names
	sender string // path of the envelope's sender ("" if none)
	dlUser bool   // a dead-letter report (kind 12) whose inner message is a user message (tag = its tag)
}

func execute(scripts [][]Action, choose func([]int, int) int) result {
	sys := actor.NewSystem(vivid.WithActorSystemLogger(log.NewSilentLogger()), vivid.WithActorSystemStopTimeout(2*time.Second))
	if err := sys.Start(); err != nil {
		panic(err)
	}
	r := &run{sys: sys, onceDone: map[string]bool{}, sends: map[uint64]int{}, stashCalls: map[uint64]int{}, keys: map[*actor.Context]key{}, perPath: map[string]int{}, refKey: map[vivid.ActorRef]key{}, held: make([][]vivid.ActorRef, len(scripts))}
	root := actor.XVRoot(sys)
	rootKey := r.keyOf(root)
	s := vsched.New(choose)
	s.MaxSteps = 30000
	for i := range scripts {
		i := i
		s.Spawn("ext", func() {
			for _, a := range scripts[i] {
				r.exec(sys, nil, rootKey, a, i, nil)
			}
		})
	}
	// shadow queues: descriptor of every envelope pushed, per mailbox and kind
	type mbq struct{ sys, user []pushInfo }
	shadow := map[*mailbox.UnboundedMailbox]*mbq{}
	inhand := map[*mailbox.UnboundedMailbox]pushInfo{}
	threadActor := map[int]key{}
	res := result{dead: map[uint64]int{}, zombieAte: map[uint64]bool{}, stashed: map[uint64]int{}, rootGot: map[uint64]int{},
		dlReports: map[uint64]int{}, zombieAteN: map[uint64]int{}, queued: map[uint64]int{}}
	owner := func(m *mailbox.UnboundedMailbox) (*actor.Context, key) {
		c := mailbox.XVHandler(m).(*actor.Context)
		return c, r.keyOf(c)
	}
	thr := func(real int) lib.T {
		if real < len(scripts) {
			return lib.L(lib.N(1), lib.NI(real))
		}
		return lib.L(lib.N(0), threadActor[real].T())
	}
	// C08: the handler call of a supervisor on a failure report, per mailbox goroutine (closed when that goroutine is
	// back in the mailbox loop); decsSeen = consultations already attributed (a consultation happens inside the step
	// that has just run, i.e. in the thread this snapshot is about)
	openSup := map[int]*supCall{}
	decsSeen := 0
	s.SnapshotStep = func(real int, label string, obj any) any {
		m, _ := obj.(*mailbox.UnboundedMailbox)
		if sc := openSup[real]; sc != nil && (strings.HasPrefix(label, "processHandle:") || strings.HasPrefix(label, "process:")) {
			delete(openSup, real) // the handler has returned
		}
		if sc := openSup[real]; sc != nil && len(r.decs) > decsSeen {
			sc.decs = append(sc.decs, r.decs[decsSeen:]...)
		}
		defer func() { decsSeen = len(r.decs) }()
		switch {
		case label == "start":
			if real < len(scripts) {
				res.events = append(res.events, evRec{lib.L(lib.N(9), lib.NI(real)), lib.N(0)})
			}
		case label == "Enqueue:m.systemBuffer.Push" || label == "Enqueue:m.buffer.Push":
			_, k := owner(m)
			sq, uq := mailbox.XVQueues(m)
			isSys := label == "Enqueue:m.systemBuffer.Push"
			var q *queues.RingQueue = uq
			if isSys {
				q = sq
			}
			env, _ := queues.XVTail(q).(vivid.Envelop)
			var d lib.T = lib.L(lib.N(778))
			pi := pushInfo{sys: isSys}
			if env != nil {
				dd, kind, _, tag := r.msgDesc(env.Message(), k == rootKey)
				d = dd
				pi.kind, pi.tag = kind, tag
				if env.Sender() != nil {
					pi.sender = env.Sender().GetPath()
				}
				if kind == 4 {
					if _, ch, _ := actor.XVClassify(env.Message()); ch != nil {
						pi.ref = ch.GetPath()
					}
				}
				if dl, ok := env.Message().(ves.DeathLetterEvent); ok && k == rootKey {
					if u, ok := dl.Envelope.Message().(*UMsg); ok {
						pi.dlUser = true
						res.dlReports[u.Tag]++
					}
				}
			}
			pi.desc = d
			if env != nil {
				if ok, isK := env.Message().(*vivid.OnKilled); !isK || ok.Ref == nil || ok.Ref.GetPath() != k.path { // not the guard's / an actor's own notice to itself
					r.checkReleased(env.Message(), fmt.Sprintf("inserted into the mailbox of %v", k))
				}
			}
			if sc := openSup[real]; sc != nil && env != nil {
				msg, target := env.Message(), ""
				if env.Receiver() != nil {
					target = env.Receiver().GetPath()
				}
				if dl, ok := msg.(ves.DeathLetterEvent); ok && k == rootKey { // the target is gone: the directive became a dead letter
					msg = dl.Envelope.Message()
					if dl.Envelope.Receiver() != nil {
						target = dl.Envelope.Receiver().GetPath()
					}
				}
				if ok, ok2 := msg.(*vivid.OnKill); ok2 {
					sc.pushes = append(sc.pushes, supPush{2, ok.Poison, target})
				} else if kind, _, flag := actor.XVClassify(msg); kind >= 4 && kind <= 7 {
					sc.pushes = append(sc.pushes, supPush{kind, flag, target})
				}
			}
			sh := shadow[m]
			if sh == nil {
				sh = &mbq{}
				shadow[m] = sh
			}
			if isSys {
				sh.sys = append(sh.sys, pi)
			} else {
				sh.user = append(sh.user, pi)
			}
			res.events = append(res.events, evRec{lib.L(lib.N(4), thr(real), k.T()), lib.L(k.T(), lib.Bool(isSys), d)})
		case label == "Enqueue:atomic.CompareAndSwapUint32:&m.status":
			res.events = append(res.events, evRec{lib.L(lib.N(5), thr(real)), lib.N(0)})
		case label == "Pause:atomic.StoreUint32:&m.paused":
			res.events = append(res.events, evRec{lib.L(lib.N(6), thr(real)), lib.N(0)})
		case label == "Resume:atomic.CompareAndSwapUint32:&m.paused":
			res.events = append(res.events, evRec{lib.L(lib.N(7), thr(real)), lib.N(0)})
		case label == "Resume:atomic.CompareAndSwapUint32:&m.status":
			res.events = append(res.events, evRec{lib.L(lib.N(8), thr(real)), lib.N(0)})
		case label == "processHandle:m.systemBuffer.Pop":
			_, k := owner(m)
			if sh := shadow[m]; sh != nil && len(sh.sys) > 0 {
				inhand[m] = sh.sys[0]
				sh.sys = sh.sys[1:]
			}
			res.events = append(res.events, evRec{lib.L(lib.N(0), k.T()), lib.N(0)})
		case label == "processHandle:atomic.LoadUint32:&m.paused":
			_, k := owner(m)
			res.events = append(res.events, evRec{lib.L(lib.N(1), k.T()), lib.N(0)})
		case label == "processHandle:m.buffer.Pop":
			_, k := owner(m)
			if sh := shadow[m]; sh != nil && len(sh.user) > 0 {
				inhand[m] = sh.user[0]
				sh.user = sh.user[1:]
			}
			res.events = append(res.events, evRec{lib.L(lib.N(2), k.T()), lib.N(0)})
		case label == "processHandle:m.handler.HandleEnvelop":
			c, k := owner(m)
			threadActor[real] = k
			pi := inhand[m]
			res.events = append(res.events, evRec{lib.L(lib.N(3), k.T()), lib.L(lib.Bool(pi.sys), pi.desc)})
			if (pi.kind == 8 || pi.kind == 9) && pi.sender != "" {
				// Watch / Unwatch requests as they are handled by a context that is not terminated: the set of watchers the
				// API promises a notification to (a parent is notified anyway and is not a watcher)
				if info := actor.XVInfo(c); info.State != 2 || info.Zombie {
					if r.watching == nil {
						r.watching = map[key]map[string]bool{}
					}
					if r.watching[k] == nil {
						r.watching[k] = map[string]bool{}
					}
					par := k.path[:strings.LastIndex(k.path, "/")]
					if par == "" {
						par = "/"
					}
					if pi.kind == 8 && pi.sender != par {
						r.watching[k][pi.sender] = true
					} else if pi.kind == 9 {
						delete(r.watching[k], pi.sender)
					}
				}
			}
			if pi.kind == 7 && actor.XVInfo(c).StashLen > 0 {
				res.restartWithStash++
			}
			if pi.kind == 4 {
				info := actor.XVInfo(c)
				sc := &supCall{sup: k, state: info.State, zombie: info.Zombie, child: pi.ref, decs: append([]decRec(nil), r.decs[decsSeen:]...)}
				r.supCalls = append(r.supCalls, sc)
				openSup[real] = sc
			}
			if k == rootKey && pi.kind == 12 && pi.dlUser {
				res.dead[pi.tag]++
			}
			if k == rootKey && pi.kind == 10 {
				res.rootGot[pi.tag]++ // the guard's behaviour ran for it (and ignores user messages)
			}
			if pi.kind == 10 && actor.XVInfo(c).Zombie {
				res.zombieAte[pi.tag] = true
				res.zombieAteN[pi.tag]++
			}
		}
		return nil
	}
	func() {
		defer func() {
			if p := recover(); p != nil {
				r.panicked = fmt.Sprint(p)
			}
		}()
		s.Run()
	}()
	res.overrun = s.Overrun
	res.choices = s.Choices
	if s.Overrun || s.Deadlock {
		res.stuck = s.Stuck()
	}
	res.obs = r.obs
	res.seens = r.seens
	res.panics, res.decs, res.scripted, res.deadLaunch, res.slog = r.panics, r.decs, r.scripted, r.deadLaunch, r.slog
	for _, sc := range openSup {
		sc.aborted = true
	}
	res.supCalls, res.provider, res.watchersAt = r.supCalls, r.provider, r.watchersAt
	res.spawnAt, res.early = r.spawnAt, r.early
	res.sent = r.sends
	res.stashCalls = r.stashCalls
	for _, sh := range shadow {
		for _, pi := range sh.user {
			if pi.kind == 10 {
				res.queued[pi.tag]++
			}
		}
	}
	// final projection
	for _, c := range r.order {
		k := r.keys[c]
		info := actor.XVInfo(c)
		var paused bool
		var sl, ul int64
		if m, ok := info.Mailbox.(*mailbox.UnboundedMailbox); ok {
			_, pa, _, _, a, b := mailbox.XVState(m)
			paused, sl, ul = pa == 1, a, b
		}
		reg := actor.XVRegistered(sys, c)
		ch := make([]lib.T, len(info.Children))
		for i, p := range info.Children {
			ch[i] = pathT(parsePath(p))
		}
		wa := make([]lib.T, len(info.Watchers))
		for i, p := range info.Watchers {
			wa[i] = pathT(parsePath(p))
		}
		inst := uint64(0)
		if a, ok := info.Actor.(*sa); ok {
			inst = a.inst
		}
		res.query = append(res.query, k.T())
		// the stash itself, oldest first: (system?, message descriptor) per parked envelope
		st := make([]lib.T, len(info.Stash))
		for i, e := range info.Stash {
			d, _, _, _ := r.msgDesc(e.Message(), false)
			st[i] = lib.L(lib.Bool(e.System()), d)
		}
		res.final = append(res.final, []lib.T{pathT(parsePath(k.path)), lib.NI(k.gen), lib.N(uint64(info.State)), lib.Bool(info.Zombie), lib.Bool(paused),
			lib.N(uint64(sl)), lib.N(uint64(ul)), lib.NI(info.StashLen), lib.LS(ch), lib.LS(wa), lib.NI(info.StackLen), lib.N(inst), lib.Bool(reg), lib.LS(st)})
		res.finals = append(res.finals, finalInfo{k: k, info: info, paused: paused, sysLen: sl, userLen: ul, reg: reg})
		for _, e := range info.Stash {
			if u, ok := e.Message().(*UMsg); ok {
				res.stashed[u.Tag]++
			}
		}
		if k == rootKey {
			res.rootState = info.State
		}
	}
	st, sty := actor.XVStream(sys)
	res.streamSubs, res.streamTypes = st, sty
	var tys []string
	for t := range st {
		tys = append(tys, t)
	}
	sort.Strings(tys)
	_ = tys
	res.subs = streamT(st)
	// The system is deliberately NOT stopped: stopping runs actor goroutines outside the controlled scheduler,
	// and a straggler would then race into the next scenario's scheduler. When Run returns every goroutine
	// of this system has finished (or is parked for ever after an overrun); only the context-guard and timer
	// goroutines stay blocked, which is harmless for a short-lived harness process.
	return res
}

func typeCode(name string) uint64 {
	switch {
	case strings.HasSuffix(name, "DeathLetterEvent"):
		return 1
	case strings.HasSuffix(name, "ActorKilledEvent"):
		return 4
	case strings.HasSuffix(name, "Ev100"):
		return 100
	case strings.HasSuffix(name, "Ev101"):
		return 101
	case strings.HasSuffix(name, "Ev102"):
		return 102
	}
	return 999
}

func streamT(st map[string][]string) lib.T {
	type ent struct {
		ty    uint64
		paths []string
	}
	var es []ent
	for t, ps := range st {
		es = append(es, ent{typeCode(t), ps})
	}
	sort.Slice(es, func(i, j int) bool { return es[i].ty < es[j].ty })
	xs := make([]lib.T, len(es))
	for i, e := range es {
		ps := make([][]uint64, len(e.paths))
		for j, p := range e.paths {
			ps[j] = parsePath(p)
		}
		sort.Slice(ps, func(a, b int) bool { return lessPath(ps[a], ps[b]) })
		pt := make([]lib.T, len(ps))
		for j, p := range ps {
			pt[j] = pathT(p)
		}
		xs[i] = lib.L(lib.N(e.ty), lib.LS(pt))
	}
	return lib.LS(xs)
}

func lessPath(a, b []uint64) bool {
	for i := 0; i < len(a) && i < len(b); i++ {
		if a[i] != b[i] {
			return a[i] < b[i]
		}
	}
	return len(a) < len(b)
}

// ---------------------------------------------------------------- generator

type gen struct {
	r       *lib.Rand
	noSpawn bool // inside an OnKilled script: respawning a child there while being killed never terminates (user-level livelock)
	nextTag uint64
	streamK int        // event-stream scenarios generated so far (every second one turns subscriber 1 into a zombie and kills it)
	watchK  int        // death-watch scenarios generated so far (every second one respawns the target from the parent's OnKilled handler)
	names   [][]uint64 // paths that may exist
}

func (g *gen) tag() uint64 { g.nextTag++; return g.nextTag }

func (g *gen) ref(depth int) RX {
	switch g.r.Intn(9) {
	case 0:
		return RX{K: 0}
	case 1:
		return RX{K: 1}
	case 2:
		return RX{K: 2}
	case 3, 4:
		return RX{K: 3, N: uint64(1 + g.r.Intn(3))}
	case 5, 6, 7:
		if len(g.names) > 0 {
			return RX{K: 4, P: g.names[g.r.Intn(len(g.names))]}
		}
		return RX{K: 4, P: []uint64{uint64(1 + g.r.Intn(3))}}
	}
	return RX{K: 4, P: []uint64{uint64(1 + g.r.Intn(3)), uint64(1 + g.r.Intn(3))}}
}

func (g *gen) acts(depth int, path []uint64, inHandler bool) []Action {
	n := g.r.Intn(4)
	if depth <= 0 {
		n = g.r.Intn(2)
	}
	var out []Action
	stashes := false
	for i := 0; i < n; i++ {
		switch k := g.r.Intn(28); {
		case k < 8:
			out = append(out, Action{K: aTell, R: g.ref(depth), Tag: g.tag(), Acts: g.acts(depth-1, path, true)})
		case k < 10:
			out = append(out, Action{K: aTellSelf, Tag: g.tag(), Acts: g.acts(depth-1, path, true)})
		case k < 13 && depth > 0 && !g.noSpawn:
			sp := g.spec(depth-1, path)
			out = append(out, Action{K: aSpawn, Spec: sp})
		case k < 15:
			out = append(out, Action{K: aKill, R: g.ref(depth), Poison: g.r.Bool()})
		case k < 17:
			out = append(out, Action{K: aPanic})
		case k < 18 && inHandler && !hasKind(out, aUnstash):
			// (this arm used to be unreachable - the panic arm above also tested k < 18 - so no random scenario ever stashed)
			out = append(out, Action{K: aStash})
			stashes = true
		case k < 20 && inHandler && !hasKind(out, aStash):
			a := Action{K: aUnstash}
			if g.r.Bool() {
				a.HasN = true
				a.NZ = int64(g.r.Intn(5)) - 1
			}
			out = append(out, a)
		case k < 21:
			out = append(out, Action{K: aWatch, R: g.ref(depth)})
		case k < 22:
			out = append(out, Action{K: aUnwatch, R: g.ref(depth)})
		case k < 24 && inHandler:
			out = append(out, Action{K: aSub, Ty: []uint64{1, 4, 100, 101}[g.r.Intn(4)]})
		case k < 25 && inHandler:
			if g.r.Bool() {
				out = append(out, Action{K: aUnsub, Ty: []uint64{1, 4, 100, 101}[g.r.Intn(4)]})
			} else {
				out = append(out, Action{K: aUnsubAll})
			}
		case k < 26 && inHandler:
			out = append(out, Action{K: aPub, Ty: uint64(100 + g.r.Intn(2)), Payload: g.tag()})
		case k < 27 && inHandler:
			out = append(out, Action{K: aBecome, Mode: uint64(1 + g.r.Intn(3)), Discard: g.r.Bool()})
		case inHandler:
			out = append(out, Action{K: aUnbecome, Discard: g.r.Bool()})
		}
	}
	// a message that parks itself and (directly or through the mail it sends) un-parks itself again is handled for
	// ever: user-level non-termination, not a runtime defect. No Unstash below a Stash.
	if stashes {
		for i := range out {
			if out[i].K == aTell || out[i].K == aTellSelf {
				out[i].Acts = dropUnstash(out[i].Acts)
			}
		}
	}
	return out
}

func dropUnstash(as []Action) []Action {
	var out []Action
	for _, a := range as {
		if a.K == aUnstash {
			continue
		}
		if a.K == aTell || a.K == aTellSelf {
			a.Acts = dropUnstash(a.Acts)
		}
		out = append(out, a)
	}
	return out
}

func hasKind(as []Action, k int) bool {
	for _, a := range as {
		if a.K == k {
			return true
		}
	}
	return false
}

func (g *gen) spec(depth int, parent []uint64) *Spec {
	name := uint64(1 + g.r.Intn(3))
	path := append(append([]uint64(nil), parent...), name)
	g.names = append(g.names, path)
	sp := &Spec{Name: name, Prelaunch: !g.r.Chance(1, 12), Provider: g.r.Chance(1, 3)}
	sp.Launch = g.acts(depth, path, true)
	if g.r.Chance(1, 3) {
		sp.Kill = g.acts(depth-1, path, true)
	}
	if g.r.Chance(1, 3) {
		old := g.noSpawn
		g.noSpawn = true
		sp.Killed = g.acts(depth-1, path, true)
		g.noSpawn = old
	}
	sp.Strategy = []int{0, 1, 1, 1, 2, 2}[g.r.Intn(6)]
	nd := g.r.Intn(5)
	for i := 0; i < nd; i++ {
		// restart-biased: 1 restart, 2 graceful restart, 3 stop, 4 graceful stop, 5 resume, 6 escalate, 0 invalid
		d := []int{1, 1, 1, 2, 2, 3, 4, 5, 5, 5, 6, 6, 1, 2, 5, 6, 3, 4, 1, 0}[g.r.Intn(20)]
		sp.Decisions = append(sp.Decisions, d)
	}
	nh := g.r.Intn(3)
	for i := 0; i < nh; i++ {
		sp.Hooks = append(sp.Hooks, [3]bool{!g.r.Chance(1, 3), !g.r.Chance(1, 4), !g.r.Chance(1, 4)})
	}
	return sp
}

func (g *gen) scenario() [][]Action {
	g.names = nil
	var main []Action
	nTop := 1 + g.r.Intn(2)
	for i := 0; i < nTop; i++ {
		main = append(main, Action{K: aSpawn, Spec: g.spec(2, nil)})
	}
	extRef := func() RX {
		switch g.r.Intn(4) {
		case 0:
			return RX{K: 5, N: uint64(g.r.Intn(nTop))}
		}
		if len(g.names) > 0 {
			return RX{K: 4, P: g.names[g.r.Intn(len(g.names))]}
		}
		return RX{K: 4, P: []uint64{1}}
	}
	n := 1 + g.r.Intn(5)
	for i := 0; i < n; i++ {
		if g.r.Chance(1, 6) {
			main = append(main, Action{K: aKill, R: extRef(), Poison: g.r.Bool()})
		} else {
			main = append(main, Action{K: aTell, R: extRef(), Tag: g.tag(), Acts: g.acts(2, nil, true)})
		}
	}
	scripts := [][]Action{main}
	// a second external caller that only tells / kills through parsed refs, racing the first
	if g.r.Chance(1, 2) {
		var second []Action
		m := 1 + g.r.Intn(3)
		for i := 0; i < m; i++ {
			r := RX{K: 4, P: []uint64{1}}
			if len(g.names) > 0 {
				r = RX{K: 4, P: g.names[g.r.Intn(len(g.names))]}
			}
			if g.r.Chance(1, 5) {
				second = append(second, Action{K: aKill, R: r, Poison: g.r.Bool()})
			} else {
				second = append(second, Action{K: aTell, R: r, Tag: g.tag(), Acts: g.acts(1, nil, true)})
			}
		}
		scripts = append(scripts, second)
	}
	return scripts
}

// supervision matrix: decision x strategy x failure site, with siblings, a grandchild, queued mail behind the
// failing message, restart hooks that may fail, and escalation chains of depth 1..2
func (g *gen) supScenario() [][]Action {
	g.names = nil
	dec := func() int { return []int{1, 2, 3, 4, 5, 6, 1, 2, 5, 6, 0}[g.r.Intn(11)] }
	decs := func() []int {
		n := 1 + g.r.Intn(3)
		out := make([]int, n)
		for i := range out {
			out[i] = dec()
		}
		return out
	}
	hooks := func() [][3]bool {
		var h [][3]bool
		for i := 0; i < g.r.Intn(3); i++ {
			h = append(h, [3]bool{!g.r.Chance(1, 3), !g.r.Chance(1, 3), !g.r.Chance(1, 3)})
		}
		return h
	}
	// 0 user message, 1 OnLaunch, 2 a child's OnKilled, 3 user message + sibling failure,
	// 4 a second failure while the first is undecided (user message, then the grandchild's OnKilled while suspended),
	// 5 user message while the SUPERVISOR is in its own graceful stop (it poison-kills itself right after sending the
	//   burst: the children's poison kills queue up behind their backlog, so c1 fails under a supervisor in state killing),
	// 6 the same with the supervisor in its own supervised (graceful) restart: it fails at the end of its OnLaunch
	site := g.r.Intn(7)
	grand := &Spec{Name: 1, Prelaunch: true, Provider: g.r.Bool()}
	c1 := &Spec{Name: 1, Prelaunch: true, Provider: g.r.Bool(), Hooks: hooks(), Strategy: g.r.Intn(3), Decisions: decs()}
	c1.Launch = []Action{{K: aSpawn, Spec: grand}}
	if g.r.Chance(1, 4) {
		c1.Launch = append(c1.Launch, Action{K: aSub, Ty: 100})
	}
	if site == 1 {
		c1.Launch = append(c1.Launch, Action{K: aPanic})
	}
	if site == 2 || site == 4 {
		c1.Killed = []Action{{K: aPanic}}
	}
	c2 := &Spec{Name: 2, Prelaunch: true, Hooks: hooks()}
	p := &Spec{Name: 1, Prelaunch: true, Strategy: 1 + g.r.Intn(2), Decisions: decs()}
	p.Launch = []Action{{K: aSpawn, Spec: c1}, {K: aSpawn, Spec: c2}}
	// burst to c1: the failing message at a random position
	k := 1 + g.r.Intn(5)
	fail := g.r.Intn(k)
	for i := 0; i < k; i++ {
		var acts []Action
		if i == fail && (site == 0 || site == 3 || site == 5 || site == 6) {
			acts = []Action{{K: aPanic}}
		} else if i < fail && g.r.Chance(1, 3) {
			// the incarnation that is going to fail changes its behaviour first: a restart has to reset the stack
			acts = []Action{{K: aBecome, Mode: uint64(1 + g.r.Intn(3)), Discard: g.r.Bool()}}
		} else if i == fail && site == 4 {
			acts = []Action{{K: aKill, R: RX{K: 3, N: 1}, Poison: g.r.Bool()}, {K: aPanic}} // kill the grandchild and fail at once
		} else if i == fail && site == 2 {
			acts = []Action{{K: aKill, R: RX{K: 3, N: 1}, Poison: g.r.Bool()}} // kill the grandchild: its OnKilled makes c1 fail
		} else if g.r.Chance(1, 3) {
			acts = g.acts(1, nil, true)
		}
		p.Launch = append(p.Launch, Action{K: aTell, R: RX{K: 3, N: 1}, Tag: g.tag(), Acts: acts})
	}
	p.Launch = append(p.Launch, Action{K: aTell, R: RX{K: 3, N: 2}, Tag: g.tag()})
	if site == 3 {
		p.Launch = append(p.Launch, Action{K: aTell, R: RX{K: 3, N: 2}, Tag: g.tag(), Acts: []Action{{K: aPanic}}})
	}
	if site == 5 {
		p.Launch = append(p.Launch, Action{K: aKill, R: RX{K: 0}, Poison: true})
	}
	if site == 6 {
		p.Launch = append(p.Launch, Action{K: aPanic})
	}
	top := p
	path := []uint64{1}
	if site == 6 || g.r.Bool() { // an extra level so that Escalate has somewhere to go below the root
		gp := &Spec{Name: 1, Prelaunch: true, Strategy: 1 + g.r.Intn(2), Decisions: decs()}
		if site == 6 {
			gp.Decisions = append([]int{2}, gp.Decisions...) // graceful restart of the supervisor: it waits for its children
		}
		gp.Launch = []Action{{K: aSpawn, Spec: p}}
		top = gp
		path = []uint64{1, 1}
	}
	c1p := append(append([]uint64(nil), path...), 1)
	c2p := append(append([]uint64(nil), path...), 2)
	main := []Action{{K: aSpawn, Spec: top}}
	// probes after the dust settles (through parsed refs): survivors must still process mail
	for i := 0; i < 2; i++ {
		main = append(main, Action{K: aTell, R: RX{K: 4, P: c1p}, Tag: g.tag()}, Action{K: aTell, R: RX{K: 4, P: c2p}, Tag: g.tag()})
	}
	if g.r.Chance(1, 4) {
		main = append(main, Action{K: aKill, R: RX{K: 4, P: c1p}, Poison: g.r.Bool()})
	}
	scripts := [][]Action{main}
	if g.r.Chance(1, 3) {
		scripts = append(scripts, []Action{{K: aTell, R: RX{K: 4, P: c1p}, Tag: g.tag()}, {K: aKill, R: RX{K: 4, P: path}, Poison: g.r.Bool()}})
	}
	return scripts
}

// event-stream scenario (C19): several subscribers and publishers, two event types, subscribe twice,
// unsubscribe / unsubscribe-all, subscribers dying and restarting in between
func (g *gen) streamScenario() [][]Action {
	g.names = nil
	ty := func() uint64 { return uint64(100 + g.r.Intn(2)) }
	sub := func(name uint64) *Spec {
		sp := &Spec{Name: name, Prelaunch: true, Provider: g.r.Bool()}
		for i := 0; i < 1+g.r.Intn(3); i++ {
			sp.Launch = append(sp.Launch, Action{K: aSub, Ty: ty()})
		}
		return sp
	}
	parent := &Spec{Name: 1, Prelaunch: true, Strategy: 1, Decisions: []int{1, 5, 1}}
	n := 2 + g.r.Intn(3)
	for i := 1; i <= n; i++ {
		parent.Launch = append(parent.Launch, Action{K: aSpawn, Spec: sub(uint64(i))})
	}
	msg := func(target uint64) Action {
		var acts []Action
		for i := 0; i < 1+g.r.Intn(3); i++ {
			switch g.r.Intn(8) {
			case 0, 1, 2:
				acts = append(acts, Action{K: aPub, Ty: ty(), Payload: g.tag()})
			case 3:
				acts = append(acts, Action{K: aSub, Ty: ty()})
			case 4:
				acts = append(acts, Action{K: aUnsub, Ty: ty()})
			case 5:
				acts = append(acts, Action{K: aUnsubAll})
			case 6:
				acts = append(acts, Action{K: aPanic})
			case 7:
				acts = append(acts, Action{K: aKill, R: RX{K: 0}, Poison: g.r.Bool()})
			}
		}
		return Action{K: aTell, R: RX{K: 4, P: []uint64{1, target}}, Tag: g.tag(), Acts: acts}
	}
	g.streamK++
	if g.streamK%2 == 0 {
		// C19 "after the subscriber has terminated ... the stream then holds no entry for it", for the termination of a
		// ZOMBIE: subscriber 1 fails, its restart fails (OnRestarted), the zombie is killed (poison: queued behind the
		// failing message), events are published afterwards. Sent by the parent right after the spawns.
		for _, a := range parent.Launch {
			if a.K == aSpawn && a.Spec.Name == 1 {
				a.Spec.Hooks = [][3]bool{{true, false, true}}
			}
		}
		parent.Decisions = []int{1, 1, 1, 5}
		parent.Launch = append(parent.Launch,
			Action{K: aTell, R: RX{K: 3, N: 1}, Tag: g.tag(), Acts: []Action{{K: aPanic}}},
			Action{K: aKill, R: RX{K: 3, N: 1}, Poison: true},
			Action{K: aTell, R: RX{K: 3, N: 2}, Tag: g.tag(), Acts: []Action{{K: aPub, Ty: 100, Payload: g.tag()}, {K: aPub, Ty: 101, Payload: g.tag()}}})
	}
	main := []Action{{K: aSpawn, Spec: parent}}
	for i := 0; i < 4+g.r.Intn(8); i++ {
		main = append(main, msg(uint64(1+g.r.Intn(n))))
	}
	scripts := [][]Action{main}
	if g.r.Bool() {
		var second []Action
		for i := 0; i < 2+g.r.Intn(4); i++ {
			second = append(second, msg(uint64(1+g.r.Intn(n))))
		}
		scripts = append(scripts, second)
	}
	return scripts
}

// stash scenario (C03 accounting of parked mail, C02 stash order, C05 restart): a worker under a scripted supervisor
// parks user messages with Stash (sometimes twice, sometimes behind a Become), then goes through a lifecycle
// transition - a supervised failure with every decision (restart / graceful restart / stop / graceful stop / resume /
// escalate / invalid), restart hooks that may fail (zombie), a kill (poison or not), the supervisor's own failure, or a
// failing message that had parked itself first - then more mail is parked and Unstash runs in every API variant
// (Unstash(), Unstash(n) for n < 0, 0, 1, 2, 3, more than there is), from a later message, from the OnLaunch of the
// new incarnation ("drain on start") or from OnKill ("drain on stop": the parked mail becomes dead letters), with
// probes afterwards. All sends race the transitions under the controlled scheduler.
func (g *gen) stashScenario() [][]Action {
	g.names = nil
	dec := func() int { return []int{1, 1, 1, 2, 2, 2, 3, 4, 5, 6, 0}[g.r.Intn(11)] }
	decs := func() []int {
		n := 1 + g.r.Intn(3)
		out := make([]int, n)
		for i := range out {
			out[i] = dec()
		}
		return out
	}
	hooks := func() [][3]bool {
		var h [][3]bool
		for i := 0; i < g.r.Intn(3); i++ {
			h = append(h, [3]bool{!g.r.Chance(1, 4), !g.r.Chance(1, 5), !g.r.Chance(1, 5)})
		}
		return h
	}
	unst := func() Action {
		if g.r.Chance(1, 4) {
			return Action{K: aUnstash}
		}
		return Action{K: aUnstash, HasN: true, NZ: []int64{-1, 0, 1, 2, 3, 100, 100, 100}[g.r.Intn(8)]}
	}
	w := &Spec{Name: 1, Prelaunch: true, Provider: g.r.Bool(), Hooks: hooks()}
	if g.r.Chance(1, 3) {
		w.Launch = []Action{unst()} // every incarnation starts by draining what the previous one parked
	}
	if g.r.Chance(1, 4) {
		w.Kill = []Action{unst()} // drain on stop
	}
	if g.r.Chance(1, 6) {
		w.Launch = append(w.Launch, Action{K: aSpawn, Spec: &Spec{Name: 1, Prelaunch: true}}) // a grandchild: the stop / restart has to wait for it
	}
	sib := &Spec{Name: 2, Prelaunch: true}
	p := &Spec{Name: 1, Prelaunch: true, Strategy: 1 + g.r.Intn(2), Decisions: decs()}
	p.Launch = []Action{{K: aSpawn, Spec: w}, {K: aSpawn, Spec: sib}}
	top, pp := p, []uint64{1}
	if g.r.Chance(1, 4) { // a level above, so that Escalate reaches a scripted strategy
		gp := &Spec{Name: 1, Prelaunch: true, Strategy: 1 + g.r.Intn(2), Decisions: decs()}
		gp.Launch = []Action{{K: aSpawn, Spec: p}}
		top, pp = gp, []uint64{1, 1}
	}
	wp := append(append([]uint64(nil), pp...), 1)
	main := []Action{{K: aSpawn, Spec: top}}
	// the traffic is sent by the supervisor from its OnLaunch, right after it spawned the worker (an external caller's
	// sends through a parsed reference would mostly arrive before the worker is registered and become dead letters);
	// the worker's mailbox then holds the whole sequence in order and works through it while the supervisor reacts
	tellW := func(acts ...Action) {
		p.Launch = append(p.Launch, Action{K: aTell, R: RX{K: 3, N: 1}, Tag: g.tag(), Acts: acts})
	}
	park := func() {
		for i, k := 0, 1+g.r.Intn(4); i < k; i++ {
			switch g.r.Intn(8) {
			case 0:
				tellW(Action{K: aStash}, Action{K: aStash}) // parked twice: two copies
			case 1:
				tellW(Action{K: aBecome, Mode: uint64(1 + g.r.Intn(3)), Discard: g.r.Bool()}, Action{K: aStash})
			case 2:
				tellW() // plain mail in between
				tellW(Action{K: aStash})
			default:
				tellW(Action{K: aStash})
			}
		}
	}
	for round, rounds := 0, 1+g.r.Intn(2); round < rounds; round++ {
		park()
		switch g.r.Intn(9) {
		case 0, 1, 2, 3:
			tellW(Action{K: aPanic}) // supervised failure: the next decision of the parent
		case 4:
			tellW(Action{K: aStash}, Action{K: aPanic}) // the failing message parked itself first: it fails again when it comes back
		case 5:
			p.Launch = append(p.Launch, Action{K: aKill, R: RX{K: 3, N: 1}, Poison: g.r.Bool()})
		case 6:
			p.Launch = append(p.Launch, Action{K: aTellSelf, Tag: g.tag(), Acts: []Action{{K: aPanic}}}) // the supervisor itself fails
		case 7:
			tellW(Action{K: aPanic})
			tellW(Action{K: aPanic}) // a second failure queued behind the first
		}
		if g.r.Bool() {
			park()
		}
		if g.r.Chance(1, 3) {
			// drain one by one with the argument-less form, down to the last parked envelope and beyond
			for i, k := 0, 1+g.r.Intn(7); i < k; i++ {
				tellW(Action{K: aUnstash})
			}
		} else {
			for i, k := 0, g.r.Intn(4); i < k; i++ {
				tellW(unst())
			}
		}
		for i, k := 0, g.r.Intn(3); i < k; i++ {
			tellW()
		}
	}
	for i, k := 0, g.r.Intn(3); i < k; i++ { // late probes from outside, through a parsed reference
		main = append(main, Action{K: aTell, R: RX{K: 4, P: wp}, Tag: g.tag(), Acts: []Action{unst()}})
	}
	scripts := [][]Action{main}
	if g.r.Chance(1, 3) {
		var second []Action
		for i, k := 0, 1+g.r.Intn(3); i < k; i++ {
			switch g.r.Intn(5) {
			case 0:
				second = append(second, Action{K: aKill, R: RX{K: 4, P: wp}, Poison: g.r.Bool()})
			case 1:
				second = append(second, Action{K: aTell, R: RX{K: 4, P: wp}, Tag: g.tag(), Acts: []Action{unst()}})
			case 2:
				second = append(second, Action{K: aTell, R: RX{K: 4, P: wp}, Tag: g.tag(), Acts: []Action{{K: aPanic}}})
			default:
				second = append(second, Action{K: aTell, R: RX{K: 4, P: wp}, Tag: g.tag(), Acts: []Action{{K: aStash}}})
			}
		}
		scripts = append(scripts, second)
	}
	return scripts
}

// death-watch scenario (C06: "its parent and every actor watching it receive exactly one OnKilled for it"): a target
// under a scripted supervisor, 1..3 sibling watchers and sometimes a watcher outside the subtree. The watchers
// register one after the other through a baton message (so that the target really has all of them when the baton
// reaches it), some twice, some unwatch again; the baton ends at the target with a kill of itself (poison or not) or a
// failure its supervisor decides about (restart: the watchers must survive it; stop; escalate ...); later rounds end
// the target again (after a restart the same context, after a stop a re-spawned one nobody watches yet).
func (g *gen) watchScenario() [][]Action {
	g.names = nil
	tp := []uint64{1, 1}
	wpath := func(i int) []uint64 { return []uint64{1, uint64(i)} }
	end := func() []Action {
		switch g.r.Intn(5) {
		case 0:
			return []Action{{K: aKill, R: RX{K: 0}, Poison: true}}
		case 1:
			return []Action{{K: aKill, R: RX{K: 0}, Poison: false}}
		}
		return []Action{{K: aPanic}}
	}
	var hooks [][3]bool
	for i := 0; i < g.r.Intn(2); i++ {
		hooks = append(hooks, [3]bool{!g.r.Chance(1, 4), !g.r.Chance(1, 6), !g.r.Chance(1, 6)})
	}
	t := &Spec{Name: 1, Prelaunch: true, Provider: g.r.Bool(), Hooks: hooks}
	if g.r.Chance(1, 4) {
		t.Launch = []Action{{K: aSpawn, Spec: &Spec{Name: 1, Prelaunch: true}}} // the termination has to wait for a grandchild
	}
	if g.watchK%3 != 2 {
		// Watch requests that reach the target while it is in its own stop (or restart) sequence, not running any more but
		// not terminated either: (a) the grandchild, when it handles the kill the stopping target passed on, watches its
		// parent - its Watch and its own termination notice reach the target in this order (one sender), so the target
		// handles the Watch in state killing with a live descendant; (b) the target's own OnKill handler (it runs after the
		// kill was passed on) tells watcher 2 to watch it. The requester must be registered and hear of the termination
		// when it really happens - not be told "terminated" at once while the path is still registered
		t.Launch = []Action{{K: aSpawn, Spec: &Spec{Name: 1, Prelaunch: true, Kill: []Action{{K: aWatch, R: RX{K: 1}}}}}}
		t.Kill = []Action{{K: aTell, R: RX{K: 4, P: []uint64{1, 2}}, Tag: g.tag(), Acts: []Action{{K: aWatch, R: RX{K: 4, P: tp}}}}}
	}
	nW := 1 + g.r.Intn(3)
	var decs []int
	for i := 0; i < 1+g.r.Intn(3); i++ {
		decs = append(decs, []int{1, 1, 1, 2, 2, 3, 4, 5, 6}[g.r.Intn(9)])
	}
	p := &Spec{Name: 1, Prelaunch: true, Strategy: 1 + g.r.Intn(2), Decisions: decs}
	p.Launch = []Action{{K: aSpawn, Spec: t}}
	for i := 0; i < nW; i++ {
		p.Launch = append(p.Launch, Action{K: aSpawn, Spec: &Spec{Name: uint64(2 + i), Prelaunch: true}})
	}
	// the baton: watcher 2 registers and passes it on to watcher 3, ... the last one hands [last] to the target
	var baton func(i int, reg bool, last []Action) Action
	baton = func(i int, reg bool, last []Action) Action {
		if i >= nW {
			return Action{K: aTell, R: RX{K: 4, P: tp}, Tag: g.tag(), Acts: last}
		}
		var acts []Action
		if reg {
			switch g.r.Intn(6) {
			case 0:
				acts = []Action{{K: aWatch, R: RX{K: 4, P: tp}}, {K: aWatch, R: RX{K: 4, P: tp}}} // twice: no additional effect
			case 1:
				acts = []Action{{K: aWatch, R: RX{K: 4, P: tp}}, {K: aUnwatch, R: RX{K: 4, P: tp}}} // changed its mind
			case 2:
				// not this one
			default:
				acts = []Action{{K: aWatch, R: RX{K: 4, P: tp}}}
			}
		} else if g.r.Chance(1, 5) {
			acts = []Action{{K: aUnwatch, R: RX{K: 4, P: tp}}}
		}
		acts = append(acts, baton(i+1, reg, last))
		return Action{K: aTell, R: RX{K: 4, P: wpath(2 + i)}, Tag: g.tag(), Acts: acts}
	}
	rounds := 1 + g.r.Intn(3)
	for r := 0; r < rounds; r++ {
		p.Launch = append(p.Launch, baton(0, r == 0 || g.r.Chance(1, 3), end()))
		if g.r.Chance(1, 4) {
			p.Launch = append(p.Launch, Action{K: aSpawn, Spec: t}) // re-spawn under the same name (fails while the old one is alive)
		}
	}
	g.watchK++
	if g.watchK%2 == 0 {
		for i, d := range p.Decisions {
			if d == 6 {
				p.Decisions[i] = 3 // never escalate here: a parent that is being stopped and keeps re-spawning never ends (user-level)
			}
		}
		// the parent (which is never stopped in this scenario) re-spawns the target under the same name from its
		// OnKilled(child) handler: the name must be free by then (C06 "the name can be reused by the parent")
		p.Killed = []Action{{K: aSpawn, Spec: t}}
	}
	main := []Action{{K: aSpawn, Spec: p}}
	if g.r.Chance(1, 3) { // a watcher outside the subtree; its request races the rest
		main = append(main, Action{K: aSpawn, Spec: &Spec{Name: 2, Prelaunch: true, Launch: []Action{{K: aWatch, R: RX{K: 4, P: tp}}}}})
	}
	for i, k := 0, g.r.Intn(3); i < k; i++ {
		main = append(main, Action{K: aTell, R: RX{K: 4, P: tp}, Tag: g.tag()})
	}
	scripts := [][]Action{main}
	if g.r.Chance(1, 4) {
		scripts = append(scripts, []Action{{K: aKill, R: RX{K: 4, P: tp}, Poison: g.r.Bool()}})
	}
	return scripts
}

// spawn-while-stopping scenario (monitor-only: uses the harness-only Once flag, which the model does not have):
// a parent that is being killed spawns a replacement child from its OnKilled(child) handler
func (g *gen) killSpawnScenario() [][]Action {
	g.names = nil
	z := &Spec{Name: 9, Prelaunch: true}
	nch := 1 + g.r.Intn(3)
	p := &Spec{Name: 1, Prelaunch: true, Strategy: g.r.Intn(3)}
	for i := 1; i <= nch; i++ {
		c := &Spec{Name: uint64(i), Prelaunch: true}
		if g.r.Chance(1, 3) {
			c.Launch = []Action{{K: aSpawn, Spec: &Spec{Name: 1, Prelaunch: true}}}
		}
		p.Launch = append(p.Launch, Action{K: aSpawn, Spec: c})
	}
	p.Killed = []Action{{K: aSpawn, Spec: z, Once: true, Tag: 1}}
	if g.r.Bool() {
		p.Kill = []Action{{K: aSpawn, Spec: &Spec{Name: 8, Prelaunch: true}}}
	}
	main := []Action{{K: aSpawn, Spec: p}, {K: aTell, R: RX{K: 4, P: []uint64{1, 1}}, Tag: g.tag()}, {K: aKill, R: RX{K: 4, P: []uint64{1}}, Poison: g.r.Bool()}}
	return [][]Action{main}
}

// all user-message tags a scenario can send
func collectTags(as []Action, out map[uint64]bool) {
	for _, a := range as {
		switch a.K {
		case aTell, aTellSelf:
			out[a.Tag] = true
			collectTags(a.Acts, out)
		case aSpawn:
			collectTags(a.Spec.Launch, out)
			collectTags(a.Spec.Kill, out)
			collectTags(a.Spec.Killed, out)
		}
	}
}

// ---------------------------------------------------------------- observations that cannot be located

// unavailable: the private observations the accessors could not locate in the build under test (a renamed or
// restructured field). They are listed in the report's info, blanked in the final projection on both sides (the
// model gets the same mask) and the monitors that need them are skipped: nothing fails because of them.
func unavailable() map[string]bool {
	m := map[string]bool{}
	for _, u := range actor.XVUnavailable() {
		m[u] = true
	}
	return m
}

// positions in the per-actor tuple of the final projection (100 = the event-stream tables)
var maskOf = map[string][]uint64{"state": {2}, "zombie": {3}, "stash": {7, 13}, "watchers": {9}, "stack": {10}, "actor": {11}, "registry": {12}, "stream": {100}}

func projectionMask() []uint64 {
	var out []uint64
	for u := range unavailable() {
		out = append(out, maskOf[u]...)
	}
	sort.Slice(out, func(i, j int) bool { return out[i] < out[j] })
	return out
}

// list-valued positions of the per-actor tuple (blank = the empty list; the others blank to 0)
var listField = map[int]bool{0: true, 8: true, 9: true, 13: true}

func blankFields(fs []lib.T, mask []uint64) lib.T {
	out := make([]lib.T, len(fs))
	for i, f := range fs {
		out[i] = f
		for _, m := range mask {
			if uint64(i) == m {
				if listField[i] {
					out[i] = lib.L()
				} else {
					out[i] = lib.N(0)
				}
			}
		}
	}
	return lib.LS(out)
}

// ---------------------------------------------------------------- driver

type H struct {
	o *lib.Out
}

func (h *H) emit(scripts [][]Action, res result) {
	sc := make([]lib.T, len(scripts))
	for i, s := range scripts {
		sc[i] = actsT(s)
	}
	evs := make([]lib.T, len(res.events))
	outs := make([]lib.T, len(res.events))
	for i, e := range res.events {
		evs[i], outs[i] = e.ev, e.out
	}
	mask := projectionMask()
	mt := make([]lib.T, len(mask))
	for i, m := range mask {
		mt[i] = lib.N(m)
	}
	final := make([]lib.T, len(res.final))
	for i, f := range res.final {
		final[i] = blankFields(f, mask)
	}
	subs := res.subs
	for _, m := range mask {
		if m == 100 {
			subs = lib.L()
		}
	}
	in := lib.L(lib.LS(sc), lib.LS(evs), lib.LS(res.query), lib.LS(mt))
	out := lib.L(lib.LS(outs), lib.LS(res.obs), lib.LS(final), subs, lib.Bool(false))
	if res.overrun {
		// the run was cut: there is no complete trace to compare, only the monitor below
		h.o.Stats["overrun"]++
		h.monitors(scripts, res, in)
		return
	}
	h.o.Case(fmt.Sprintf("events<%d", ((len(evs)/50)+1)*50), len(res.finals) >= 3, in, out)
	for _, e := range res.events {
		sh := lib.Show(e.ev)
		if strings.HasPrefix(sh, "(3 ") { // a handler invocation: classify by message kind
			o := lib.Show(e.out)
			for _, k := range []struct{ pat, name string }{{" (c ", "handled:dead-letter"}, {" (1))", "handled:OnLaunch"}, {" (2 ", "handled:OnKill"}, {" (3 ", "handled:OnKilled"}, {" (4 ", "handled:supervision"},
				{" (5))", "handled:pause"}, {" (6))", "handled:resume"}, {" (7 ", "handled:restart"}, {" (8))", "handled:watch"}, {" (9))", "handled:unwatch"},
				{" (a ", "handled:user"}, {" (b ", "handled:event"}} {
				if strings.Contains(o, k.pat) {
					h.o.Stats[k.name]++
					break
				}
			}
		}
	}
	for _, f := range res.finals {
		if f.info.Zombie {
			h.o.Stats["final:zombie"]++
		}
		if f.info.State == 2 {
			h.o.Stats["final:killed"]++
		}
		if f.k.gen > 0 {
			h.o.Stats["final:name-reused"]++
		}
		if f.info.StashLen > 0 {
			h.o.Stats["final:stash-nonempty"]++
		}
	}
	h.o.Stats["restart-with-parked-mail"] += res.restartWithStash
	h.o.Stats["events"] += len(evs)
	h.o.Stats["actors"] += len(res.finals)
	h.monitors(scripts, res, in)
}

func (h *H) monitors(scripts [][]Action, res result, in lib.T) {
	if res.overrun {
		h.o.Monitor("no-quiescence", in, "the runtime kept taking steps: "+res.stuck)
		return
	}
	// ---- C05: lifecycle grammar per actor: Launch first; nothing after own OnKilled except a new Launch
	type lc struct {
		started  bool
		dead     bool
		killSeen bool
		insts    map[uint64]bool // actor instances that have handled a message of an earlier incarnation of this context
		lastInst uint64
	}
	st := map[key]*lc{}
	for si, s := range res.seens {
		l := st[s.who]
		if l == nil {
			l = &lc{}
			st[s.who] = l
		}
		if l.insts == nil {
			l.insts = map[uint64]bool{}
		}
		switch {
		case s.kind == 1 && (!l.started || l.dead):
			if l.dead {
				// a supervised restart: the OnLaunch that opens the new incarnation. It must be handled by the behaviour the
				// stack was reset to (the actor's OnReceive) and, with a provider, by the fresh instance - not by an
				// instance / behaviour of the incarnation that has just seen its own OnKilled
				if s.mode != 0 {
					h.o.Monitor("c05-launch-to-stale-behaviour", in, fmt.Sprintf("%v was restarted, but the OnLaunch of the new incarnation was handled by the behaviour installed with Become (mode %d) in the previous incarnation, not by the actor's OnReceive the behaviour stack is reset to", s.who, s.mode))
				}
				if res.provider[s.who] && l.insts[s.inst] {
					h.o.Monitor("c05-launch-to-stale-instance", in, fmt.Sprintf("%v (spawned with an actor provider) was restarted, but the OnLaunch of the new incarnation was handled by instance %d, which already lived through an earlier incarnation and has seen its own OnKilled; the fresh instance never gets an OnLaunch", s.who, s.inst))
				}
				if !res.provider[s.who] && s.inst != l.lastInst {
					h.o.Monitor("c05-launch-to-stale-instance", in, fmt.Sprintf("%v (no provider) was restarted, but the OnLaunch of the new incarnation was handled by instance %d instead of the actor instance %d", s.who, s.inst, l.lastInst))
				}
			}
			l.started, l.dead, l.killSeen = true, false, false
		default:
			if !l.started {
				// two different histories: OnLaunch is merely late (another thread's message slipped in between
				// registration and the OnLaunch enqueue), or this incarnation never sees OnLaunch at all
				later := false
				for _, t := range res.seens[si+1:] {
					if t.who != s.who {
						continue
					}
					if t.kind == 1 {
						later = true
					}
					if t.kind == 1 || (t.kind == 3 && t.ref == t.who.path) {
						break
					}
				}
				if later {
					h.o.Monitor("c05-before-launch", in, fmt.Sprintf("%v saw %s before OnLaunch; OnLaunch was handled later by the same incarnation", s.who, lib.Show(s.desc)))
				} else if res.deadLaunch[s.who.path] {
					h.o.Monitor("c05-before-launch", in, fmt.Sprintf("%v saw %s before OnLaunch; OnLaunch was enqueued later, after a racing kill had terminated the actor, and became a dead letter", s.who, lib.Show(s.desc)))
				} else {
					h.o.Monitor("c05-never-launched", in, fmt.Sprintf("%v saw %s although this incarnation never handles OnLaunch", s.who, lib.Show(s.desc)))
				}
				l.started = true
			}
			if l.dead {
				h.o.Monitor("c05-after-killed", in, fmt.Sprintf("%v saw %s after its own OnKilled", s.who, lib.Show(s.desc)))
			}
			if s.kind == 3 && s.ref == s.who.path {
				l.dead = true
			}
			if s.kind == 2 {
				l.killSeen = true
			}
		}
		l.insts[s.inst] = true
		l.lastInst = s.inst
	}
	// ---- C19: an event type is only ever delivered to actors whose scripts subscribe to it (nobody else)
	subscribedEver := map[string]map[uint64]bool{}
	var walk func(path string, as []Action)
	walk = func(path string, as []Action) {
		for _, a := range as {
			switch a.K {
			case aSub:
				if subscribedEver[path] == nil {
					subscribedEver[path] = map[uint64]bool{}
				}
				subscribedEver[path][a.Ty] = true
			case aTell, aTellSelf:
				// the script runs at whoever receives it: conservatively attribute subscriptions to every path
				walk("*", a.Acts)
			case aSpawn:
				child := strings.TrimSuffix(path, "/") + fmt.Sprintf("/a%d", a.Spec.Name)
				if path == "*" {
					child = "*"
				}
				walk(child, a.Spec.Launch)
				walk(child, a.Spec.Kill)
				walk(child, a.Spec.Killed)
			}
		}
	}
	for _, sc := range scripts {
		walk("", sc)
	}
	for _, s := range res.seens {
		if s.kind == 11 {
			ok := subscribedEver[s.who.path][s.tag] || subscribedEver["*"][s.tag]
			if !ok {
				h.o.Monitor("c19-delivered-to-non-subscriber", in, fmt.Sprintf("%v received an event of type %d it never subscribed to", s.who, s.tag))
			}
		}
	}
	// ---- C06: an actor is reported terminated at most once to its parent; exactly once if it is released
	killedSeenBy := map[string]map[string]int{} // dead path -> observer path -> count (per generation impossible to tell: count per (observer key))
	for _, s := range res.seens {
		if s.kind == 3 && s.ref != s.who.path {
			k := s.ref
			if killedSeenBy[k] == nil {
				killedSeenBy[k] = map[string]int{}
			}
			killedSeenBy[k][fmt.Sprintf("%v", s.who)]++
		}
	}
	// ---- C06: an actor sees its own OnKilled only after every descendant has seen its own (children first)
	ownKilledAt := map[key]int{}
	for i, s := range res.seens {
		if s.kind == 3 && s.ref == s.who.path {
			ownKilledAt[s.who] = i
		}
	}
	for anc, ia := range ownKilledAt {
		for desc, id := range ownKilledAt {
			if desc.path != anc.path && strings.HasPrefix(desc.path, strings.TrimSuffix(anc.path, "/")+"/") && id > ia {
				// only meaningful when the descendant was alive when the ancestor terminated: it saw OnLaunch before that point
				launched := false
				for j := 0; j < ia; j++ {
					if res.seens[j].who == desc && res.seens[j].kind == 1 {
						launched = true
					}
				}
				if launched {
					h.o.Monitor("c06-parent-before-descendant", in, fmt.Sprintf("%v saw its own OnKilled before its descendant %v did", anc, desc))
				}
			}
		}
	}
	// the same from the parent's side, independent of the schedule: a child whose ActorOf had returned successfully before
	// the parent's (next) own OnKilled must have seen its own OnKilled in between
	ownKilledAll := map[string][]int{} // path -> positions of own OnKilled of any context under that path
	ownKilledOf := map[key][]int{}
	for i, s := range res.seens {
		if s.kind == 3 && s.ref == s.who.path {
			ownKilledAll[s.who.path] = append(ownKilledAll[s.who.path], i)
			ownKilledOf[s.who] = append(ownKilledOf[s.who], i)
		}
	}
	for _, sp := range res.spawnAt {
		ia := -1
		for _, i := range ownKilledOf[sp.parent] {
			if i >= sp.at {
				ia = i
				break
			}
		}
		if ia < 0 {
			continue // the parent has not terminated (or been restarted) since
		}
		ok := false
		for _, i := range ownKilledAll[sp.child] {
			ok = ok || (i >= sp.at && i < ia)
		}
		if !ok {
			h.o.Monitor("c06-parent-before-descendant", in, fmt.Sprintf("%v saw its own OnKilled although its child %s, whose ActorOf had already returned successfully, had not seen its own OnKilled yet", sp.parent, sp.child))
		}
	}
	if !unavailable()["registry"] {
		for _, e := range res.early {
			h.o.Monitor("c06-reported-terminated-but-registered", in, e)
		}
	}
	gensOf := map[string]int{}
	for _, f := range res.finals {
		if f.k.gen+1 > gensOf[f.k.path] {
			gensOf[f.k.path] = f.k.gen + 1
		}
	}
	un := unavailable()
	core := !un["state"] && !un["zombie"] && !un["registry"] // what almost every state-based monitor below needs
	// ---- C06: a terminating actor (its behaviour saw its own OnKilled outside a restart) notifies its parent and every
	// actor that was watching it at that moment: an observer that lives through the whole run untouched (the only
	// context ever created under its path, one incarnation, never failed or killed, running, idle and unpaused at
	// quiescence) has seen one OnKilled naming the path for each such termination
	if core && !un["restarting"] {
		steady := map[string]bool{}
		for _, f := range res.finals {
			if f.reg && f.info.State == 0 && !f.info.Zombie && !f.paused && f.sysLen == 0 && f.userLen == 0 && f.k.path != "/" && gensOf[f.k.path] == 1 {
				steady[f.k.path] = true
			}
		}
		nl := map[string]int{}
		for _, sn := range res.seens {
			if sn.kind == 1 {
				nl[sn.who.path]++
			}
			if sn.kind == 2 {
				steady[sn.who.path] = false
			}
		}
		for _, pn := range res.panics {
			steady[pn.who.path] = false
		}
		for p, n := range nl {
			if n != 1 {
				steady[p] = false
			}
		}
		owedW, owedP := map[[2]string]int{}, map[[2]string]int{} // (observer path, dead path) -> terminations it has to hear of
		for t, ws := range res.watchersAt {
			for _, w := range ws {
				owedW[[2]string{w, t.path}]++
			}
			if i := strings.LastIndex(t.path, "/"); i > 0 {
				owedP[[2]string{t.path[:i], t.path}]++
			}
		}
		heard := func(obs, dead string) int {
			n := 0
			for who, c := range killedSeenBy[dead] {
				if strings.HasPrefix(who, "{"+obs+" ") {
					n += c
				}
			}
			return n
		}
		if res.rootState == 0 {
			for k, n := range owedW {
				if steady[k[0]] && heard(k[0], k[1]) < n {
					h.o.Monitor("c06-watcher-not-notified", in, fmt.Sprintf("%s was watching %s at %d termination(s) of it (outside a restart) and lived through the run untouched, but saw only %d OnKilled for it", k[0], k[1], n, heard(k[0], k[1])))
				}
			}
			for k, n := range owedP {
				if steady[k[0]] && heard(k[0], k[1]) < n+owedW[k] {
					h.o.Monitor("c06-parent-not-notified", in, fmt.Sprintf("%s is the parent of %s, which terminated %d time(s) (outside a restart); the parent lived through the run untouched but saw only %d OnKilled for it", k[0], k[1], n, heard(k[0], k[1])))
				}
			}
		}
	}
	for dead, by := range killedSeenBy {
		for who, n := range by {
			if n > gensOf[dead] {
				h.o.Monitor("c06-duplicate-onkilled", in, fmt.Sprintf("%s received %d OnKilled for %s which had only %d incarnation(s)", who, n, dead, gensOf[dead]))
			}
		}
	}
	if !core {
		h.o.Stats["state-based-monitors-skipped:observation-unavailable"]++
		return
	}
	h.c08(res, in, !un["sup-sub-targets"])
	if res.rootState != 0 {
		h.o.Stats["root-stopped-runs"]++
		return // after the system itself stopped, undeliverable messages are dropped by design
	}
	// ---- C08: a failure raised by a RUNNING child is presented to the strategy of its parent, provided the parent
	// survives the whole run untouched (never killed, restarted or failed itself; running at quiescence)
	stable := map[string]bool{}
	for _, f := range res.finals {
		if f.reg && f.info.State == 0 && !f.info.Zombie && f.k.path != "/" {
			stable[f.k.path] = true
		}
	}
	launches := map[string]int{}
	for _, sn := range res.seens {
		if sn.kind == 1 {
			launches[sn.who.path]++
		}
		if sn.kind == 2 {
			stable[sn.who.path] = false
		}
	}
	for _, pn := range res.panics {
		stable[pn.who.path] = false // it failed itself
	}
	for p, n := range launches {
		if n > 1 {
			stable[p] = false
		}
	}
	raised := map[string]int{}
	for _, pn := range res.panics {
		if pn.state == 0 {
			raised[pn.who.path]++
		}
	}
	for child, n := range raised {
		parent := child[:strings.LastIndex(child, "/")]
		if parent == "" || !stable[parent] || !res.scripted[parent] {
			continue
		}
		got := 0
		for _, d := range res.decs {
			if d.sup != parent {
				continue
			}
			for _, c := range d.chain {
				if c == child {
					got++
					break
				}
			}
		}
		if got < n {
			h.o.Monitor("c08-failure-not-supervised", in, fmt.Sprintf("%s failed %d time(s) while running, but the strategy of its parent %s (alive and untouched for the whole run) was consulted only %d time(s) about it", child, n, parent, got))
		}
	}
	// ---- C19: an event is delivered only to actors that were subscribed to its type when it was published: for
	// every handled event there must be a publication of that (type, payload) before it at which the receiving
	// context had a subscription to the type in force (Subscribe returned, no Unsubscribe/UnsubscribeAll since)
	for i, e := range res.slog {
		if e.kind != 4 {
			continue
		}
		ok := false
		subscribed := false
		for _, f := range res.slog[:i] {
			switch {
			case f.who == e.who && f.kind == 0 && f.ty == e.ty:
				subscribed = true
			case f.who == e.who && f.kind == 1 && f.ty == e.ty:
				subscribed = false
			case f.who == e.who && f.kind == 2:
				subscribed = false
			case f.kind == 3 && f.ty == e.ty && f.payload == e.payload && subscribed:
				ok = true
			}
		}
		if !ok {
			h.o.Monitor("c19-delivered-to-non-subscriber", in, fmt.Sprintf("%v handled event type %d payload %d, but at no publication of that event before it was it subscribed to the type (its Unsubscribe/UnsubscribeAll had returned, or it never subscribed)", e.who, e.ty, e.payload))
		}
	}
	// ---- C19: exactly once. due[(who,ty,payload)] = publications of that event at which who had a subscription in
	// force; it never handles the event more often than that, and handles it exactly that often if it lives through
	// the whole run untouched (one incarnation, never failed or killed, running with an empty mailbox at quiescence)
	type evk struct {
		who     key
		ty, pay uint64
	}
	due, got := map[evk]int{}, map[evk]int{}
	cur := map[key]map[uint64]bool{}
	for _, f := range res.slog {
		switch f.kind {
		case 0:
			if cur[f.who] == nil {
				cur[f.who] = map[uint64]bool{}
			}
			cur[f.who][f.ty] = true
		case 1:
			delete(cur[f.who], f.ty)
		case 2:
			delete(cur, f.who)
		case 3:
			for w, tys := range cur {
				if tys[f.ty] {
					due[evk{w, f.ty, f.payload}]++
				}
			}
		case 4:
			got[evk{f.who, f.ty, f.payload}]++
		}
	}
	untouched := map[key]bool{}
	for _, f := range res.finals {
		if f.reg && f.info.State == 0 && !f.info.Zombie && !f.paused && f.sysLen == 0 && f.userLen == 0 && f.k.path != "/" {
			untouched[f.k] = true
		}
	}
	nLaunch := map[key]int{}
	for _, sn := range res.seens {
		if sn.kind == 1 {
			nLaunch[sn.who]++
		}
		if sn.kind == 2 {
			untouched[sn.who] = false
		}
	}
	for _, pn := range res.panics {
		untouched[pn.who] = false
	}
	for k, n := range got {
		if n > due[k] {
			h.o.Monitor("c19-duplicate-delivery", in, fmt.Sprintf("%v handled event type %d payload %d %d time(s) although it was subscribed at only %d publication(s) of it", k.who, k.ty, k.pay, n, due[k]))
		}
	}
	for k, n := range due {
		if untouched[k.who] && nLaunch[k.who] == 1 && got[k] < n {
			h.o.Monitor("c19-not-delivered", in, fmt.Sprintf("%v was subscribed at %d publication(s) of event type %d payload %d and lived through the run untouched, but handled it only %d time(s)", k.who, n, k.ty, k.pay, got[k]))
		}
	}
	// ---- C06 / C19: at quiescence the event-stream tables mirror each other and name live actors only
	live := map[string]bool{}
	for _, f := range res.finals {
		if f.reg && (f.info.State != 2 || f.info.Zombie) { // a zombie (failed restart) is kept, with its subscriptions, until it is killed
			live[f.k.path] = true
		}
	}
	for ty, ps := range res.streamSubs {
		if un["stream"] {
			break
		}
		for _, p := range ps {
			if !live[p] {
				h.o.Monitor("c06-subscription-outlives-actor", in, fmt.Sprintf("%s is still subscribed to %s at quiescence although no live actor is registered at that path", p, ty))
			}
			found := false
			for _, t := range res.streamTypes[p] {
				found = found || t == ty
			}
			if !found {
				h.o.Monitor("c19-tables-disagree", in, fmt.Sprintf("%s is a subscriber of %s but the reverse index does not list that type for it", p, ty))
			}
		}
	}
	for p, ts := range res.streamTypes {
		if un["stream"] {
			break
		}
		for _, ty := range ts {
			found := false
			for _, q := range res.streamSubs[ty] {
				found = found || q == p
			}
			if !found {
				h.o.Monitor("c19-tables-disagree", in, fmt.Sprintf("the reverse index lists %s for %s but the subscriber table does not", ty, p))
			}
		}
	}
	// ---- C09: no survivor stays paused or holds runnable mail
	for _, f := range res.finals {
		if f.info.State == 0 && !f.info.Zombie && f.k.path != "/" {
			if f.paused {
				h.o.Monitor("c09-survivor-paused", in, fmt.Sprintf("%v is running but its mailbox is still paused at quiescence (%d user messages waiting)", f.k, f.userLen))
			} else if f.userLen > 0 || f.sysLen > 0 {
				h.o.Monitor("c09-survivor-mail", in, fmt.Sprintf("%v is running, not paused, but has %d/%d queued messages at quiescence", f.k, f.sysLen, f.userLen))
			}
		}
		if f.info.State == 1 {
			h.o.Monitor("c09-half-stopped", in, fmt.Sprintf("%v is still in state killing at quiescence", f.k))
		}
	}
	// ---- C03: every user message that was sent is processed, stashed or dead-lettered exactly once
	processed := map[uint64]int{}
	for _, s := range res.seens {
		if s.kind == 10 {
			processed[s.tag]++
		}
	}
	if !un["stash"] {
		h.c03(res, in, processed)
	}
}

// c08: every failure report handled by a live supervisor - whatever the supervisor's own state: running, stopping, in the
// middle of its own restart, zombie - leads to exactly one consultation of ITS strategy, and the directive that is sent
// out is the decided one, to exactly the strategy's targets: the failing child (one-for-one) or the supervisor's
// children (one-for-all), and to nobody else
func (h *H) c08(res result, in lib.T, chainKnown bool) {
	parentOf := func(p string) string {
		i := strings.LastIndex(p, "/")
		if i <= 0 {
			return "/"
		}
		return p[:i]
	}
	count := func(ps []supPush, kind int) map[string]int {
		m := map[string]int{}
		for _, p := range ps {
			if p.kind == kind {
				m[p.target]++
			}
		}
		return m
	}
	sameSet := func(got map[string]int, want []string) bool {
		w := map[string]int{}
		for _, t := range want {
			w[t]++
		}
		if len(w) != len(got) {
			return false
		}
		for t, n := range w {
			if got[t] != n {
				return false
			}
		}
		return true
	}
	show := func(ps []supPush) string {
		out := ""
		for _, p := range ps {
			out += fmt.Sprintf(" %s(%v)->%s", map[int]string{2: "kill", 4: "report", 5: "pause", 6: "resume", 7: "restart"}[p.kind], p.flag, p.target)
		}
		return out
	}
	for _, sc := range res.supCalls {
		if sc.aborted || (sc.state == 2 && !sc.zombie) {
			continue // a terminated supervisor does not handle the report (it is a dead letter)
		}
		h.o.Stats[fmt.Sprintf("supervision-call:supervisor-state-%d", sc.state)]++
		scripted := res.scripted[sc.sup.path]
		strategy, decision, targets, sub := 1, 3, []string{sc.child}, [][]string(nil) // the system default: one-for-one, Stop
		if scripted {
			switch len(sc.decs) {
			case 0:
				h.o.Monitor("c08-strategy-not-consulted", in, fmt.Sprintf("%v (state %d) handled the failure report of %s but its scripted strategy was not consulted; it sent:%s", sc.sup, sc.state, sc.child, show(sc.pushes)))
				continue
			case 1:
			default:
				h.o.Monitor("c08-strategy-consulted-twice", in, fmt.Sprintf("%v consulted its strategy %d times for one failure report of %s", sc.sup, len(sc.decs), sc.child))
				continue
			}
			d := sc.decs[0]
			strategy, decision, sub = d.strategy, d.decision, d.sub
			targets = d.chain
			if strategy == 2 {
				targets = d.children
			}
		} else if len(sc.decs) != 0 {
			continue
		}
		if decision < 1 || decision > 6 {
			decision = 6 // out-of-range values are documented to escalate
		}
		bad := ""
		if !sameSet(count(sc.pushes, 5), targets) {
			bad = "the mailboxes paused are not the strategy's targets"
		}
		wantRestart, wantKill, wantReport := []string(nil), []string(nil), []string(nil)
		graceful := decision == 2 || decision == 4
		switch decision {
		case 1, 2:
			wantRestart = targets
		case 3, 4:
			wantKill = targets
		case 6:
			wantReport = []string{parentOf(sc.sup.path)}
		}
		if !sameSet(count(sc.pushes, 7), wantRestart) || !sameSet(count(sc.pushes, 2), wantKill) || !sameSet(count(sc.pushes, 4), wantReport) {
			bad = "the directive sent is not the decided one, or not to exactly the strategy's targets"
		}
		for _, p := range sc.pushes {
			if (p.kind == 7 || p.kind == 2) && p.flag != graceful {
				bad = "the directive's graceful flag is not the decided one"
			}
		}
		resumes := count(sc.pushes, 6)
		if decision == 5 || graceful {
			allowed := map[string]bool{}
			for _, t := range targets {
				allowed[t] = true
				if resumes[t] == 0 {
					bad = "a target is not resumed"
				}
			}
			for _, ts := range sub {
				for _, t := range ts {
					allowed[t] = true
				}
			}
			for t := range resumes {
				if !allowed[t] && chainKnown {
					bad = "an actor outside the escalation chain's targets is resumed"
				}
			}
		} else if len(resumes) != 0 {
			bad = "a Resume is sent although the decision is neither Resume nor graceful"
		}
		if bad != "" {
			h.o.Monitor("c08-directive-mismatch", in, fmt.Sprintf("%v (state %d, strategy %d) decided %d for the failure of %s with targets %v (escalation chain below: %v): %s; it sent:%s",
				sc.sup, sc.state, strategy, decision, sc.child, targets, sub, bad, show(sc.pushes)))
		}
	}
}

func (h *H) c03(res result, in lib.T, processed map[uint64]int) {
	// Token accounting per tag. A copy of user message t comes into being by a send (Tell / TellSelf) or by a Stash()
	// call made while t is the current message (the handler call consumed the mailbox copy, Stash parks a new one;
	// Unstash only moves a copy from the stash back to the mailbox). A copy ends by: a behaviour invocation on it
	// (processed; the guard "processes" what is addressed to it by ignoring it), a handler call at a zombie (the
	// documented exception), or a dead-letter report inserted into the guard's mailbox (by the dead branch of
	// HandleEnvelop or by the dead-letter mailbox for an unknown target). At quiescence a copy that has not ended
	// may only sit in a stash. So, with every count taken from what the real runtime did:
	//     sends + stashCalls = processed + rootGot + zombieAte + dlReports + inStash          (else lost / duplicated)
	tags := map[uint64]bool{}
	for t := range res.sent {
		tags[t] = true
	}
	for t := range res.stashed {
		tags[t] = true
	}
	for t := range res.dlReports {
		tags[t] = true
	}
	for t := range processed {
		tags[t] = true
	}
	for t := range tags {
		n := res.sent[t]
		if res.dead[t] > res.dlReports[t] {
			h.o.Monitor("c03-dead-letter-twice", in, fmt.Sprintf("user message %d: %d dead-letter report(s) were sent to the guard but it published %d dead-letter events", t, res.dlReports[t], res.dead[t]))
		}
		made := n + res.stashCalls[t]
		ended := processed[t] + res.rootGot[t] + res.zombieAteN[t] + res.dlReports[t]
		kept := res.stashed[t]
		switch {
		case made > ended+kept:
			where := ""
			if res.queued[t] > 0 {
				where = fmt.Sprintf("; %d copy(ies) still queued:", res.queued[t])
				for _, f := range res.finals {
					if f.userLen > 0 {
						where += fmt.Sprintf(" [%v state=%d zombie=%v paused=%v holds %d queued user message(s)]", f.k, f.info.State, f.info.Zombie, f.paused, f.userLen)
					}
				}
			}
			h.o.Monitor("c03-lost-message", in, fmt.Sprintf("user message %d: %d cop(ies) came into being (sent %d time(s), parked by %d Stash call(s)) but only %d are accounted for at quiescence (processed %d, ignored by the guard %d, consumed by a zombie %d, dead-lettered %d, in a stash %d): %d lost, never processed, stashed or dead-lettered%s",
				t, made, n, res.stashCalls[t], ended+kept, processed[t], res.rootGot[t], res.zombieAteN[t], res.dlReports[t], kept, made-ended-kept, where))
		case made < ended+kept:
			h.o.Monitor("c03-duplicated-message", in, fmt.Sprintf("user message %d: %d cop(ies) came into being (sent %d time(s), parked by %d Stash call(s)) but %d are accounted for (processed %d, ignored by the guard %d, consumed by a zombie %d, dead-lettered %d, in a stash %d): not exactly one place per copy",
				t, made, n, res.stashCalls[t], ended+kept, processed[t], res.rootGot[t], res.zombieAteN[t], res.dlReports[t], kept))
		}
	}
}

func main() {
	f := lib.ParseFlags()
	o := lib.NewOut(f.Out)
	h := &H{o}
	r := lib.NewRand(f.Seed)
	n := 210
	if f.Tier == "thorough" {
		n = 4900
	}
	if f.N > 0 {
		n = f.N
	}
	g := &gen{r: r}
	for i := 0; i < n; i++ {
		var sc [][]Action
		switch i % 7 {
		case 1, 3:
			sc = g.supScenario()
		case 4:
			sc = g.streamScenario()
		case 5:
			sc = g.stashScenario()
		case 6:
			sc = g.watchScenario()
		default:
			sc = g.scenario()
		}
		rr := r.Fork()
		var ch func([]int, int) int
		switch r.Intn(3) {
		case 0:
			ch = vsched.RandomChooser(rr.Intn)
		default:
			ch = vsched.StickyChooser(rr.Intn, 3+r.Intn(12))
		}
		h.emit(sc, execute(sc, ch))
	}
	o.Info["scenarios"] = n
	o.Info["unavailable_observations"] = actor.XVUnavailable()
	// systematic exploration: depth-first enumeration of schedules with a preemption bound over a few small
	// scenarios (supervision matrix + stream + random), each schedule replayed on the model
	dfsScen, dfsRuns, bound := 5, 32, 1
	if f.Tier == "thorough" {
		dfsScen, dfsRuns, bound = 40, 400, 2
	}
	total := 0
	for i := 0; i < dfsScen; i++ {
		var sc [][]Action
		switch i % 5 {
		case 0:
			sc = g.supScenario()
		case 1:
			sc = g.streamScenario()
		case 3:
			sc = g.stashScenario()
		case 4:
			sc = g.watchScenario()
		default:
			sc = g.scenario()
		}
		total += vsched.Explore(bound, dfsRuns, func(choose func([]int, int) int) []vsched.Choice {
			res := execute(sc, choose)
			h.emit(sc, res)
			return res.choices
		})
	}
	// monitor-only scenarios (harness-only script features; not replayed on the model)
	mo := 24
	if f.Tier == "thorough" {
		mo = 300
	}
	for i := 0; i < mo; i++ {
		sc := g.killSpawnScenario()
		rr := r.Fork()
		res := execute(sc, vsched.StickyChooser(rr.Intn, 2+r.Intn(10)))
		h.o.Stats["monitor-only-runs"]++
		in := lib.L(lib.N(424242), lib.NI(i))
		if res.overrun {
			h.o.Monitor("no-quiescence", in, "spawn-while-stopping scenario: "+res.stuck)
			continue
		}
		h.monitors(sc, res, in)
	}
	o.Info["monitor_only_scenarios"] = mo
	o.Info["unavailable_observations"] = actor.XVUnavailable()
	for _, u := range actor.XVUnavailable() {
		fmt.Fprintf(os.Stderr, "observation %q: UNAVAILABLE in this build of vivid (blanked in the final projection on both sides; the monitors that need it are skipped)\n", u)
	}
	o.Info["dfs_scenarios"] = dfsScen
	o.Info["dfs_preemption_bound"] = bound
	o.Info["dfs_runs"] = total
	o.Close(f.Report)
	if len(o.Monitors) > 0 {
		os.Exit(3)
	}
}
