// stash: correspondence cases and implementation-side monitors for C02 (Stash / Unstash / StashCount of
// actor.Context), driven through a real ActorSystem with the public API only.
//
// One case = one script. A scripted actor is spawned, a first message parks it inside its handler
// (gate) while the single sender queues messages 0..M-1 and an end marker; then the gate opens and the
// actor handles its mailbox: the d-th handled numbered message performs the d-th call list of the
// script (Stash, Unstash(), Unstash(n)); quiescence is detected with markers the actor sends to itself
// (two markers in a row with nothing in between = mailbox dry); then the actor un-stashes everything
// that is left and handles it without further calls. Observed: the handling order with StashCount()
// after each handled message.
package main

import (
	"fmt"
	"os"
	"time"

	"github.com/kercylan98/vivid"
	"github.com/kercylan98/vivid/pkg/bootstrap"
	"github.com/kercylan98/vivid/pkg/log"
	"github.com/kercylan98/vivid/xverif/lib"
)

type call struct {
	kind int // 0 Stash, 1 Unstash(), 2 Unstash(n)
	n    int
}

type numbered struct{ id uint64 }
type gate struct{ ch chan struct{} }
type marker struct{}

type rec struct {
	id    uint64
	count int
}

type scripted struct {
	script   [][]call
	d        int // handled numbered messages so far
	since    int // numbered messages handled since the last marker
	draining bool
	out      []rec
	stashLog []uint64 // ids in the order Stash() was called
	redeliv  []uint64 // ids in the order they were handled again
	seen     map[uint64]bool
	done     chan struct{}
	finished bool
}

func (a *scripted) OnReceive(ctx vivid.ActorContext) {
	switch m := ctx.Message().(type) {
	case gate:
		<-m.ch
	case numbered:
		if a.finished {
			a.out = append(a.out, rec{m.id, -1}) // handled after quiescence was declared: shows up as a mismatch
			return
		}
		if a.seen[m.id] {
			a.redeliv = append(a.redeliv, m.id)
		}
		a.seen[m.id] = true
		if !a.draining && a.d < len(a.script) {
			for _, c := range a.script[a.d] {
				switch c.kind {
				case 0:
					ctx.Stash()
					a.stashLog = append(a.stashLog, m.id)
				case 1:
					ctx.Unstash()
				case 2:
					ctx.Unstash(c.n)
				}
			}
		}
		a.d++
		a.since++
		a.out = append(a.out, rec{m.id, ctx.StashCount()})
	case marker:
		if a.finished {
			return
		}
		if a.since > 0 {
			a.since = 0
			ctx.TellSelf(marker{})
			return
		}
		if !a.draining {
			a.draining = true
			ctx.Unstash(1 << 30)
			ctx.TellSelf(marker{})
			return
		}
		a.finished = true
		close(a.done)
	}
}

// spawner: the parent of all scripted actors. Spawning and killing happen inside its handler, so its
// children map is only touched by its own mailbox goroutine.
type spawnReq struct {
	a     *scripted
	reply chan vivid.ActorRef
}
type killReq struct{ ref vivid.ActorRef }

func spawner(ctx vivid.ActorContext) {
	switch m := ctx.Message().(type) {
	case spawnReq:
		ref, err := ctx.ActorOf(m.a)
		if err != nil {
			ref = nil
		}
		m.reply <- ref
	case killReq:
		ctx.Kill(m.ref, false)
	}
}

func tcall(c call) lib.T {
	switch c.kind {
	case 0:
		return lib.N(0)
	case 1:
		return lib.L()
	}
	return lib.L(lib.Z(int64(c.n)))
}

type H struct {
	o      *lib.Out
	sys    vivid.ActorSystem
	parent vivid.ActorRef
}

func (h *H) run(kind string, m int, script [][]call) {
	ids := make([]lib.T, m)
	for i := range ids {
		ids[i] = lib.NI(i)
	}
	ts := make([]lib.T, len(script))
	nStash, nUnstash := 0, 0
	for i, cs := range script {
		xs := make([]lib.T, len(cs))
		for j, c := range cs {
			xs[j] = tcall(c)
			if c.kind == 0 {
				nStash++
			} else {
				nUnstash++
			}
		}
		ts[i] = lib.LS(xs)
	}
	in := lib.L(lib.LS(ids), lib.LS(ts))
	a := &scripted{script: script, seen: map[uint64]bool{}, done: make(chan struct{})}
	reply := make(chan vivid.ActorRef, 1)
	h.sys.Tell(h.parent, spawnReq{a, reply})
	var ref vivid.ActorRef
	select {
	case ref = <-reply:
	case <-time.After(10 * time.Second):
	}
	if ref == nil {
		h.o.Monitor("spawn", in, "the scripted actor could not be spawned")
		return
	}
	g := gate{make(chan struct{})}
	h.sys.Tell(ref, g)
	for i := 0; i < m; i++ {
		h.sys.Tell(ref, numbered{uint64(i)})
	}
	h.sys.Tell(ref, marker{})
	close(g.ch)
	select {
	case <-a.done:
	case <-time.After(10 * time.Second):
		h.o.Monitor("no-quiescence", in, "the scripted actor did not reach quiescence within 10 s (a handler panicked, or a message was lost)")
		return // the actor may still be running: do not read its state
	}
	out := make([]lib.T, len(a.out))
	for i, r := range a.out {
		c := uint64(r.count)
		if r.count < 0 {
			c = 999999
		}
		out[i] = lib.L(lib.N(r.id), lib.N(c))
	}
	h.o.Case(kind, nStash > 0 && nUnstash > 0, in, lib.LS(out))
	// monitors: stashed messages come back in the order they were stashed, each exactly once
	for i, id := range a.redeliv {
		if i >= len(a.stashLog) {
			h.o.Monitor("stash-duplicated", in, fmt.Sprintf("re-delivery #%d (message %d) has no matching Stash call: %d Stash calls, %d re-deliveries", i, id, len(a.stashLog), len(a.redeliv)))
			break
		}
		if a.stashLog[i] != id {
			h.o.Monitor("stash-order", in, fmt.Sprintf("re-delivery #%d is message %d, but the #%d stashed message is %d (stash order %v, re-delivery order %v)", i, id, i, a.stashLog[i], a.stashLog, a.redeliv))
			break
		}
	}
	if len(a.redeliv) < len(a.stashLog) {
		h.o.Monitor("stash-lost", in, fmt.Sprintf("%d Stash calls but only %d re-deliveries after un-stashing everything", len(a.stashLog), len(a.redeliv)))
	}
	firsts := 0
	for i := 0; i < m; i++ {
		if a.seen[uint64(i)] {
			firsts++
		}
	}
	if firsts != m {
		h.o.Monitor("lost", in, fmt.Sprintf("%d of %d sent messages were never handled", m-firsts, m))
	}
	h.sys.Tell(h.parent, killReq{ref})
}

func randCalls(r *lib.Rand, stashBias int) []call {
	var cs []call
	n := 1
	if r.Chance(1, 4) {
		n = 2 + r.Intn(2)
	}
	if r.Chance(1, 6) {
		return nil
	}
	for i := 0; i < n; i++ {
		x := r.Intn(100)
		switch {
		case x < stashBias:
			cs = append(cs, call{kind: 0})
		case x < stashBias+(100-stashBias)/2:
			cs = append(cs, call{kind: 1})
		default:
			cs = append(cs, call{kind: 2, n: []int{-3, -1, 0, 1, 1, 2, 2, 3, 4, 7, 100, 1 << 40}[r.Intn(12)]})
		}
	}
	return cs
}

func main() {
	f := lib.ParseFlags()
	o := lib.NewOut(f.Out)
	r := lib.NewRand(f.Seed)
	sys := bootstrap.NewActorSystem(vivid.WithActorSystemLogger(log.NewSilentLogger()))
	if err := sys.Start(); err != nil {
		fmt.Fprintln(os.Stderr, "system start:", err)
		os.Exit(2)
	}
	parent, err := sys.ActorOf(vivid.ActorFN(spawner))
	if err != nil {
		fmt.Fprintln(os.Stderr, "spawner:", err)
		os.Exit(2)
	}
	h := &H{o: o, sys: sys, parent: parent}
	// fixed scripts: the unit-test shapes and the boundaries of Unstash(n)
	S, U := call{kind: 0}, call{kind: 1}
	Un := func(n int) call { return call{kind: 2, n: n} }
	h.run("fixed", 0, nil)
	h.run("fixed", 1, [][]call{{U}})
	h.run("fixed", 2, [][]call{{S}, {U}})
	h.run("fixed", 2, [][]call{{S, S}, {Un(3)}})
	h.run("fixed", 4, [][]call{{S}, {S}, {S}, {Un(0)}, {Un(-5)}, {Un(2)}, {U}, {U}})
	h.run("fixed", 3, [][]call{{S}, {S, U}, {S, Un(1)}, {Un(100)}, {S}, {S}})
	h.run("fixed", 5, [][]call{{S}, {S}, {S}, {S}, {Un(4)}, {S}, {S}, {}, {S}, {Un(3)}})
	// exhaustive small: every script of 3 call lists over {[], [S], [U], [S,S], [U(2)], [S,U]} with 3 messages
	small := [][]call{{}, {S}, {U}, {S, S}, {Un(2)}, {S, U}}
	depth := 3
	if f.Tier == "thorough" {
		depth = 4
	}
	idx := make([]int, depth)
	for {
		sc := make([][]call, depth)
		for i, a := range idx {
			sc[i] = small[a]
		}
		h.run("exhaustive", 3, sc)
		i := depth - 1
		for i >= 0 {
			idx[i]++
			if idx[i] < len(small) {
				break
			}
			idx[i] = 0
			i--
		}
		if i < 0 {
			break
		}
	}
	o.Info["exhaustive"] = fmt.Sprintf("all %d^%d scripts over the call lists {[], [Stash], [Unstash()], [Stash,Stash], [Unstash(2)], [Stash,Unstash()]} with 3 messages", len(small), depth)
	n := 400
	if f.Tier == "thorough" {
		n = 100000
	}
	if f.N > 0 {
		n = f.N
	}
	for i := 0; i < n; i++ {
		m := 1 + r.Intn(12)
		if r.Chance(1, 10) {
			m = 12 + r.Intn(300) // beyond the mailbox ring's first growth boundary at 256
		}
		bias := []int{70, 50, 30}[r.Intn(3)]
		sc := make([][]call, r.Intn(2*m+6))
		for j := range sc {
			sc[j] = randCalls(r, bias)
		}
		h.run("random", m, sc)
	}
	o.Info["random"] = fmt.Sprintf("%d seeded scripts: 1..311 messages, 0..2M+5 call lists of 0..3 calls, Unstash(n) with n from {-3,-1,0,1,2,3,4,7,100,2^40}", n)
	o.Close(f.Report)
	done := make(chan struct{})
	go func() { _ = sys.Stop(); close(done) }()
	select {
	case <-done:
	case <-time.After(5 * time.Second):
	}
	if len(o.Monitors) > 0 {
		os.Exit(3)
	}
}
