// instr: AST-based instrumenter. It rewrites one Go source file of /repo (as it is NOW in the tree under
// test) into a copy in which every synchronisation step selected by a profile is preceded by a vsched
// scheduling point. The copy replaces the original through `go build -overlay`; nothing is written to /repo.
//
//	atomic.F(&x.f, …)             ->  vsched.Y("fn:atomic.F:&x.f", atomic.F)(&x.f, …)
//	x.q.Push(v) / x.q.Pop()       ->  vsched.Y("fn:x.q.Push", x.q.Push)(v)            (profile: wrap patterns)
//	go f(a…)                      ->  vsched.Go("fn:go:f", func() { f(a…) })
//	x.mu.Lock()/Unlock()          ->  vsched.Lock(&x.mu, "fn:Lock:x.mu") / vsched.Unlock(&x.mu)   (also deferred)
//	<-x.done                      ->  vsched.RecvClosed(x.done, "fn:recv:x.done")
//	close(x.done)                 ->  vsched.Y("fn:close:x.done", func() { close(x.done) })()
//	x.f = e   (profile: assign)   ->  x.f = vsched.Y("fn:assign:x.f", e)
//	time.AfterFunc / *time.Timer  ->  vsched.AfterFunc / *vsched.Timer
//
// It fails (exit 2) when the file contains a construct of a selected kind it cannot handle (select
// statements, channel sends), rather than leaving it uncontrolled.
//
// Profile "system" is SEMANTIC: an operation is identified by WHAT it does, not by where it stands - the label of a
// scheduling point is "<kind>:<role>" ("Lock:status", "call:Kill", "select:guardClosed", "recv:ctxDone" ...) without the
// enclosing function, and the operations are found in whatever function, helper method or closure they are written:
//
//	a mutex field is the STATUS lock if some function locks it and reads / writes `.status` (itself or through a method
//	of the same file it calls), the ACTOROF lock if it is locked in a function called ActorOf; the field names do not matter
//	`<-c` is the context receive if c is `….Done()` or a variable assigned from `….Done()`
//	the two-way select on the guard-closed channel and ANY other channel (time.After(d), timer.C, …) is the stop select
package main

import (
	"bytes"
	"flag"
	"fmt"
	"go/ast"
	"go/parser"
	"go/printer"
	"go/token"
	"os"
	"regexp"
	"strconv"
)

type profile struct {
	wrap       []*regexp.Regexp // printed callee expressions to wrap with vsched.Y
	assign     []*regexp.Regexp // printed LHS of plain assignments that are steps of their own
	locks      []*regexp.Regexp // printed receivers of Lock/Unlock/RLock/RUnlock
	recvClosed []*regexp.Regexp
	closeChan  []*regexp.Regexp
	timers     bool
	goStmts    bool
	strict     bool // refuse select / send statements
	recvObj    bool // report the method receiver as the step's object (vsched.YO)
	// yieldStmt: statements (matched on the first line of their printed form) that get a scheduling point
	// of their own in front of them: `vsched.Yield("fn:stmt:<first line>")`
	yieldStmt []*regexp.Regexp
	// selectTimer: `select { case <-ch: A; case <-time.After(d): B }` with ch matching recvClosed becomes
	// `switch vsched.SelectClosedOrTimer(ch, d, "fn:select:ch") { case 0: A; case 1: B }`
	selectTimer bool
	// semantic: labels are "<kind>:<role>" (see the package comment); wrapRole / yieldRole give the role of a wrapped
	// callee / of a statement that gets a scheduling point of its own (first matching pattern wins)
	semantic  bool
	wrapRole  []roleRx
	yieldRole []roleRx
}

type roleRx struct {
	rx   *regexp.Regexp
	role string
}

func rx(ps ...string) []*regexp.Regexp {
	var out []*regexp.Regexp
	for _, p := range ps {
		out = append(out, regexp.MustCompile(p))
	}
	return out
}

var profiles = map[string]profile{
	"mailbox": {
		wrap:    rx(`^atomic\.`, `\.(buffer|systemBuffer)\.(Push|Pop)$`, `\.handler\.HandleEnvelop$`),
		goStmts: true,
		strict:  true,
	},
	// the whole actor runtime under the controlled scheduler: same yield points as "mailbox", each step
	// reporting which mailbox it operates on
	"mailbox-obj": {
		wrap:    rx(`^atomic\.`, `\.(buffer|systemBuffer)\.(Push|Pop)$`, `\.handler\.HandleEnvelop$`),
		goStmts: true,
		strict:  true,
		recvObj: true,
	},
	"future": {
		// future.go: CAS/Load of closed, closer(), one Tell per forwarder, and in PipeTo the point between the read of
		// f.forwarders (receiver of .Unique) and its write; context.go (func ask): NewFuture, appendFuture
		wrap: rx(`^atomic\.`, `\.closed\.(Load|CompareAndSwap|Store)$`, `^f\.closer$`, `^f\.liaison\.Tell$`,
			`^future\.NewFuture\[vivid\.Message\]$`, `^c\.system\.appendFuture$`, `^append\(f\.forwarders, .*\)\.Unique$`),
		assign:     rx(`^f\.(err|message)$`),
		locks:      rx(`\.mu$`),
		recvClosed: rx(`\.done$`),
		closeChan:  rx(`\.done$`),
		timers:     true,
		goStmts:    true,
		strict:     true,
	},
	// System.Start / Stop / stop and the start-up chain (system.go, system_chains.go): statusLock, actorOfLock
	// (System.ActorOf: taken by the start-up chain for @metrics / @remoting / @cluster while Start holds statusLock -
	// a lock order the controlled scheduler has to see), the context-guard goroutine, the unsynchronised reads of s.Context / s.clusterContext, Kill(root), cancel,
	// the select on guardClosedSignal / time.After, scheduler.Stop
	"system": {
		semantic: true,
		wrapRole: []roleRx{
			{regexp.MustCompile(`\.cancel$`), "call:cancel"},
			{regexp.MustCompile(`\.Context\.Kill$`), "call:Kill"},
			{regexp.MustCompile(`\.scheduler\.Stop$`), "call:scheduler.Stop"},
			{regexp.MustCompile(`\.clusterContext\.Leave$`), "call:Leave"},
		},
		yieldRole: []roleRx{
			{regexp.MustCompile(`^\w+\.Context, \w+ :?= NewContext\(`), "stmt:NewContext"},
			{regexp.MustCompile(`^if \w+\.Context [!=]= nil \{`), "stmt:if-Context"},
			{regexp.MustCompile(`^if \w+\.clusterContext [!=]= nil \{`), "stmt:if-clusterContext"},
			{regexp.MustCompile(`^if \w+\.options\.Metrics [!=]= nil \{`), "stmt:if-Metrics"},
		},
		selectTimer: true,
		goStmts:     true,
		strict:      true,
	},
}

func matches(rs []*regexp.Regexp, s string) bool {
	for _, r := range rs {
		if r.MatchString(s) {
			return true
		}
	}
	return false
}

var fset = token.NewFileSet()

func show(n ast.Node) string {
	var b bytes.Buffer
	printer.Fprint(&b, fset, n)
	return b.String()
}

func sel(pkg, name string) ast.Expr {
	return &ast.SelectorExpr{X: ast.NewIdent(pkg), Sel: ast.NewIdent(name)}
}
func lit(s string) ast.Expr { return &ast.BasicLit{Kind: token.STRING, Value: strconv.Quote(s)} }

type rewriter struct {
	p     profile
	fn    string
	recv  string
	count int
	fail  []string
	// semantic profiles: role of each mutex field of the file ("status", "actorOf"); variables holding a context's Done channel
	lockRole map[string]string
	doneVars map[string]bool
}

func roleOf(rs []roleRx, s string) string {
	for _, r := range rs {
		if r.rx.MatchString(s) {
			return r.role
		}
	}
	return ""
}

// isCtxDone: the channel expression is `….Done()` or a variable assigned from one
func (r *rewriter) isCtxDone(e ast.Expr) bool {
	if regexp.MustCompile(`\.Done\(\)$`).MatchString(show(e)) {
		return true
	}
	if id, ok := e.(*ast.Ident); ok && r.doneVars[id.Name] {
		return true
	}
	return false
}

// analyse (semantic profiles): the roles of the mutex fields declared in the file and the Done-channel variables
func (r *rewriter) analyse(f *ast.File) {
	r.lockRole = map[string]string{}
	r.doneVars = map[string]bool{}
	mutex := map[string]bool{}
	ast.Inspect(f, func(n ast.Node) bool {
		if st, ok := n.(*ast.StructType); ok {
			for _, fl := range st.Fields.List {
				if t := show(fl.Type); t == "sync.Mutex" || t == "sync.RWMutex" {
					for _, nm := range fl.Names {
						mutex[nm.Name] = true
					}
				}
			}
		}
		if as, ok := n.(*ast.AssignStmt); ok && len(as.Lhs) == 1 && len(as.Rhs) == 1 {
			if id, ok := as.Lhs[0].(*ast.Ident); ok && regexp.MustCompile(`\.Done\(\)$`).MatchString(show(as.Rhs[0])) {
				r.doneVars[id.Name] = true
			}
		}
		return true
	})
	type info struct {
		locks   map[string]bool
		status  bool
		callees map[string]bool
	}
	funcs := map[string]*info{}
	for _, d := range f.Decls {
		fd, ok := d.(*ast.FuncDecl)
		if !ok || fd.Body == nil {
			continue
		}
		in := &info{locks: map[string]bool{}, callees: map[string]bool{}}
		ast.Inspect(fd.Body, func(n ast.Node) bool {
			switch x := n.(type) {
			case *ast.SelectorExpr:
				if x.Sel.Name == "status" {
					in.status = true
				}
			case *ast.CallExpr:
				if se, ok := x.Fun.(*ast.SelectorExpr); ok {
					if se.Sel.Name == "Lock" || se.Sel.Name == "RLock" {
						if inner, ok := se.X.(*ast.SelectorExpr); ok && mutex[inner.Sel.Name] {
							in.locks[inner.Sel.Name] = true
						}
					}
					in.callees[se.Sel.Name] = true
				} else if id, ok := x.Fun.(*ast.Ident); ok {
					in.callees[id.Name] = true
				}
			}
			return true
		})
		funcs[fd.Name.Name] = in
	}
	for name, in := range funcs {
		touches := in.status
		for c := range in.callees {
			if g, ok := funcs[c]; ok && g.status {
				touches = true
			}
		}
		for l := range in.locks {
			if name == "ActorOf" {
				r.lockRole[l] = "actorOf"
			} else if touches && r.lockRole[l] == "" {
				r.lockRole[l] = "status"
			}
		}
	}
	if len(mutex) > 0 {
		hasStatus := false
		for _, role := range r.lockRole {
			if role == "status" {
				hasStatus = true
			}
		}
		if !hasStatus {
			r.fail = append(r.fail, "no mutex field with the role of the status lock found (a mutex locked by a function that reads / writes `.status`)")
		}
	}
}

func (r *rewriter) yWrap(label string, e ast.Expr) ast.Expr {
	r.count++
	if r.p.recvObj && r.recv != "" {
		return &ast.CallExpr{Fun: sel("vsched", "YO"), Args: []ast.Expr{lit(label), ast.NewIdent(r.recv), e}}
	}
	return &ast.CallExpr{Fun: sel("vsched", "Y"), Args: []ast.Expr{lit(label), e}}
}

// rewriteExpr rewrites an expression tree bottom-up.
func (r *rewriter) expr(e ast.Expr) ast.Expr {
	if e == nil {
		return nil
	}
	switch x := e.(type) {
	case *ast.CallExpr:
		for i := range x.Args {
			x.Args[i] = r.expr(x.Args[i])
		}
		callee := show(x.Fun)
		// locks
		if s, ok := x.Fun.(*ast.SelectorExpr); ok && r.p.semantic {
			if inner, ok := s.X.(*ast.SelectorExpr); ok && r.lockRole[inner.Sel.Name] != "" {
				switch s.Sel.Name {
				case "Lock", "RLock":
					r.count++
					return &ast.CallExpr{Fun: sel("vsched", "Lock"), Args: []ast.Expr{&ast.UnaryExpr{Op: token.AND, X: s.X}, lit("Lock:" + r.lockRole[inner.Sel.Name])}}
				case "Unlock", "RUnlock":
					return &ast.CallExpr{Fun: sel("vsched", "Unlock"), Args: []ast.Expr{&ast.UnaryExpr{Op: token.AND, X: s.X}}}
				}
			}
		}
		if s, ok := x.Fun.(*ast.SelectorExpr); ok && !r.p.semantic {
			recv := show(s.X)
			if matches(r.p.locks, recv) {
				switch s.Sel.Name {
				case "Lock", "RLock":
					r.count++
					return &ast.CallExpr{Fun: sel("vsched", "Lock"), Args: []ast.Expr{&ast.UnaryExpr{Op: token.AND, X: s.X}, lit(r.fn + ":" + s.Sel.Name + ":" + recv)}}
				case "Unlock", "RUnlock":
					return &ast.CallExpr{Fun: sel("vsched", "Unlock"), Args: []ast.Expr{&ast.UnaryExpr{Op: token.AND, X: s.X}}}
				}
			}
		}
		if id, ok := x.Fun.(*ast.Ident); ok && id.Name == "close" && len(x.Args) == 1 && matches(r.p.closeChan, show(x.Args[0])) {
			label := r.fn + ":close:" + show(x.Args[0])
			inner := &ast.FuncLit{Type: &ast.FuncType{Params: &ast.FieldList{}}, Body: &ast.BlockStmt{List: []ast.Stmt{&ast.ExprStmt{X: &ast.CallExpr{Fun: ast.NewIdent("close"), Args: x.Args}}}}}
			return &ast.CallExpr{Fun: r.yWrap(label, inner)}
		}
		if r.p.timers && callee == "time.AfterFunc" {
			x.Fun = sel("vsched", "AfterFunc")
			return x
		}
		if r.p.semantic {
			if role := roleOf(r.p.wrapRole, callee); role != "" {
				x.Fun = r.yWrap(role, x.Fun)
				return x
			}
		}
		if matches(r.p.wrap, callee) {
			label := r.fn + ":" + callee
			if len(x.Args) > 0 && regexp.MustCompile(`^atomic\.`).MatchString(callee) {
				label += ":" + show(x.Args[0])
			}
			x.Fun = r.yWrap(label, x.Fun)
			return x
		}
		x.Fun = r.expr(x.Fun)
		return x
	case *ast.UnaryExpr:
		if x.Op == token.ARROW {
			ch := show(x.X)
			if r.p.semantic && r.isCtxDone(x.X) {
				r.count++
				return &ast.CallExpr{Fun: sel("vsched", "RecvClosed"), Args: []ast.Expr{x.X, lit("recv:ctxDone")}}
			}
			if matches(r.p.recvClosed, ch) {
				r.count++
				return &ast.CallExpr{Fun: sel("vsched", "RecvClosed"), Args: []ast.Expr{x.X, lit(r.fn + ":recv:" + ch)}}
			}
			if r.p.strict {
				r.fail = append(r.fail, fmt.Sprintf("%s: channel receive %s is not covered by the profile", r.fn, show(x)))
			}
		}
		x.X = r.expr(x.X)
		return x
	case *ast.BinaryExpr:
		x.X = r.expr(x.X)
		x.Y = r.expr(x.Y)
		return x
	case *ast.ParenExpr:
		x.X = r.expr(x.X)
		return x
	case *ast.SelectorExpr:
		x.X = r.expr(x.X)
		return x
	case *ast.StarExpr:
		x.X = r.expr(x.X)
		return x
	case *ast.IndexExpr:
		x.X = r.expr(x.X)
		x.Index = r.expr(x.Index)
		return x
	case *ast.TypeAssertExpr:
		x.X = r.expr(x.X)
		return x
	case *ast.CompositeLit:
		for i := range x.Elts {
			x.Elts[i] = r.expr(x.Elts[i])
		}
		return x
	case *ast.KeyValueExpr:
		x.Value = r.expr(x.Value)
		return x
	case *ast.FuncLit:
		r.block(x.Body)
		return x
	}
	return e
}

func (r *rewriter) stmt(s ast.Stmt) ast.Stmt {
	switch x := s.(type) {
	case nil:
		return nil
	case *ast.ExprStmt:
		x.X = r.expr(x.X)
	case *ast.AssignStmt:
		for i := range x.Rhs {
			x.Rhs[i] = r.expr(x.Rhs[i])
		}
		if x.Tok == token.ASSIGN && len(x.Lhs) == 1 && len(x.Rhs) == 1 && matches(r.p.assign, show(x.Lhs[0])) {
			x.Rhs[0] = r.yWrap(r.fn+":assign:"+show(x.Lhs[0]), x.Rhs[0])
		}
	case *ast.GoStmt:
		if r.p.goStmts {
			r.count++
			for i := range x.Call.Args {
				x.Call.Args[i] = r.expr(x.Call.Args[i])
			}
			label := r.fn + ":go:" + firstLine(show(x.Call.Fun))
			if r.p.semantic {
				label = "go"
			}
			if fl, ok := x.Call.Fun.(*ast.FuncLit); ok { // `go func() {...}()`: the body is code under test too
				x.Call.Fun = r.expr(fl)
			}
			body := &ast.BlockStmt{List: []ast.Stmt{&ast.ExprStmt{X: x.Call}}}
			return &ast.ExprStmt{X: &ast.CallExpr{Fun: sel("vsched", "Go"), Args: []ast.Expr{lit(label), &ast.FuncLit{Type: &ast.FuncType{Params: &ast.FieldList{}}, Body: body}}}}
		}
	case *ast.DeferStmt:
		if c, ok := r.expr(x.Call).(*ast.CallExpr); ok {
			x.Call = c
		}
	case *ast.ReturnStmt:
		for i := range x.Results {
			x.Results[i] = r.expr(x.Results[i])
		}
	case *ast.IfStmt:
		x.Init = r.stmt(x.Init)
		x.Cond = r.expr(x.Cond)
		r.block(x.Body)
		x.Else = r.stmt(x.Else)
	case *ast.ForStmt:
		x.Init = r.stmt(x.Init)
		x.Cond = r.expr(x.Cond)
		x.Post = r.stmt(x.Post)
		r.block(x.Body)
	case *ast.RangeStmt:
		x.X = r.expr(x.X)
		r.block(x.Body)
	case *ast.BlockStmt:
		r.block(x)
	case *ast.SwitchStmt:
		x.Init = r.stmt(x.Init)
		x.Tag = r.expr(x.Tag)
		r.block(x.Body)
	case *ast.TypeSwitchStmt:
		x.Init = r.stmt(x.Init)
		x.Assign = r.stmt(x.Assign)
		r.block(x.Body)
	case *ast.CaseClause:
		for i := range x.List {
			x.List[i] = r.expr(x.List[i])
		}
		for i := range x.Body {
			x.Body[i] = r.stmt(x.Body[i])
		}
	case *ast.LabeledStmt:
		x.Stmt = r.stmt(x.Stmt)
	case *ast.DeclStmt:
		if g, ok := x.Decl.(*ast.GenDecl); ok {
			for _, sp := range g.Specs {
				if v, ok := sp.(*ast.ValueSpec); ok {
					for i := range v.Values {
						v.Values[i] = r.expr(v.Values[i])
					}
				}
			}
		}
	case *ast.SelectStmt:
		if r.p.selectTimer {
			if sw := r.selectTimer(x); sw != nil {
				return sw
			}
		}
		if sw := r.selectPoll(x); sw != nil {
			return sw
		}
		if r.p.strict {
			r.fail = append(r.fail, r.fn+": select statement is not supported by the instrumenter")
		}
	case *ast.SendStmt:
		if r.p.strict {
			r.fail = append(r.fail, r.fn+": channel send is not supported by the instrumenter")
		}
	case *ast.IncDecStmt:
		x.X = r.expr(x.X)
	}
	return s
}

func (r *rewriter) block(b *ast.BlockStmt) {
	if b == nil {
		return
	}
	if len(r.p.yieldStmt) == 0 && len(r.p.yieldRole) == 0 {
		for i := range b.List {
			b.List[i] = r.stmt(b.List[i])
		}
		return
	}
	var out []ast.Stmt
	for _, st := range b.List {
		first := firstLine(show(st))
		if role := roleOf(r.p.yieldRole, first); role != "" {
			r.count++
			out = append(out, &ast.ExprStmt{X: &ast.CallExpr{Fun: sel("vsched", "Yield"), Args: []ast.Expr{lit(role)}}})
		} else if matches(r.p.yieldStmt, first) {
			r.count++
			out = append(out, &ast.ExprStmt{X: &ast.CallExpr{Fun: sel("vsched", "Yield"), Args: []ast.Expr{lit(r.fn + ":stmt:" + first)}}})
		}
		out = append(out, r.stmt(st))
	}
	b.List = out
}

func firstLine(s string) string {
	for i := 0; i < len(s); i++ {
		if s[i] == '\n' {
			return s[:i]
		}
	}
	return s
}

// selectTimer rewrites the two-way select on a closed-only channel and time.After (see profile.selectTimer);
// nil if the statement does not have that shape.
func (r *rewriter) selectTimer(x *ast.SelectStmt) ast.Stmt {
	if r.p.semantic {
		return r.selectStop(x)
	}
	if len(x.Body.List) != 2 {
		return nil
	}
	var chExpr, durExpr ast.Expr
	var bodies [2][]ast.Stmt
	for _, c := range x.Body.List {
		cc, ok := c.(*ast.CommClause)
		if !ok || cc.Comm == nil {
			return nil
		}
		es, ok := cc.Comm.(*ast.ExprStmt)
		if !ok {
			return nil
		}
		u, ok := es.X.(*ast.UnaryExpr)
		if !ok || u.Op != token.ARROW {
			return nil
		}
		if call, ok := u.X.(*ast.CallExpr); ok && show(call.Fun) == "time.After" && len(call.Args) == 1 {
			durExpr = call.Args[0]
			bodies[1] = cc.Body
		} else if matches(r.p.recvClosed, show(u.X)) {
			chExpr = u.X
			bodies[0] = cc.Body
		} else {
			return nil
		}
	}
	if chExpr == nil || durExpr == nil {
		return nil
	}
	r.count++
	for k := range bodies {
		for i := range bodies[k] {
			bodies[k][i] = r.stmt(bodies[k][i])
		}
	}
	tag := &ast.CallExpr{Fun: sel("vsched", "SelectClosedOrTimer"), Args: []ast.Expr{chExpr, durExpr, lit(r.fn + ":select:" + show(chExpr))}}
	mk := func(v string, body []ast.Stmt) ast.Stmt {
		return &ast.CaseClause{List: []ast.Expr{&ast.BasicLit{Kind: token.INT, Value: v}}, Body: body}
	}
	return &ast.SwitchStmt{Tag: tag, Body: &ast.BlockStmt{List: []ast.Stmt{mk("0", bodies[0]), mk("1", bodies[1])}}}
}

// selectStop (semantic profiles): `select { case <-closed: A; case <-other: B }` where `closed` is the guard-closed channel
// (a field whose name says so: …Closed… / …closedSignal) and `other` is ANY other channel - time.After(d), timer.C of a
// time.NewTimer, a context's Done() … - becomes
//
//	switch vsched.SelectClosedOrTimer(closed, d, "select:guardClosed") { case 0: A; default: B }        (time.After(d))
//	switch vsched.SelectClosedOrChan(closed, other, "select:guardClosed") { case 0: A; default: B }     (anything else)
//
// (`default` keeps a select whose arms all return a terminating statement).
func (r *rewriter) selectStop(x *ast.SelectStmt) ast.Stmt {
	if len(x.Body.List) != 2 {
		return nil
	}
	closedRx := regexp.MustCompile(`(?i)closed`)
	var chExpr, durExpr, otherExpr ast.Expr
	var bodies [2][]ast.Stmt
	for _, c := range x.Body.List {
		cc, ok := c.(*ast.CommClause)
		if !ok || cc.Comm == nil {
			return nil
		}
		es, ok := cc.Comm.(*ast.ExprStmt)
		if !ok {
			return nil
		}
		u, ok := es.X.(*ast.UnaryExpr)
		if !ok || u.Op != token.ARROW {
			return nil
		}
		if chExpr == nil && closedRx.MatchString(show(u.X)) {
			chExpr = u.X
			bodies[0] = cc.Body
		} else if call, ok := u.X.(*ast.CallExpr); ok && show(call.Fun) == "time.After" && len(call.Args) == 1 {
			durExpr = call.Args[0]
			bodies[1] = cc.Body
		} else {
			otherExpr = u.X
			bodies[1] = cc.Body
		}
	}
	if chExpr == nil || (durExpr == nil && otherExpr == nil) {
		return nil
	}
	r.count++
	for k := range bodies {
		for i := range bodies[k] {
			bodies[k][i] = r.stmt(bodies[k][i])
		}
	}
	var tag ast.Expr
	if durExpr != nil {
		tag = &ast.CallExpr{Fun: sel("vsched", "SelectClosedOrTimer"), Args: []ast.Expr{chExpr, durExpr, lit("select:guardClosed")}}
	} else {
		tag = &ast.CallExpr{Fun: sel("vsched", "SelectClosedOrChan"), Args: []ast.Expr{chExpr, otherExpr, lit("select:guardClosed")}}
	}
	return &ast.SwitchStmt{Tag: tag, Body: &ast.BlockStmt{List: []ast.Stmt{
		&ast.CaseClause{List: []ast.Expr{&ast.BasicLit{Kind: token.INT, Value: "0"}}, Body: bodies[0]},
		&ast.CaseClause{List: nil, Body: bodies[1]},
	}}}
}

// selectPoll rewrites the non-blocking poll `select { case <-ch: A; default: B }` on a closed-only channel
// (profile.recvClosed) into `if vsched.PollClosed(ch, "fn:poll:ch") { A } else { B }`: one scheduling point, then
// the non-blocking test. nil if the statement does not have that shape.
func (r *rewriter) selectPoll(x *ast.SelectStmt) ast.Stmt {
	if len(x.Body.List) != 2 {
		return nil
	}
	var chExpr ast.Expr
	var bodies [2][]ast.Stmt
	seenDefault := false
	for _, c := range x.Body.List {
		cc, ok := c.(*ast.CommClause)
		if !ok {
			return nil
		}
		if cc.Comm == nil {
			seenDefault = true
			bodies[1] = cc.Body
			continue
		}
		es, ok := cc.Comm.(*ast.ExprStmt)
		if !ok {
			return nil
		}
		u, ok := es.X.(*ast.UnaryExpr)
		if !ok || u.Op != token.ARROW || !matches(r.p.recvClosed, show(u.X)) {
			return nil
		}
		chExpr = u.X
		bodies[0] = cc.Body
	}
	if chExpr == nil || !seenDefault {
		return nil
	}
	r.count++
	for k := range bodies {
		for i := range bodies[k] {
			bodies[k][i] = r.stmt(bodies[k][i])
		}
	}
	cond := &ast.CallExpr{Fun: sel("vsched", "PollClosed"), Args: []ast.Expr{chExpr, lit(r.fn + ":poll:" + show(chExpr))}}
	return &ast.IfStmt{Cond: cond, Body: &ast.BlockStmt{List: bodies[0]}, Else: &ast.BlockStmt{List: bodies[1]}}
}

func main() {
	prof := flag.String("profile", "", "instrumentation profile")
	in := flag.String("in", "", "input file")
	out := flag.String("out", "", "output file")
	flag.Parse()
	p, ok := profiles[*prof]
	if !ok {
		fmt.Fprintln(os.Stderr, "unknown profile", *prof)
		os.Exit(2)
	}
	f, err := parser.ParseFile(fset, *in, nil, parser.ParseComments)
	if err != nil {
		fmt.Fprintln(os.Stderr, err)
		os.Exit(2)
	}
	r := &rewriter{p: p}
	if p.semantic {
		r.analyse(f)
	}
	for _, d := range f.Decls {
		switch x := d.(type) {
		case *ast.FuncDecl:
			r.fn = x.Name.Name
			r.recv = ""
			if x.Recv != nil && len(x.Recv.List) == 1 && len(x.Recv.List[0].Names) == 1 {
				r.recv = x.Recv.List[0].Names[0].Name
			}
			r.block(x.Body)
		case *ast.GenDecl:
			if p.timers {
				ast.Inspect(x, func(n ast.Node) bool {
					if s, ok := n.(*ast.SelectorExpr); ok {
						if id, ok := s.X.(*ast.Ident); ok && id.Name == "time" && s.Sel.Name == "Timer" {
							id.Name = "vsched"
						}
					}
					return true
				})
			}
		}
	}
	if len(r.fail) > 0 {
		for _, m := range r.fail {
			fmt.Fprintln(os.Stderr, "instr:", m)
		}
		os.Exit(2)
	}
	// add the import
	imp := &ast.ImportSpec{Path: &ast.BasicLit{Kind: token.STRING, Value: strconv.Quote("github.com/kercylan98/vivid/xverif/vsched")}}
	added := false
	for _, d := range f.Decls {
		if g, ok := d.(*ast.GenDecl); ok && g.Tok == token.IMPORT {
			g.Specs = append(g.Specs, imp)
			if !g.Lparen.IsValid() {
				g.Lparen = g.Pos()
			}
			added = true
			break
		}
	}
	if !added {
		f.Decls = append([]ast.Decl{&ast.GenDecl{Tok: token.IMPORT, Specs: []ast.Spec{imp}}}, f.Decls...)
	}
	var b bytes.Buffer
	b.WriteString("// Code generated by /verif/harness/instr from " + *in + "; DO NOT EDIT.\n")
	if err := printer.Fprint(&b, fset, f); err != nil {
		fmt.Fprintln(os.Stderr, err)
		os.Exit(2)
	}
	// keep `time` imported even if no longer used
	if p.timers {
		b.WriteString("\nvar _ = time.Now\n")
	}
	if err := os.WriteFile(*out, b.Bytes(), 0o644); err != nil {
		fmt.Fprintln(os.Stderr, err)
		os.Exit(2)
	}
	fmt.Printf("instr: %s: %d scheduling points\n", *in, r.count)
}
