// profile "mbring": the mailbox TOGETHER WITH the ring queue underneath it (C01/C02 fine-grained lock-step,
// coq/Mailbox/MbFine.v). Applied to internal/mailbox/unbounded_mailbox.go and internal/queues/ring.go:
// a scheduling point before every atomic.* call of either file, before every q.lock.Lock() (enabled only while the
// mutex is free), before the handler call and at every go statement. The queue calls m.buffer.Push/Pop are NOT
// scheduling points of their own here: their synchronisation steps are those of ring.go itself.
// (A file of its own so that harness/instr/main.go stays untouched; it only registers one more profile.)
package main

func init() {
	profiles["mbring"] = profile{
		wrap:    rx(`^atomic\.`, `\.handler\.HandleEnvelop$`),
		locks:   rx(`^q\.lock$`),
		goStmts: true,
		strict:  true,
	}
}
