package main

// Profile "futsys" (C04, component futsys): the whole Ask path under the controlled scheduler, INCLUDING the future
// tables of internal/actor/system.go.  It is the "future" profile (future.go, context.go) plus
//
//	system.go: every sync.Map-style operation on a field of System (s.actorContexts.Store / Delete / Load / LoadOrStore ...;
//	           one atomic step each) and every mutex critical section (futureLock today; Lock = scheduling point; the
//	           section up to the next scheduling point is one step),
//
// minus the two call-site yields that would only duplicate the first table step of the callee
// (c.system.appendFuture, f.closer): appendFuture / removeFuture now report their own steps.
// Every yWrap step also reports the method receiver (recvObj), so that a CAS / assignment / close(done) step names the
// future it operates on.  system.go's Stop select / context-guard receive are covered exactly as in profile "system"
// (they are never executed by the futsys harness, but the instrumenter stays strict on all three files).
//
// Profile "futops" (C04, component future): the "future" profile of main.go with receiver-agnostic patterns (a renamed
// receiver / local does not move a scheduling point). Both profiles select steps by the OPERATION and the field it acts
// on; the harnesses classify a label after stripping its function prefix, so extracting helpers or renaming functions
// changes neither the scheduling points nor their classes.
func init() {
	profiles["futops"] = profile{
		wrap: rx(`^atomic\.`, `\.closed\.(Load|CompareAndSwap|Store)$`, `^\w+\.closer$`, `^\w+\.liaison\.Tell$`,
			`^future\.NewFuture\[vivid\.Message\]$`, `^\w+\.system\.appendFuture$`, `^append\(\w+\.forwarders, .*\)\.Unique$`),
		assign:     rx(`^\w+\.(err|message)$`),
		locks:      rx(`\.mu$`),
		recvClosed: rx(`\.done$`),
		closeChan:  rx(`\.done$`),
		timers:     true,
		goStmts:    true,
		strict:     true,
	}
	profiles["futsys"] = profile{
		wrap: rx(`^atomic\.`, `\.closed\.(Load|CompareAndSwap|Store)$`, `^\w+\.liaison\.Tell$`,
			`^future\.NewFuture\[vivid\.Message\]$`, `^append\(\w+\.forwarders, .*\)\.Unique$`,
			// every sync.Map-style operation on a field of System (actorContexts today; any table a refactoring adds)
			`^s\.\w+\.(Load|Store|LoadOrStore|LoadAndDelete|Delete|CompareAndDelete|CompareAndSwap|Swap)$`),
		assign: rx(`^\w+\.(err|message)$`),
		// every mutex by naming convention (f.mu, s.futureLock, a per-asker table.lock ...): separate critical sections of
		// the code are separate steps, whatever the lock is called
		locks:       rx(`(?i)(lock|mu|mutex)$`),
		recvClosed:  rx(`\.done$`, `^s\.options\.Context\.Done\(\)$`, `^s\.guardClosedSignal$`),
		closeChan:   rx(`\.done$`),
		timers:      true,
		goStmts:     true,
		strict:      true,
		recvObj:     true,
		selectTimer: true,
	}
}
