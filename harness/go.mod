module github.com/kercylan98/vivid/xverif

go 1.26

require github.com/kercylan98/vivid v0.0.0

require github.com/google/uuid v1.6.0 // indirect

replace github.com/kercylan98/vivid => /repo
