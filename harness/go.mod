module github.com/kercylan98/vivid/xverif

go 1.26

require github.com/kercylan98/vivid v0.0.0

require (
	github.com/google/uuid v1.6.0 // indirect
	github.com/reugn/go-quartz v0.15.2 // indirect
	golang.org/x/sync v0.19.0 // indirect
)

replace github.com/kercylan98/vivid => /repo
