// Package vsched is a controlled scheduler for instrumented code: every goroutine of the code under test
// is created through Go (or Spawn), parks at every scheduling point (Y / Yield / Lock / RecvClosed / timers)
// and exactly one of them runs at a time, chosen by the controller. After each step the controller — with
// every thread parked — takes a snapshot of the shared state through a callback, so a run yields the
// lock-step trace (thread, label, state after the step) that the Coq model replays.
//
// The package imports only the standard library so that instrumented copies of vivid's own files can
// import it without a package cycle.
package vsched

import (
	"fmt"
	"strings"
	"sync"
	"sync/atomic"
	"time"
)

type thread struct {
	id       int
	resume   chan struct{}
	label    string
	enabled  func() bool
	done     bool
	started  bool
	virtual  bool
	alias    int
	obj      any
	daemon   bool // does not keep Run alive (harness pseudo-threads: environment events)
	waitLock any  // the lock the thread is parked in front of (Lock)
}

// Step is one element of the lock-step trace.
type Step struct {
	Tid   int // logical thread (alias if set)
	Real  int // the goroutine's own thread id
	Label string
	Obj   any // the object the step operates on (YO), e.g. the mailbox
	Snap  any
}

type Sched struct {
	threads  []*thread
	notify   chan *thread
	current  *thread
	Trace    []Step
	Snapshot func() any
	// SnapshotStep, if set, is used instead of Snapshot and is told which step just ran.
	SnapshotStep func(real int, label string, obj any) any
	locks        map[any]bool
	Deadlock     bool
	// chooser picks among enabled thread ids; returns the chosen id
	choose   func(enabled []int, last int) int
	Choices  []Choice
	MaxSteps int
	Overrun  bool
	// TimerOwner maps the thread id of a select timer (SelectClosedOrTimer) to the thread that runs the select.
	TimerOwner map[int]int
	// ClosedGate, if set, decides whether a channel given to SelectClosedOrTimer counts as closed (the
	// harness releases the close as an explicit environment step); nil = look at the channel itself.
	ClosedGate func(ch <-chan struct{}) bool
	// LastSelect is the branch taken by the most recent SelectClosedOrTimer (0 = channel closed, 1 = timer).
	LastSelect int
	released   bool
	// holders: who holds each controlled lock and where it was taken (deadlock reports)
	holders map[any]LockHolder
	// LockOps: every acquisition / release of a controlled lock by a controlled thread, in order
	LockOps []LockOp
}

// LockHolder says which thread holds a controlled lock and the label of the Lock call that acquired it.
type LockHolder struct {
	Tid   int
	Label string
}

// LockOp is one acquisition (Acquire) or release of a controlled lock; Name is the lock expression of the
// acquiring call's label ("fn:Lock:s.statusLock" -> "s.statusLock").
type LockOp struct {
	Tid     int
	Acquire bool
	Name    string
	Label   string
}

func lockName(label string) string {
	if i := strings.LastIndex(label, ":"); i >= 0 {
		return label[i+1:]
	}
	return label
}

// Choice records one scheduling decision (for DFS exploration).
type Choice struct {
	Enabled []int
	Chosen  int
}

var cur *Sched // the scheduler the instrumented code talks to (one run at a time)

// New installs a fresh scheduler.
func New(choose func(enabled []int, last int) int) *Sched {
	s := &Sched{notify: make(chan *thread), locks: map[any]bool{}, choose: choose, MaxSteps: 100000}
	cur = s
	return s
}

// Spawn registers a thread before Run (environment threads of the harness); returns its id.
func (s *Sched) Spawn(label string, f func()) int {
	t := &thread{id: len(s.threads), resume: make(chan struct{}), label: "start", alias: -1}
	s.threads = append(s.threads, t)
	go func() {
		<-t.resume
		t.started = true
		f()
		t.done = true
		s.notify <- t
	}()
	return t.id
}

// Virtual reserves a thread id for operations that run inline on another goroutine (see Alias).
func (s *Sched) Virtual() int {
	t := &thread{id: len(s.threads), virtual: true, done: true, alias: -1}
	s.threads = append(s.threads, t)
	return t.id
}

// Go replaces a `go` statement of the code under test.
func Go(label string, f func()) {
	s := cur
	if s == nil {
		go f()
		return
	}
	s.Spawn(label, f)
}

// Alias attributes the following steps of the running thread to logical thread id (-1 to reset).
func Alias(id int) {
	if cur != nil && cur.current != nil {
		cur.current.alias = id
	}
}

func (s *Sched) park(label string, enabled func() bool) {
	s.parkObj(label, nil, enabled)
}

func (s *Sched) parkObj(label string, obj any, enabled func() bool) {
	t := s.current
	t.label = label
	t.obj = obj
	t.enabled = enabled
	s.notify <- t
	<-t.resume
}

// Yield is a scheduling point in front of one atomic step.
func Yield(label string) {
	if cur == nil || cur.current == nil {
		return
	}
	cur.park(label, nil)
}

// Y wraps the function value of a call expression: `atomic.LoadUint32(&x)` becomes
// `vsched.Y("label", atomic.LoadUint32)(&x)`; the yield happens before the call, order of evaluation
// and short-circuiting of the surrounding expression are preserved.
func Y[F any](label string, f F) F {
	Yield(label)
	return f
}

// YO is Y with the object the step operates on (reported in the trace).
func YO[F any](label string, obj any, f F) F {
	if cur != nil && cur.current != nil {
		cur.parkObj(label, obj, nil)
	}
	return f
}

// Lock / Unlock replace (*sync.Mutex).Lock/Unlock (and the write side of RWMutex).
func Lock(m sync.Locker, label string) {
	if cur == nil || cur.current == nil {
		if TrackRealLocks.Load() {
			realLock(m, label)
		} else {
			m.Lock()
		}
		return
	}
	s := cur
	t := s.current
	t.waitLock = m
	s.park(label, func() bool { return !s.locks[m] })
	t.waitLock = nil
	s.locks[m] = true
	if s.holders == nil {
		s.holders = map[any]LockHolder{}
	}
	s.holders[m] = LockHolder{Tid: t.id, Label: label}
	s.LockOps = append(s.LockOps, LockOp{Tid: t.id, Acquire: true, Name: lockName(label), Label: label})
	m.Lock()
}

func Unlock(m sync.Locker) {
	if s := cur; s != nil {
		delete(s.locks, m)
		if h, ok := s.holders[m]; ok {
			if s.current != nil {
				s.LockOps = append(s.LockOps, LockOp{Tid: s.current.id, Acquire: false, Name: lockName(h.Label), Label: h.Label})
			}
			delete(s.holders, m)
		}
	}
	if TrackRealLocks.Load() {
		realMu.Lock()
		delete(realHeld, m)
		realMu.Unlock()
	}
	m.Unlock()
}

// ---- bookkeeping of instrumented locks taken for real (no controlled scheduler): which call site holds a lock,
// which call sites are blocked in front of it. A watchdog of a real-time harness reads it with RealLockReport.

// TrackRealLocks switches the bookkeeping on (off by default: it serialises every instrumented Lock on one mutex).
var TrackRealLocks atomic.Bool

var (
	realMu   sync.Mutex
	realHeld = map[sync.Locker]string{}         // lock -> label of the call that took it
	realWait = map[sync.Locker]map[string]int{} // lock -> label of the blocked call -> goroutines
)

func realLock(m sync.Locker, label string) {
	realMu.Lock()
	w := realWait[m]
	if w == nil {
		w = map[string]int{}
		realWait[m] = w
	}
	w[label]++
	realMu.Unlock()
	m.Lock()
	realMu.Lock()
	if w[label]--; w[label] <= 0 {
		delete(w, label)
		if len(w) == 0 {
			delete(realWait, m)
		}
	}
	realHeld[m] = label
	realMu.Unlock()
}

// RealLockWait is one instrumented lock that goroutines are blocked in front of right now.
type RealLockWait struct {
	Name      string         // lock expression, e.g. "s.actorOfLock"
	HeldSince string         // label of the call that holds it ("" if it is not held through an instrumented call)
	Waiters   map[string]int // label of the blocked call -> number of goroutines
}

// RealLockReport lists the instrumented locks with blocked callers (real execution, no controlled scheduler).
func RealLockReport() []RealLockWait {
	realMu.Lock()
	defer realMu.Unlock()
	var out []RealLockWait
	for m, w := range realWait {
		r := RealLockWait{HeldSince: realHeld[m], Waiters: map[string]int{}}
		for l, n := range w {
			r.Waiters[l] = n
			r.Name = lockName(l)
		}
		out = append(out, r)
	}
	return out
}

// LockWaits describes, for every unfinished thread parked in front of a controlled lock, which lock it wants,
// who holds it and where the holder took it; Cycle is true when following "waits for the holder of" from some
// thread comes back to it (a lock-order deadlock). Call it after Run.
func (s *Sched) LockWaits() (desc []string, cycle bool) {
	waitsFor := map[int]int{}
	for _, t := range s.threads {
		if t.done || t.virtual || t.waitLock == nil {
			continue
		}
		h, held := s.holders[t.waitLock]
		if !held {
			desc = append(desc, fmt.Sprintf("thread %d is parked at %q (the lock is free)", t.id, t.label))
			continue
		}
		waitsFor[t.id] = h.Tid
		var own []string
		for m, hh := range s.holders {
			if hh.Tid == t.id && m != t.waitLock {
				own = append(own, fmt.Sprintf("%s (taken at %q)", lockName(hh.Label), hh.Label))
			}
		}
		holding := "holding nothing"
		if len(own) > 0 {
			holding = "holding " + strings.Join(own, ", ")
		}
		desc = append(desc, fmt.Sprintf("thread %d waits at %q for %s, %s; %s is held by thread %d since %q",
			t.id, t.label, lockName(t.label), holding, lockName(t.label), h.Tid, h.Label))
	}
	for start := range waitsFor {
		cur, n := start, 0
		for n <= len(waitsFor) {
			next, ok := waitsFor[cur]
			if !ok {
				break
			}
			if next == start {
				cycle = true
				break
			}
			cur = next
			n++
		}
	}
	return
}

// RecvClosed replaces `<-ch` on a channel that is only ever closed (done channels).
func RecvClosed(ch <-chan struct{}, label string) {
	if cur == nil || cur.current == nil {
		<-ch
		return
	}
	cur.park(label, func() bool {
		select {
		case <-ch:
			return true
		default:
			return false
		}
	})
	<-ch
}

// PollClosed replaces the non-blocking poll `select { case <-ch: ...; default: ... }` of a closed-only channel:
// one scheduling point, then the test.
func PollClosed(ch <-chan struct{}, label string) bool {
	Yield(label)
	select {
	case <-ch:
		return true
	default:
		return false
	}
}

// Timer is the virtual replacement of *time.Timer created by AfterFunc.
type Timer struct {
	mu      sync.Mutex
	stopped bool
	fired   bool
	real    *time.Timer
}

// AfterFunc replaces time.AfterFunc: the timer is a thread that may fire at any later scheduling decision
// (virtual time: "no earlier than the timeout" is the moment the controller picks it).
func AfterFunc(d time.Duration, f func()) *Timer {
	if cur == nil {
		return &Timer{real: time.AfterFunc(d, f)}
	}
	tm := &Timer{}
	cur.Spawn("timer", func() {
		Yield("timer:fire")
		if tm.stopped {
			return
		}
		tm.fired = true
		f()
	})
	return tm
}

func (t *Timer) Stop() bool {
	if t.real != nil {
		return t.real.Stop()
	}
	was := !t.stopped && !t.fired
	t.stopped = true
	return was
}

// Run drives the threads until all are finished, a deadlock, or MaxSteps.
func (s *Sched) Run() {
	last := -1
	for steps := 0; ; steps++ {
		var enabled []int
		alive := 0
		for _, t := range s.threads {
			if t.done || t.virtual {
				continue
			}
			if !t.daemon {
				alive++
			}
			if t.enabled == nil || t.enabled() {
				enabled = append(enabled, t.id)
			}
		}
		if alive == 0 {
			cur = nil
			return
		}
		if len(enabled) == 0 {
			s.Deadlock = true
			cur = nil
			return
		}
		if steps >= s.MaxSteps {
			s.Overrun = true
			cur = nil
			return
		}
		id := s.choose(enabled, last)
		s.Choices = append(s.Choices, Choice{Enabled: enabled, Chosen: id})
		t := s.threads[id]
		last = id
		label := t.label
		obj := t.obj
		t.obj = nil
		tid := t.id
		if t.alias >= 0 {
			tid = t.alias
		}
		s.current = t
		t.resume <- struct{}{}
		<-s.notify // the thread parked again or finished
		s.current = nil
		var snap any
		if s.SnapshotStep != nil {
			snap = s.SnapshotStep(t.id, label, obj)
		} else if s.Snapshot != nil {
			snap = s.Snapshot()
		}
		s.Trace = append(s.Trace, Step{Tid: tid, Real: t.id, Label: label, Obj: obj, Snap: snap})
	}
}

// Stuck describes the unfinished threads (for deadlock / overrun reports).
func (s *Sched) Stuck() string {
	out := ""
	for _, t := range s.threads {
		if !t.done && !t.virtual {
			out += fmt.Sprintf("[thread %d at %q] ", t.id, t.label)
		}
	}
	return out
}

// ---- choosers ----

// RandomChooser: uniformly random among enabled threads, from a caller-supplied PRNG function.
func RandomChooser(intn func(n int) int) func([]int, int) int {
	return func(en []int, last int) int { return en[intn(len(en))] }
}

// StickyChooser: keeps running the last thread with probability (q-1)/q, else random: long uninterrupted
// stretches with occasional preemptions.
func StickyChooser(intn func(n int) int, q int) func([]int, int) int {
	return func(en []int, last int) int {
		if intn(q) != 0 {
			for _, e := range en {
				if e == last {
					return e
				}
			}
		}
		return en[intn(len(en))]
	}
}

// PrefixChooser follows a recorded prefix of decisions and then runs non-preemptively
// (same thread if still enabled, else the lowest enabled id): the building block of DFS exploration.
func PrefixChooser(prefix []int) func([]int, int) int {
	i := 0
	return func(en []int, last int) int {
		if i < len(prefix) {
			c := prefix[i]
			i++
			for _, e := range en {
				if e == c {
					return e
				}
			}
			return en[0]
		}
		for _, e := range en {
			if e == last {
				return e
			}
		}
		return en[0]
	}
}

// Explore enumerates schedules depth-first with a preemption bound. run executes one schedule with the
// given chooser and returns the decisions taken; visit is called after each execution.
// A preemption is a decision that switches away from the last thread although it is still enabled.
func Explore(bound int, maxRuns int, run func(choose func([]int, int) int) []Choice) int {
	type frame struct {
		prefix []int
	}
	stack := []frame{{prefix: nil}}
	runs := 0
	for len(stack) > 0 && runs < maxRuns {
		f := stack[len(stack)-1]
		stack = stack[:len(stack)-1]
		choices := run(PrefixChooser(f.prefix))
		runs++
		// count preemptions along the executed path and push alternatives after the prefix
		pre := 0
		last := -1
		taken := make([]int, 0, len(choices))
		for i, c := range choices {
			lastEnabled := false
			for _, e := range c.Enabled {
				if e == last {
					lastEnabled = true
				}
			}
			if i >= len(f.prefix) {
				for _, e := range c.Enabled {
					if e == c.Chosen {
						continue
					}
					cost := 0
					if lastEnabled && e != last {
						cost = 1
					}
					if pre+cost <= bound {
						np := append(append([]int(nil), taken...), e)
						stack = append(stack, frame{prefix: np})
					}
				}
			}
			if lastEnabled && c.Chosen != last {
				pre++
			}
			taken = append(taken, c.Chosen)
			last = c.Chosen
		}
	}
	return runs
}

// ---- additions for the Start/Stop harness (syslife); nothing above depends on them ----

// SpawnDaemon registers a harness pseudo-thread (an environment event source). It is scheduled like any
// other thread but does not keep Run alive: Run returns when every non-daemon thread has finished.
func (s *Sched) SpawnDaemon(label string, f func()) int {
	id := s.Spawn(label, f)
	s.threads[id].daemon = true
	return id
}

// YieldIf is a scheduling point that is enabled only while cond() holds.
func YieldIf(label string, cond func() bool) {
	if cur == nil || cur.current == nil {
		return
	}
	cur.park(label, cond)
}

// SelectClosedOrTimer replaces
//
//	select { case <-ch: A  case <-time.After(d): B }
//
// where ch is a channel that is only ever closed. It returns 0 for the first branch and 1 for the second.
// Under the controlled scheduler the timer is a thread of its own ("timer:<label>") that may fire at any
// later scheduling decision (virtual time); the select is enabled when the channel counts as closed
// (ClosedGate) or the timer has fired, and prefers the channel when both hold.
func SelectClosedOrTimer(ch <-chan struct{}, d time.Duration, label string) int {
	if cur == nil || cur.current == nil {
		select {
		case <-ch:
			return 0
		case <-time.After(d):
			return 1
		}
	}
	s := cur
	owner := s.current.id
	fired := false
	tid := s.Spawn("timer", func() {
		Yield("timer:" + label)
		fired = true
	})
	s.threads[tid].label = "timer-start"
	if s.TimerOwner == nil {
		s.TimerOwner = map[int]int{}
	}
	s.TimerOwner[tid] = owner
	closed := func() bool {
		if s.ClosedGate != nil {
			return s.ClosedGate(ch)
		}
		select {
		case <-ch:
			return true
		default:
			return false
		}
	}
	s.park(label, func() bool { return closed() || fired })
	if s.released { // the run was abandoned while this thread was parked: behave like the real select
		select {
		case <-ch:
			return 0
		case <-time.After(d):
			return 1
		}
	}
	if closed() {
		<-ch
		s.LastSelect = 0
		return 0
	}
	s.LastSelect = 1
	return 1
}

// SelectClosedOrChan is SelectClosedOrTimer for a select whose second arm is an arbitrary channel (timer.C of a
// time.NewTimer, a context's Done(), ...) instead of time.After(d):
//
//	select { case <-ch: A  case <-other: B }
//
// Under the controlled scheduler the second arm is a virtual timer thread exactly as in SelectClosedOrTimer (it may
// fire at any later scheduling decision); the real `other` channel is only consulted when no scheduler is installed or
// the run has been abandoned.
func SelectClosedOrChan[T any](ch <-chan struct{}, other <-chan T, label string) int {
	if cur == nil || cur.current == nil {
		select {
		case <-ch:
			return 0
		case <-other:
			return 1
		}
	}
	s := cur
	owner := s.current.id
	fired := false
	tid := s.Spawn("timer", func() {
		Yield("timer:" + label)
		fired = true
	})
	s.threads[tid].label = "timer-start"
	if s.TimerOwner == nil {
		s.TimerOwner = map[int]int{}
	}
	s.TimerOwner[tid] = owner
	closed := func() bool {
		if s.ClosedGate != nil {
			return s.ClosedGate(ch)
		}
		select {
		case <-ch:
			return true
		default:
			return false
		}
	}
	s.park(label, func() bool { return closed() || fired })
	if s.released {
		select {
		case <-ch:
			return 0
		case <-other:
			return 1
		}
	}
	if closed() {
		<-ch
		s.LastSelect = 0
		return 0
	}
	s.LastSelect = 1
	return 1
}

// Uninstall removes the installed scheduler without finishing its run (a harness watchdog found that the run makes no
// progress: the resumed thread is blocked for real). Goroutines of that run which come back later see no scheduler and
// fall through to the real operations.
func Uninstall() { cur = nil }

// Release abandons the run: every thread that is still parked is resumed and continues as an ordinary
// goroutine (all vsched operations fall through to the real ones once no scheduler is installed), so that
// the harness can shut the system under test down with real calls. Call it after Run has returned. The
// returned channel is closed when every released thread has finished; a new scheduler must not be
// installed before that (a stray goroutine of this run would otherwise talk to it).
func (s *Sched) Release() <-chan struct{} {
	s.released = true
	n := 0
	for _, t := range s.threads {
		if !t.done && !t.virtual {
			n++
		}
	}
	all := make(chan struct{})
	go func() { // swallow the completion notices
		for i := 0; i < n; i++ {
			<-s.notify
		}
		close(all)
	}()
	for _, t := range s.threads {
		if !t.done && !t.virtual {
			t := t
			go func() { t.resume <- struct{}{} }()
		}
	}
	return all
}

// ThreadLabel returns the label a thread is parked at ("" if finished).
func (s *Sched) ThreadLabel(id int) (label string, done bool) {
	if id < 0 || id >= len(s.threads) {
		return "", true
	}
	return s.threads[id].label, s.threads[id].done
}

// NumThreads is the number of threads registered so far.
func (s *Sched) NumThreads() int { return len(s.threads) }
