//go:build verif

package vivid

// Accessors injected by the verification harness through `go build -overlay` (never committed to the repository).

// XVErrorCodes returns a copy of the error-code registry (code -> registered text).
func XVErrorCodes() map[int32]string {
	codeOfErrorMu.RLock()
	defer codeOfErrorMu.RUnlock()
	out := make(map[int32]string, len(codeOfError))
	for c, e := range codeOfError {
		out[c] = e.msg
	}
	return out
}

// XVNewError builds an *Error with exactly the given code and text (no cause), without registering it.
func XVNewError(code int32, msg string) *Error { return &Error{code: code, msg: msg} }

// XVActorRefFactory returns the currently registered ActorRef factory (nil if none).
func XVActorRefFactory() func(address, path string) (ActorRef, error) { return actorRefFactory }
