//go:build verif

package mailbox

import (
	"sync/atomic"

	"github.com/kercylan98/vivid"
)

// XVRacePending: messages queued in m (user, system) and whether a processing goroutine is active; read with the
// same atomics the mailbox itself uses. (0, 0, false) for a mailbox that is not an UnboundedMailbox.
func XVRacePending(m vivid.Mailbox) (user, system int32, processing bool) {
	if u, ok := m.(*UnboundedMailbox); ok {
		return atomic.LoadInt32(&u.num), atomic.LoadInt32(&u.systemNum), atomic.LoadUint32(&u.status) != idle
	}
	return 0, 0, false
}
