//go:build verif

package mailbox

import "sync/atomic"

// XVState is injected by the verification harness (go build -overlay); it reads the mailbox's shared words.
// It must only be called while every goroutine touching the mailbox is parked (vsched controller).
func XVState(m *UnboundedMailbox) (status uint32, paused uint32, num int32, systemNum int32, sysLen int64, userLen int64) {
	return atomic.LoadUint32(&m.status), atomic.LoadUint32(&m.paused), atomic.LoadInt32(&m.num), atomic.LoadInt32(&m.systemNum),
		m.systemBuffer.Length(), m.buffer.Length()
}
