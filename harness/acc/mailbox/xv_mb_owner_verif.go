//go:build verif

package mailbox

import (
	"github.com/kercylan98/vivid"
	"github.com/kercylan98/vivid/internal/queues"
)

// XVHandler returns the envelope handler (the owning actor context) of a mailbox.
func XVHandler(m *UnboundedMailbox) vivid.EnvelopHandler { return m.handler }

// XVQueues returns the system and the user queue.
func XVQueues(m *UnboundedMailbox) (*queues.RingQueue, *queues.RingQueue) { return m.systemBuffer, m.buffer }
