//go:build verif

package scheduler

// XVStarted reports whether the underlying quartz scheduler is running (C07 harness).
func XVStarted(s *Scheduler) bool { return s.scheduler.IsStarted() }
