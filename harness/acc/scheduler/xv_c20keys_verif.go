//go:build verif

package scheduler

import "sort"

// Accessor of the C20 group, injected by the verification harness through `go build -overlay` (never committed).

// XVKeys returns the names of all jobs in the quartz queue, sorted.
func XVKeys(s *Scheduler) []string {
	keys, err := s.scheduler.GetJobKeys()
	if err != nil {
		return []string{"<error:" + err.Error() + ">"}
	}
	out := make([]string, 0, len(keys))
	for _, k := range keys {
		out = append(out, k.Name())
	}
	sort.Strings(out)
	return out
}
