//go:build verif

package scheduler

import "sort"

// Accessor of the C20 group, injected by the verification harness through `go build -overlay` (never committed).

// XVKeys returns (group, name) of all jobs in the quartz queue, sorted by group, then name.
func XVKeys(s *Scheduler) [][2]string {
	keys, err := s.scheduler.GetJobKeys()
	if err != nil {
		return [][2]string{{"<error>", err.Error()}}
	}
	out := make([][2]string, 0, len(keys))
	for _, k := range keys {
		out = append(out, [2]string{k.Group(), k.Name()})
	}
	sort.Slice(out, func(i, j int) bool {
		if out[i][0] != out[j][0] {
			return out[i][0] < out[j][0]
		}
		return out[i][1] < out[j][1]
	})
	return out
}
