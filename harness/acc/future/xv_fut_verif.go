//go:build verif

package future

import "github.com/kercylan98/vivid"

// XVState is injected by the verification harness (go build -overlay); it reads the future's shared fields.
// It must only be called while every goroutine touching the future is parked (vsched controller) or after
// the future has completed and all users have returned.
func XVState(f *Future[vivid.Message]) (closed bool, err error, message vivid.Message, forwarders int, doneClosed bool) {
	select {
	case <-f.done:
		doneClosed = true
	default:
	}
	return f.closed.Load(), f.err, f.message, len(f.forwarders), doneClosed
}

// XVForwarders returns a copy of the pending forwarders.
func XVForwarders(f *Future[vivid.Message]) vivid.ActorRefs {
	return append(vivid.ActorRefs(nil), f.forwarders...)
}
