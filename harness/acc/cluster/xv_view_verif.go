//go:build verif

package cluster

// Accessors for the cluster-view harness (C17), injected through `go build -overlay` (never committed to the repository).

// XVNewNodeState is newNodeState.
func XVNewNodeState(id, clusterName, address string) *NodeState {
	return newNodeState(id, clusterName, address)
}

// XVNewClusterView is newClusterView.
func XVNewClusterView() *ClusterView { return newClusterView() }

// XVRecompute is (*ClusterView).recomputeCounts.
func XVRecompute(v *ClusterView) { v.recomputeCounts() }
