//go:build verif

package cluster

import "github.com/kercylan98/vivid/internal/messages"

// Accessor for the cluster-view harness (C17), injected through `go build -overlay` (never committed to the repository).

// XVViewWire writes v with writeClusterView and reads the bytes back with readClusterView.
// stage: 0 = ok, 1 = the writer failed, 2 = the reader failed, 3 = the reader left bytes unread.
func XVViewWire(v *ClusterView) (out *ClusterView, stage int) {
	w := messages.NewWriter()
	if err := writeClusterView(w, v); err != nil {
		return nil, 1
	}
	r := messages.NewReader(w.Bytes())
	out, err := readClusterView(r)
	if err != nil || out == nil {
		return nil, 2
	}
	if r.RemainingSize() != 0 {
		return nil, 3
	}
	return out, 0
}
