//go:build verif

package cluster

import "github.com/kercylan98/vivid"

// Accessors injected by the verification harness through `go build -overlay` (never committed to the repository).

// XVNewSingletonFwd builds the unexported forwarded-message wrapper.
func XVNewSingletonFwd(sender vivid.ActorRef, senderAddr, senderPath string, message any) any {
	return &singletonForwardedMessage{sender: sender, message: message, senderAddr: senderAddr, senderPath: senderPath}
}

// XVNilSingletonFwd is the typed nil pointer of the wrapper type.
func XVNilSingletonFwd() any { return (*singletonForwardedMessage)(nil) }

// XVSingletonFwdFields returns the fields of a forwarded-message wrapper.
func XVSingletonFwdFields(m any) (sender vivid.ActorRef, senderAddr, senderPath string, message any, isNil, ok bool) {
	f, ok := m.(*singletonForwardedMessage)
	if !ok {
		return nil, "", "", nil, false, false
	}
	if f == nil {
		return nil, "", "", nil, true, true
	}
	return f.sender, f.senderAddr, f.senderPath, f.message, false, true
}
