//go:build verif

package cluster

// Accessors injected by the verification harness through `go build -overlay` (never committed to the repository).

// XVNewVV builds a vector holding exactly the given entries (explicit zeros included). It goes through the
// package's own constructor and writes only the counter map m (the state anchored by the property): no other
// private field is named, so the accessor keeps compiling when cache / hint fields are added or removed.
func XVNewVV(m map[string]uint64) VersionVector {
	out := NewVersionVector()
	for k, v := range m {
		out.m[k] = v
	}
	return out
}

// XVNilVV is the zero value (nil map).
func XVNilVV() VersionVector { return VersionVector{} }

// XVDump returns a copy of the entries.
func XVDump(v VersionVector) map[string]uint64 {
	out := make(map[string]uint64, len(v.m))
	for k, c := range v.m {
		out[k] = c
	}
	return out
}

// XVPoke overwrites one entry in place (used to detect aliasing between a result and its operands).
func XVPoke(v VersionVector, k string, c uint64) {
	if v.m != nil {
		v.m[k] = c
	}
}
