//go:build verif

package cluster

// Accessors injected by the verification harness through `go build -overlay` (never committed to the repository).

// XVNewVV builds a vector holding exactly the given entries (explicit zeros included).
func XVNewVV(m map[string]uint64) VersionVector {
	out := VersionVector{m: make(map[string]uint64, len(m)), dirty: true}
	for k, v := range m {
		out.m[k] = v
	}
	return out
}

// XVNilVV is the zero value (nil map).
func XVNilVV() VersionVector { return VersionVector{} }

// XVDump returns a copy of the entries.
func XVDump(v VersionVector) map[string]uint64 {
	out := make(map[string]uint64, len(v.m))
	for k, c := range v.m {
		out[k] = c
	}
	return out
}

// XVPoke overwrites one entry in place (used to detect aliasing between a result and its operands).
func XVPoke(v VersionVector, k string, c uint64) {
	if v.m != nil {
		v.m[k] = c
	}
}
