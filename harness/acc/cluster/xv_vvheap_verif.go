//go:build verif

package cluster

import "reflect"

// Accessor injected by the verification harness through `go build -overlay` (never committed to the repository).

// XVIdent exposes what the heap-level model (coq/Cluster/VVHeap.v) tracks of one VersionVector struct value: the
// identity of its map object (nilMap for a nil map) and, IF the struct still has the sorted-entries cache
// (fields `entries []T` and `dirty bool`, looked up by reflection so that their removal is not a build break),
// whether the cache field is nil and whether the cache counts as valid (!dirty && entries != nil).
func XVIdent(v VersionVector) (mapID uintptr, nilMap bool, hasCache bool, entriesNil bool, cacheValid bool) {
	if v.m == nil {
		nilMap = true
	} else {
		mapID = reflect.ValueOf(v.m).Pointer()
	}
	rv := reflect.ValueOf(v)
	fe, fd := rv.FieldByName("entries"), rv.FieldByName("dirty")
	if fe.IsValid() && fe.Kind() == reflect.Slice && fd.IsValid() && fd.Kind() == reflect.Bool {
		hasCache = true
		entriesNil = fe.IsNil()
		cacheValid = !fd.Bool() && !entriesNil
	}
	return
}
