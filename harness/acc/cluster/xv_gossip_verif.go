//go:build verif

package cluster

import (
	"reflect"
	"time"
	"unsafe"
)

// Accessors for the gossip harness (C18), injected through `go build -overlay` (never committed to the repository).

// XVClock is the wall clock of the package in the gossip harness build: bin/gen_gossip_clock rewrites every
// time.Now() of internal/cluster into xvNow() in overlay copies generated from the current sources.
var XVClock = time.Now

func xvNow() time.Time { return XVClock() }

// XVSelf is the actor's own NodeState (a.nodeState), not a copy.
func (a *NodeActor) XVSelf() *NodeState { return a.nodeState }

// XVView is the actor's ClusterView (a.clusterView), not a copy.
func (a *NodeActor) XVView() *ClusterView { return a.clusterView }

// XVLast dumps the per-peer "last version vector heard from this address" table of the actor (today the field
// lastVersionVectorByAddr map[string]VersionVector). The table is located by reflection so that a change of its
// representation does not break the harness build:
//  1. a field of NodeActor named lastVersionVectorByAddr;
//  2. otherwise the unique field of NodeActor - or of a struct (by value or behind a pointer, declared in this package,
//     nesting depth <= 3) held by a field of NodeActor - whose type is map[string]VersionVector or map[string]*VersionVector;
//     the actor's own view / node state / option structs are not searched.
//
// The second result is false when no such table (or more than one candidate) is found: the observation is then
// UNAVAILABLE, the harness says so in its report and projects that component out of the lock-step comparison.
func (a *NodeActor) XVLast() (map[string]map[string]uint64, bool) {
	m, _, ok := xvFindLast(a)
	return m, ok
}

// XVLastWhere says where XVLast found the table ("" when unavailable).
func (a *NodeActor) XVLastWhere() string {
	_, where, _ := xvFindLast(a)
	return where
}

var (
	xvVVType    = reflect.TypeOf(VersionVector{})
	xvVVPtrType = reflect.TypeOf(&VersionVector{})
)

func xvIsLastTable(t reflect.Type) bool {
	return t.Kind() == reflect.Map && t.Key().Kind() == reflect.String && (t.Elem() == xvVVType || t.Elem() == xvVVPtrType)
}

// xvReadable returns a value through which an unexported field can be read.
func xvReadable(f reflect.Value) reflect.Value {
	if f.CanAddr() {
		return reflect.NewAt(f.Type(), unsafe.Pointer(f.UnsafeAddr())).Elem()
	}
	return f
}

func xvDumpTable(f reflect.Value) map[string]map[string]uint64 {
	out := make(map[string]map[string]uint64, f.Len())
	it := f.MapRange()
	for it.Next() {
		k := it.Key().String()
		v := it.Value()
		if v.Kind() == reflect.Ptr {
			if v.IsNil() {
				out[k] = map[string]uint64{}
				continue
			}
			v = v.Elem()
		}
		// copy the VersionVector value out (it holds an unexported map)
		p := reflect.New(xvVVType)
		p.Elem().Set(v)
		out[k] = XVDump(*(p.Interface().(*VersionVector)))
	}
	return out
}

type xvCand struct {
	v     reflect.Value
	where string
}

func xvSearch(v reflect.Value, path string, depth int, out *[]xvCand) {
	if depth > 3 {
		return
	}
	for v.Kind() == reflect.Ptr {
		if v.IsNil() {
			return
		}
		v = v.Elem()
	}
	if v.Kind() != reflect.Struct || v.Type().PkgPath() != xvVVType.PkgPath() {
		return
	}
	switch v.Type() {
	case reflect.TypeOf(ClusterView{}), reflect.TypeOf(NodeState{}), xvVVType:
		return
	}
	for i := 0; i < v.NumField(); i++ {
		f := xvReadable(v.Field(i))
		name := path + "." + v.Type().Field(i).Name
		if xvIsLastTable(f.Type()) {
			*out = append(*out, xvCand{f, name})
			continue
		}
		if f.Kind() == reflect.Ptr || f.Kind() == reflect.Struct {
			xvSearch(f, name, depth+1, out)
		}
	}
}

func xvFindLast(a *NodeActor) (map[string]map[string]uint64, string, bool) {
	if a == nil {
		return nil, "", false
	}
	rv := reflect.ValueOf(a).Elem()
	if f := rv.FieldByName("lastVersionVectorByAddr"); f.IsValid() && xvIsLastTable(f.Type()) {
		return xvDumpTable(xvReadable(f)), "NodeActor.lastVersionVectorByAddr", true
	}
	var cands []xvCand
	xvSearch(rv, "NodeActor", 0, &cands)
	if len(cands) != 1 {
		return nil, "", false
	}
	return xvDumpTable(cands[0].v), cands[0].where + " (found by type)", true
}

// XVPublished returns the event publisher's memory: lastInQuorum, lastLeaderAddr, lastDCHealth.
func (a *NodeActor) XVPublished() (bool, string, map[string]bool) {
	dc := make(map[string]bool, len(a.events.lastDCHealth))
	for k, v := range a.events.lastDCHealth {
		dc[k] = v
	}
	return a.events.lastInQuorum, a.events.lastLeaderAddr, dc
}

// XVInQuorum is quorumCalc.SatisfiesQuorum on the actor's view.
func (a *NodeActor) XVInQuorum() bool { return a.quorumCalc.SatisfiesQuorum(a.clusterView) }
