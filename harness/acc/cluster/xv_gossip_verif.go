//go:build verif

package cluster

import "time"

// Accessors for the gossip harness (C18), injected through `go build -overlay` (never committed to the repository).

// XVClock is the wall clock of the package in the gossip harness build: bin/gen_gossip_clock rewrites every
// time.Now() of internal/cluster into xvNow() in overlay copies generated from the current sources.
var XVClock = time.Now

func xvNow() time.Time { return XVClock() }

// XVSelf is the actor's own NodeState (a.nodeState), not a copy.
func (a *NodeActor) XVSelf() *NodeState { return a.nodeState }

// XVView is the actor's ClusterView (a.clusterView), not a copy.
func (a *NodeActor) XVView() *ClusterView { return a.clusterView }

// XVLast dumps lastVersionVectorByAddr.
func (a *NodeActor) XVLast() map[string]map[string]uint64 {
	out := make(map[string]map[string]uint64, len(a.lastVersionVectorByAddr))
	for k, v := range a.lastVersionVectorByAddr {
		out[k] = XVDump(v)
	}
	return out
}

// XVPublished returns the event publisher's memory: lastInQuorum, lastLeaderAddr, lastDCHealth.
func (a *NodeActor) XVPublished() (bool, string, map[string]bool) {
	dc := make(map[string]bool, len(a.events.lastDCHealth))
	for k, v := range a.events.lastDCHealth {
		dc[k] = v
	}
	return a.events.lastInQuorum, a.events.lastLeaderAddr, dc
}

// XVInQuorum is quorumCalc.SatisfiesQuorum on the actor's view.
func (a *NodeActor) XVInQuorum() bool { return a.quorumCalc.SatisfiesQuorum(a.clusterView) }
