//go:build verif

package queues

// Accessors injected by the verification harness through `go build -overlay` (never committed to the repository).

// XVRingDump returns the representation of the queue without taking its mutex (the harness is
// single-threaded when it calls this; after a panic the mutex may still be held).
func XVRingDump(q *RingQueue) (head, tail, mod, length int64, buf []any) {
	c := q.content
	return c.head, c.tail, c.mod, q.len, append([]any(nil), c.buffer...)
}

// XVRingLocked reports whether the queue's mutex is currently held.
func XVRingLocked(q *RingQueue) bool {
	if q.lock.TryLock() {
		q.lock.Unlock()
		return false
	}
	return true
}
