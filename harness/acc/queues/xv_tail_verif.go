//go:build verif

package queues

// XVTail returns the most recently pushed element (nil when empty). Harness only; call while no
// goroutine operates on the queue.
func XVTail(q *RingQueue) any {
	if q.len == 0 {
		return nil
	}
	return q.content.buffer[q.content.tail]
}
