//go:build verif

package remoting

import (
	"reflect"
	"unsafe"

	"github.com/kercylan98/vivid/internal/utils"
)

// Accessors of the remoting harness: the back-off objects vivid constructs (read-only use: the exported configuration
// fields and GetAttempt()). Private fields are located by name, then by type, through reflection; what cannot be
// located is returned as nil and reported UNAVAILABLE by the harness. Nothing here depends on the representation of
// MailboxCentral's table or on the kind of any lock.

func xvFieldOfType(obj any, name string, want reflect.Type) reflect.Value {
	v := reflect.ValueOf(obj)
	if v.Kind() != reflect.Ptr || v.IsNil() {
		return reflect.Value{}
	}
	v = v.Elem()
	if v.Kind() != reflect.Struct {
		return reflect.Value{}
	}
	f := v.FieldByName(name)
	if f.IsValid() && f.Type() == want && f.CanAddr() {
		return reflect.NewAt(f.Type(), unsafe.Pointer(f.UnsafeAddr())).Elem()
	}
	for i := 0; i < v.NumField(); i++ {
		if f := v.Field(i); f.Type() == want && f.CanAddr() {
			return reflect.NewAt(f.Type(), unsafe.Pointer(f.UnsafeAddr())).Elem()
		}
	}
	return reflect.Value{}
}

var xvBackoffType = reflect.TypeOf((*utils.ExponentialBackoff)(nil))

func xvBackoffOf(obj any) *utils.ExponentialBackoff {
	f := xvFieldOfType(obj, "backoff", xvBackoffType)
	if !f.IsValid() {
		return nil
	}
	p, _ := f.Interface().(*utils.ExponentialBackoff)
	return p
}

// XVMailboxBackoff: the back-off object of one remote mailbox (created in newMailbox: one per remote address).
func XVMailboxBackoff(m *Mailbox) *utils.ExponentialBackoff { return xvBackoffOf(m) }

// XVAcceptBackoff: the back-off object the server actor uses between failed attempts to listen.
func XVAcceptBackoff(s *ServerActor) *utils.ExponentialBackoff { return xvBackoffOf(s) }

// XVMailboxOf: the outbound mailbox the system uses for addr, obtained the way System.findMailbox obtains it (the
// central's get-or-create method, located by name); nil when the central or the method cannot be located.
func XVMailboxOf(s *ServerActor, addr string, handler NetworkEnvelopHandler) *Mailbox {
	c := xvFieldOfType(s, "remotingMailboxCentral", reflect.TypeOf((*MailboxCentral)(nil)))
	if !c.IsValid() || c.IsNil() {
		return nil
	}
	meth := c.MethodByName("GetOrCreate")
	if !meth.IsValid() || meth.Type().NumIn() != 2 || meth.Type().NumOut() != 1 {
		return nil
	}
	hv := reflect.ValueOf(handler)
	if !hv.IsValid() || !hv.Type().AssignableTo(meth.Type().In(1)) || meth.Type().In(0).Kind() != reflect.String {
		return nil
	}
	out := meth.Call([]reflect.Value{reflect.ValueOf(addr), hv})
	m, _ := out[0].Interface().(*Mailbox)
	return m
}
