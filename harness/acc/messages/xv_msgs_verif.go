//go:build verif

package messages

import "sort"

// Accessors injected by the verification harness through `go build -overlay` (never committed to the repository).

// XVRegisteredNames returns the wire names of the runtime message registry, sorted.
func XVRegisteredNames() []string {
	out := make([]string, 0, len(internalMessageNameOfDesc))
	for n := range internalMessageNameOfDesc {
		out = append(out, n)
	}
	sort.Strings(out)
	return out
}

// XVRegisteredTypeCount returns the size of the type-indexed table (must equal the name-indexed one).
func XVRegisteredTypeCount() int { return len(internalMessageTypeOfDesc) }
