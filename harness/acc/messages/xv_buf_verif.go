//go:build verif

package messages

import (
	"encoding/binary"
	"sync"
)

// Accessors for the Writer/Reader state-machine check (component "buf"), injected through `go build -overlay`
// (never committed to the repository).  Read-only, except XVResetPools which empties the two pools so that
// every scenario starts from empty pools (the New functions are kept as they are in the tree under test).

func orderCode(o binary.ByteOrder) int {
	switch o {
	case binary.ByteOrder(binary.BigEndian):
		return 0
	case binary.ByteOrder(binary.LittleEndian):
		return 1
	}
	return 2
}

// XVWriterCap returns cap(w.buf).
func XVWriterCap(w *Writer) int { return cap(w.buf) }

// XVWriterOrder returns 0 for big-endian, 1 for little-endian, 2 otherwise.
func XVWriterOrder(w *Writer) int { return orderCode(w.order) }

// XVReaderOrder returns 0 for big-endian, 1 for little-endian, 2 otherwise.
func XVReaderOrder(r *Reader) int { return orderCode(r.order) }

// XVReaderElems returns the element counter of readReflect.
func XVReaderElems(r *Reader) int { return r.elems }

// XVResetPools replaces both pools by empty ones with the same New functions.
func XVResetPools() {
	wn, rn := writerPool.New, readerPool.New
	writerPool = sync.Pool{New: wn}
	readerPool = sync.Pool{New: rn}
}
