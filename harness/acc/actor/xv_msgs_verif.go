//go:build verif

package actor

// Accessors injected by the verification harness through `go build -overlay` (never committed to the repository).

// XVRawRef builds a *Ref holding exactly the given strings (no normalisation, no validation).
func XVRawRef(address, path string) *Ref { return &Ref{address: address, path: path} }
