//go:build verif

package actor

import (
	"github.com/kercylan98/vivid"
	"github.com/kercylan98/vivid/internal/future"
)

// This file is injected by the verification harness (go build -overlay) for component futsys (C04). It only adds
// read accessors; it changes nothing. The accessors are called while every goroutine that uses the tables is parked at
// a scheduling point of the controlled scheduler.

// XVFutureDump returns the futures currently present in actorContexts: path -> future.
func XVFutureDump(sys *System) map[string]*future.Future[vivid.Message] {
	out := map[string]*future.Future[vivid.Message]{}
	sys.actorContexts.Range(func(k, v any) bool {
		if f, ok := v.(*future.Future[vivid.Message]); ok {
			out[k.(string)] = f
		}
		return true
	})
	return out
}

// XVAgentsDump returns the Ask registry as asker path -> the future paths listed under it (an asker whose inner
// container is empty is reported with an empty, non-nil slice: its key exists). A registry that is not keyed by the
// asker lists everything under "". ok = false: no registry field (see XVRegistry).
func XVAgentsDump(sys *System) (map[string][]string, bool) {
	es, ok := XVRegistry(sys)
	out := map[string][]string{}
	for _, e := range es {
		if len(e.Keys) == 0 {
			continue
		}
		a := ""
		if len(e.Keys) >= 2 || e.Empty {
			a = e.Keys[0]
		}
		if _, ok := out[a]; !ok {
			out[a] = []string{}
		}
		if !e.Empty {
			out[a] = append(out[a], e.Keys[len(e.Keys)-1])
		}
	}
	return out, ok
}
