//go:build verif

package actor

import (
	"fmt"
	"reflect"
	"sort"
	"strings"
	"sync"
	"sync/atomic"
	"unsafe"

	"github.com/kercylan98/vivid"
	"github.com/kercylan98/vivid/internal/messages"
)

// Accessors of the actor-runtime harness (C03 C05 C06 C08 C09 C19), injected through `go build -overlay` (never committed
// to the repository). Whatever the public API offers is read through it (Ref, Parent, Children, Mailbox, EventStream,
// vivid.SupervisionContext). Everything else is an unexported field; it is located by reflection - the current field
// name as a fast path, then the ROLE of the field (its type) - and read through reflect.NewAt(unsafe.Pointer(f.UnsafeAddr())),
// locks only through Lock()/Unlock(), containers only through Len / range. An observation that cannot be located in the
// build under test is reported by XVUnavailable (the harness lists it in the report's info and projects it out of the
// comparison on both sides); it never fails the build.

type XVCtxInfo struct {
	Path       string
	HasParent  bool
	State      int32
	Zombie     bool
	Restarting bool // a restart is in progress (the context's restart marker is set)
	StashLen   int
	Children   []string
	Watchers   []string
	StackLen   int
	Actor      vivid.Actor
	Mailbox    vivid.Mailbox
	Ref        vivid.ActorRef
	Stash      []vivid.Envelop
}

var (
	xvaMu          sync.Mutex
	xvaUnavailable = map[string]bool{}

	xvaEnvelopIface = reflect.TypeOf((*vivid.Envelop)(nil)).Elem()
	xvaActorIface   = reflect.TypeOf((*vivid.Actor)(nil)).Elem()
	xvaRefIface     = reflect.TypeOf((*vivid.ActorRef)(nil)).Elem()
	xvaTypeIface    = reflect.TypeOf((*reflect.Type)(nil)).Elem()
	xvaLockerIface  = reflect.TypeOf((*sync.Locker)(nil)).Elem()
	xvaSyncMap      = reflect.TypeOf(sync.Map{})
)

func xvaMiss(what string) {
	xvaMu.Lock()
	xvaUnavailable[what] = true
	xvaMu.Unlock()
}

// XVUnavailable lists the observations that could not be located in this build of vivid (sorted).
func XVUnavailable() []string {
	xvaMu.Lock()
	defer xvaMu.Unlock()
	out := []string{}
	for k := range xvaUnavailable {
		out = append(out, k)
	}
	sort.Strings(out)
	return out
}

// xvaOpen makes a (possibly unexported) field readable
func xvaOpen(f reflect.Value) reflect.Value {
	if !f.CanAddr() {
		return f
	}
	return reflect.NewAt(f.Type(), unsafe.Pointer(f.UnsafeAddr())).Elem()
}

// xvaStruct: the addressable struct behind a pointer / interface value
func xvaStruct(x any) (reflect.Value, bool) {
	v := reflect.ValueOf(x)
	for v.IsValid() && (v.Kind() == reflect.Pointer || v.Kind() == reflect.Interface) {
		if v.IsNil() {
			return reflect.Value{}, false
		}
		v = v.Elem()
	}
	if !v.IsValid() || v.Kind() != reflect.Struct || !v.CanAddr() {
		return reflect.Value{}, false
	}
	return v, true
}

// xvaField: the field named fast if it satisfies pred; else, if exactly one field satisfies pred (ignoring the fields
// listed in not), that one
func xvaField(s reflect.Value, fast string, pred func(reflect.Type) bool, not ...string) (reflect.Value, bool) {
	t := s.Type()
	if sf, ok := t.FieldByName(fast); ok && len(sf.Index) == 1 && pred(sf.Type) {
		return xvaOpen(s.Field(sf.Index[0])), true
	}
	found := -1
	for i := 0; i < t.NumField(); i++ {
		skip := false
		for _, n := range not {
			skip = skip || t.Field(i).Name == n
		}
		if skip || !pred(t.Field(i).Type) {
			continue
		}
		if found >= 0 {
			return reflect.Value{}, false // ambiguous
		}
		found = i
	}
	if found < 0 {
		return reflect.Value{}, false
	}
	return xvaOpen(s.Field(found)), true
}

func xvaIsAtomicInt32(t reflect.Type) bool {
	return t.Kind() == reflect.Struct && t.PkgPath() == "sync/atomic" && t.Name() == "Int32"
}

// xvaLoadInt32 reads an int32 word (plain or atomic.Int32) atomically
func xvaLoadInt32(f reflect.Value) int32 {
	if f.Kind() == reflect.Int32 && f.CanAddr() {
		return atomic.LoadInt32((*int32)(unsafe.Pointer(f.UnsafeAddr())))
	}
	if xvaIsAtomicInt32(f.Type()) && f.CanAddr() {
		return (*atomic.Int32)(unsafe.Pointer(f.UnsafeAddr())).Load()
	}
	return int32(f.Int())
}

// xvaRefPaths: the paths of a collection of actor references (a map with reference values, or a slice of references)
func xvaRefPaths(f reflect.Value) []string {
	out := []string{}
	add := func(v reflect.Value) {
		if v.IsValid() && v.CanInterface() {
			if r, ok := v.Interface().(vivid.ActorRef); ok && r != nil {
				out = append(out, r.GetPath())
			}
		}
	}
	switch f.Kind() {
	case reflect.Map:
		it := f.MapRange()
		for it.Next() {
			add(it.Value())
		}
	case reflect.Slice:
		for i := 0; i < f.Len(); i++ {
			add(f.Index(i))
		}
	}
	sort.Strings(out)
	return out
}

func xvaIsRefColl(t reflect.Type) bool {
	return (t.Kind() == reflect.Map || t.Kind() == reflect.Slice) && t.Elem().Implements(xvaRefIface)
}

func XVInfo(c *Context) XVCtxInfo {
	info := XVCtxInfo{Ref: c.Ref(), HasParent: c.Parent() != nil, Mailbox: c.Mailbox()}
	if info.Ref != nil {
		info.Path = info.Ref.GetPath()
	}
	for _, ch := range c.Children() {
		info.Children = append(info.Children, ch.GetPath())
	}
	sort.Strings(info.Children)
	s, ok := xvaStruct(c)
	if !ok {
		for _, w := range []string{"state", "zombie", "restarting", "stash", "watchers", "stack", "actor"} {
			xvaMiss(w)
		}
		return info
	}
	if f, ok := xvaField(s, "state", func(t reflect.Type) bool { return t.Kind() == reflect.Int32 || xvaIsAtomicInt32(t) }); ok {
		info.State = xvaLoadInt32(f)
	} else {
		xvaMiss("state")
	}
	if f, ok := xvaField(s, "zombie", func(t reflect.Type) bool { return t.Kind() == reflect.Bool }); ok {
		info.Zombie = f.Bool()
	} else {
		xvaMiss("zombie")
	}
	if f, ok := xvaField(s, "restarting", func(t reflect.Type) bool {
		return t.Kind() == reflect.Pointer && t.Elem().Kind() == reflect.Struct && strings.Contains(t.Elem().Name(), "Restart")
	}); ok {
		info.Restarting = !f.IsNil()
	} else {
		xvaMiss("restarting")
	}
	if f, ok := xvaField(s, "stash", func(t reflect.Type) bool { return t.Kind() == reflect.Slice && t.Elem().Implements(xvaEnvelopIface) }); ok {
		info.StashLen = f.Len()
		for i := 0; i < f.Len(); i++ {
			if e, ok := f.Index(i).Interface().(vivid.Envelop); ok {
				info.Stash = append(info.Stash, e)
			}
		}
	} else {
		xvaMiss("stash")
	}
	if f, ok := xvaField(s, "watchers", xvaIsRefColl, "children"); ok {
		info.Watchers = xvaRefPaths(f)
	} else {
		xvaMiss("watchers")
	}
	if f, ok := xvaField(s, "behaviorStack", func(t reflect.Type) bool {
		_, has := t.MethodByName("Len")
		return has && t.Kind() == reflect.Pointer
	}); ok && !f.IsNil() {
		if out := f.MethodByName("Len").Call(nil); len(out) == 1 && out[0].CanInt() {
			info.StackLen = int(out[0].Int())
		} else {
			xvaMiss("stack")
		}
	} else {
		xvaMiss("stack")
	}
	if f, ok := xvaField(s, "actor", func(t reflect.Type) bool { return t == xvaActorIface }); ok {
		if !f.IsNil() {
			info.Actor, _ = f.Interface().(vivid.Actor)
		}
	} else {
		xvaMiss("actor")
	}
	return info
}

// XVRegistered reports whether the registry maps the context's path to this very context.
func XVRegistered(sys *System, c *Context) bool {
	s, ok := xvaStruct(sys)
	if !ok {
		xvaMiss("registry")
		return false
	}
	path := c.Ref().GetPath()
	if f, ok := xvaField(s, "actorContexts", func(t reflect.Type) bool { return t == xvaSyncMap }); ok && f.CanAddr() {
		v, found := (*sync.Map)(unsafe.Pointer(f.UnsafeAddr())).Load(path)
		if !found {
			return false
		}
		cc, isCtx := v.(*Context)
		return isCtx && cc == c
	}
	if f, ok := xvaField(s, "actorContexts", func(t reflect.Type) bool { return t.Kind() == reflect.Map && t.Key().Kind() == reflect.String }); ok {
		v := f.MapIndex(reflect.ValueOf(path).Convert(f.Type().Key()))
		if !v.IsValid() || !v.CanInterface() {
			return false
		}
		cc, isCtx := v.Interface().(*Context)
		return isCtx && cc == c
	}
	xvaMiss("registry")
	return false
}

// XVRoot returns the root context (nil if it cannot be located).
func XVRoot(sys *System) *Context {
	s, ok := xvaStruct(sys)
	if ok {
		if f, ok := xvaField(s, "Context", func(t reflect.Type) bool { return t == reflect.TypeOf((*Context)(nil)) }); ok && !f.IsNil() {
			if c, ok := f.Interface().(*Context); ok {
				return c
			}
		}
	}
	xvaMiss("root")
	return nil
}

// XVStream dumps the event-stream tables: type name -> sorted subscriber paths, and path -> sorted type names.
func XVStream(sys *System) (map[string][]string, map[string][]string) {
	a, b := map[string][]string{}, map[string][]string{}
	root := XVRoot(sys)
	if root == nil {
		xvaMiss("stream")
		return a, b
	}
	es, ok := xvaStruct(root.EventStream())
	if !ok {
		xvaMiss("stream")
		return a, b
	}
	// the tables' lock, whatever kind it is: anything whose pointer is a sync.Locker
	for i := 0; i < es.NumField(); i++ {
		f := xvaOpen(es.Field(i))
		if f.CanAddr() && f.Kind() == reflect.Struct && f.Addr().Type().Implements(xvaLockerIface) {
			l := f.Addr().Interface().(sync.Locker)
			l.Lock()
			defer l.Unlock()
			break
		}
		if f.Kind() == reflect.Pointer && !f.IsNil() && f.Type().Implements(xvaLockerIface) && f.Elem().Kind() == reflect.Struct {
			l := f.Interface().(sync.Locker)
			l.Lock()
			defer l.Unlock()
			break
		}
	}
	typeName := func(k reflect.Value) string {
		if k.CanInterface() {
			if t, ok := k.Interface().(reflect.Type); ok && t != nil {
				return t.String()
			}
		}
		return fmt.Sprint(k)
	}
	byType := func(t reflect.Type) bool { return t.Kind() == reflect.Map && t.Key() == xvaTypeIface }
	byPath := func(t reflect.Type) bool {
		return t.Kind() == reflect.Map && t.Key().Kind() == reflect.String && t.Elem().Kind() == reflect.Map && t.Elem().Key() == xvaTypeIface
	}
	subs, ok1 := xvaField(es, "subscribers", byType)
	rev, ok2 := xvaField(es, "subscriberTypes", byPath)
	if !ok1 || !ok2 {
		xvaMiss("stream")
		return a, b
	}
	it := subs.MapRange()
	for it.Next() {
		l := []string{}
		switch inner := it.Value(); inner.Kind() {
		case reflect.Map:
			if inner.Type().Key().Kind() == reflect.String {
				for _, k := range inner.MapKeys() {
					l = append(l, k.String())
				}
			} else {
				l = xvaRefPaths(inner)
			}
		case reflect.Slice:
			l = xvaRefPaths(inner)
		}
		sort.Strings(l)
		a[typeName(it.Key())] = l
	}
	it = rev.MapRange()
	for it.Next() {
		l := []string{}
		for _, k := range it.Value().MapKeys() {
			l = append(l, typeName(k))
		}
		sort.Strings(l)
		b[it.Key().String()] = l
	}
	return a, b
}

// XVClassify describes runtime-internal messages the harness cannot type-switch on.
// kind: 4 failure report (ref = failing child), 5 pause, 6 resume, 7 restart (flag = graceful), 8 watch, 9 unwatch, 0 other.
func XVClassify(msg any) (kind int, ref vivid.ActorRef, flag bool) {
	switch m := msg.(type) {
	case vivid.SupervisionContext:
		return 4, m.Child().First(), false
	case *messages.NoneArgsCommandMessage:
		if m.Command == messages.CommandPauseMailbox {
			return 5, nil, false
		}
		return 6, nil, false
	case *RestartMessage:
		return 7, nil, m.Poison
	case *messages.WatchMessage:
		return 8, nil, false
	case *messages.UnwatchMessage:
		return 9, nil, false
	}
	return 0, nil, false
}

// XVSupSubTargets lists, for an escalated failure report, the targets recorded in its sub-contexts (the contexts of the
// supervisors below that already decided Escalate), outermost sub-context first. Empty for a first-level report.
func XVSupSubTargets(ctx vivid.SupervisionContext) [][]string {
	var out [][]string
	cur, ok := xvaStruct(ctx)
	if !ok {
		xvaMiss("sup-sub-targets")
		return nil
	}
	self := reflect.PointerTo(cur.Type())
	for depth := 0; depth < 64; depth++ {
		sub, ok := xvaField(cur, "subSupervisionContext", func(t reflect.Type) bool { return t == self })
		if !ok {
			xvaMiss("sup-sub-targets")
			return nil
		}
		if sub.IsNil() {
			return out
		}
		cur = sub.Elem()
		ts, ok := xvaField(cur, "targets", xvaIsRefColl, "child", "supervisorChildren")
		if !ok {
			xvaMiss("sup-sub-targets")
			return nil
		}
		out = append(out, xvaRefPaths(ts))
	}
	return out
}
