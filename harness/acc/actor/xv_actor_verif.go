//go:build verif

package actor

import (
	"reflect"
	"sort"
	"strings"
	"sync/atomic"

	"github.com/kercylan98/vivid"
	"github.com/kercylan98/vivid/internal/messages"
)

// Accessors injected by the verification harness through `go build -overlay` (never committed).

type XVCtxInfo struct {
	Path      string
	HasParent bool
	State     int32
	Zombie    bool
	StashLen  int
	Children  []string
	Watchers  []string
	StackLen  int
	Actor     vivid.Actor
	Mailbox   vivid.Mailbox
	Ref       vivid.ActorRef
	Stash     []vivid.Envelop
}

func XVInfo(c *Context) XVCtxInfo {
	info := XVCtxInfo{
		Path: c.ref.GetPath(), HasParent: c.parent != nil, State: atomic.LoadInt32(&c.state), Zombie: c.zombie,
		StashLen: len(c.stash), StackLen: c.behaviorStack.Len(), Actor: c.actor, Mailbox: c.mailbox, Ref: c.ref,
	}
	info.Stash = append(info.Stash, c.stash...)
	for p := range c.children {
		info.Children = append(info.Children, p)
	}
	sort.Strings(info.Children)
	for k := range c.watchers {
		if i := strings.Index(k, "@"); i >= 0 {
			k = k[i+1:]
		}
		info.Watchers = append(info.Watchers, k)
	}
	sort.Strings(info.Watchers)
	return info
}

// XVRegistered reports whether the registry maps the context's path to this very context.
func XVRegistered(s *System, c *Context) bool {
	v, ok := s.actorContexts.Load(c.ref.GetPath())
	if !ok {
		return false
	}
	cc, ok := v.(*Context)
	return ok && cc == c
}

// XVRegistryPaths lists the registered paths (contexts and futures).
func XVRegistryPaths(s *System) (ctxs []string, futures []string) {
	s.actorContexts.Range(func(k, v any) bool {
		if _, ok := v.(*Context); ok {
			ctxs = append(ctxs, k.(string))
		} else {
			futures = append(futures, k.(string))
		}
		return true
	})
	sort.Strings(ctxs)
	sort.Strings(futures)
	return
}

func XVFutureAgents(s *System) int {
	s.futureLock.Lock()
	defer s.futureLock.Unlock()
	n := 0
	for _, m := range s.futureAgents {
		n += len(m)
	}
	return n
}

// XVRoot returns the root context.
func XVRoot(s *System) *Context { return s.Context }

// XVStream dumps the event-stream tables: type name -> sorted subscriber paths, and path -> sorted type names.
func XVStream(s *System) (map[string][]string, map[string][]string) {
	es := s.eventStream.(*eventStream)
	es.mu.RLock()
	defer es.mu.RUnlock()
	a := map[string][]string{}
	for t, m := range es.subscribers {
		l := []string{}
		for p := range m {
			l = append(l, p)
		}
		sort.Strings(l)
		a[t.String()] = l
	}
	b := map[string][]string{}
	for p, m := range es.subscriberTypes {
		l := []string{}
		for t := range m {
			l = append(l, t.String())
		}
		sort.Strings(l)
		b[p] = l
	}
	return a, b
}

// XVClassify describes runtime-internal messages the harness cannot type-switch on.
// kind: 4 supervision context (ref = failing child), 5 pause, 6 resume, 7 restart (flag = poison), 8 watch, 9 unwatch, 0 other.
func XVClassify(msg any) (kind int, ref vivid.ActorRef, flag bool) {
	switch m := msg.(type) {
	case *supervisionContext:
		return 4, m.child.First(), false
	case *messages.NoneArgsCommandMessage:
		if m.Command == messages.CommandPauseMailbox {
			return 5, nil, false
		}
		return 6, nil, false
	case *RestartMessage:
		return 7, nil, m.Poison
	case *messages.WatchMessage:
		return 8, nil, false
	case *messages.UnwatchMessage:
		return 9, nil, false
	}
	return 0, nil, false
}

var _ = reflect.TypeOf
