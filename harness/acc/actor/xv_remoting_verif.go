//go:build verif

package actor

import (
	"reflect"
	"unsafe"

	"github.com/kercylan98/vivid/internal/remoting"
)

// Accessor of the remoting harness (C11 / C14 / C15): the system's remoting server actor.
// The field is located by name, then by type; nil when remoting is disabled or the field cannot be located
// (the harness then reports the observation as UNAVAILABLE instead of failing to build).
func XVRemotingServer(s *System) *remoting.ServerActor {
	if s == nil {
		return nil
	}
	v := reflect.ValueOf(s).Elem()
	want := reflect.TypeOf((*remoting.ServerActor)(nil))
	f := v.FieldByName("remotingServer")
	if !f.IsValid() || f.Type() != want {
		f = reflect.Value{}
		for i := 0; i < v.NumField(); i++ {
			if v.Field(i).Type() == want {
				f = v.Field(i)
				break
			}
		}
	}
	if !f.IsValid() || !f.CanAddr() {
		return nil
	}
	p, _ := reflect.NewAt(f.Type(), unsafe.Pointer(f.UnsafeAddr())).Elem().Interface().(*remoting.ServerActor)
	return p
}
