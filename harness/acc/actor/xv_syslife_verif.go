//go:build verif

package actor

import (
	"reflect"

	"github.com/kercylan98/vivid/internal/scheduler"
)

// Accessors of the C07 (Start/Stop) harness: read-only views of the lifecycle state of a System.

// XVSysStatus returns s.status (0 ready, 1 start, 2 stop). The field is read through reflection and WITHOUT the status
// lock: the accessor must not depend on how the lock field is called (a rename is a refactoring, not a change of
// behaviour), and every caller reads it at a point ordered after the calls it looks at (all controlled threads parked /
// the real calls have returned and handed over through a channel).
func XVSysStatus(s *System) int32 {
	return int32(reflect.ValueOf(s).Elem().FieldByName("status").Int())
}

// XVSysHasCtx reports whether the root context has been assigned (s.Context != nil).
func XVSysHasCtx(s *System) bool { return s.Context != nil }

// XVSysHasCluster reports whether the cluster context has been assigned (s.clusterContext != nil).
func XVSysHasCluster(s *System) bool { return s.clusterContext != nil }

// XVSysCtxDone reports whether the system's context is cancelled.
func XVSysCtxDone(s *System) bool { return s.options.Context.Err() != nil }

// XVSysGuardClosed returns guardClosedSignal.
func XVSysGuardClosed(s *System) <-chan struct{} { return s.guardClosedSignal }

// XVSysSchedStarted reports whether the system's quartz scheduler is running.
func XVSysSchedStarted(s *System) bool { return scheduler.XVStarted(s.scheduler) }
