//go:build verif

package actor

import "github.com/kercylan98/vivid/internal/scheduler"

// Accessors of the C07 (Start/Stop) harness: read-only views of the lifecycle state of a System.

// XVSysStatus returns s.status (0 ready, 1 start, 2 stop). It takes statusLock when it is free; when a
// blocked goroutine holds it (the defect the check looks for) it reads without the lock.
func XVSysStatus(s *System) int32 {
	if s.statusLock.TryLock() {
		defer s.statusLock.Unlock()
	}
	return s.status
}

// XVSysHasCtx reports whether the root context has been assigned (s.Context != nil).
func XVSysHasCtx(s *System) bool { return s.Context != nil }

// XVSysCtxDone reports whether the system's context is cancelled.
func XVSysCtxDone(s *System) bool { return s.options.Context.Err() != nil }

// XVSysGuardClosed returns guardClosedSignal.
func XVSysGuardClosed(s *System) <-chan struct{} { return s.guardClosedSignal }

// XVSysSchedStarted reports whether the system's quartz scheduler is running.
func XVSysSchedStarted(s *System) bool { return scheduler.XVStarted(s.scheduler) }
