//go:build verif

package actor

import (
	"fmt"
	"reflect"
	"sync"
	"time"
	"unsafe"

	"github.com/kercylan98/vivid"
	"github.com/kercylan98/vivid/internal/future"
)

// This file is injected by the verification harness (go build -overlay). It only adds read accessors and
// thin wrappers around unexported functions of the package; it changes nothing.
//
// The Ask registry (System.futureAgents and whatever guards it) is read through reflection: the accessors do not
// depend on its concrete type (a map of maps under one mutex today; a sync.Map of per-asker tables with their own
// mutexes, a flat map keyed by the future path ... tomorrow), only on the facts that System has a field named
// futureAgents, that it is built from maps / sync.Maps / structs / pointers, and that its string keys are actor paths
// (asker path first, future path last). A refactoring of the registry therefore does not stop the harness from building.

// XVNewBareSystem builds a System that is never started: just the option block and the future tables, with a
// root context whose mailbox is the given sink (findMailbox falls back to it when a path is not registered).
func XVNewBareSystem(rootSink vivid.Mailbox) *System {
	sys := &System{
		options: vivid.NewActorSystemOptions(),
	}
	xvInitContainer(reflect.ValueOf(sys).Elem().FieldByName("futureAgents"))
	sys.Context = XVNewBareContext(sys, "/", rootSink)
	return sys
}

// xvInitContainer makes a nil map (or a nil pointer to a struct) field usable, whatever its type.
func xvInitContainer(f reflect.Value) {
	if !f.IsValid() || !f.CanAddr() {
		return
	}
	w := reflect.NewAt(f.Type(), unsafe.Pointer(f.UnsafeAddr())).Elem()
	switch f.Kind() {
	case reflect.Map:
		if f.IsNil() {
			w.Set(reflect.MakeMap(f.Type()))
		}
	case reflect.Pointer:
		if f.IsNil() && f.Type().Elem().Kind() == reflect.Struct {
			w.Set(reflect.New(f.Type().Elem()))
		}
	}
}

// XVNewBareContext builds a context that only has what ask / tell / findMailbox touch.
func XVNewBareContext(sys *System, path string, mb vivid.Mailbox) *Context {
	ref, err := NewRef(LocalAddress, path)
	if err != nil {
		panic(err)
	}
	return &Context{
		options: &vivid.ActorOptions{DefaultAskTimeout: sys.options.DefaultAskTimeout, Logger: sys.options.Logger},
		system:  sys,
		ref:     ref,
		mailbox: mb,
	}
}

// XVRef returns a local ref; with a non-nil mailbox the ref's mailbox cache is pre-populated with it
// (exactly what findMailbox does after the first successful lookup of an actor).
func XVRef(path string, mb vivid.Mailbox) *Ref {
	ref, err := NewRef(LocalAddress, path)
	if err != nil {
		panic(err)
	}
	if mb != nil {
		ref.cache.Store(&mb)
	}
	return ref
}

// XVAsk calls the real (*Context).ask.
func XVAsk(c *Context, recipient vivid.ActorRef, message vivid.Message, timeout time.Duration) *future.Future[vivid.Message] {
	return c.ask(false, recipient, message, timeout).(*future.Future[vivid.Message])
}

// XVDeath is what doKill does first when the actor at agentPath dies.
func XVDeath(sys *System, agentPath string) {
	sys.removeFuturesByAgentPath(agentPath, vivid.ErrorActorDeaded)
}

// XVStoreContext / XVDeletePath: another actor registered / unregistered under a path.
func XVStoreContext(sys *System, path string, ctx *Context) { sys.actorContexts.Store(path, ctx) }
func XVDeletePath(sys *System, path string)                 { sys.actorContexts.Delete(path) }

// XVLookup reports what is registered under path: 0 nothing, 1 an actor context, 2 a future.
func XVLookup(sys *System, path string) (kind int, ctx *Context, fut *future.Future[vivid.Message]) {
	v, ok := sys.actorContexts.Load(path)
	if !ok {
		return 0, nil, nil
	}
	switch x := v.(type) {
	case *Context:
		return 1, x, nil
	case *future.Future[vivid.Message]:
		return 2, nil, x
	}
	return 0, nil, nil
}

// ---- the Ask registry, read through reflection ----

// XVRegistryEntry is one thing found in the Ask registry: Keys is the chain of string keys that leads to it (asker path
// first, future path last when the registry is keyed by both); Empty marks a container (inner map / table) that is
// registered under Keys but holds nothing.
type XVRegistryEntry struct {
	Keys  []string
	Empty bool
}

var (
	xvSyncMapType = reflect.TypeOf(sync.Map{})
	xvMutexType   = reflect.TypeOf(sync.Mutex{})
	xvRWMutexType = reflect.TypeOf(sync.RWMutex{})
)

// XVRegistryBlocking: true (default) = the walker takes the mutexes it finds (real-time harnesses, the registry is in
// use); false = it only tries them (controlled scheduler: every goroutine is parked, possibly inside a section).
var XVRegistryBlocking = true

func xvLock(v reflect.Value) (unlock func()) {
	if !v.CanAddr() {
		return func() {}
	}
	p := unsafe.Pointer(v.UnsafeAddr())
	switch v.Type() {
	case xvMutexType:
		m := (*sync.Mutex)(p)
		if XVRegistryBlocking {
			m.Lock()
			return m.Unlock
		}
		if m.TryLock() {
			return m.Unlock
		}
	case xvRWMutexType:
		m := (*sync.RWMutex)(p)
		if XVRegistryBlocking {
			m.RLock()
			return m.RUnlock
		}
		if m.TryRLock() {
			return m.RUnlock
		}
	}
	return func() {}
}

func xvIsContainer(t reflect.Type, depth int) bool {
	if depth > 4 {
		return false
	}
	switch t.Kind() {
	case reflect.Map:
		return true
	case reflect.Pointer, reflect.Interface:
		if t.Kind() == reflect.Pointer {
			return xvIsContainer(t.Elem(), depth+1)
		}
		return true // decided on the dynamic value
	case reflect.Struct:
		if t == xvSyncMapType {
			return true
		}
		if t == reflect.TypeOf(AgentRef{}) || t == reflect.TypeOf(Ref{}) {
			return false
		}
		for i := 0; i < t.NumField(); i++ {
			ft := t.Field(i).Type
			if ft.Kind() == reflect.Map || ft == xvSyncMapType {
				return true
			}
		}
	}
	return false
}

func xvKeyString(k reflect.Value) string {
	if k.Kind() == reflect.String {
		return k.String()
	}
	return fmt.Sprint(k)
}

// xvWalk visits everything below v; keys is the chain of keys so far. It returns the number of leaves / empties found.
func xvWalk(v reflect.Value, keys []string, depth int, out *[]XVRegistryEntry) int {
	if depth > 6 || !v.IsValid() {
		return 0
	}
	switch v.Kind() {
	case reflect.Interface, reflect.Pointer:
		if v.IsNil() {
			return 0
		}
		if v.Kind() == reflect.Pointer && !xvIsContainer(v.Type().Elem(), 0) {
			*out = append(*out, XVRegistryEntry{Keys: append([]string(nil), keys...)})
			return 1
		}
		return xvWalk(v.Elem(), keys, depth+1, out)
	case reflect.Map:
		n := 0
		it := v.MapRange()
		for it.Next() {
			k := append(append([]string(nil), keys...), xvKeyString(it.Key()))
			val := it.Value()
			if xvIsContainer(val.Type(), 0) {
				if c := xvWalk(val, k, depth+1, out); c == 0 {
					*out = append(*out, XVRegistryEntry{Keys: k, Empty: true})
				}
			} else {
				*out = append(*out, XVRegistryEntry{Keys: k})
			}
			n++
		}
		return n
	case reflect.Struct:
		if v.Type() == xvSyncMapType {
			if !v.CanAddr() {
				return 0
			}
			m := (*sync.Map)(unsafe.Pointer(v.UnsafeAddr()))
			n := 0
			m.Range(func(key, val any) bool {
				k := append(append([]string(nil), keys...), fmt.Sprint(key))
				rv := reflect.ValueOf(val)
				if rv.IsValid() && xvIsContainer(rv.Type(), 0) {
					if c := xvWalk(rv, k, depth+1, out); c == 0 {
						*out = append(*out, XVRegistryEntry{Keys: k, Empty: true})
					}
				} else {
					*out = append(*out, XVRegistryEntry{Keys: k})
				}
				n++
				return true
			})
			return n
		}
		// a table: take its mutexes, walk its maps
		var unlocks []func()
		for i := 0; i < v.NumField(); i++ {
			if t := v.Field(i).Type(); t == xvMutexType || t == xvRWMutexType {
				unlocks = append(unlocks, xvLock(v.Field(i)))
			}
		}
		n := 0
		for i := 0; i < v.NumField(); i++ {
			f := v.Field(i)
			if f.Kind() == reflect.Map || f.Type() == xvSyncMapType {
				n += xvWalk(f, keys, depth+1, out)
			}
		}
		for _, u := range unlocks {
			u()
		}
		return n
	}
	return 0
}

// XVRegistry dumps the Ask registry (System.futureAgents), whatever its shape. ok = false: System has no such field any
// more (the accessor-dependent monitors must then stay silent).
func XVRegistry(sys *System) (entries []XVRegistryEntry, ok bool) {
	sv := reflect.ValueOf(sys).Elem()
	f := sv.FieldByName("futureAgents")
	if !f.IsValid() {
		return nil, false
	}
	// the system-wide lock of the registry, if there is one
	unlock := func() {}
	if l := sv.FieldByName("futureLock"); l.IsValid() {
		unlock = xvLock(l)
	}
	defer unlock()
	xvWalk(f, nil, 0, &entries)
	return entries, true
}

// XVAgentRegistered reports whether the Ask registry still lists futurePath (under any asker).
func XVAgentRegistered(sys *System, futurePath string) bool {
	es, _ := XVRegistry(sys)
	for _, e := range es {
		if !e.Empty && len(e.Keys) > 0 && e.Keys[len(e.Keys)-1] == futurePath {
			return true
		}
	}
	return false
}

// XVRegistryCounts: entries of actorContexts (all / futures only) and entries of the Ask registry (leaves).
func XVRegistryCounts(sys *System) (contexts int, futures int, agents int) {
	sys.actorContexts.Range(func(_, v any) bool {
		contexts++
		if _, ok := v.(*future.Future[vivid.Message]); ok {
			futures++
		}
		return true
	})
	es, _ := XVRegistry(sys)
	for _, e := range es {
		if !e.Empty {
			agents++
		}
	}
	return
}

// XVFuturePaths lists the paths of the futures still present in actorContexts.
func XVFuturePaths(sys *System) []string {
	var out []string
	sys.actorContexts.Range(func(k, v any) bool {
		if _, ok := v.(*future.Future[vivid.Message]); ok {
			out = append(out, k.(string))
		}
		return true
	})
	return out
}
