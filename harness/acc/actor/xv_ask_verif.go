//go:build verif

package actor

import (
	"time"

	"github.com/kercylan98/vivid"
	"github.com/kercylan98/vivid/internal/future"
)

// This file is injected by the verification harness (go build -overlay). It only adds read accessors and
// thin wrappers around unexported functions of the package; it changes nothing.

// XVNewBareSystem builds a System that is never started: just the option block and the future tables, with a
// root context whose mailbox is the given sink (findMailbox falls back to it when a path is not registered).
func XVNewBareSystem(rootSink vivid.Mailbox) *System {
	sys := &System{
		options:      vivid.NewActorSystemOptions(),
		futureAgents: make(map[vivid.ActorPath]map[vivid.ActorPath]*AgentRef),
	}
	sys.Context = XVNewBareContext(sys, "/", rootSink)
	return sys
}

// XVNewBareContext builds a context that only has what ask / tell / findMailbox touch.
func XVNewBareContext(sys *System, path string, mb vivid.Mailbox) *Context {
	ref, err := NewRef(LocalAddress, path)
	if err != nil {
		panic(err)
	}
	return &Context{
		options: &vivid.ActorOptions{DefaultAskTimeout: sys.options.DefaultAskTimeout, Logger: sys.options.Logger},
		system:  sys,
		ref:     ref,
		mailbox: mb,
	}
}

// XVRef returns a local ref; with a non-nil mailbox the ref's mailbox cache is pre-populated with it
// (exactly what findMailbox does after the first successful lookup of an actor).
func XVRef(path string, mb vivid.Mailbox) *Ref {
	ref, err := NewRef(LocalAddress, path)
	if err != nil {
		panic(err)
	}
	if mb != nil {
		ref.cache.Store(&mb)
	}
	return ref
}

// XVAsk calls the real (*Context).ask.
func XVAsk(c *Context, recipient vivid.ActorRef, message vivid.Message, timeout time.Duration) *future.Future[vivid.Message] {
	return c.ask(false, recipient, message, timeout).(*future.Future[vivid.Message])
}

// XVDeath is what doKill does first when the actor at agentPath dies.
func XVDeath(sys *System, agentPath string) {
	sys.removeFuturesByAgentPath(agentPath, vivid.ErrorActorDeaded)
}

// XVStoreContext / XVDeletePath: another actor registered / unregistered under a path.
func XVStoreContext(sys *System, path string, ctx *Context) { sys.actorContexts.Store(path, ctx) }
func XVDeletePath(sys *System, path string)                 { sys.actorContexts.Delete(path) }

// XVLookup reports what is registered under path: 0 nothing, 1 an actor context, 2 a future.
func XVLookup(sys *System, path string) (kind int, ctx *Context, fut *future.Future[vivid.Message]) {
	v, ok := sys.actorContexts.Load(path)
	if !ok {
		return 0, nil, nil
	}
	switch x := v.(type) {
	case *Context:
		return 1, x, nil
	case *future.Future[vivid.Message]:
		return 2, nil, x
	}
	return 0, nil, nil
}

// XVAgentRegistered reports whether futureAgents still lists futurePath (under any agent).
func XVAgentRegistered(sys *System, futurePath string) bool {
	sys.futureLock.Lock()
	defer sys.futureLock.Unlock()
	for _, m := range sys.futureAgents {
		if _, ok := m[futurePath]; ok {
			return true
		}
	}
	return false
}

// XVRegistryCounts: entries of actorContexts (all / futures only) and entries of futureAgents (inner maps summed).
func XVRegistryCounts(sys *System) (contexts int, futures int, agents int) {
	sys.actorContexts.Range(func(_, v any) bool {
		contexts++
		if _, ok := v.(*future.Future[vivid.Message]); ok {
			futures++
		}
		return true
	})
	sys.futureLock.Lock()
	defer sys.futureLock.Unlock()
	for _, m := range sys.futureAgents {
		agents += len(m)
	}
	return
}

// XVFuturePaths lists the paths of the futures still present in actorContexts.
func XVFuturePaths(sys *System) []string {
	var out []string
	sys.actorContexts.Range(func(k, v any) bool {
		if _, ok := v.(*future.Future[vivid.Message]); ok {
			out = append(out, k.(string))
		}
		return true
	})
	return out
}
