//go:build verif

package actor

import (
	"sort"
	"sync/atomic"

	"github.com/kercylan98/vivid"
)

// Accessors for the C10 stress harness (harness/cmd/race), injected through `go build -overlay`.
// Everything here synchronises the way the code under test does (sync.Map, childrenLock, futureLock,
// atomic state), so the accessor itself cannot be one side of a reported race; owner-only fields
// (zombie, watchers, stash, restarting) are deliberately not read.

type XVRaceNode struct {
	Path       string
	ParentPath string
	HasParent  bool
	State      int32
	Paused     bool
	Mailbox    vivid.Mailbox
	Children   []string // path keys of the children map
	ChildRefs  []string // path of the ref stored under each key (must equal the key)
}

func xvRaceNode(c *Context) XVRaceNode {
	n := XVRaceNode{Path: c.ref.GetPath(), HasParent: c.parent != nil, State: atomic.LoadInt32(&c.state), Paused: c.mailbox.IsPaused(), Mailbox: c.mailbox}
	if c.parent != nil {
		n.ParentPath = c.parent.GetPath()
	}
	c.childrenLock.RLock()
	keys := make([]string, 0, len(c.children))
	for k := range c.children {
		keys = append(keys, k)
	}
	sort.Strings(keys)
	for _, k := range keys {
		n.Children = append(n.Children, k)
		n.ChildRefs = append(n.ChildRefs, c.children[k].GetPath())
	}
	c.childrenLock.RUnlock()
	return n
}

// XVRaceSnapshot returns the root node, every registered context, the number of futures in the registry
// and the number of entries of the futureAgents table.
func XVRaceSnapshot(s *System) (root XVRaceNode, nodes []XVRaceNode, futures int, agents int) {
	root = xvRaceNode(s.Context)
	s.actorContexts.Range(func(k, v any) bool {
		switch c := v.(type) {
		case *Context:
			n := xvRaceNode(c)
			if k.(string) != n.Path {
				n.Path = k.(string) + " (registered under a key that is not its own path " + n.Path + ")"
			}
			nodes = append(nodes, n)
		default:
			futures++
		}
		return true
	})
	sort.Slice(nodes, func(i, j int) bool { return nodes[i].Path < nodes[j].Path })
	s.futureLock.Lock()
	for _, m := range s.futureAgents {
		agents += len(m)
	}
	s.futureLock.Unlock()
	return
}

// XVRaceEventStream is the system's event stream (System does not export it on vivid.ActorSystem).
func XVRaceEventStream(s *System) vivid.EventStream { return s.eventStream }

// XVRaceStreamSizes: number of (type, subscriber) pairs in both event-stream tables (they must agree).
func XVRaceStreamSizes(s *System) (bySubscribers, byTypes int) {
	es := s.eventStream.(*eventStream)
	es.mu.RLock()
	defer es.mu.RUnlock()
	for _, m := range es.subscribers {
		bySubscribers += len(m)
	}
	for _, m := range es.subscriberTypes {
		byTypes += len(m)
	}
	return
}
