//go:build verif

package actor

import (
	"reflect"
	"sort"
	"unsafe"

	"github.com/kercylan98/vivid"
	"github.com/reugn/go-quartz/quartz"
)

// Accessors of the C20 group, injected by the verification harness through `go build -overlay` (never committed to the
// repository). They do not name any unexported field, type or function of the package: what they need is located by
// reflection on the ROLE of a field (its type), with the current field name as a fast path only, and read through
// reflect.NewAt(unsafe.Pointer(field.UnsafeAddr())). When nothing suitable exists the observation is reported as
// unavailable (ok = false) and the harness goes on with the public-API observations.

var (
	xvSchedulerIface = reflect.TypeOf((*vivid.Scheduler)(nil)).Elem()
	xvQuartzIface    = reflect.TypeOf((*quartz.Scheduler)(nil)).Elem()
	xvJobKeyPtr      = reflect.TypeOf((*quartz.JobKey)(nil))
)

// xvOpen makes a (possibly unexported) field readable
func xvOpen(f reflect.Value) reflect.Value {
	if !f.CanAddr() {
		return f
	}
	return reflect.NewAt(f.Type(), unsafe.Pointer(f.UnsafeAddr())).Elem()
}

// xvStruct: the struct behind an interface / pointer value
func xvStruct(x any) (reflect.Value, bool) {
	v := reflect.ValueOf(x)
	for v.IsValid() && (v.Kind() == reflect.Pointer || v.Kind() == reflect.Interface) {
		if v.IsNil() {
			return reflect.Value{}, false
		}
		v = v.Elem()
	}
	if !v.IsValid() || v.Kind() != reflect.Struct || !v.CanAddr() {
		return reflect.Value{}, false
	}
	return v, true
}

// xvField: the field named fast if it satisfies pred, else the first field that satisfies pred
func xvField(s reflect.Value, fast string, pred func(reflect.Type) bool) (reflect.Value, bool) {
	t := s.Type()
	if sf, ok := t.FieldByName(fast); ok && len(sf.Index) == 1 && pred(sf.Type) {
		return xvOpen(s.Field(sf.Index[0])), true
	}
	for i := 0; i < t.NumField(); i++ {
		if pred(t.Field(i).Type) {
			return xvOpen(s.Field(i)), true
		}
	}
	return reflect.Value{}, false
}

// xvActorScheduler: the per-actor scheduler of a context = its field whose type implements vivid.Scheduler
func xvActorScheduler(c vivid.ActorContext) (reflect.Value, bool) {
	cs, ok := xvStruct(c)
	if !ok {
		return reflect.Value{}, false
	}
	f, ok := xvField(cs, "scheduler", func(t reflect.Type) bool { return t.Implements(xvSchedulerIface) })
	if !ok || f.Kind() != reflect.Pointer || f.IsNil() || f.Elem().Kind() != reflect.Struct {
		return reflect.Value{}, false
	}
	return f.Elem(), true
}

// XVSchedRefs returns the sorted references the actor's scheduler has on record (its reference -> job key table, or whatever
// collection of references replaced it). ok = false: no such record could be located in this build of vivid.
// The record is owned by the actor's goroutine: call it from a handler of that actor, or while that goroutine is parked.
func XVSchedRefs(c vivid.ActorContext) (refs []string, ok bool) {
	s, ok := xvActorScheduler(c)
	if !ok {
		return nil, false
	}
	strKey := func(t reflect.Type) bool { return t.Kind() == reflect.Map && t.Key().Kind() == reflect.String }
	preds := []func(reflect.Type) bool{
		func(t reflect.Type) bool { return strKey(t) && t.Elem() == xvJobKeyPtr },
		func(t reflect.Type) bool { return strKey(t) && t.Elem().Kind() == reflect.Struct && reflect.PointerTo(t.Elem()) == xvJobKeyPtr },
		func(t reflect.Type) bool { return t.Kind() == reflect.Slice && t.Elem().Kind() == reflect.String },
		strKey,
	}
	for _, p := range preds {
		f, found := xvField(s, "jobKeys", p)
		if !found {
			continue
		}
		out := []string{}
		switch f.Kind() {
		case reflect.Map:
			for _, k := range f.MapKeys() {
				out = append(out, k.String())
			}
		case reflect.Slice:
			for i := 0; i < f.Len(); i++ {
				out = append(out, f.Index(i).String())
			}
		}
		sort.Strings(out)
		return out, true
	}
	return nil, false
}

// xvQuartz: the go-quartz scheduler of an actor system = a field (at most two structs deep) whose value implements
// quartz.Scheduler
func xvQuartz(sys vivid.ActorSystem) (quartz.Scheduler, bool) {
	root, ok := xvStruct(sys)
	if !ok {
		return nil, false
	}
	var find func(s reflect.Value, depth int) (quartz.Scheduler, bool)
	find = func(s reflect.Value, depth int) (quartz.Scheduler, bool) {
		t := s.Type()
		order := make([]int, 0, t.NumField())
		if sf, ok := t.FieldByName("scheduler"); ok && len(sf.Index) == 1 {
			order = append(order, sf.Index[0])
		}
		for i := 0; i < t.NumField(); i++ {
			order = append(order, i)
		}
		// first the fields that are a quartz scheduler themselves
		for _, i := range order {
			ft := t.Field(i).Type
			if ft.Implements(xvQuartzIface) {
				f := xvOpen(s.Field(i))
				if (f.Kind() == reflect.Interface || f.Kind() == reflect.Pointer) && !f.IsNil() {
					if q, ok := f.Interface().(quartz.Scheduler); ok {
						return q, true
					}
				}
			}
		}
		if depth == 0 {
			return nil, false
		}
		// then wrappers: pointers to structs of a package whose name says "scheduler", then any struct pointer
		for pass := 0; pass < 2; pass++ {
			for _, i := range order {
				ft := t.Field(i).Type
				if ft.Kind() != reflect.Pointer || ft.Elem().Kind() != reflect.Struct {
					continue
				}
				named := ft.Elem().Name() == "Scheduler"
				if (pass == 0) != named {
					continue
				}
				f := xvOpen(s.Field(i))
				if f.IsNil() {
					continue
				}
				if q, ok := find(f.Elem(), depth-1); ok {
					return q, true
				}
			}
		}
		return nil, false
	}
	return find(root, 1)
}

// XVQuartzKeys returns (group, name) of all jobs queued in the system's go-quartz scheduler (quartz's own GetJobKeys), sorted.
// ok = false: the scheduler could not be located.
func XVQuartzKeys(sys vivid.ActorSystem) (keys [][2]string, ok bool) {
	q, ok := xvQuartz(sys)
	if !ok {
		return nil, false
	}
	ks, err := q.GetJobKeys()
	if err != nil {
		return [][2]string{{"<error>", err.Error()}}, true
	}
	out := make([][2]string, 0, len(ks))
	for _, k := range ks {
		out = append(out, [2]string{k.Group(), k.Name()})
	}
	sort.Slice(out, func(i, j int) bool {
		if out[i][0] != out[j][0] {
			return out[i][0] < out[j][0]
		}
		return out[i][1] < out[j][1]
	})
	return out, true
}
