//go:build verif

package actor

import (
	"sort"

	"github.com/kercylan98/vivid"
	"github.com/kercylan98/vivid/internal/scheduler"
)

// Accessors injected by the verification harness through `go build -overlay` (never committed to the repository).

// XVSchedJobKeys returns a copy of the context's jobKeys as reference -> key (group NUL name). The map is owned by the
// actor's goroutine: call it from a handler of that actor, or after the actor has terminated.
func XVSchedJobKeys(c vivid.ActorContext) map[string]string {
	ctx, ok := c.(*Context)
	if !ok || ctx.scheduler == nil {
		return nil
	}
	out := make(map[string]string, len(ctx.scheduler.jobKeys))
	for ref, k := range ctx.scheduler.jobKeys {
		out[ref] = k.Group() + "\x00" + k.Name()
	}
	return out
}

// XVSchedRefs returns the sorted references of the context's jobKeys.
func XVSchedRefs(c vivid.ActorContext) []string {
	m := XVSchedJobKeys(c)
	out := make([]string, 0, len(m))
	for ref := range m {
		out = append(out, ref)
	}
	sort.Strings(out)
	return out
}

// XVQuartzKeys returns (group, name) of all jobs queued in the system's quartz scheduler, sorted.
func XVQuartzKeys(s *System) [][2]string { return scheduler.XVKeys(s.scheduler) }
