(** Race/Report.v — human-readable reporting over an access table (no proofs depend on it). *)
From Coq Require Import List NArith String.
From Vivid Require Import Race.Lockset.
Import ListNotations.
Local Open Scope N_scope.

Fixpoint lookup_name (l : list (N * string)) (n : N) : string :=
  match l with
  | [] => "?"%string
  | (k, s) :: r => if N.eqb k n then s else lookup_name r n
  end.

(** the description of every site that belongs to a location class violating the discipline *)
Definition violation_report (names : list (N * string)) (T : list access) : list string :=
  map (fun a => lookup_name names (a_site a)) (violations T).

(** location class -> protection (1 atomic, 2 common lock, 3 owner only, 4 once-published, 5 read-only, 0 NONE) *)
Definition protection_report (locs : list (N * string)) (T : list access) : list (string * N) :=
  map (fun p => (snd p, loc_protection T (fst p))) locs.

(** an access that needs nothing to be enabled *)
Definition plain (a : access) : bool :=
  match a_locks a, a_role a, a_phase a with
  | [], RAny, PNone => true
  | _, _, _ => false
  end.

Definition without_loc (x : N) (T : list access) : list access :=
  filter (fun a => negb (N.eqb (a_loc a) x)) T.
