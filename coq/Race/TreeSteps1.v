(** Race/TreeSteps1.v — preservation of the tree invariant by the spawn steps and the actorOfLock steps. *)
From Coq Require Import List NArith Bool Lia.
From Vivid Require Import Race.Tree Race.TreeInv.
Import ListNotations.
Local Open Scope N_scope.

Section Steps.
  Variable root : aid.
  Variable par : aid -> option aid.
  Variable path_of : aid -> apath.
  Hypothesis path_root : forall c, c <> root -> path_of c <> path_of root.

  Notation step := (step_fn root par path_of).
  Notation Inv := (Inv root par path_of).

  Lemma inv_LAcq t s s' : Inv s -> step t LAcq s = Some s' -> Inv s'.
  Proof.
    start H. destruct t as [n|a]; [|discriminate]. destruct (t_lock s) eqn:EL; [discriminate|].
    destruct (is_idle (t_pc s (Ext n))) eqn:EI; [|discriminate]. injection H as <-.
    auto_inv.
    injection H as <-. eauto.
  Qed.

  Lemma inv_LRel t s s' : Inv s -> step t LRel s = Some s' -> Inv s'.
  Proof.
    start H. destruct (holds_lock s t) eqn:EL; [|discriminate]. destruct (is_idle (t_pc s t)) eqn:EI; [|discriminate].
    cbn [andb] in H. injection H as <-. unfold holds_lock in EL. destruct (t_lock s) as [h|] eqn:EH; [|discriminate].
    destruct (thr_eqb_spec h t); [subst h|discriminate]. apply idle_eq in EI.
    auto_inv.
  Qed.

  Lemma inv_LSpCheck t p c s s' : Inv s -> step t (LSpCheck p c) s = Some s' -> Inv s'.
  Proof.
    start H.
    destruct (is_idle (t_pc s t)) eqn:EI; [|discriminate]. destruct (t_created s p) eqn:ECp; [|discriminate].
    destruct (t_created s c) eqn:ECc; [discriminate|]. destruct (opt_aid_eqb (par c) p) eqn:EP; [|discriminate].
    destruct (is_killed (t_st s p)) eqn:EK; [discriminate|]. cbn [andb negb] in H.
    match type of H with (if ?g then _ else _) = _ => destruct g eqn:EG; [|discriminate] end.
    injection H as <-. apply opt_aid_eqb_true in EP. apply idle_eq in EI.
    assert (Hc : c <> root) by (intros ->; destruct K0 as [A _]; congruence).
    assert (HOwn : forall a, t = Own a -> t_st s a <> Killed).
    { intros a ->. destruct (N.eqb_spec p root).
      - unfold holds_lock in EG. destruct (t_lock s) as [h|] eqn:EL; [|discriminate].
        destruct (thr_eqb_spec h (Own a)); [subst|discriminate]. destruct (K15 _ eq_refl). discriminate.
      - apply andb_true_iff in EG as [EG _]. destruct (thr_eqb_spec (Own a) (Own p)) as [E|]; [|discriminate].
        injection E as ->. intros E. rewrite E in EK. discriminate. }
    assert (HLk : lock_ok root s t p).
    { unfold lock_ok. destruct (N.eqb_spec p root).
      - unfold holds_lock in EG. destruct (t_lock s) as [h|]; [|discriminate].
        destruct (thr_eqb_spec h t); [subst; reflexivity|discriminate].
      - apply andb_true_iff in EG as [EG _]. destruct (thr_eqb_spec t (Own p)); [assumption|discriminate]. }
    assert (Hpubc : t_pub s c = false).
    { destruct (t_pub s c) eqn:E; [|reflexivity]. rewrite (K16 _ E) in ECc. discriminate. }
    auto_inv.
    destruct (K11 _ H H0) as [A B]. k11_fin t. destruct Hs as [Hs|Hs]; [|discriminate].
    injection Hs as -> ->. rewrite H0 in EK. discriminate.
  Qed.

  Lemma inv_LSpRegister t s s' : Inv s -> step t LSpRegister s = Some s' -> Inv s'.
  Proof.
    start H. destruct (t_pc s t) as [|p c|p c|a|a|a] eqn:EPC; try discriminate.
    destruct (K2a _ _ _ EPC) as (Hpar & Hcr & Hpub & Hc & Hlk).
    destruct (t_reg s (path_of c)) as [x|] eqn:ER; injection H as <-.
    - (* ErrorActorAlreadyExists *)
      auto_inv.
    - (* stored *)
      auto_inv.
      + exfalso. apply (path_root c Hc). congruence.
      + match goal with H : Some c = Some _ |- _ => injection H as <- end.
        right. exists t. rewrite updt_eq. f_equal. congruence.
      + destruct (K10 _ _ _ H) as (A & B & C & D & E). repeat split; auto; [congruence|]. intros Hp.
        destruct (E Hp) as [F|[F|F]]; [exfalso; congruence|exfalso; congruence|right; right; exact F].
      + destruct (K10 _ _ _ H) as (A & B & C & D & E). repeat split; auto; [congruence|]. intros Hp.
        destruct (E Hp) as [F|[F|F]]; [exfalso; congruence|right; left; exact F|right; right; exact F].
      + k11_all. destruct Hs as [Hs|Hs]; [discriminate|]. injection Hs as <- <-.
        match goal with B : forall t c, ~ spawn_pc _ _ _ |- _ => eapply (B t c); left; exact EPC end.
  Qed.

  Lemma inv_LSpInsert t s s' : Inv s -> step t LSpInsert s = Some s' -> Inv s'.
  Proof.
    start H. destruct (t_pc s t) as [|p c|p c|a|a|a] eqn:EPC; try discriminate. injection H as <-.
    destruct (K2b _ _ _ EPC) as (Hpar & Hcr & Hpub & Hc & Hlk).
    unfold insert_child. destruct (opt_aid_eqb (t_reg s (path_of c)) c) eqn:ER.
    - (* the child is still registered: the entry stays *)
      apply opt_aid_eqb_true in ER.
      auto_inv.
      + (* k9 *)
        destruct (N.eq_dec (path_of c0) (path_of c)) as [Hq|Hq].
        * assert (c0 = c) by (eapply K14; eauto). subst c0. left. apply ch_get_set_eq.
        * rewrite ch_get_set_neq by exact Hq. destruct (K9 _ _ H H0) as [A|[x A]]; [left; exact A|].
          right. exists x. rewrite updt_neq; [exact A|]. intros ->. rewrite EPC in A. injection A as ->. congruence.
      + (* k10, the stepping thread is Own c0 *)
        destruct (N.eq_dec q (path_of c)) as [Hq|Hq].
        * subst q. rewrite ch_get_set_eq in H. injection H as <-. repeat split; auto.
        * rewrite ch_get_set_neq in H by exact Hq. destruct (K10 _ _ _ H) as (A & B & C & D & E). repeat split; auto.
          intros Hp. destruct (E Hp) as [F|[F|F]]; [left; exact F|exfalso; congruence|right; right; exact F].
      + (* k10, another thread *)
        destruct (N.eq_dec q (path_of c)) as [Hq|Hq].
        * subst q. rewrite ch_get_set_eq in H. injection H as <-. repeat split; auto.
        * rewrite ch_get_set_neq in H by exact Hq. destruct (K10 _ _ _ H) as (A & B & C & D & E). repeat split; auto.
      + destruct (K11 _ H H0) as [A B]. exfalso. apply (B t c). right. exact EPC.
    - (* the child has already released its path: the entry is removed again *)
      auto_inv.
      + (* k9 *)
        destruct (N.eq_dec (path_of c0) (path_of c)) as [Hq|Hq].
        * assert (c0 = c) by (eapply K14; eauto). subst c0. rewrite H, opt_aid_eqb_some in ER. discriminate.
        * rewrite ch_get_del_neq by exact Hq. destruct (K9 _ _ H H0) as [A|[x A]]; [left; exact A|].
          right. exists x. rewrite updt_neq; [exact A|]. intros ->. rewrite EPC in A. injection A as ->. congruence.
      + destruct (N.eq_dec q (path_of c)) as [Hq|Hq].
        * subst q. rewrite ch_get_del_eq in H. discriminate.
        * rewrite ch_get_del_neq in H by exact Hq. destruct (K10 _ _ _ H) as (A & B & C & D & E). repeat split; auto.
          intros Hp. destruct (E Hp) as [F|[F|F]]; [left; exact F|exfalso; congruence|right; right; exact F].
      + destruct (N.eq_dec q (path_of c)) as [Hq|Hq].
        * subst q. rewrite ch_get_del_eq in H. discriminate.
        * rewrite ch_get_del_neq in H by exact Hq. destruct (K10 _ _ _ H) as (A & B & C & D & E). repeat split; auto.
      + destruct (K11 _ H H0) as [A B]. exfalso. apply (B t c). right. exact EPC.
  Qed.
End Steps.
