(** Race/TreeProofs.v — the tree invariant holds in every reachable state of the actor-tree machine (Race/Tree.v);
    what it says about the tables of the real code; the former witness of the stale root entry, now harmless. *)
From Coq Require Import List NArith Bool Lia.
From Vivid Require Import Race.Tree Race.TreeInv Race.TreeSteps1 Race.TreeSteps2 Race.TreeSteps3.
Import ListNotations.
Local Open Scope N_scope.

Section Main.
  Variable root : aid.
  Variable par : aid -> option aid.
  Variable path_of : aid -> apath.
  Hypothesis path_root : forall c, c <> root -> path_of c <> path_of root.
  Hypothesis par_root : par root = None.

  Notation step := (step_fn root par path_of).
  Notation Inv := (Inv root par path_of).
  Notation reachable := (treachable root par path_of).
  Notation reg' := (registered path_of).

  Lemma inv_step t l s s' : Inv s -> step t l s = Some s' -> Inv s'.
  Proof.
    destruct l.
    - eapply inv_LAcq; eauto.
    - eapply inv_LRel; eauto.
    - eapply inv_LSpCheck; eauto.
    - eapply inv_LSpRegister; eauto.
    - eapply inv_LSpInsert; eauto.
    - eapply inv_LKill; eauto.
    - eapply inv_LCount; eauto.
    - eapply inv_LMark; eauto.
    - eapply inv_LResurrect; eauto.
    - eapply inv_LZombie; eauto.
    - eapply inv_LZombieRelease; eauto.
    - eapply inv_LDereg; eauto.
    - eapply inv_LNotify; eauto.
    - eapply inv_LHandle; eauto.
    - eapply inv_LDrop; eauto.
  Qed.

  Lemma inv_run sched : forall s s', Inv s -> trun root par path_of sched s = Some s' -> Inv s'.
  Proof.
    induction sched as [|[t l] r IH]; cbn; intros s s' Hi H.
    - injection H as <-. exact Hi.
    - destruct (step t l s) as [s1|] eqn:E; [|discriminate]. eapply IH; [|exact H]. eapply inv_step; eassumption.
  Qed.

  Theorem inv_reachable s : reachable s -> Inv s.
  Proof. intros [sched H]. eapply inv_run; [apply inv_init|exact H]. Qed.

  (** ** what the invariant says, in terms of the three tables only *)

  (** in EVERY reachable state (nothing needs to be quiescent), below every parent other than the root:
      - an entry of the child table points to a context of that path and parent which is still registered, or whose
        release is in progress (registry entry deleted, the notice to the parent not yet sent, or sent and not yet handled);
      - a registered context is in its parent's child table, or its parent's own goroutine is in the middle of spawning it;
      - the parent of a registered context is not dead. *)
  Theorem tree_nonroot_always s p :
    reachable s -> p <> root ->
    (forall q c, child_of s p q c ->
        path_of c = q /\ par c = Some p /\
        (reg' s c \/ t_pc s (Own c) = Released c \/ In c (t_notices s p))) /\
    (forall c, reg' s c -> par c = Some p ->
        child_of s p (path_of c) c \/ t_pc s (Own p) = SpRegistered p c) /\
    (forall c, reg' s c -> par c = Some p -> t_st s p <> Killed).
  Proof.
    intros Hr Hp. pose proof (inv_reachable s Hr) as I. split; [|split].
    - intros q c H. destruct (k10 _ _ _ _ I _ _ _ H) as (A & B & _ & _ & E). auto.
    - intros c H1 H2. destruct (k9 _ _ _ _ I _ _ H1 H2) as [A|[t A]]; [left; exact A|right].
      destruct (k2b _ _ _ _ I _ _ _ A) as (_ & _ & _ & _ & L). unfold lock_ok in L.
      destruct (N.eqb_spec p root); [contradiction|]. subst t. exact A.
    - intros c H1 H2 HK. destruct (k11 _ _ _ _ I _ Hp HK) as [A B].
      destruct (k9 _ _ _ _ I _ _ H1 H2) as [C|[t C]].
      + unfold child_of in C. rewrite A in C. discriminate.
      + apply (B t c). right. exact C.
  Qed.

  (** at quiescence the tree is consistent below every parent other than the root: registry <-> children <-> parent,
      both ways, and no registered context has a dead parent *)
  Theorem tree_nonroot_quiescent s p :
    reachable s -> quiescent s -> p <> root -> tree_consistent_at par path_of s p.
  Proof.
    intros Hr [Q1 Q2] Hp. destruct (tree_nonroot_always s p Hr Hp) as (A & B & C). split; [|split].
    - intros q c H. destruct (A q c H) as (A1 & A2 & [A3|[A3|A3]]).
      + auto.
      + rewrite Q1 in A3. discriminate.
      + rewrite Q2 in A3. destruct A3.
    - intros c H1 H2. destruct (B c H1 H2) as [D|D]; [exact D|]. rewrite Q1 in D. discriminate.
    - intros HK c H1 H2. exact (C c H1 H2 HK).
  Qed.

  (** the same for EVERY parent that is not dead - the root included (since /repo b0e210b: the insertion into the child
      table re-checks the registration inside the same critical section). In every reachable state an entry of its table is
      registered or in the course of its release, and a registered child is in the table or a spawn of it is in flight. *)
  Theorem tree_live_parent_always s p :
    reachable s -> p <> root \/ t_st s p <> Killed ->
    (forall q c, child_of s p q c ->
        path_of c = q /\ par c = Some p /\
        (reg' s c \/ t_pc s (Own c) = Released c \/ In c (t_notices s p))) /\
    (forall c, reg' s c -> par c = Some p ->
        child_of s p (path_of c) c \/ exists t, t_pc s t = SpRegistered p c).
  Proof.
    intros Hr Hp. pose proof (inv_reachable s Hr) as I. split.
    - intros q c H. destruct (k10 _ _ _ _ I _ _ _ H) as (A & B & _ & _ & E). auto.
    - intros c H1 H2. exact (k9 _ _ _ _ I _ _ H1 H2).
  Qed.

  (** at quiescence registry, child table and parent agree EXACTLY below every parent that is not dead: in particular the
      root's table never keeps a dead context while the root is alive *)
  Theorem tree_live_parent_quiescent s p :
    reachable s -> quiescent s -> p <> root \/ t_st s p <> Killed -> tables_agree_at par path_of s p.
  Proof.
    intros Hr [Q1 Q2] Hp. destruct (tree_live_parent_always s p Hr Hp) as (A & B). split.
    - intros q c H. destruct (A q c H) as (A1 & A2 & [A3|[A3|A3]]).
      + auto.
      + rewrite Q1 in A3. discriminate.
      + rewrite Q2 in A3. destruct A3.
    - intros c H1 H2. destruct (B c H1 H2) as [D|[t D]]; [exact D|]. rewrite Q1 in D. discriminate.
  Qed.

  (** what holds for EVERY parent, the root included: the registry is sound (one context per path, stored under its own
      path, never the root), a registered context is in its parent's child table or a spawn of it is in flight, and the
      keys of every child table are the paths of the stored references, which are children of that parent *)
  Theorem tree_all_always s :
    reachable s ->
    (forall q a, t_reg s q = Some a -> path_of a = q /\ a <> root) /\
    (forall c p, reg' s c -> par c = Some p ->
        child_of s p (path_of c) c \/ exists t, t_pc s t = SpRegistered p c) /\
    (forall p q c, child_of s p q c -> path_of c = q /\ par c = Some p).
  Proof.
    intros Hr. pose proof (inv_reachable s Hr) as I. split; [|split].
    - intros q a H. destruct (k1 _ _ _ _ I _ _ H) as (A & _ & _ & B). auto.
    - exact (k9 _ _ _ _ I).
    - intros p q c H. destruct (k10 _ _ _ _ I _ _ _ H) as (A & B & _). auto.
  Qed.

  (** hence at quiescence one direction holds at the root too: every registered top-level context is in the root's table *)
  Theorem tree_root_quiescent_half s :
    reachable s -> quiescent s -> forall c, reg' s c -> par c = Some root -> child_of s root (path_of c) c.
  Proof.
    intros Hr [Q1 _] c H1 H2. destruct (tree_all_always s Hr) as (_ & B & _).
    destruct (B c root H1 H2) as [D|[t D]]; [exact D|]. rewrite Q1 in D. discriminate.
  Qed.

  (** actorOfLock: at most one thread is inside a spawn on the root *)
  Theorem tree_root_spawns_serialised s t t' c c' :
    reachable s -> spawn_pc (t_pc s t) root c -> spawn_pc (t_pc s t') root c' -> t = t'.
  Proof.
    intros Hr H1 H2. pose proof (inv_reachable s Hr) as I.
    assert (L : forall x d, spawn_pc (t_pc s x) root d -> t_lock s = Some x).
    { intros x d [H|H]; [destruct (k2a _ _ _ _ I _ _ _ H) as (_ & _ & _ & _ & L)|destruct (k2b _ _ _ _ I _ _ _ H) as (_ & _ & _ & _ & L)];
        unfold lock_ok in L; rewrite N.eqb_refl in L; exact L. }
    pose proof (L _ _ H1) as L1. pose proof (L _ _ H2) as L2. congruence.
  Qed.

  (** no context ever deletes or overwrites another context's registration: a context stays registered from its
      LoadOrStore until its own Delete *)
  Theorem tree_registration_stable s a :
    reachable s -> t_pub s a = true -> a <> root ->
    reg' s a \/ (t_st s a = Killed /\ t_zombie s a = false /\ ~ reg' s a).
  Proof.
    intros Hr H1 H2. pose proof (inv_reachable s Hr) as I.
    destruct (k7 _ _ _ _ I _ H1 H2) as [A|[A|A]]; [left; exact A|right|right].
    - destruct (k5c _ _ _ _ I _ A) as (B & C & D). auto.
    - destruct A as (B & C & _ & D). auto.
  Qed.
End Main.

(** ** the schedule that used to leave a dead context in the root's table (finding C10-root-stale-child, repaired in /repo
    b0e210b), on the concrete instance of Race/Tree.v (root 0, contexts 1..15 top-level): external thread 1 is inside
    System.ActorOf between appendActorContext and the insertion; the new actor 1 is found through the registry and killed,
    terminates, deletes its registration and tells the root, which finds nothing to remove; then the spawner runs its
    critical section: insert, registration re-check, delete. *)

Lemma x_path_root : forall c, c <> x_root -> x_path c <> x_path x_root.
Proof.
  intros c Hc. unfold x_path, x_root in *. destruct (N.eqb_spec c 0); [contradiction|].
  rewrite N.eqb_refl. generalize (N.modulo (c - 1) 4095). intros m. lia.
Qed.
Lemma x_par_root : x_par x_root = None.
Proof. reflexivity. Qed.

Definition w_run (sched : list (thr * lbl)) : tstate :=
  match trun x_root x_par x_path sched (tinit x_root) with Some s => s | None => tinit x_root end.
Definition w_ok (sched : list (thr * lbl)) : bool :=
  match trun x_root x_par x_path sched (tinit x_root) with Some _ => true | None => false end.
Lemma w_run_some sched : w_ok sched = true -> trun x_root x_par x_path sched (tinit x_root) = Some (w_run sched).
Proof. unfold w_ok, w_run. destruct (trun x_root x_par x_path sched (tinit x_root)); [reflexivity|discriminate]. Qed.

Definition w1_sched : list (thr * lbl) :=
  [ (Ext 1, LAcq); (Ext 1, LSpCheck 0 1); (Ext 1, LSpRegister);
    (Own 1, LKill); (Own 1, LCount); (Own 1, LMark); (Own 1, LDereg); (Own 1, LNotify);
    (Own 0, LHandle 1);
    (Ext 1, LSpInsert); (Ext 1, LRel) ].

Lemma w1_reachable : treachable x_root x_par x_path (w_run w1_sched).
Proof. exists w1_sched. apply w_run_some. vm_compute. reflexivity. Qed.

Ltac crush_var := repeat (match goal with |- context [match ?x with _ => _ end] => is_var x; destruct x end); reflexivity.

Lemma w1_quiescent : quiescent (w_run w1_sched).
Proof.
  split.
  - intros [n|a]; lazy.
    + crush_var.
    + crush_var.
  - intros p. lazy. crush_var.
Qed.

(** the schedule is still enabled step by step, and now ends with the root's table EMPTY and the dead actor unregistered *)
Lemma w1_repaired :
  ch_get 1 (t_children (w_run w1_sched) x_root) = None /\ t_reg (w_run w1_sched) (x_path 1) = None /\
  t_st (w_run w1_sched) 1 = Killed /\ t_st (w_run w1_sched) x_root = Running.
Proof. repeat split; vm_compute; reflexivity. Qed.

(** a non-trivial quiescent reachable state with a three-level tree (root 0 - 1 - 16), for the Examples *)
Definition e_sched : list (thr * lbl) :=
  [ (Ext 7, LAcq); (Ext 7, LSpCheck 0 1); (Ext 7, LSpRegister); (Ext 7, LSpInsert); (Ext 7, LRel);
    (Own 1, LSpCheck 1 16); (Own 1, LSpRegister); (Own 1, LSpInsert) ].
Definition e_state : tstate := w_run e_sched.
Lemma e_reachable : treachable x_root x_par x_path e_state.
Proof. exists e_sched. apply w_run_some. vm_compute. reflexivity. Qed.
Lemma e_quiescent : quiescent e_state.
Proof.
  split.
  - intros [n|a]; lazy.
    + crush_var.
    + crush_var.
  - intros p. lazy. crush_var.
Qed.
Lemma e_facts :
  child_of e_state 1 16 16 /\ registered x_path e_state 16 /\ x_par 16 = Some 1 /\ child_of e_state 0 1 1.
Proof. repeat split; vm_compute; reflexivity. Qed.

(** ** uniqueness of registration: the registration step is an atomic LoadOrStore, so a path names at most one live context.
    Of two distinct contexts with the same path that have both been registered at some time (two successful spawns under one
    name), at least one is dead (state killed: released, or in the course of its release) - in every reachable state. *)
Section Unique.
  Variable root : aid.
  Variable par : aid -> option aid.
  Variable path_of : aid -> apath.
  Hypothesis path_root : forall c, c <> root -> path_of c <> path_of root.
  Hypothesis par_root : par root = None.

  Theorem tree_registration_unique s c c' :
    treachable root par path_of s ->
    t_pub s c = true -> t_pub s c' = true -> c <> root -> c' <> root -> path_of c = path_of c' -> c <> c' ->
    (t_st s c = Killed /\ ~ registered path_of s c) \/ (t_st s c' = Killed /\ ~ registered path_of s c').
  Proof.
    intros Hr P1 P2 R1 R2 Hp Hne. pose proof (inv_reachable root par path_of path_root par_root s Hr) as I.
    assert (D : forall x, t_pub s x = true -> x <> root ->
                registered path_of s x \/ (t_st s x = Killed /\ ~ registered path_of s x)).
    { intros x Px Rx. destruct (k7 _ _ _ _ I _ Px Rx) as [A|[A|A]]; [left; exact A|right|right].
      - destruct (k5c _ _ _ _ I _ A) as (B & _ & C). auto.
      - destruct A as (B & _ & _ & C). auto. }
    destruct (D c P1 R1) as [A|A]; [|left; exact A]. destruct (D c' P2 R2) as [B|B]; [|right; exact B].
    exfalso. unfold registered in A, B. rewrite Hp in A. rewrite A in B. injection B as ->. apply Hne. reflexivity.
  Qed.
End Unique.
