(** Executable entry point of the lock-set discipline for the correspondence check: the harness sends
    the access table it inventoried (as a term) and the list of location classes; the model answers
    with the violating location classes and the protection every class enjoys. *)
From Coq Require Import List NArith Bool.
From Vivid Require Import Base.Tm Race.Lockset Race.Tree Race.TreeRun Race.Crash.
Import ListNotations.
Local Open Scope N_scope.

Definition get_lock (t : tm) : option (N * lmode) :=
  match t with
  | TL [TN l; TN 0] => Some (l, Shared)
  | TL [TN l; TN 1] => Some (l, Excl)
  | _ => None
  end.

Definition get_phase (t : tm) : option phase :=
  match t with
  | TL [TN 0; TN _] => Some PNone
  | TL [TN 1; TN e] => Some (PClaimed e)
  | TL [TN 2; TN e] => Some (PFired e)
  | _ => None
  end.

Definition get_access (t : tm) : option access :=
  match t with
  | TL [TN site; TN loc; w; at_; locks; own; ph] =>
      match get_bool w, get_bool at_, get_list get_lock locks, get_bool own, get_phase ph with
      | Some w, Some at_, Some locks, Some own, Some ph =>
          Some (mkAccess site loc (if w then Wr else Rd) at_ locks (if own then ROwner else RAny) ph)
      | _, _, _, _, _ => None
      end
  | _ => None
  end.

Definition get_pkind (t : tm) : option pkind :=
  match t with
  | TN 1 => Some KUnlock | TN 2 => Some KClose | TN 3 => Some KSend
  | TN 4 => Some KMapWrite | TN 5 => Some KMapAssign | TN 6 => Some KMapStore
  | _ => None
  end.
Definition get_psite (t : tm) : option psite :=
  match t with
  | TL [TN id; k; TN cl; g; ph] =>
      match get_pkind k, get_bool g, get_phase ph with
      | Some k, Some g, Some ph => Some (mkPsite id k cl g ph)
      | _, _, _ => None
      end
  | _ => None
  end.
(** (4 sites): the panic-site discipline (Race/Crash.v): the unguarded site ids and whether the discipline holds *)
Definition run_panics (t : tm) : tm :=
  match get_list get_psite t with
  | Some T => TL [tlist TN (unguarded T); tbool (panic_discipline_ok T)]
  | None => tm_err 5
  end.

(** [run_race] also serves the actor-tree machine (Race/TreeRun.v): inputs tagged (2 ...) and (3 ...) *)
Definition run_race (t : tm) : tm :=
  match t with
  | TL [TN 4; sites] => run_panics sites
  | TL (TN _ :: _) => run_tree t
  | TL [tab; locs] =>
      match get_list get_access tab, get_list get_n locs with
      | Some T, Some ls =>
          TL [tlist TN (bad_locs T); tlist (fun l => TL [TN l; TN (loc_protection T l)]) ls]
      | _, _ => tm_err 1
      end
  | _ => tm_err 0
  end.
