(** Executable entry point of the lock-set discipline for the correspondence check: the harness sends
    the access table it inventoried (as a term) and the list of location classes; the model answers
    with the violating location classes and the protection every class enjoys. *)
From Coq Require Import List NArith Bool.
From Vivid Require Import Base.Tm Race.Lockset.
Import ListNotations.
Local Open Scope N_scope.

Definition get_lock (t : tm) : option (N * lmode) :=
  match t with
  | TL [TN l; TN 0] => Some (l, Shared)
  | TL [TN l; TN 1] => Some (l, Excl)
  | _ => None
  end.

Definition get_phase (t : tm) : option phase :=
  match t with
  | TL [TN 0; TN _] => Some PNone
  | TL [TN 1; TN e] => Some (PClaimed e)
  | TL [TN 2; TN e] => Some (PFired e)
  | _ => None
  end.

Definition get_access (t : tm) : option access :=
  match t with
  | TL [TN site; TN loc; w; at_; locks; own; ph] =>
      match get_bool w, get_bool at_, get_list get_lock locks, get_bool own, get_phase ph with
      | Some w, Some at_, Some locks, Some own, Some ph =>
          Some (mkAccess site loc (if w then Wr else Rd) at_ locks (if own then ROwner else RAny) ph)
      | _, _, _, _, _ => None
      end
  | _ => None
  end.

Definition run_race (t : tm) : tm :=
  match t with
  | TL [tab; locs] =>
      match get_list get_access tab, get_list get_n locs with
      | Some T, Some ls =>
          TL [tlist TN (bad_locs T); tlist (fun l => TL [TN l; TN (loc_protection T l)]) ls]
      | _, _ => tm_err 1
      end
  | _ => tm_err 0
  end.
