(** Race/TreeRun.v — executable entry points of the actor-tree machine for the correspondence check.

    (2 sched queries)  run a schedule of the machine on the fixed instance below and observe the tables:
                       sched = ((thread label) ...), thread = (0 n) external | (1 a) actor a's goroutine,
                       label = (k args) with k as in [get_lbl]; queries = ((p c) ...).
                       Answer (0 i) when step i of the schedule is not enabled, otherwise
                       (1 ((registered? in-children-of-p? state-of-c state-of-p) ...) quiet?)
                       where quiet? = every thread of the schedule is idle and no parent queried has a pending notice.
                       The harness forces the same schedule on the real code (hooks at the lock acquisitions) and
                       must observe the same tables.
    (3 root nodes)     consistency verdict of a quiescent snapshot of a real system ([snap_violations]). *)
From Coq Require Import List NArith Bool.
From Vivid Require Import Base.Tm Race.Tree.
Import ListNotations.
Local Open Scope N_scope.

Definition get_thr (t : tm) : option thr :=
  match t with
  | TL [TN 0; TN n] => Some (Ext n)
  | TL [TN 1; TN a] => Some (Own a)
  | _ => None
  end.

Definition get_lbl (t : tm) : option lbl :=
  match t with
  | TL [TN 0] => Some LAcq
  | TL [TN 1] => Some LRel
  | TL [TN 2; TN p; TN c] => Some (LSpCheck p c)
  | TL [TN 3] => Some LSpRegister
  | TL [TN 4] => Some LSpInsert
  | TL [TN 5] => Some LKill
  | TL [TN 6] => Some LCount
  | TL [TN 7] => Some LMark
  | TL [TN 8] => Some LResurrect
  | TL [TN 9] => Some LZombie
  | TL [TN 10] => Some LZombieRelease
  | TL [TN 11] => Some LDereg
  | TL [TN 12] => Some LNotify
  | TL [TN 13; TN c] => Some (LHandle c)
  | TL [TN 14; TN c] => Some (LDrop c)
  | _ => None
  end.

(** run a schedule; [inl i] = step number i (from 0) is not enabled *)
Fixpoint x_run (i : N) (sched : list (thr * lbl)) (s : tstate) : N + tstate :=
  match sched with
  | [] => inr s
  | (t, l) :: r =>
      match step_fn x_root x_par x_path t l s with
      | Some s' => x_run (i + 1) r s'
      | None => inl i
      end
  end.

Definition x_observe (s : tstate) (q : aid * aid) : tm :=
  let (p, c) := q in
  TL [ tbool (opt_aid_eqb (t_reg s (x_path c)) c);
       tbool (opt_aid_eqb (ch_get (x_path c) (t_children s p)) c);
       TN (ast_code (t_st s c)); TN (ast_code (t_st s p)) ].

Definition x_quiet (s : tstate) (sched : list (thr * lbl)) (qs : list (aid * aid)) : bool :=
  forallb (fun e => is_idle (t_pc s (fst e))) sched &&
  forallb (fun q => match t_notices s (fst q) with [] => true | _ => false end) qs.

Definition get_snode (t : tm) : option snode :=
  match t with
  | TL [TN p; TN par; TN st; ch] =>
      match get_list (get_pair get_n get_n) ch with
      | Some l => Some (mkSnode p par st l)
      | None => None
      end
  | _ => None
  end.

Definition run_tree (t : tm) : tm :=
  match t with
  | TL [TN 2; sched; qs] =>
      match get_list (get_pair get_thr get_lbl) sched, get_list (get_pair get_n get_n) qs with
      | Some sc, Some q =>
          match x_run 0 sc (tinit x_root) with
          | inl i => TL [TN 0; TN i]
          | inr s => TL [TN 1; tlist (x_observe s) q; tbool (x_quiet s sc q)]
          end
      | _, _ => tm_err 2
      end
  | TL [TN 3; r; ns] =>
      match get_snode r, get_list get_snode ns with
      | Some root, Some nodes => tlist (fun v => TL [TN (fst v); TN (snd v)]) (snap_violations root nodes)
      | _, _ => tm_err 3
      end
  | _ => tm_err 4
  end.
