(** Race/TreeInv.v — definitions, list lemmas and tactics for the inductive invariant of the actor-tree machine (Race/Tree.v), for EVERY root, parent
    function, path function, number of actors and threads and EVERY schedule. *)
From Coq Require Import List NArith Bool Lia.
From Vivid Require Import Race.Tree.
Import ListNotations.
Local Open Scope N_scope.

(** ** bookkeeping *)

Lemma thr_eqb_spec x y : reflect (x = y) (thr_eqb x y).
Proof.
  destruct x as [n|a], y as [m|b]; cbn; try (constructor; discriminate).
  - destruct (N.eqb_spec n m); constructor; congruence.
  - destruct (N.eqb_spec a b); constructor; congruence.
Qed.

Lemma thr_eqb_refl x : thr_eqb x x = true.
Proof. destruct (thr_eqb_spec x x); congruence. Qed.

Lemma upd_eq {A} (f : N -> A) k v : upd f k v k = v.
Proof. unfold upd. rewrite N.eqb_refl. reflexivity. Qed.
Lemma upd_neq {A} (f : N -> A) k v x : x <> k -> upd f k v x = f x.
Proof. unfold upd. intros H. destruct (N.eqb_spec x k); congruence. Qed.
Lemma updt_eq f t v : updt f t v t = v.
Proof. unfold updt. rewrite thr_eqb_refl. reflexivity. Qed.
Lemma updt_neq f t v x : x <> t -> updt f t v x = f x.
Proof. unfold updt. intros H. destruct (thr_eqb_spec x t); congruence. Qed.

Lemma ch_get_nil q : ch_get q [] = None.
Proof. reflexivity. Qed.

Lemma find_filter_neq q q' (l : ctab) :
  q <> q' ->
  find (fun e => N.eqb (fst e) q) (filter (fun e => negb (N.eqb (fst e) q')) l) = find (fun e => N.eqb (fst e) q) l.
Proof.
  intros Hne. induction l as [|[k v] r IH]; cbn [filter find fst]; [reflexivity|].
  destruct (N.eqb_spec k q'); cbn [negb].
  - subst. destruct (N.eqb_spec q' q); [congruence|]. exact IH.
  - cbn [find fst]. rewrite IH. reflexivity.
Qed.

Lemma ch_get_del_eq q l : ch_get q (ch_del q l) = None.
Proof.
  unfold ch_get, ch_del. induction l as [|[k v] r IH]; cbn [filter find fst]; [reflexivity|].
  destruct (N.eqb_spec k q); cbn [negb]; [exact IH|]. cbn [find fst].
  destruct (N.eqb_spec k q); [congruence|]. exact IH.
Qed.
Lemma ch_get_del_neq q q' l : q <> q' -> ch_get q (ch_del q' l) = ch_get q l.
Proof. intros H. unfold ch_get, ch_del. rewrite find_filter_neq by exact H. reflexivity. Qed.
Lemma ch_get_set_eq q c l : ch_get q (ch_set q c l) = Some c.
Proof. unfold ch_get, ch_set. cbn [find fst]. rewrite N.eqb_refl. reflexivity. Qed.
Lemma ch_get_set_neq q q' c l : q <> q' -> ch_get q (ch_set q' c l) = ch_get q l.
Proof.
  intros H. unfold ch_get, ch_set. cbn [find fst]. destruct (N.eqb_spec q' q); [congruence|].
  fold (ch_del q' l). fold (ch_get q (ch_del q' l)). fold (ch_get q l). apply ch_get_del_neq. exact H.
Qed.

Lemma opt_aid_eqb_true o a : opt_aid_eqb o a = true -> o = Some a.
Proof. destruct o as [x|]; cbn; [|discriminate]. intros H. apply N.eqb_eq in H. congruence. Qed.
Lemma opt_aid_eqb_some a : opt_aid_eqb (Some a) a = true.
Proof. cbn. apply N.eqb_refl. Qed.

Lemma mem_In c l : mem c l = true -> In c l.
Proof. unfold mem. rewrite existsb_exists. intros [x [Hin H]]. apply N.eqb_eq in H. subst. exact Hin. Qed.
Lemma In_mem c l : In c l -> mem c l = true.
Proof. intros H. unfold mem. rewrite existsb_exists. exists c. split; [exact H|apply N.eqb_refl]. Qed.
Lemma In_remove1 x c l : In x (remove1 c l) -> In x l.
Proof.
  induction l as [|y r IH]; cbn; [tauto|]. destruct (N.eqb_spec y c).
  - intros H. right. exact H.
  - intros [H|H]; [left; exact H|right; apply IH; exact H].
Qed.
Lemma In_remove1_neq x c l : In x l -> x <> c -> In x (remove1 c l).
Proof.
  induction l as [|y r IH]; cbn; [tauto|]. intros [H|H] Hne.
  - subst. destruct (N.eqb_spec x c); [congruence|]. left. reflexivity.
  - destruct (N.eqb_spec y c); [exact H|]. right. apply IH; assumption.
Qed.

Section Rmch.
  Variable path_of : aid -> apath.
  Lemma rmch_get_sub c l q x : ch_get q (remove_child path_of c l) = Some x -> ch_get q l = Some x.
  Proof.
    unfold remove_child. destruct (opt_aid_eqb (ch_get (path_of c) l) c) eqn:E; [|tauto].
    destruct (N.eq_dec q (path_of c)) as [->|Hne].
    - rewrite ch_get_del_eq. discriminate.
    - rewrite ch_get_del_neq by exact Hne. tauto.
  Qed.
  Lemma rmch_get_self c l : ch_get (path_of c) (remove_child path_of c l) <> Some c.
  Proof.
    unfold remove_child. destruct (opt_aid_eqb (ch_get (path_of c) l) c) eqn:E.
    - rewrite ch_get_del_eq. discriminate.
    - intros H. rewrite H, opt_aid_eqb_some in E. discriminate.
  Qed.
  Lemma rmch_get_other c l q x : ch_get q l = Some x -> x <> c -> ch_get q (remove_child path_of c l) = Some x.
  Proof.
    intros H Hne. unfold remove_child. destruct (opt_aid_eqb (ch_get (path_of c) l) c) eqn:E; [|exact H].
    apply opt_aid_eqb_true in E. destruct (N.eq_dec q (path_of c)) as [->|Hq].
    - congruence.
    - rewrite ch_get_del_neq by exact Hq. exact H.
  Qed.

End Rmch.

Section Proofs.
  Variable root : aid.
  Variable par : aid -> option aid.
  Variable path_of : aid -> apath.
  (** the root's path ("/") is nobody else's path *)
  Hypothesis path_root : forall c, c <> root -> path_of c <> path_of root.

  Notation step := (step_fn root par path_of).
  Notation reg' := (registered path_of).
  Notation rmch := (remove_child path_of).

  (** ** the invariant *)

  Definition gone (s : tstate) (a : aid) : Prop :=
    t_st s a = Killed /\ t_zombie s a = false /\ t_pc s (Own a) = Idle /\ ~ reg' s a.
  Definition spawn_pc (x : tpc) (p c : aid) : Prop := x = SpChecked p c \/ x = SpRegistered p c.
  Definition lock_ok (s : tstate) (t : thr) (p : aid) : Prop :=
    if N.eqb p root then t_lock s = Some t else t = Own p.

  Record Inv (s : tstate) : Prop := mkInv {
    k0 : t_created s root = true /\ t_pub s root = true /\ t_reg s (path_of root) = None;
    k1 : forall q a, t_reg s q = Some a -> path_of a = q /\ t_created s a = true /\ t_pub s a = true /\ a <> root;
    k2a : forall t p c, t_pc s t = SpChecked p c ->
            par c = Some p /\ t_created s c = true /\ t_pub s c = false /\ c <> root /\ lock_ok s t p;
    k2b : forall t p c, t_pc s t = SpRegistered p c ->
            par c = Some p /\ t_created s c = true /\ t_pub s c = true /\ c <> root /\ lock_ok s t p;
    k3 : forall t t' p p' c, spawn_pc (t_pc s t) p c -> spawn_pc (t_pc s t') p' c -> t = t';
    k4 : forall t a, t_pc s t = Counted a \/ t_pc s t = Releasing a \/ t_pc s t = Released a ->
            t = Own a /\ t_pub s a = true;
    k5a : forall a, a <> root -> t_pc s (Own a) = Counted a \/ t_pc s (Own a) = Releasing a -> reg' s a;
    k5b : forall a, t_pc s (Own a) = Releasing a -> t_st s a = Killed /\ t_zombie s a = false;
    k5c : forall a, t_pc s (Own a) = Released a -> t_st s a = Killed /\ t_zombie s a = false /\ ~ reg' s a;
    k6 : forall a, t_zombie s a = true -> t_st s a = Killed /\ t_pc s (Own a) = Idle /\ t_pub s a = true;
    k7 : forall a, t_pub s a = true -> a <> root -> reg' s a \/ t_pc s (Own a) = Released a \/ gone s a;
    k8 : forall p c, In c (t_notices s p) -> par c = Some p /\ t_pub s c = true /\ c <> root /\ gone s c;
    k9 : forall c p, reg' s c -> par c = Some p ->
            child_of s p (path_of c) c \/ exists t, t_pc s t = SpRegistered p c;
    k10 : forall p q c, child_of s p q c ->
            path_of c = q /\ par c = Some p /\ t_pub s c = true /\ c <> root /\
            (p <> root \/ t_st s p <> Killed -> reg' s c \/ t_pc s (Own c) = Released c \/ In c (t_notices s p));
    k11 : forall p, p <> root -> t_st s p = Killed ->
            t_children s p = [] /\ forall t c, ~ spawn_pc (t_pc s t) p c;
    k12 : forall p, p <> root -> t_pc s (Own p) = Counted p -> t_children s p = [];
    k13 : forall t p c, p <> root -> t_pc s t = SpRegistered p c ->
            reg' s c \/ t_pc s (Own c) = Released c \/ In c (t_notices s p);
    k14 : forall t p c c', t_pc s t = SpRegistered p c -> reg' s c' -> par c' = Some p -> path_of c' = path_of c -> c' = c;
    k15 : forall t, t_lock s = Some t -> exists n, t = Ext n;
    k16 : forall a, t_pub s a = true -> t_created s a = true
  }.

  Lemma inv_init : Inv (tinit root).
  Proof.
    constructor; cbn; unfold registered, child_of, gone, spawn_pc; cbn; intros;
      try discriminate; try tauto; try (destruct H; discriminate).
    all: try (rewrite N.eqb_refl; auto).
    all: try (destruct H as [H|[H|H]]; discriminate).
    all: try (destruct H0 as [H0|H0]; discriminate).
    all: try (destruct (N.eqb_spec a root); congruence).
  Qed.

End Proofs.

Lemma idle_eq x : is_idle x = true -> x = Idle.
Proof. destruct x; try discriminate; reflexivity. Qed.

(** ** tactics shared by the per-step preservation lemmas (Race/TreeSteps*.v) *)

Ltac tsimpl := cbn [t_created t_pub t_st t_zombie t_reg t_children t_notices t_pc t_lock set_pc] in *.
Ltac unf := unfold gone, registered, child_of, lock_ok in *.
Ltac start H :=
  intros [K0 K1 K2a K2b K3 K4 K5a K5b K5c K6 K7 K8 K9 K10 K11 K12 K13 K14 K15 K16] H; unfold step_fn in H.
Ltac tcase x t :=
  let e := fresh "e" in
  destruct (thr_eqb_spec x t) as [e|e];
  [first [subst x | subst t | (injection e as e; first [subst | rewrite e in *]) | rewrite e in * | idtac]; rewrite ?updt_eq in *
  |rewrite ?updt_neq in * by assumption].
Ltac ncase x k :=
  let e := fresh "e" in
  destruct (N.eq_dec x k) as [e|e];
  [first [subst x | subst k | rewrite e in * | idtac]; rewrite ?upd_eq in *|rewrite ?upd_neq in * by assumption].
Ltac split_upd :=
  repeat match goal with
  | H : context [updt _ ?t _ ?x] |- _ => tcase x t
  | |- context [updt _ ?t _ ?x] => tcase x t
  | H : context [upd _ ?k _ ?x] |- _ => ncase x k
  | |- context [upd _ ?k _ ?x] => ncase x k
  end.
Ltac learn H := let T := type of H in match goal with | _ : T |- _ => fail 1 | _ => pose proof H end.
Ltac sat1 :=
  match goal with
  | K : forall q a, t_reg _ q = Some a -> _, H : t_reg _ ?q = Some ?a |- _ => learn (K q a H)
  | K : forall t p c, t_pc _ t = SpChecked p c -> _, H : t_pc _ ?t = SpChecked ?p ?c |- _ => learn (K t p c H)
  | K : forall t p c, t_pc _ t = SpRegistered p c -> _ = Some p /\ _, H : t_pc _ ?t = SpRegistered ?p ?c |- _ => learn (K t p c H)
  | K : forall t a, t_pc _ t = Counted a \/ _ -> _, H : t_pc _ ?t = Counted ?a |- _ => learn (K t a (or_introl H))
  | K : forall t a, t_pc _ t = Counted a \/ _ -> _, H : t_pc _ ?t = Releasing ?a |- _ => learn (K t a (or_intror (or_introl H)))
  | K : forall t a, t_pc _ t = Counted a \/ _ -> _, H : t_pc _ ?t = Released ?a |- _ => learn (K t a (or_intror (or_intror H)))
  | K : forall a, t_pc _ (Own a) = Releasing a -> _, H : t_pc _ (Own ?a) = Releasing ?a |- _ => learn (K a H)
  | K : forall a, t_pc _ (Own a) = Released a -> _, H : t_pc _ (Own ?a) = Released ?a |- _ => learn (K a H)
  | K : forall a, t_zombie _ a = true -> _, H : t_zombie _ ?a = true |- _ => learn (K a H)
  | K : forall p c, In c (t_notices _ p) -> _, H : In ?c (t_notices _ ?p) |- _ => learn (K p c H)
  | K : forall p q c, ch_get q (t_children _ p) = Some c -> _, H : ch_get ?q (t_children _ ?p) = Some ?c |- _ => learn (K p q c H)
  | K : forall a, t_pub _ a = true -> a <> ?r -> _, H1 : t_pub _ ?a = true, H2 : ?a <> ?r |- _ => learn (K a H1 H2)
  | K : forall a, t_pub _ a = true -> t_created _ a = true, H1 : t_pub _ ?a = true |- _ => learn (K a H1)
  | K : forall c p, t_reg _ (_ c) = Some c -> _ c = Some p -> _, H1 : t_reg _ (_ ?c) = Some ?c, H2 : _ ?c = Some ?p |- _ => learn (K c p H1 H2)
  | K : forall p, p <> ?r -> t_st _ p = Killed -> _, H1 : ?p <> ?r, H2 : t_st _ ?p = Killed |- _ => learn (K p H1 H2)
  | K : forall p, p <> ?r -> t_pc _ (Own p) = Counted p -> _, H1 : ?p <> ?r, H2 : t_pc _ (Own ?p) = Counted ?p |- _ => learn (K p H1 H2)
  | K : forall t p c, p <> ?r -> t_pc _ t = SpRegistered p c -> _, H1 : ?p <> ?r, H2 : t_pc _ ?t = SpRegistered ?p ?c |- _ => learn (K t p c H1 H2)
  | K : forall a0, Own ?a = Own a0 -> _ |- _ => learn (K a eq_refl)
  | K : forall a, a <> ?r -> t_pc _ (Own a) = Counted a \/ _ -> _, H1 : ?a <> ?r, H2 : t_pc _ (Own ?a) = Counted ?a |- _ => learn (K a H1 (or_introl H2))
  | K : forall a, a <> ?r -> t_pc _ (Own a) = Counted a \/ _ -> _, H1 : ?a <> ?r, H2 : t_pc _ (Own ?a) = Releasing ?a |- _ => learn (K a H1 (or_intror H2))
  end.
Ltac dis := repeat match goal with
  | H : _ \/ _ |- _ => destruct H
  | H : spawn_pc _ _ _ |- _ => unfold spawn_pc in H
  | H : _ /\ _ |- _ => destruct H
  | H : exists _, _ |- _ => destruct H
  end.
Ltac sat := repeat sat1; repeat match goal with H : _ /\ _ |- _ => destruct H end.
Ltac fin0 := try assumption; try congruence; try discriminate; try solve [eauto 3].
Ltac fin := try solve [sat; repeat split; fin0].
Ltac fin1 := fin0; try solve [left; fin0]; try solve [right; left; fin0]; try solve [right; right; repeat split; fin0].
Ltac ifs := repeat match goal with
  | |- context [if N.eqb ?a ?b then _ else _] => destruct (N.eqb_spec a b)
  | H : context [if N.eqb ?a ?b then _ else _] |- _ => destruct (N.eqb_spec a b)
  end.
Ltac fin2 := try solve [sat; dis; sat; first [solve [repeat split; intros; fin1] | solve [ifs; repeat split; intros; fin1]]].
(* a goal "... \/ exists t0, updt pc t v t0 = SpRegistered p c" when some OTHER thread x is known to be there *)
Ltac ex_other :=
  match goal with
  | H : t_pc ?s ?x = SpRegistered ?p ?c |- _ \/ (exists t0, updt _ ?t _ t0 = SpRegistered ?p ?c) =>
      right; exists x; rewrite updt_neq; [exact H|intros ->; congruence]
  | H : t_pc ?s ?x = SpRegistered ?p ?c |- _ \/ (exists t0, t_pc ?s t0 = SpRegistered ?p ?c) =>
      right; exists x; exact H
  end.
Ltac k11_fin t :=
  split; [assumption|]; let t0 := fresh "t" in let c0 := fresh "c" in let Hs := fresh "Hs" in
  intros t0 c0 Hs; tcase t0 t;
  [try (destruct Hs; discriminate)|match goal with H : forall t c, ~ spawn_pc _ _ _ |- _ => eapply H; eauto end].
(* goal of field k9 when the registry did not change: use the old k9; the witness thread is not the stepping thread *)
Ltac k9_fin :=
  match goal with
  | K : forall c p, t_reg _ (_ c) = Some c -> _ c = Some p -> _ \/ _, H : t_reg _ (_ ?c0) = Some ?c0, H0 : _ ?c0 = Some ?p0 |- _ =>
      let A := fresh "A" in let x := fresh "x" in
      destruct (K c0 p0 H H0) as [A|[x A]];
      [left; exact A|right; exists x; rewrite ?updt_neq; [exact A|intros ->; congruence]]
  end.
Ltac k10_fin :=
  match goal with
  | K : forall p q c, ch_get q (t_children _ p) = Some c -> _, H : ch_get ?q (t_children _ ?p0) = Some ?c0 |- _ =>
      let A := fresh "A" in let B := fresh "B" in let C := fresh "C" in let D := fresh "D" in let E := fresh "E" in
      let F := fresh "F" in let Hp := fresh "Hp" in
      let Hold := fresh "Hold" in
      destruct (K p0 q c0 H) as (A & B & C & D & E); repeat split; auto; intros Hp;
      match type of E with ?P -> _ =>
        assert (Hold : P) by (first [exact Hp | (destruct Hp as [Hp|Hp]; [left; exact Hp|right; congruence]) | (right; congruence)])
      end;
      destruct (E Hold) as [F|[F|F]];
      [left; exact F|first [exfalso; congruence|right; left; exact F]|right; right; exact F]
  end.
Ltac k11_all :=
  match goal with
  | K : forall p, p <> ?r -> t_st _ p = Killed -> _, H : ?p0 <> ?r, H0 : t_st _ ?p0 = Killed |- context [updt _ ?t _ _] =>
      let A := fresh "A" in let B := fresh "B" in
      destruct (K p0 H H0) as [A B]; k11_fin t
  end.
Ltac auto_inv := unf; constructor; unf; tsimpl; try assumption; intros; split_upd; try congruence; fin; fin2; try ex_other;
  try solve [k9_fin]; try solve [k10_fin]; try solve [k11_all].
