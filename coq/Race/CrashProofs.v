(** Race/CrashProofs.v — a channel whose close sites are all the fire of one once-event is never closed twice and never
    sent on after the close, for every table, every number of threads and objects, every schedule. *)
From Coq Require Import List NArith Bool.
From Vivid Require Import Race.Lockset Race.Crash.
Import ListNotations.
Local Open Scope N_scope.

Lemma same_event_spec T p q e e' :
  same_event T = true -> In p T -> In q T -> is_chan_site p = true -> is_chan_site q = true ->
  ps_class p = ps_class q -> ps_phase p = PClaimed e -> ps_phase q = PClaimed e' -> e = e'.
Proof.
  intros H Hp Hq Cp Cq Hc Pp Pq. unfold same_event in H. rewrite forallb_forall in H.
  specialize (H p Hp). rewrite forallb_forall in H. specialize (H q Hq).
  rewrite Cp, Cq, Hc, N.eqb_refl in H. cbn in H. unfold claimed_event in H. rewrite Pp, Pq in H.
  apply N.eqb_eq in H. exact H.
Qed.

(** the invariant: no crash so far, and a closed channel's event (the event of any channel site of its class) is fired *)
Definition cinv (T : list psite) (s : cstate) : Prop :=
  cm_crashed s = false /\
  forall p e i, In p T -> is_chan_site p = true -> ps_phase p = PClaimed e ->
                cm_closed s (ps_class p) i = true -> cm_event s e i = EFired.

Lemma cinv_init T : cinv T cinit.
Proof. split; [reflexivity|]. cbn. intros. discriminate. Qed.

Lemma upd2_eq {A} (f : N -> inst -> A) a i v : upd2 f a i v a i = v.
Proof. unfold upd2. rewrite !N.eqb_refl. reflexivity. Qed.

Lemma cinv_step T s s' t : same_event T = true -> cinv T s -> cstep T t s s' -> cinv T s'.
Proof.
  intros HS [I1 I2] Hst. destruct Hst as [s e i Hun|s p e i Hin Hk Hph Hev|s p e i Hin Hk Hph Hev]; unfold cinv; cbn [cm_crashed cm_closed cm_event].
  - (* claim: the event was unclaimed, so no channel of it is closed *)
    split; [exact I1|]. intros q e' i' Hq Cq Pq Hc. specialize (I2 q e' i' Hq Cq Pq Hc).
    unfold upd2. destruct (N.eqb e' e && N.eqb i' i) eqn:E; [|exact I2].
    apply andb_true_iff in E as [E1 E2]. apply N.eqb_eq in E1, E2. subst. rewrite Hun in I2. discriminate.
  - (* close *)
    assert (Cp : is_chan_site p = true) by (unfold is_chan_site; rewrite Hk; reflexivity).
    split.
    + rewrite I1. cbn. destruct (cm_closed s (ps_class p) i) eqn:C; [|reflexivity].
      specialize (I2 p e i Hin Cp Hph C). rewrite Hev in I2. discriminate.
    + intros q e' i' Hq Cq Pq Hc. unfold upd2 in *.
      destruct (N.eqb (ps_class q) (ps_class p) && N.eqb i' i) eqn:E.
      * apply andb_true_iff in E as [E1 E2]. apply N.eqb_eq in E1, E2. subst i'.
        assert (e' = e) by (eapply (same_event_spec T q p); eauto). subst e'. rewrite !N.eqb_refl. reflexivity.
      * specialize (I2 q e' i' Hq Cq Pq Hc). destruct (N.eqb e' e && N.eqb i' i) eqn:E'; [reflexivity|exact I2].
  - (* send *)
    assert (Cp : is_chan_site p = true) by (unfold is_chan_site; rewrite Hk; reflexivity).
    split; [|exact I2]. rewrite I1. cbn. destruct (cm_closed s (ps_class p) i) eqn:C; [|reflexivity].
    specialize (I2 p e i Hin Cp Hph C). rewrite Hev in I2. discriminate.
Qed.

Theorem close_discipline_sound T :
  panic_discipline_ok T = true -> forall s, creachable T s -> cm_crashed s = false.
Proof.
  intros H s Hr. apply andb_true_iff in H as [_ HS].
  assert (I : cinv T s) by (induction Hr; [apply cinv_init|eapply cinv_step; eassumption]). exact (proj1 I).
Qed.

(** sharpness: a table with a close site outside any once-event is rejected, and a table in which a channel class is closed
    under two different events does crash *)
Definition bad_close_table : list psite :=
  [ mkPsite 0 KClose 1 false (PClaimed 1); mkPsite 1 KClose 1 false (PClaimed 2) ].

Example bad_close_rejected : panic_discipline_ok bad_close_table = false /\
                             panic_discipline_ok [mkPsite 0 KClose 1 false PNone] = false.
Proof. split; vm_compute; reflexivity. Qed.

Example bad_close_crashes : exists s, creachable bad_close_table s /\ cm_crashed s = true.
Proof.
  eexists. split.
  - eapply creach_step with (t := 2); [|eapply CClose with (p := mkPsite 1 KClose 1 false (PClaimed 2)) (e := 2) (i := 0)].
    + eapply creach_step with (t := 2); [|apply CClaim with (e := 2) (i := 0)].
      * eapply creach_step with (t := 1); [|eapply CClose with (p := mkPsite 0 KClose 1 false (PClaimed 1)) (e := 1) (i := 0)].
        -- eapply creach_step with (t := 1); [apply creach_init|apply CClaim with (e := 1) (i := 0)]. reflexivity.
        -- cbn. left. reflexivity.
        -- reflexivity.
        -- reflexivity.
        -- reflexivity.
      * reflexivity.
    + cbn. right. left. reflexivity.
    + reflexivity.
    + reflexivity.
    + reflexivity.
  - reflexivity.
Qed.

(** non-vacuity: a disciplined table (the shape of future.Future: close(done) after the winning CAS) in which a close happens *)
Definition ok_close_table : list psite := [ mkPsite 0 KClose 18 false (PClaimed 1); mkPsite 1 KUnlock 0 true PNone ].
Example ok_close_table_ok : panic_discipline_ok ok_close_table = true.
Proof. vm_compute. reflexivity. Qed.
Example ok_close_happens : exists s, creachable ok_close_table s /\ cm_closed s 18 0 = true /\ cm_crashed s = false.
Proof.
  eexists. split; [|split].
  - eapply creach_step with (t := 1); [|eapply CClose with (p := mkPsite 0 KClose 18 false (PClaimed 1)) (e := 1) (i := 0)].
    + eapply creach_step with (t := 1); [apply creach_init|apply CClaim with (e := 1) (i := 0)]. reflexivity.
    + cbn. left. reflexivity.
    + reflexivity.
    + reflexivity.
    + reflexivity.
  - reflexivity.
  - reflexivity.
Qed.
