(** Race/TreeSteps2.v — preservation of the tree invariant by the life-cycle steps of an actor's own goroutine
    (kill, count, mark killed, resurrect, zombie, zombie release). *)
From Coq Require Import List NArith Bool Lia.
From Vivid Require Import Race.Tree Race.TreeInv.
Import ListNotations.
Local Open Scope N_scope.

Section Steps.
  Variable root : aid.
  Variable par : aid -> option aid.
  Variable path_of : aid -> apath.
  Hypothesis path_root : forall c, c <> root -> path_of c <> path_of root.
  Hypothesis par_root : par root = None.

  Notation step := (step_fn root par path_of).
  Notation Inv := (Inv root par path_of).

  Lemma inv_LKill t s s' : Inv s -> step t LKill s = Some s' -> Inv s'.
  Proof.
    start H. destruct t as [n|a]; [discriminate|].
    destruct (is_idle (t_pc s (Own a))) eqn:EI; [|discriminate]. destruct (t_pub s a) eqn:EP; [|discriminate].
    destruct (is_running (t_st s a)) eqn:ER; [|discriminate]. cbn [andb] in H. injection H as <-.
    apply idle_eq in EI. assert (ES : t_st s a = Running) by (destruct (t_st s a); try discriminate; reflexivity).
    auto_inv.
  Qed.

  Lemma inv_LCount t s s' : Inv s -> step t LCount s = Some s' -> Inv s'.
  Proof.
    start H. destruct t as [n|a]; [discriminate|].
    destruct (is_idle (t_pc s (Own a))) eqn:EI; [|discriminate]. destruct (t_pub s a) eqn:EP; [|discriminate].
    destruct (is_killed (t_st s a)) eqn:EK; [discriminate|]. destruct (ch_empty (t_children s a)) eqn:EC; [|discriminate].
    cbn [andb negb] in H. injection H as <-. apply idle_eq in EI.
    assert (ES : t_st s a <> Killed) by (intros E; rewrite E in EK; discriminate).
    assert (ECh : t_children s a = []) by (destruct (t_children s a); [reflexivity|discriminate]).
    auto_inv.
  Qed.

  Lemma inv_LMark t s s' : Inv s -> step t LMark s = Some s' -> Inv s'.
  Proof.
    start H. destruct (t_pc s t) as [|p c|p c|a|a|a] eqn:EPC; try discriminate.
    destruct (K4 t a (or_introl EPC)) as [-> Hpub].
    destruct (is_killing (t_st s a)) eqn:EK; injection H as <-.
    - assert (ES : t_st s a = Killing) by (destruct (t_st s a); try discriminate; reflexivity).
      auto_inv.
      + split; [reflexivity|]. destruct (t_zombie s a) eqn:Z; [|reflexivity].
        destruct (K6 _ Z) as (_ & B & _). congruence.
      + split; [apply K12; auto|]. intros t c Hs. tcase t (Own a); [destruct Hs; discriminate|].
        destruct Hs as [Hs|Hs]; [destruct (K2a _ _ _ Hs) as (_ & _ & _ & _ & L)|destruct (K2b _ _ _ Hs) as (_ & _ & _ & _ & L)];
          destruct (N.eqb_spec a root); congruence.
    - (* the CAS failed (state is not killing) *)
      auto_inv.
  Qed.

  Lemma inv_LResurrect t s s' : Inv s -> step t LResurrect s = Some s' -> Inv s'.
  Proof.
    start H. destruct (t_pc s t) as [|p c|p c|a|a|a] eqn:EPC; try discriminate.
    destruct (has_parent par a) eqn:HP; [|discriminate]. cbn [negb] in H.
    assert (Har : a <> root) by (intros ->; unfold has_parent in HP; rewrite par_root in HP; discriminate).
    destruct (K4 t a (or_intror (or_introl EPC))) as [-> Hpub]. injection H as <-.
    destruct (K5b _ EPC) as [ES EZ].
    auto_inv.
  Qed.

  Lemma inv_LZombie t s s' : Inv s -> step t LZombie s = Some s' -> Inv s'.
  Proof.
    start H. destruct (t_pc s t) as [|p c|p c|a|a|a] eqn:EPC; try discriminate.
    destruct (has_parent par a) eqn:HP; [|discriminate]. cbn [negb] in H.
    assert (Har : a <> root) by (intros ->; unfold has_parent in HP; rewrite par_root in HP; discriminate).
    destruct (K4 t a (or_intror (or_introl EPC))) as [-> Hpub]. injection H as <-.
    destruct (K5b _ EPC) as [ES EZ].
    auto_inv.
  Qed.

  Lemma inv_LZombieRelease t s s' : Inv s -> step t LZombieRelease s = Some s' -> Inv s'.
  Proof.
    start H. destruct t as [n|a]; [discriminate|].
    destruct (is_idle (t_pc s (Own a))) eqn:EI; [|discriminate]. destruct (t_zombie s a) eqn:EZ; [|discriminate].
    cbn [andb] in H. injection H as <-. apply idle_eq in EI. destruct (K6 _ EZ) as (ES & _ & Hpub).
    auto_inv.
  Qed.
End Steps.
