(** Race/LocksetProofs.v — soundness of the lock-set discipline for the access machine of
    Race/Lockset.v: for EVERY table and EVERY population of threads (thread ids, object instances
    and schedules are universally quantified; a thread's program is any sequence of enabled steps). *)
From Coq Require Import List NArith Bool Lia.
From Vivid Require Import Race.Lockset.
Import ListNotations.
Local Open Scope N_scope.

(** ** bookkeeping lemmas *)

Lemma has_lock_In l m a : has_lock l m a = true -> In (l, m) (a_locks a).
Proof.
  unfold has_lock. rewrite existsb_exists. intros [[l' m'] [Hin H]]. cbn in H.
  apply andb_true_iff in H as [H1 H2]. apply N.eqb_eq in H1. subst l'.
  destruct m, m'; cbn in H2; try discriminate; exact Hin.
Qed.

Lemma at_loc_In x T a : In a T -> a_loc a = x -> In a (at_loc x T).
Proof. intros Hin He. unfold at_loc. apply filter_In. split; [exact Hin|]. apply N.eqb_eq. exact He. Qed.

(** ** the invariant *)

Definition inv (T : list access) (s : state) : Prop :=
  (forall t t' l i, st_locks s t l i = Some Excl -> t' <> t -> st_locks s t' l i = None) /\
  (forall t i a, st_flight s t = Some (i, a) -> In a T /\ annotations_hold s t i a).

Lemma inv_init T : inv T init.
Proof. split; cbn; intros; discriminate. Qed.

Ltac eqb_cases :=
  repeat match goal with
         | |- context [N.eqb ?x ?y] => destruct (N.eqb_spec x y); subst; cbn [andb]
         | H : context [N.eqb ?x ?y] |- _ => destruct (N.eqb_spec x y); subst; cbn [andb] in H
         end.

(** a step of thread [t] other than [SEnd]/[SBegin] leaves the annotations of every OTHER thread's
    in-flight access true; the case analysis is per step below *)
Lemma inv_step T s s' t : inv T s -> step T t s s' -> inv T s'.
Proof.
  intros [I1 I2] Hst. destruct Hst as
    [s l i Hfl Hfree | s l i Hfl Hnox | s l i Hfl | s i Hfl Hnone | s i Hfl Hown
     | s e i Hfl Hun | s e i Hfl Hcl | s i a Hin Hfl Hann | s Hfl].
  - (* acquire exclusive *)
    split; cbn [st_locks st_flight st_owner st_event].
    + intros t1 t' l1 i1 H Hne. unfold upd_locks in *.
      destruct (N.eqb t1 t && N.eqb l1 l && N.eqb i1 i) eqn:E1.
      * apply andb_true_iff in E1 as [E1 E3]. apply andb_true_iff in E1 as [E1 E2].
        apply N.eqb_eq in E1, E2, E3. subst.
        destruct (N.eqb t' t && N.eqb l l && N.eqb i i) eqn:E4.
        -- apply andb_true_iff in E4 as [E4 _]. apply andb_true_iff in E4 as [E4 _].
           apply N.eqb_eq in E4. contradiction.
        -- apply Hfree.
      * destruct (N.eqb t' t && N.eqb l1 l && N.eqb i1 i) eqn:E4.
        -- apply andb_true_iff in E4 as [E4 E6]. apply andb_true_iff in E4 as [E4 E5].
           apply N.eqb_eq in E4, E5, E6. subst. rewrite Hfree in H. discriminate.
        -- eapply I1; eassumption.
    + intros t1 i1 a1 H. destruct (I2 _ _ _ H) as [Hin [Hl [Ho Hp]]]. split; [exact Hin|].
      assert (Hne : t1 <> t) by (intros ->; rewrite Hfl in H; discriminate).
      split; [|split; [exact Ho|exact Hp]].
      intros l1 m1 Hinl. specialize (Hl l1 m1 Hinl). unfold holds, upd_locks in *. cbn [st_locks] in *.
      destruct (N.eqb_spec t1 t); [contradiction|]. cbn [andb]. exact Hl.
  - (* acquire shared *)
    split; cbn [st_locks st_flight st_owner st_event].
    + intros t1 t' l1 i1 H Hne. unfold upd_locks in *.
      destruct (N.eqb t1 t && N.eqb l1 l && N.eqb i1 i) eqn:E1; [discriminate|].
      destruct (N.eqb t' t && N.eqb l1 l && N.eqb i1 i) eqn:E4.
      * apply andb_true_iff in E4 as [E4 E6]. apply andb_true_iff in E4 as [E4 E5].
        apply N.eqb_eq in E4, E5, E6. subst. exfalso. exact (Hnox _ H).
      * eapply I1; eassumption.
    + intros t1 i1 a1 H. destruct (I2 _ _ _ H) as [Hin [Hl [Ho Hp]]]. split; [exact Hin|].
      assert (Hne : t1 <> t) by (intros ->; rewrite Hfl in H; discriminate).
      split; [|split; [exact Ho|exact Hp]].
      intros l1 m1 Hinl. specialize (Hl l1 m1 Hinl). unfold holds, upd_locks in *. cbn [st_locks] in *.
      destruct (N.eqb_spec t1 t); [contradiction|]. cbn [andb]. exact Hl.
  - (* release *)
    split; cbn [st_locks st_flight st_owner st_event].
    + intros t1 t' l1 i1 H Hne. unfold upd_locks in *.
      destruct (N.eqb t1 t && N.eqb l1 l && N.eqb i1 i) eqn:E1; [discriminate|].
      destruct (N.eqb t' t && N.eqb l1 l && N.eqb i1 i) eqn:E4; [reflexivity|].
      eapply I1; eassumption.
    + intros t1 i1 a1 H. destruct (I2 _ _ _ H) as [Hin [Hl [Ho Hp]]]. split; [exact Hin|].
      assert (Hne : t1 <> t) by (intros ->; rewrite Hfl in H; discriminate).
      split; [|split; [exact Ho|exact Hp]].
      intros l1 m1 Hinl. specialize (Hl l1 m1 Hinl). unfold holds, upd_locks in *. cbn [st_locks] in *.
      destruct (N.eqb_spec t1 t); [contradiction|]. cbn [andb]. exact Hl.
  - (* become owner *)
    split; cbn [st_locks st_flight st_owner st_event]; [exact I1|].
    intros t1 i1 a1 H. destruct (I2 _ _ _ H) as [Hin [Hl [Ho Hp]]]. split; [exact Hin|].
    split; [exact Hl|split; [|exact Hp]]. cbn [st_owner]. intros Hr. specialize (Ho Hr).
    unfold upd_owner. destruct (N.eqb_spec i1 i); [subst; rewrite Hnone in Ho; discriminate|exact Ho].
  - (* resign owner *)
    split; cbn [st_locks st_flight st_owner st_event]; [exact I1|].
    intros t1 i1 a1 H. destruct (I2 _ _ _ H) as [Hin [Hl [Ho Hp]]]. split; [exact Hin|].
    assert (Hne : t1 <> t) by (intros ->; rewrite Hfl in H; discriminate).
    split; [exact Hl|split; [|exact Hp]]. cbn [st_owner]. intros Hr. specialize (Ho Hr).
    unfold upd_owner. destruct (N.eqb_spec i1 i); [|exact Ho].
    subst. rewrite Hown in Ho. injection Ho as ->. contradiction.
  - (* claim *)
    split; cbn [st_locks st_flight st_owner st_event]; [exact I1|].
    intros t1 i1 a1 H. destruct (I2 _ _ _ H) as [Hin [Hl [Ho Hp]]]. split; [exact Hin|].
    split; [exact Hl|split; [exact Ho|]]. cbn [st_event]. unfold upd_event.
    destruct (a_phase a1) as [|e1|e1]; [exact I|..].
    + destruct (N.eqb e1 e && N.eqb i1 i) eqn:E; [|exact Hp].
      apply andb_true_iff in E as [E1 E2]. apply N.eqb_eq in E1, E2. subst. rewrite Hun in Hp. discriminate.
    + destruct (N.eqb e1 e && N.eqb i1 i) eqn:E; [|exact Hp].
      apply andb_true_iff in E as [E1 E2]. apply N.eqb_eq in E1, E2. subst. rewrite Hun in Hp. discriminate.
  - (* fire *)
    split; cbn [st_locks st_flight st_owner st_event]; [exact I1|].
    intros t1 i1 a1 H. destruct (I2 _ _ _ H) as [Hin [Hl [Ho Hp]]]. split; [exact Hin|].
    assert (Hne : t1 <> t) by (intros ->; rewrite Hfl in H; discriminate).
    split; [exact Hl|split; [exact Ho|]]. cbn [st_event]. unfold upd_event.
    destruct (a_phase a1) as [|e1|e1]; [exact I|..].
    + destruct (N.eqb e1 e && N.eqb i1 i) eqn:E; [|exact Hp].
      apply andb_true_iff in E as [E1 E2]. apply N.eqb_eq in E1, E2. subst.
      rewrite Hcl in Hp. injection Hp as ->. contradiction.
    + destruct (N.eqb e1 e && N.eqb i1 i) eqn:E; [reflexivity|exact Hp].
  - (* begin *)
    split; cbn [st_locks st_flight st_owner st_event]; [exact I1|].
    intros t1 i1 a1 H. unfold upd_flight in H. destruct (N.eqb_spec t1 t).
    + subst. injection H as -> ->. split; [exact Hin|].
      destruct Hann as [Hl [Ho Hp]]. split; [exact Hl|split; [exact Ho|exact Hp]].
    + destruct (I2 _ _ _ H) as [Hin1 [Hl [Ho Hp]]]. split; [exact Hin1|].
      split; [exact Hl|split; [exact Ho|exact Hp]].
  - (* end *)
    split; cbn [st_locks st_flight st_owner st_event]; [exact I1|].
    intros t1 i1 a1 H. unfold upd_flight in H. destruct (N.eqb_spec t1 t); [discriminate|].
    destruct (I2 _ _ _ H) as [Hin1 [Hl [Ho Hp]]]. split; [exact Hin1|].
    split; [exact Hl|split; [exact Ho|exact Hp]].
Qed.

Lemma inv_reachable T s : reachable T s -> inv T s.
Proof. induction 1; [apply inv_init|eapply inv_step; eassumption]. Qed.

(** ** soundness *)

Lemma holds_enough_locked s t l i a :
  (forall l' m, In (l', m) (a_locks a) -> holds s t l' i m) ->
  holds_enough l a = true -> st_locks s t l i <> None.
Proof.
  intros Hl H. unfold holds_enough in H.
  assert (has_lock l Excl a = true \/ has_lock l Shared a = true) as [H1|H1].
  { destruct (is_wr a); [left; exact H|apply orb_true_iff in H; exact H]. }
  - apply has_lock_In in H1. specialize (Hl _ _ H1). cbn in Hl. rewrite Hl. discriminate.
  - apply has_lock_In in H1. exact (Hl _ _ H1).
Qed.

Lemma holds_enough_wr_excl s t l i a :
  (forall l' m, In (l', m) (a_locks a) -> holds s t l' i m) ->
  is_wr a = true -> holds_enough l a = true -> st_locks s t l i = Some Excl.
Proof.
  intros Hl Hw H. unfold holds_enough in H. rewrite Hw in H.
  apply has_lock_In in H. exact (Hl _ _ H).
Qed.

Theorem lockset_sound_inv T s :
  discipline_ok T = true -> inv T s -> ~ race s.
Proof.
  intros Hd [I1 I2] (t1 & t2 & i & a1 & a2 & Hne & F1 & F2 & Hc).
  destruct (I2 _ _ _ F1) as [In1 [L1 [O1 P1]]]. destruct (I2 _ _ _ F2) as [In2 [L2 [O2 P2]]].
  unfold conflicting in Hc. apply andb_true_iff in Hc as [Hc Hna]. apply andb_true_iff in Hc as [Hloc Hw].
  apply N.eqb_eq in Hloc.
  unfold discipline_ok in Hd. rewrite forallb_forall in Hd. specialize (Hd _ In1).
  set (A := at_loc (a_loc a1) T) in *.
  assert (A1 : In a1 A) by (apply at_loc_In; [exact In1|reflexivity]).
  assert (A2 : In a2 A) by (apply at_loc_In; [exact In2|symmetry; exact Hloc]).
  unfold loc_ok in Hd. fold A in Hd.
  repeat (apply orb_true_iff in Hd as [Hd|Hd]).
  - (* atomic only *)
    unfold all_atomic in Hd. rewrite forallb_forall in Hd.
    rewrite (Hd _ A1), (Hd _ A2) in Hna. discriminate.
  - (* one common lock *)
    unfold common_lock in Hd. apply existsb_exists in Hd as [l [_ Hd]]. rewrite forallb_forall in Hd.
    pose proof (Hd _ A1) as H1. pose proof (Hd _ A2) as H2.
    apply orb_true_iff in Hw as [Hw|Hw].
    + pose proof (holds_enough_wr_excl s t1 l i a1 L1 Hw H1) as E.
      pose proof (holds_enough_locked s t2 l i a2 L2 H2) as N2.
      apply N2. eapply I1; [exact E|]. intros ->. apply Hne. reflexivity.
    + pose proof (holds_enough_wr_excl s t2 l i a2 L2 Hw H2) as E.
      pose proof (holds_enough_locked s t1 l i a1 L1 H1) as N1.
      apply N1. eapply I1; [exact E|]. exact Hne.
  - (* owner only *)
    unfold owner_only in Hd. rewrite forallb_forall in Hd.
    pose proof (Hd _ A1) as H1. pose proof (Hd _ A2) as H2. unfold is_owner in H1, H2.
    destruct (a_role a1) eqn:R1; [discriminate|]. destruct (a_role a2) eqn:R2; [discriminate|].
    specialize (O1 eq_refl). specialize (O2 eq_refl). rewrite O1 in O2. injection O2 as ->. apply Hne. reflexivity.
  - (* once-published *)
    unfold once_published in Hd. apply existsb_exists in Hd as [e [_ Hd]]. rewrite forallb_forall in Hd.
    pose proof (Hd _ A1) as H1. pose proof (Hd _ A2) as H2. unfold phase_ok in H1, H2.
    destruct (a_phase a1) as [|e1|e1]; [discriminate|..]; destruct (a_phase a2) as [|e2|e2]; try discriminate.
    + apply N.eqb_eq in H1, H2. subst. rewrite P1 in P2. injection P2 as ->. apply Hne. reflexivity.
    + apply N.eqb_eq in H1. apply andb_true_iff in H2 as [H2 _]. apply N.eqb_eq in H2. subst.
      rewrite P1 in P2. discriminate.
    + apply N.eqb_eq in H2. apply andb_true_iff in H1 as [H1 _]. apply N.eqb_eq in H1. subst.
      rewrite P1 in P2. discriminate.
    + apply andb_true_iff in H1 as [_ H1]. apply andb_true_iff in H2 as [_ H2].
      apply negb_true_iff in H1, H2. rewrite H1, H2 in Hw. discriminate.
  - (* never written *)
    unfold read_only in Hd. rewrite forallb_forall in Hd.
    pose proof (Hd _ A1) as H1. pose proof (Hd _ A2) as H2.
    apply negb_true_iff in H1, H2. rewrite H1, H2 in Hw. discriminate.
Qed.

(** THE soundness theorem: a disciplined table has no reachable data race — for every table,
    every number of threads, every choice of object instances and every schedule. *)
Theorem lockset_sound T : discipline_ok T = true -> forall s, reachable T s -> ~ race s.
Proof. intros Hd s Hr. apply (lockset_sound_inv T s Hd). apply inv_reachable. exact Hr. Qed.

(** the annotations of every in-flight access stay true until it ends (what makes the table's
    lexical claims meaningful: nobody can take the lock / ownership away in the middle of an access) *)
Theorem inflight_annotations T s t i a :
  reachable T s -> st_flight s t = Some (i, a) -> In a T /\ annotations_hold s t i a.
Proof. intros Hr H. exact (proj2 (inv_reachable T s Hr) t i a H). Qed.

(** mutual exclusion of the lock model (RWMutex): an exclusive holder excludes every other holder *)
Theorem lock_exclusion T s t t' l i :
  reachable T s -> st_locks s t l i = Some Excl -> t' <> t -> st_locks s t' l i = None.
Proof. intros Hr. exact (proj1 (inv_reachable T s Hr) t t' l i). Qed.

(** ** non-vacuity and sharpness on small fixed tables *)

(** a disciplined table (the shape of vivid's protections): location 1 under lock 1 (a writer with
    Lock, a reader with RLock), location 2 owner-only, location 3 atomic, location 4 once-published *)
Definition ex_table : list access :=
  [ mkAccess 0 1 Wr false [(1, Excl)] RAny PNone;
    mkAccess 1 1 Rd false [(1, Shared)] ROwner PNone;
    mkAccess 2 2 Wr false [] ROwner PNone;
    mkAccess 3 2 Rd false [] ROwner PNone;
    mkAccess 4 3 Wr true [] RAny PNone;
    mkAccess 5 4 Wr false [] RAny (PClaimed 1);
    mkAccess 6 4 Rd false [] RAny (PFired 1) ].

Example ex_table_ok : discipline_ok ex_table = true.
Proof. vm_compute. reflexivity. Qed.

(** ... in which two threads really are in flight on the same location at the same time (two
    readers under RLock): the hypotheses of [lockset_sound] are met by a non-trivial reachable state *)
Example ex_two_readers :
  exists s, reachable ex_table s /\
            st_flight s 1 = Some (7, mkAccess 1 1 Rd false [(1, Shared)] ROwner PNone) /\
            st_flight s 2 <> None /\ ~ race s.
Proof.
  set (r := mkAccess 1 1 Rd false [(1, Shared)] ROwner PNone).
  set (r2 := mkAccess 6 4 Rd false [] RAny (PFired 1)).
  (* t1: RLock, become owner, begin r;  t3: claim + fire event 1;  t2: begin the post-fire read *)
  eexists. split; [|split; [|split]].
  - eapply reach_step with (t := 2); [|apply SBegin with (i := 7) (a := r2)].
    + eapply reach_step with (t := 3); [|apply SFire with (e := 1) (i := 7)].
      * eapply reach_step with (t := 3); [|apply SClaim with (e := 1) (i := 7)].
        -- eapply reach_step with (t := 1); [|apply SBegin with (i := 7) (a := r)].
           ++ eapply reach_step with (t := 1); [|apply SBecome with (i := 7)].
              ** eapply reach_step with (t := 1); [apply reach_init|apply SAcquireShared with (l := 1) (i := 7)].
                 --- reflexivity.
                 --- intros t'. cbn. discriminate.
              ** reflexivity.
              ** reflexivity.
           ++ cbn. right. left. reflexivity.
           ++ reflexivity.
           ++ split; [|split].
              ** intros l m [H|[]]. injection H as <- <-. cbn. discriminate.
              ** intros _. reflexivity.
              ** exact I.
        -- reflexivity.
        -- reflexivity.
      * reflexivity.
      * reflexivity.
    + cbn. repeat (try (left; reflexivity); right).
    + reflexivity.
    + split; [|split].
      * intros l m [].
      * cbn. discriminate.
      * reflexivity.
  - reflexivity.
  - cbn. discriminate.
  - apply lockset_sound_inv with (T := ex_table); [exact ex_table_ok|].
    apply inv_reachable.
    eapply reach_step with (t := 2); [|apply SBegin with (i := 7) (a := r2)].
    + eapply reach_step with (t := 3); [|apply SFire with (e := 1) (i := 7)].
      * eapply reach_step with (t := 3); [|apply SClaim with (e := 1) (i := 7)].
        -- eapply reach_step with (t := 1); [|apply SBegin with (i := 7) (a := r)].
           ++ eapply reach_step with (t := 1); [|apply SBecome with (i := 7)].
              ** eapply reach_step with (t := 1); [apply reach_init|apply SAcquireShared with (l := 1) (i := 7)].
                 --- reflexivity.
                 --- intros t'. cbn. discriminate.
              ** reflexivity.
              ** reflexivity.
           ++ cbn. right. left. reflexivity.
           ++ reflexivity.
           ++ split; [|split].
              ** intros l m [H|[]]. injection H as <- <-. cbn. discriminate.
              ** intros _. reflexivity.
              ** exact I.
        -- reflexivity.
        -- reflexivity.
      * reflexivity.
      * reflexivity.
    + cbn. repeat (try (left; reflexivity); right).
    + reflexivity.
    + split; [|split].
      * intros l m [].
      * cbn. discriminate.
      * reflexivity.
Qed.

(** sharpness: the machine is not trivially race-free. A table that breaks the discipline (the shape
    of the historical defect: the root's children map written under [actorOfLock] by API callers and
    with no lock by the root's own goroutine) has a reachable race, and [discipline_ok] rejects it. *)
Definition bad_table : list access :=
  [ mkAccess 0 1 Wr false [(3, Excl)] RAny PNone;
    mkAccess 1 1 Wr false [] ROwner PNone ].

Example bad_table_rejected : discipline_ok bad_table = false /\ bad_locs bad_table = [1].
Proof. vm_compute. split; reflexivity. Qed.

Example bad_table_races : exists s, reachable bad_table s /\ race s.
Proof.
  set (w1 := mkAccess 0 1 Wr false [(3, Excl)] RAny PNone).
  set (w2 := mkAccess 1 1 Wr false [] ROwner PNone).
  eexists. split.
  - eapply reach_step with (t := 2); [|apply SBegin with (i := 0) (a := w2)].
    + eapply reach_step with (t := 2); [|apply SBecome with (i := 0)].
      * eapply reach_step with (t := 1); [|apply SBegin with (i := 0) (a := w1)].
        -- eapply reach_step with (t := 1); [apply reach_init|apply SAcquireExcl with (l := 3) (i := 0)].
           ++ reflexivity.
           ++ intros t'. reflexivity.
        -- cbn. left. reflexivity.
        -- reflexivity.
        -- split; [|split].
           ++ intros l m [H|[]]. injection H as <- <-. reflexivity.
           ++ cbn. discriminate.
           ++ exact I.
      * reflexivity.
      * reflexivity.
    + cbn. right. left. reflexivity.
    + reflexivity.
    + split; [|split].
      * intros l m [].
      * intros _. reflexivity.
      * exact I.
  - exists 1, 2, 0, w1, w2. split; [discriminate|]. split; [reflexivity|]. split; reflexivity.
Qed.

(** ** non-vacuity for arbitrary tables: any two un-annotated sites of a table can be in flight at once *)
From Vivid Require Import Race.Report.

Lemma plain_annotations s t i a : plain a = true -> annotations_hold s t i a.
Proof.
  unfold plain. destruct (a_locks a) eqn:L; [|discriminate]. destruct (a_role a) eqn:R; [|discriminate].
  destruct (a_phase a) eqn:P; try discriminate. intros _. split; [|split].
  - rewrite L. intros l m [].
  - rewrite R. discriminate.
  - rewrite P. exact I.
Qed.

Lemma plain_pair_inflight T a b :
  In a T -> In b T -> plain a = true -> plain b = true ->
  exists s, reachable T s /\ st_flight s 1 = Some (0, a) /\ st_flight s 2 = Some (0, b).
Proof.
  intros Ha Hb Pa Pb. eexists. split; [|split].
  - eapply reach_step with (t := 2); [|apply SBegin with (i := 0) (a := b)].
    + eapply reach_step with (t := 1); [apply reach_init|apply SBegin with (i := 0) (a := a)].
      * exact Ha.
      * reflexivity.
      * apply plain_annotations. exact Pa.
    + exact Hb.
    + reflexivity.
    + apply plain_annotations. exact Pb.
  - reflexivity.
  - reflexivity.
Qed.

Lemma find_plain_In T a : find plain T = Some a -> In a T /\ plain a = true.
Proof. intros H. apply find_some in H. exact H. Qed.

(** filtering a location class out of a table keeps the discipline of the others *)
Lemma without_loc_In x T a : In a (without_loc x T) -> In a T /\ a_loc a <> x.
Proof.
  unfold without_loc. rewrite filter_In. intros [H1 H2]. split; [exact H1|].
  apply negb_true_iff in H2. apply N.eqb_neq in H2. exact H2.
Qed.
