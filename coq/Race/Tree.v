(** Race/Tree.v — the actor-tree machine (model part of C10, clause "without corrupting the actor tree").

    What is modelled: the three tables that together ARE the actor tree of a vivid system and every
    code path that writes them, at the granularity of the synchronisation the access inventory
    (Generated/AccessTable.v) reports for them:

      System.actorContexts   sync.Map         -> every operation is one atomic step  (t_reg)
      Context.children       childrenLock     -> every critical section is one atomic step (t_children)
      Context.state          sync/atomic      -> every Load / CAS / Store is one atomic step (t_st)
      Context.zombie         owner goroutine  (t_zombie)

    and the code that runs between those steps is NOT atomic: other threads interleave freely.

      Context.ActorOf  (context.go)      LSpCheck     state := atomic.Load(&c.state); killed -> error; NewContext (runs user
                                                      code: OnPrelaunch)
                                         LSpRegister  system.appendActorContext: actorContexts.LoadOrStore(path, child)
                                                      (loaded -> ErrorActorAlreadyExists, nothing else happens)
                                         LSpInsert    childrenLock.Lock; children[path] = child.ref;
                                                      if actorContexts.Load(path) is no longer this child { delete(children, path) };
                                                      Unlock   (ONE critical section: the child is findable, hence killable, from
                                                      its registration on; a child that has already released its path has sent -
                                                      or is about to send - its only notice, which must not find the entry missing
                                                      and leave it behind. Registration, not the state word, is tested: a restart
                                                      passes through state killed without releasing anything.)
                                                      (then OnLaunch is enqueued and the parent's state is re-read: if it is
                                                      no longer running the new actor is sent OnKill - no table is written
                                                      any more, and "may be killed at any time" below covers the OnKill)
      System.ActorOf   (system.go)       LAcq / LRel  actorOfLock around Context.ActorOf of the ROOT, on the CALLER's goroutine
      Context.onKill / onRestart         LKill        atomic.CompareAndSwap(&c.state, running, killing)
      killedHandler.checkAndMarkKilled   LCount       childCount() == 0           (RLock critical section)
                                         LMark        atomic.CompareAndSwap(&c.state, killing, killed)
      killedHandler.handleRestart        LResurrect   restart succeeded: atomic.Store(&c.state, running)   (stays registered)
                                         LZombie      restart hook failed: zombie = true                   (stays registered)
                                                      (both only for a context that HAS a parent: a RestartMessage is sent by the
                                                      supervising parent; the root - the guard actor - is never restarted)
      Context.onKilled (zombie branch)   LZombieRelease  zombie = false, then the release below
      killedHandler.cleanupIfNotRestarting
                                         LDereg       system.removeActorContext: actorContexts.Delete(path)   (by PATH, unconditional)
                                         LNotify      tell(parent, OnKilled{self})
      killedHandler.handleChildDeath     LHandle c    the parent takes OnKilled{c} out of its mailbox (HandleEnvelop lets system
                                                      messages through unless state == killed) and runs removeChild(c):
                                                      Lock; if children[path c] == c { delete }; Unlock
      Context.HandleEnvelop              LDrop c      state == killed: the notice is consumed without removeChild (dead letter /
                                                      dropped by the stopped root / zombie branch of onKilled)

    Threads. [Own a] is "the goroutine currently processing actor a's mailbox" - at most one per actor at a time is
    property C01 (assumed, exactly as in Race/Lockset.v). [Ext n] is any other goroutine. Context.ActorOf of a parent
    other than the root runs on [Own p] (owner-only by the contract of vivid.ActorContext; the access inventory lists
    it that way). The root's Context.ActorOf is reached only through System.ActorOf, i.e. by an external thread that
    holds actorOfLock (a handler that calls System.ActorOf is modelled as an external thread: it touches none of its
    own actor's owner data while it is inside the call).

    Nondeterminism. User code, supervision decisions and the contents of mailboxes are abstracted to "may happen at
    any time": any published actor may be killed at any time (Kill is a documented any-goroutine API), may find its
    child table empty, may restart / fail to restart; notices are taken in any order. Every guard below is a guard the
    CODE evaluates (a state load, a CAS, a LoadOrStore result, len(children) == 0, membership of the notice in the
    mailbox). The machine therefore has every behaviour of the code (and more); an invariant of the machine is an
    invariant of the code's tables, for every number of actors, threads and every interleaving.

    [t_pub] is a history variable: "the context has been stored in the registry at some time". It guards the steps
    of [Own a] - a context's mailbox receives its first message only after appendActorContext, because nobody else
    holds a reference to it before.

    Parameters of the machine (Section variables, universally quantified in every theorem): the root context, and
    for every context identity its parent and its path, fixed in advance (what NewContext will assign when - if ever -
    that identity is created). Different identities may have the same path (a name re-used after its owner died). *)
From Coq Require Import List NArith Bool.
Import ListNotations.
Local Open Scope N_scope.

Definition aid := N.
Definition apath := N.

Inductive thr := Ext (n : N) | Own (a : aid).
Definition thr_eqb (x y : thr) : bool :=
  match x, y with
  | Ext n, Ext m => N.eqb n m
  | Own a, Own b => N.eqb a b
  | _, _ => false
  end.

Inductive ast := Running | Killing | Killed.
Definition is_killed (x : ast) : bool := match x with Killed => true | _ => false end.
Definition is_running (x : ast) : bool := match x with Running => true | _ => false end.
Definition is_killing (x : ast) : bool := match x with Killing => true | _ => false end.

Inductive tpc :=
| Idle
| SpChecked (p c : aid)       (* Context.ActorOf of parent p: state loaded (not killed), NewContext built child c *)
| SpRegistered (p c : aid)    (* ... actorContexts.LoadOrStore stored c; children[path c] = c not yet executed *)
| Counted (a : aid)           (* checkAndMarkKilled of a: childCount() == 0 observed, the CAS not yet executed *)
| Releasing (a : aid)         (* CAS killing -> killed succeeded *)
| Released (a : aid).         (* actorContexts.Delete(path a) executed, parent not yet told *)

Definition is_idle (p : tpc) : bool := match p with Idle => true | _ => false end.

(** children table of one context: association list, at most one entry per path *)
Definition ctab := list (apath * aid).
Definition ch_get (q : apath) (l : ctab) : option aid :=
  match find (fun e => N.eqb (fst e) q) l with Some e => Some (snd e) | None => None end.
Definition ch_del (q : apath) (l : ctab) : ctab := filter (fun e => negb (N.eqb (fst e) q)) l.
Definition ch_set (q : apath) (c : aid) (l : ctab) : ctab := (q, c) :: ch_del q l.
Definition ch_empty (l : ctab) : bool := match l with [] => true | _ => false end.

Fixpoint remove1 (c : aid) (l : list aid) : list aid :=
  match l with
  | [] => []
  | x :: r => if N.eqb x c then r else x :: remove1 c r
  end.
Definition mem (c : aid) (l : list aid) : bool := existsb (N.eqb c) l.

Definition opt_aid_eqb (o : option aid) (a : aid) : bool :=
  match o with Some x => N.eqb x a | None => false end.

Record tstate := mkT {
  t_created : aid -> bool;
  t_pub : aid -> bool;
  t_st : aid -> ast;
  t_zombie : aid -> bool;
  t_reg : apath -> option aid;
  t_children : aid -> ctab;
  t_notices : aid -> list aid;
  t_pc : thr -> tpc;
  t_lock : option thr }.

Definition upd {A} (f : N -> A) (k : N) (v : A) : N -> A := fun x => if N.eqb x k then v else f x.
Definition updt (f : thr -> tpc) (t : thr) (v : tpc) : thr -> tpc := fun x => if thr_eqb x t then v else f x.

Definition holds_lock (s : tstate) (t : thr) : bool :=
  match t_lock s with Some x => thr_eqb x t | None => false end.

Inductive lbl :=
| LAcq | LRel
| LSpCheck (p c : aid) | LSpRegister | LSpInsert
| LKill | LCount | LMark | LResurrect | LZombie | LZombieRelease | LDereg | LNotify
| LHandle (c : aid) | LDrop (c : aid).

Section Machine.
  Variable root : aid.
  Variable par : aid -> option aid.
  Variable path_of : aid -> apath.

  Definition tinit : tstate :=
    mkT (fun a => N.eqb a root) (fun a => N.eqb a root) (fun _ => Running) (fun _ => false)
        (fun _ => None) (fun _ => []) (fun _ => []) (fun _ => Idle) None.

  Definition set_pc (s : tstate) (t : thr) (v : tpc) : tstate :=
    mkT (t_created s) (t_pub s) (t_st s) (t_zombie s) (t_reg s) (t_children s) (t_notices s) (updt (t_pc s) t v) (t_lock s).

  (** removeChild(ref): delete the entry only if it is this very reference *)
  Definition remove_child (c : aid) (l : ctab) : ctab :=
    if opt_aid_eqb (ch_get (path_of c) l) c then ch_del (path_of c) l else l.

  (** children[path c] = c; if the registry no longer holds c under that path, delete(children, path c) - one critical section *)
  Definition insert_child (c : aid) (registered_now : option aid) (l : ctab) : ctab :=
    if opt_aid_eqb registered_now c then ch_set (path_of c) c l else ch_del (path_of c) l.

  Definition has_parent (a : aid) : bool := match par a with Some _ => true | None => false end.

  Definition step_fn (t : thr) (l : lbl) (s : tstate) : option tstate :=
    match l with
    | LAcq =>
        match t, t_lock s with
        | Ext _, None =>
            if is_idle (t_pc s t)
            then Some (mkT (t_created s) (t_pub s) (t_st s) (t_zombie s) (t_reg s) (t_children s) (t_notices s) (t_pc s) (Some t))
            else None
        | _, _ => None
        end
    | LRel =>
        if holds_lock s t && is_idle (t_pc s t)
        then Some (mkT (t_created s) (t_pub s) (t_st s) (t_zombie s) (t_reg s) (t_children s) (t_notices s) (t_pc s) None)
        else None
    | LSpCheck p c =>
        if is_idle (t_pc s t) && t_created s p && negb (t_created s c) && opt_aid_eqb (par c) p
           && negb (is_killed (t_st s p))
           && (if N.eqb p root then holds_lock s t else thr_eqb t (Own p) && t_pub s p)
        then Some (mkT (upd (t_created s) c true) (t_pub s) (t_st s) (t_zombie s) (t_reg s) (t_children s) (t_notices s)
                       (updt (t_pc s) t (SpChecked p c)) (t_lock s))
        else None
    | LSpRegister =>
        match t_pc s t with
        | SpChecked p c =>
            match t_reg s (path_of c) with
            | None => Some (mkT (t_created s) (upd (t_pub s) c true) (t_st s) (t_zombie s) (upd (t_reg s) (path_of c) (Some c))
                                (t_children s) (t_notices s) (updt (t_pc s) t (SpRegistered p c)) (t_lock s))
            | Some _ => Some (set_pc s t Idle)          (* ErrorActorAlreadyExists *)
            end
        | _ => None
        end
    | LSpInsert =>
        match t_pc s t with
        | SpRegistered p c =>
            Some (mkT (t_created s) (t_pub s) (t_st s) (t_zombie s) (t_reg s)
                      (upd (t_children s) p (insert_child c (t_reg s (path_of c)) (t_children s p))) (t_notices s)
                      (updt (t_pc s) t Idle) (t_lock s))
        | _ => None
        end
    | LKill =>
        match t with
        | Own a =>
            if is_idle (t_pc s t) && t_pub s a && is_running (t_st s a)
            then Some (mkT (t_created s) (t_pub s) (upd (t_st s) a Killing) (t_zombie s) (t_reg s) (t_children s) (t_notices s) (t_pc s) (t_lock s))
            else None
        | _ => None
        end
    | LCount =>
        match t with
        | Own a =>
            if is_idle (t_pc s t) && t_pub s a && negb (is_killed (t_st s a)) && ch_empty (t_children s a)
            then Some (set_pc s t (Counted a))
            else None
        | _ => None
        end
    | LMark =>
        match t_pc s t with
        | Counted a =>
            if is_killing (t_st s a)
            then Some (mkT (t_created s) (t_pub s) (upd (t_st s) a Killed) (t_zombie s) (t_reg s) (t_children s) (t_notices s)
                           (updt (t_pc s) t (Releasing a)) (t_lock s))
            else Some (set_pc s t Idle)
        | _ => None
        end
    | LResurrect =>
        match t_pc s t with
        | Releasing a =>
            if negb (has_parent a) then None else
            Some (mkT (t_created s) (t_pub s) (upd (t_st s) a Running) (t_zombie s) (t_reg s) (t_children s) (t_notices s)
                      (updt (t_pc s) t Idle) (t_lock s))
        | _ => None
        end
    | LZombie =>
        match t_pc s t with
        | Releasing a =>
            if negb (has_parent a) then None else
            Some (mkT (t_created s) (t_pub s) (t_st s) (upd (t_zombie s) a true) (t_reg s) (t_children s) (t_notices s)
                      (updt (t_pc s) t Idle) (t_lock s))
        | _ => None
        end
    | LZombieRelease =>
        match t with
        | Own a =>
            if is_idle (t_pc s t) && t_zombie s a
            then Some (mkT (t_created s) (t_pub s) (t_st s) (upd (t_zombie s) a false) (t_reg s) (t_children s) (t_notices s)
                           (updt (t_pc s) t (Releasing a)) (t_lock s))
            else None
        | _ => None
        end
    | LDereg =>
        match t_pc s t with
        | Releasing a =>
            Some (mkT (t_created s) (t_pub s) (t_st s) (t_zombie s) (upd (t_reg s) (path_of a) None) (t_children s) (t_notices s)
                      (updt (t_pc s) t (Released a)) (t_lock s))
        | _ => None
        end
    | LNotify =>
        match t_pc s t with
        | Released a =>
            Some (mkT (t_created s) (t_pub s) (t_st s) (t_zombie s) (t_reg s) (t_children s)
                      (match par a with Some p => upd (t_notices s) p (t_notices s p ++ [a]) | None => t_notices s end)
                      (updt (t_pc s) t Idle) (t_lock s))
        | _ => None
        end
    | LHandle c =>
        match t with
        | Own p =>
            if is_idle (t_pc s t) && t_pub s p && negb (is_killed (t_st s p)) && mem c (t_notices s p)
            then Some (mkT (t_created s) (t_pub s) (t_st s) (t_zombie s) (t_reg s)
                           (upd (t_children s) p (remove_child c (t_children s p)))
                           (upd (t_notices s) p (remove1 c (t_notices s p))) (t_pc s) (t_lock s))
            else None
        | _ => None
        end
    | LDrop c =>
        match t with
        | Own p =>
            if is_idle (t_pc s t) && t_pub s p && is_killed (t_st s p) && mem c (t_notices s p)
            then Some (mkT (t_created s) (t_pub s) (t_st s) (t_zombie s) (t_reg s) (t_children s)
                           (upd (t_notices s) p (remove1 c (t_notices s p))) (t_pc s) (t_lock s))
            else None
        | _ => None
        end
    end.

  (** a schedule is any list of (thread, label) pairs; a disabled step makes the run undefined *)
  Fixpoint trun (sched : list (thr * lbl)) (s : tstate) : option tstate :=
    match sched with
    | [] => Some s
    | (t, l) :: r => match step_fn t l s with Some s' => trun r s' | None => None end
    end.

  Definition treachable (s : tstate) : Prop := exists sched, trun sched tinit = Some s.

  (** ** what the property talks about *)

  Definition registered (s : tstate) (a : aid) : Prop := t_reg s (path_of a) = Some a.
  Definition child_of (s : tstate) (p : aid) (q : apath) (c : aid) : Prop := ch_get q (t_children s p) = Some c.

  (** nothing is in progress: every thread is between operations and every termination notice has been handled *)
  Definition quiescent (s : tstate) : Prop := (forall t, t_pc s t = Idle) /\ (forall p, t_notices s p = []).

  (** the tree is consistent below parent [p]: its child table is exactly the set of registered contexts whose
      parent it is (registry <-> children <-> parent, both ways), and it is not dead while it has children *)
  Definition tree_consistent_at (s : tstate) (p : aid) : Prop :=
    (forall q c, child_of s p q c -> path_of c = q /\ par c = Some p /\ registered s c) /\
    (forall c, registered s c -> par c = Some p -> child_of s p (path_of c) c) /\
    (t_st s p = Killed -> forall c, registered s c -> par c <> Some p).

  (** the first two clauses (registry <-> children <-> parent, both ways) *)
  Definition tables_agree_at (s : tstate) (p : aid) : Prop :=
    (forall q c, child_of s p q c -> path_of c = q /\ par c = Some p /\ registered s c) /\
    (forall c, registered s c -> par c = Some p -> child_of s p (path_of c) c).
End Machine.

(** ** a concrete instance (used by the refutation witnesses and by the executable entry point Race/TreeRun.v) *)

(** the instance: context 0 is the root (path 0); every other context identity a has path 1 + (a-1) mod 4095 (identities
    that differ by a multiple of 4095 are re-incarnations under the same name) and its parent is the first context of
    path (its path / 16): paths 1..15 are top-level, 16..31 are the children of 1, ... *)
Definition x_root : aid := 0.
Definition x_path (a : aid) : apath := if N.eqb a 0 then 0 else 1 + N.modulo (a - 1) 4095.
Definition x_par (a : aid) : option aid := if N.eqb a 0 then None else Some (N.div (x_path a) 16).

(** ** executable observation of a state (for the correspondence check of the refutation witnesses) *)

Definition ast_code (x : ast) : N := match x with Running => 0 | Killing => 1 | Killed => 2 end.

(** ** executable consistency check of a SNAPSHOT of a real system (quiescent): every node is
    (path, parent path, state, children = list of (key, path of the ref stored under the key));
    the root comes first and is not registered. Same three clauses as [tree_consistent_at], over paths. *)
Record snode := mkSnode { sn_path : N; sn_parent : N; sn_state : N; sn_children : list (N * N) }.

Definition snap_find (q : N) (l : list snode) : option snode := find (fun n => N.eqb (sn_path n) q) l.

(** clause codes: 1 child entry whose ref has another path than its key; 2 child entry not registered;
    3 child entry whose registered context has another parent; 4 registered context whose parent is unknown;
    5 registered context missing from its parent's children; 6 registered context whose parent is dead (state 2);
    7 path registered twice / root registered *)
Definition snap_violations (root : snode) (nodes : list snode) : list (N * N) :=
  let all := root :: nodes in
  flat_map (fun n =>
    flat_map (fun e =>
      (if N.eqb (fst e) (snd e) then [] else [(1, fst e)]) ++
      match snap_find (fst e) nodes with
      | None => [(2, fst e)]
      | Some ch => if N.eqb (sn_parent ch) (sn_path n) then [] else [(3, fst e)]
      end) (sn_children n)) all ++
  flat_map (fun n =>
    match snap_find (sn_parent n) all with
    | None => [(4, sn_path n)]
    | Some p =>
        (if existsb (fun e => N.eqb (fst e) (sn_path n)) (sn_children p) then [] else [(5, sn_path n)]) ++
        (if N.eqb (sn_state p) 2 then [(6, sn_path n)] else [])
    end) nodes ++
  flat_map (fun n =>
    if N.eqb (sn_path n) (sn_path root) || (1 <? N.of_nat (length (filter (fun m => N.eqb (sn_path m) (sn_path n)) nodes)))
    then [(7, sn_path n)] else []) nodes.
