(** Race/Crash.v — the panic-site discipline ("no crash" clause of C10) and the one part of it that needs an argument:
    a channel closed only by the claimant of a once-event, as the fire of that event, is closed at most once, and nothing
    is sent on it after the close.

    The translator (harness/cmd/accessgen/gen/panics.go) inventories every site at which the Go runtime panics or dies
    when a precondition fails - unlock of an unlocked mutex, close of a closed channel, send on a closed channel, assignment
    to an entry of a nil map - together with the guard it finds for it:
      unlock / map-write / map-assign / map-store : [ps_guarded] = the precondition is in the translator's must-hold facts at the
                    site (lock held in the matching mode; the map established non-nil on every path). Nothing is left to prove.
      close / send : [ps_phase] = the site lies in the claimed phase of once-event e of the same object. That this excludes
                    the panic is the theorem [close_discipline_sound] below. *)
From Coq Require Import List NArith Bool.
From Vivid Require Import Race.Lockset.
Import ListNotations.
Local Open Scope N_scope.

Inductive pkind := KUnlock | KClose | KSend | KMapWrite | KMapAssign | KMapStore.

Record psite := mkPsite {
  ps_id : N;            (* index into the generated site-name list *)
  ps_kind : pkind;
  ps_class : N;         (* channel / map location class (0 for unlock sites) *)
  ps_guarded : bool;
  ps_phase : phase }.

Definition is_chan_site (p : psite) : bool := match ps_kind p with KClose | KSend => true | _ => false end.
Definition is_close (p : psite) : bool := match ps_kind p with KClose => true | _ => false end.
Definition claimed_event (p : psite) : option N := match ps_phase p with PClaimed e => Some e | _ => None end.

(** a channel site is fine when it is in the claimed phase of an event; every other site when its guard was found *)
Definition psite_ok (p : psite) : bool :=
  if is_chan_site p then match claimed_event p with Some _ => true | None => false end else ps_guarded p.

(** all channel sites of one channel class use the same event *)
Definition same_event (T : list psite) : bool :=
  forallb (fun p => forallb (fun q =>
    negb (is_chan_site p && is_chan_site q && N.eqb (ps_class p) (ps_class q)) ||
    match claimed_event p, claimed_event q with Some e, Some e' => N.eqb e e' | _, _ => false end) T) T.

Definition panic_discipline_ok (T : list psite) : bool := forallb psite_ok T && same_event T.
Definition unguarded (T : list psite) : list N := map ps_id (filter (fun p => negb (psite_ok p)) T).
Definition count_kind (k : pkind -> bool) (T : list psite) : N := N.of_nat (length (filter (fun p => k (ps_kind p)) T)).

(** ** the channel machine: threads claim once-events (at most one claimant per event and object, for ever) and execute
    channel sites of the table. A site may begin only where its annotation is true (the thread is the claimant of the site's
    event on that object and has not fired it yet). Closing fires the event. [cm_crashed] records a runtime panic. *)
Record cstate := mkC {
  cm_event : N -> inst -> evst;
  cm_closed : N -> inst -> bool;
  cm_crashed : bool }.

Definition cinit : cstate := mkC (fun _ _ => EUnclaimed) (fun _ _ => false) false.

Definition upd2 {A} (f : N -> inst -> A) (a : N) (i : inst) (v : A) : N -> inst -> A :=
  fun a' i' => if N.eqb a' a && N.eqb i' i then v else f a' i'.

Inductive cstep (T : list psite) (t : tid) : cstate -> cstate -> Prop :=
| CClaim s e i :
    cm_event s e i = EUnclaimed ->
    cstep T t s (mkC (upd2 (cm_event s) e i (EClaimed t)) (cm_closed s) (cm_crashed s))
| CClose s p e i :
    In p T -> ps_kind p = KClose -> ps_phase p = PClaimed e -> cm_event s e i = EClaimed t ->
    cstep T t s (mkC (upd2 (cm_event s) e i EFired) (upd2 (cm_closed s) (ps_class p) i true)
                     (cm_crashed s || cm_closed s (ps_class p) i))          (* close of a closed channel panics *)
| CSend s p e i :
    In p T -> ps_kind p = KSend -> ps_phase p = PClaimed e -> cm_event s e i = EClaimed t ->
    cstep T t s (mkC (cm_event s) (cm_closed s) (cm_crashed s || cm_closed s (ps_class p) i)).   (* send on a closed channel panics *)

Inductive creachable (T : list psite) : cstate -> Prop :=
| creach_init : creachable T cinit
| creach_step s s' t : creachable T s -> cstep T t s s' -> creachable T s'.
