(** Race/Lockset.v — the access machine and the lock-set discipline (model part of C10).

    An *access table* is a finite list of access SITES of the program.  Every site says: which
    location class it touches (a struct field, e.g. [Context.children]), whether it reads or writes,
    whether it goes through a synchronisation primitive ([sync/atomic], [sync.Map], a channel
    operation), which mutexes OF THE SAME OBJECT are held at the site and how (Lock / RLock), which
    thread ROLE the enclosing function runs in, and in which PHASE of a once-only publication
    protocol the site lies.

    The machine below runs any number of threads.  Every thread may, at any time, acquire/release
    any lock instance (subject to mutual exclusion, RWMutex style), become/resign the owner of any
    object (at most one owner per object at a time), claim/fire any once-event (at most one
    claimant, ever; fired is final), and BEGIN an access drawn from the table on any object
    instance — but only in a state in which the site's annotations are TRUE of that thread (it holds
    the listed locks of that instance, it is the instance's owner if the site says [ROwner], the
    event of that instance is in the phase the site says).  Between [Begin] and [End] the access is
    "in flight".  A data race is a state with two in-flight conflicting accesses.

    Nothing here is specific to vivid; the table is a parameter everywhere. *)
From Coq Require Import List NArith Bool.
Import ListNotations.
Local Open Scope N_scope.

(** ** Access tables *)

Inductive rw := Rd | Wr.
Inductive lmode := Shared | Excl.          (* RLock / Lock *)

(** Thread role of the enclosing function.
    [RAny]   : may be called from any goroutine.
    [ROwner] : runs only on "the goroutine that currently processes the mailbox of the object
               (actor) the access belongs to". That at most one goroutine has this role per actor at
               any time is NOT proved here: it is property C01 (theorem [C01_single_consumer] in
               Properties/C01.v); in the machine it is the rule that [Become] needs a free owner slot. *)
Inductive role := RAny | ROwner.

(** Once-only publication ("write-once, then signal").  Event [e] of an object is [EUnclaimed] until
    exactly one thread claims it (a successful [CompareAndSwap(false,true)]), the claimant later fires
    it ([close(done)]); other threads may wait for it ([<-done]).
    [PClaimed e]: the site lies after the thread's successful claim and before its fire.
    [PFired e]  : the site lies after the thread fired the event or observed it fired. *)
Inductive phase := PNone | PClaimed (e : N) | PFired (e : N).

Record access := mkAccess {
  a_site : N;                       (* index into the generated site-name list (reporting only) *)
  a_loc : N;                        (* location class *)
  a_rw : rw;
  a_atomic : bool;                  (* through sync/atomic, sync.Map or a channel operation *)
  a_locks : list (N * lmode);       (* lock classes held (same object instance) and how *)
  a_role : role;
  a_phase : phase }.

Definition is_wr (a : access) : bool := match a_rw a with Wr => true | Rd => false end.
Definition is_owner (a : access) : bool := match a_role a with ROwner => true | RAny => false end.
Definition lmode_eqb (x y : lmode) : bool :=
  match x, y with Shared, Shared | Excl, Excl => true | _, _ => false end.

(** does the site hold lock class [l] strongly enough for what it does?  a write needs the lock
    exclusively; a read needs it at least shared (two readers under RLock do not conflict) *)
Definition has_lock (l : N) (m : lmode) (a : access) : bool :=
  existsb (fun p => N.eqb (fst p) l && lmode_eqb (snd p) m) (a_locks a).
Definition holds_enough (l : N) (a : access) : bool :=
  if is_wr a then has_lock l Excl a else has_lock l Excl a || has_lock l Shared a.

Definition phase_ok (e : N) (a : access) : bool :=
  match a_phase a with
  | PClaimed e' => N.eqb e' e
  | PFired e' => N.eqb e' e && negb (is_wr a)
  | PNone => false
  end.

Definition at_loc (x : N) (T : list access) : list access := filter (fun a => N.eqb (a_loc a) x) T.

(** the five admissible protections of one location class; [A] = all sites of that class *)
Definition all_atomic (A : list access) : bool := forallb a_atomic A.
Definition common_lock (A : list access) : bool :=
  existsb (fun l => forallb (holds_enough l) A) (map fst (flat_map a_locks A)).
Definition owner_only (A : list access) : bool := forallb is_owner A.
Definition once_published (A : list access) : bool :=
  existsb (fun e => forallb (phase_ok e) A)
          (flat_map (fun a => match a_phase a with PClaimed e | PFired e => [e] | PNone => [] end) A).
Definition read_only (A : list access) : bool := forallb (fun a => negb (is_wr a)) A.

Definition loc_ok (T : list access) (x : N) : bool :=
  let A := at_loc x T in
  all_atomic A || common_lock A || owner_only A || once_published A || read_only A.

Definition discipline_ok (T : list access) : bool := forallb (fun a => loc_ok T (a_loc a)) T.

(** reporting: the sites that belong to a location class violating the discipline *)
Definition violations (T : list access) : list access := filter (fun a => negb (loc_ok T (a_loc a))) T.
Fixpoint nodup_N (l : list N) : list N :=
  match l with
  | [] => []
  | x :: r => if existsb (N.eqb x) r then nodup_N r else x :: nodup_N r
  end.
Definition bad_locs (T : list access) : list N := nodup_N (map a_loc (violations T)).

(** which protection a location class enjoys: 1 atomic, 2 common lock, 3 owner only,
    4 once-published, 5 read-only, 0 none (reporting only) *)
Definition loc_protection (T : list access) (x : N) : N :=
  let A := at_loc x T in
  if all_atomic A then 1 else if common_lock A then 2 else if owner_only A then 3
  else if once_published A then 4 else if read_only A then 5 else 0.

(** ** The access machine *)

Definition tid := N.
Definition inst := N.

Inductive evst := EUnclaimed | EClaimed (t : tid) | EFired.

Record state := mkState {
  st_locks : tid -> N -> inst -> option lmode;    (* thread t holds lock class l of instance i in mode m *)
  st_owner : inst -> option tid;                  (* the goroutine currently processing instance i's mailbox *)
  st_event : N -> inst -> evst;
  st_flight : tid -> option (inst * access) }.    (* the access thread t is in the middle of *)

Definition init : state :=
  mkState (fun _ _ _ => None) (fun _ => None) (fun _ _ => EUnclaimed) (fun _ => None).

Definition upd_locks (f : tid -> N -> inst -> option lmode) t l i v : tid -> N -> inst -> option lmode :=
  fun t' l' i' => if N.eqb t' t && N.eqb l' l && N.eqb i' i then v else f t' l' i'.
Definition upd_owner (f : inst -> option tid) i v : inst -> option tid :=
  fun i' => if N.eqb i' i then v else f i'.
Definition upd_event (f : N -> inst -> evst) e i v : N -> inst -> evst :=
  fun e' i' => if N.eqb e' e && N.eqb i' i then v else f e' i'.
Definition upd_flight (f : tid -> option (inst * access)) t v : tid -> option (inst * access) :=
  fun t' => if N.eqb t' t then v else f t'.

(** thread [t] holds lock class [l] of instance [i] at least in mode [m] *)
Definition holds (s : state) (t : tid) (l : N) (i : inst) (m : lmode) : Prop :=
  match m with
  | Excl => st_locks s t l i = Some Excl
  | Shared => st_locks s t l i <> None
  end.

(** the annotations of site [a] are true of thread [t] on instance [i] in state [s] *)
Definition annotations_hold (s : state) (t : tid) (i : inst) (a : access) : Prop :=
  (forall l m, In (l, m) (a_locks a) -> holds s t l i m) /\
  (a_role a = ROwner -> st_owner s i = Some t) /\
  match a_phase a with
  | PNone => True
  | PClaimed e => st_event s e i = EClaimed t
  | PFired e => st_event s e i = EFired
  end.

Inductive step (T : list access) (t : tid) : state -> state -> Prop :=
| SAcquireExcl s l i :
    st_flight s t = None -> (forall t', st_locks s t' l i = None) ->
    step T t s (mkState (upd_locks (st_locks s) t l i (Some Excl)) (st_owner s) (st_event s) (st_flight s))
| SAcquireShared s l i :
    st_flight s t = None -> (forall t', st_locks s t' l i <> Some Excl) ->
    step T t s (mkState (upd_locks (st_locks s) t l i (Some Shared)) (st_owner s) (st_event s) (st_flight s))
| SRelease s l i :
    st_flight s t = None ->
    step T t s (mkState (upd_locks (st_locks s) t l i None) (st_owner s) (st_event s) (st_flight s))
| SBecome s i :
    st_flight s t = None -> st_owner s i = None ->
    step T t s (mkState (st_locks s) (upd_owner (st_owner s) i (Some t)) (st_event s) (st_flight s))
| SResign s i :
    st_flight s t = None -> st_owner s i = Some t ->
    step T t s (mkState (st_locks s) (upd_owner (st_owner s) i None) (st_event s) (st_flight s))
| SClaim s e i :
    st_flight s t = None -> st_event s e i = EUnclaimed ->
    step T t s (mkState (st_locks s) (st_owner s) (upd_event (st_event s) e i (EClaimed t)) (st_flight s))
| SFire s e i :
    st_flight s t = None -> st_event s e i = EClaimed t ->
    step T t s (mkState (st_locks s) (st_owner s) (upd_event (st_event s) e i EFired) (st_flight s))
| SBegin s i a :
    In a T -> st_flight s t = None -> annotations_hold s t i a ->
    step T t s (mkState (st_locks s) (st_owner s) (st_event s) (upd_flight (st_flight s) t (Some (i, a))))
| SEnd s :
    st_flight s t <> None ->
    step T t s (mkState (st_locks s) (st_owner s) (st_event s) (upd_flight (st_flight s) t None)).

Inductive reachable (T : list access) : state -> Prop :=
| reach_init : reachable T init
| reach_step s s' t : reachable T s -> step T t s s' -> reachable T s'.

(** two accesses conflict: same location class (the instance is compared in [race]), at least one
    write, and not both through a synchronisation primitive (a plain access racing with an atomic
    one IS a conflict) *)
Definition conflicting (a b : access) : bool :=
  N.eqb (a_loc a) (a_loc b) && (is_wr a || is_wr b) && negb (a_atomic a && a_atomic b).

(** a data race: two different threads are in the middle of conflicting accesses to the same
    location of the same object instance *)
Definition race (s : state) : Prop :=
  exists t1 t2 i a1 a2,
    t1 <> t2 /\ st_flight s t1 = Some (i, a1) /\ st_flight s t2 = Some (i, a2) /\ conflicting a1 a2 = true.
