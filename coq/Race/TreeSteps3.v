(** Race/TreeSteps3.v — preservation of the tree invariant by the release of an actor (registry delete, notice to the
    parent) and by the parent's handling / dropping of the notice. *)
From Coq Require Import List NArith Bool Lia.
From Vivid Require Import Race.Tree Race.TreeInv.
Import ListNotations.
Local Open Scope N_scope.

Section Steps.
  Variable root : aid.
  Variable par : aid -> option aid.
  Variable path_of : aid -> apath.
  Hypothesis path_root : forall c, c <> root -> path_of c <> path_of root.
  (** the root is the context without a parent *)
  Hypothesis par_root : par root = None.

  Notation step := (step_fn root par path_of).
  Notation Inv := (Inv root par path_of).

  Lemma inv_LDereg t s s' : Inv s -> step t LDereg s = Some s' -> Inv s'.
  Proof.
    start H. destruct (t_pc s t) as [|p c|p c|a|a|a] eqn:EPC; try discriminate.
    destruct (K4 t a (or_intror (or_introl EPC))) as [-> Hpub]. injection H as <-.
    destruct (K5b _ EPC) as [ES EZ].
    assert (HR : a <> root -> t_reg s (path_of a) = Some a) by (intros Ha; apply K5a; auto).
    assert (HX : forall b, Own b <> Own a -> path_of b = path_of a -> t_reg s (path_of b) <> Some b).
    { intros b Hb He Hr. destruct (N.eq_dec a root) as [->|Ha].
      - destruct (K1 _ _ Hr) as (_ & _ & _ & Hbr). exact (path_root b Hbr He).
      - rewrite He, (HR Ha) in Hr. injection Hr as ->. congruence. }
    auto_inv.
    - exfalso. apply (HX a0 e e0). unf. apply K5a; auto.
    - destruct (K7 _ H H0) as [F|[F|F]]; [exfalso; exact (HX a0 e e0 F)|right; left; exact F|].
      right; right. destruct F as (F1 & F2 & F3 & F4). repeat split; auto. discriminate.
    - destruct (K10 _ _ _ H) as (A & B & C & D & E). repeat split; auto; [congruence|]. intros Hp.
      destruct (E Hp) as [F|[F|F]]; [exfalso; exact (HX c e e0 F)|right; left; exact F|right; right; exact F].
    - destruct (K13 _ _ _ H H0) as [F|[F|F]]; [exfalso; exact (HX c e0 e1 F)|right; left; exact F|right; right; exact F].
  Qed.

  Lemma inv_LNotify t s s' : Inv s -> step t LNotify s = Some s' -> Inv s'.
  Proof.
    start H. destruct (t_pc s t) as [|p c|p c|a|a|a] eqn:EPC; try discriminate.
    destruct (K4 t a (or_intror (or_intror EPC))) as [-> Hpub]. injection H as <-.
    destruct (K5c _ EPC) as (ES & EZ & ER).
    destruct (par a) as [p|] eqn:EPa.
    - assert (Har : a <> root) by (intros ->; congruence).
      auto_inv.
      + apply in_app_or in H as [H|[H|[]]]; [|congruence]. destruct (K8 _ _ H) as (A & B & C & D). repeat split; tauto.
      + destruct (K10 _ _ _ H) as (A & B & C & D & E). repeat split; auto. intros _.
        right; right. apply in_or_app. right. left. reflexivity.
      + destruct (K10 _ _ _ H) as (A & B & C & D & E). repeat split; auto. intros Hp.
        destruct (E Hp) as [F|[F|F]]; [left; exact F|right; left; exact F|right; right; apply in_or_app; left; exact F].
      + right; right. apply in_or_app. right. left. reflexivity.
      + destruct (K13 _ _ _ H H0) as [F|[F|F]]; [left; exact F|right; left; exact F|right; right; apply in_or_app; left; exact F].
    - (* no parent: the root; nobody is told *)
      auto_inv.
  Qed.

  Lemma inv_LDrop t c s s' : Inv s -> step t (LDrop c) s = Some s' -> Inv s'.
  Proof.
    start H. destruct t as [n|p]; [discriminate|].
    destruct (is_idle (t_pc s (Own p))) eqn:EI; [|discriminate]. destruct (t_pub s p) eqn:EP; [|discriminate].
    destruct (is_killed (t_st s p)) eqn:EK; [|discriminate]. destruct (mem c (t_notices s p)) eqn:EM; [|discriminate].
    cbn [andb] in H. injection H as <-. apply idle_eq in EI. apply mem_In in EM.
    assert (ES : t_st s p = Killed) by (destruct (t_st s p); try discriminate; reflexivity).
    auto_inv.
    - apply In_remove1 in H. destruct (K8 _ _ H) as (A & B & C & D). repeat split; tauto.
    - destruct (K10 _ _ _ H) as (A & B & C & D & E). repeat split; auto. intros Hp.
      destruct Hp as [Hp|Hp]; [|contradiction]. destruct (K11 _ Hp ES) as [F _]. rewrite F in H. discriminate.
  Qed.

  Lemma inv_LHandle t c s s' : Inv s -> step t (LHandle c) s = Some s' -> Inv s'.
  Proof.
    start H. destruct t as [n|p]; [discriminate|].
    destruct (is_idle (t_pc s (Own p))) eqn:EI; [|discriminate]. destruct (t_pub s p) eqn:EP; [|discriminate].
    destruct (is_killed (t_st s p)) eqn:EK; [discriminate|]. destruct (mem c (t_notices s p)) eqn:EM; [|discriminate].
    cbn [andb negb] in H. injection H as <-. apply idle_eq in EI. apply mem_In in EM.
    assert (ES : t_st s p <> Killed) by (intros E; rewrite E in EK; discriminate).
    destruct (K8 _ _ EM) as (Gpar & Gpub & Gr & Gst & Gz & Gpc & Greg).
    auto_inv.
    - apply In_remove1 in H. destruct (K8 _ _ H) as (A & B & C & D). repeat split; tauto.
    - destruct (K9 _ _ H H0) as [A|[x A]]; [|right; exists x; exact A].
      left. apply rmch_get_other; [exact A|]. intros ->. contradiction.
    - pose proof H as H'. apply rmch_get_sub in H'. destruct (K10 _ _ _ H') as (A & B & C & D & E). repeat split; auto.
      intros Hp. destruct (E Hp) as [F|[F|F]]; [left; exact F|right; left; exact F|].
      right; right. apply In_remove1_neq; [exact F|]. intros ->. subst q.
      eapply rmch_get_self; exact H.
  Qed.
End Steps.
