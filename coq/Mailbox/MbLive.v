(** Wake-up / terminal-state / bounded-work theorems of the mailbox machine. *)
From Coq Require Import List NArith ZArith Bool Lia Permutation Arith.
From Vivid Require Import Mailbox.MbModel Mailbox.MbSpec Mailbox.MbSpec2 Mailbox.MbInv.
Import ListNotations.
Local Open Scope Z_scope.

(** * terminal states *)
Lemma terminal_all_done s : terminal s -> forall i p, nth_error (thr s) i = Some p -> p = Done.
Proof.
  intros Ht i p Hp. specialize (Ht i). unfold step in Ht. rewrite Hp in Ht.
  destruct p as [k|sys m|sys| | | | | |m|m| | |m|m| | |u|u| | ]; try reflexivity; exfalso;
    try destruct sys; cbv zeta in Ht;
    repeat match type of Ht with
    | (if ?b then _ else _) = None => destruct b
    | match ?l with [] => _ | _ :: _ => _ end = None => destruct l
    end; discriminate Ht.
Qed.

Lemma all_done_cnt P l : P Done = false -> (forall i p, nth_error l i = Some p -> p = Done) -> cnt P l = 0.
Proof.
  intros HP. induction l as [|h t IH]; intros H; cbn [cnt]; [reflexivity|].
  rewrite (H 0%nat h eq_refl), HP. rewrite IH; [reflexivity|]. intros i p Hi. exact (H (S i) p Hi).
Qed.

Lemma all_done_flat {B} (f : pc -> list B) l : f Done = [] ->
  (forall i p, nth_error l i = Some p -> p = Done) -> flat_map f l = [].
Proof.
  intros HP. induction l as [|h t IH]; intros H; cbn [flat_map]; [reflexivity|].
  rewrite (H 0%nat h eq_refl), HP. rewrite IH; [reflexivity|]. intros i p Hi. exact (H (S i) p Hi).
Qed.

Theorem terminal_thm s : reachable s -> terminal s ->
  sq s = [] /\ (uq s = [] \/ paused s = true) /\ status s = false /\ held s = [] /\ unsent s = [].
Proof.
  intros Hr Ht. pose proof (reachable_inv _ Hr) as [_ Ho _ _ Hws Hwu].
  pose proof (terminal_all_done _ Ht) as D.
  rewrite (all_done_cnt owner_pc _ eq_refl D) in Ho.
  assert (Hst : status s = false) by (destruct (status s); [discriminate Ho|reflexivity]).
  rewrite (all_done_cnt sys_cover _ eq_refl D) in Hws.
  rewrite (all_done_cnt user_cover _ eq_refl D) in Hwu.
  repeat split.
  - destruct (sq s) as [|m l] eqn:Q; [reflexivity|]. exfalso. assert (H : m :: l <> []) by congruence. specialize (Hws Hst H). lia.
  - destruct (uq s) as [|m l] eqn:Q; [left; reflexivity|]. right. destruct (paused s) eqn:P; [reflexivity|].
    exfalso. assert (H : m :: l <> []) by congruence. specialize (Hwu Hst H eq_refl). lia.
  - exact Hst.
  - apply all_done_flat; [reflexivity|exact D].
  - apply all_done_flat; [reflexivity|exact D].
Qed.

Corollary resume_drains s : reachable s -> terminal s -> paused s = false -> uq s = [].
Proof.
  intros Hr Ht Hp. destruct (terminal_thm s Hr Ht) as (_ & [H|H] & _); [exact H|congruence].
Qed.

(** in a terminal state every message ever given to Enqueue is in the handled log, except user messages
    still queued in a paused mailbox *)
Corollary terminal_all_handled ths sched : forallb env_pc ths = true ->
  let s := run sched (init ths) in
  terminal s -> Permutation (msgs_of ths) (map (pair false) (uq s) ++ log s) /\ (paused s = false -> uq s = []).
Proof.
  intros He s Ht. assert (Hr : reachable s) by (exists ths, sched; split; [exact He|reflexivity]).
  destruct (terminal_thm s Hr Ht) as (Hsq & Hu & _ & Hh & Hun).
  pose proof (exactly_once ths sched He) as P. cbv zeta in P. fold s in P.
  unfold queued in P. rewrite Hsq, Hh, Hun in P. cbn [map app] in P. split; [exact P|].
  intros Hp. destruct Hu as [H|H]; [exact H|congruence].
Qed.

(** * bounded work when there is nothing the mailbox may process *)
Definition is_proc (p : pc) : bool := negb (env_active p) && negb (match p with Done => true | _ => false end).

Definition stale (s : st) (p : pc) : bool :=
  match p with
  | PCas => true
  | PLoadPaused _ => negb (paused s)
  | PLoadSys u => (0 <? sysnum s) || ((0 <? u) && negb (paused s))
  | PLoadNum => (0 <? sysnum s) || ((0 <? num s) && negb (paused s))
  | _ => false
  end.
Definition tailw (s : st) (p : pc) : Z :=
  match p with
  | Start _ => 8
  | HSysDec _ | HUserDec _ => 9
  | HSysHandle _ | HUserHandle _ => 8
  | HSysPop => 7
  | HLoadPaused => 6
  | HUserPop => match uq s with [] => 5 | _ :: _ => 10 end
  | PStoreIdle => 4
  | PLoadNum => 3
  | PLoadSys _ => 2
  | PLoadPaused _ => 1
  | _ => 0
  end.
Definition w (s : st) (p : pc) : Z := tailw s p + (if stale s p then 8 else 0).
Fixpoint sumw (s : st) (l : list pc) : Z := match l with [] => 0 | p :: t => w s p + sumw s t end.
Definition potential (s : st) : Z := sumw s (thr s).

Lemma w_nonneg s p : 0 <= w s p.
Proof. unfold w, tailw. destruct p; try destruct (uq s); destruct (stale s _); lia. Qed.
Lemma sumw_nonneg s l : 0 <= sumw s l.
Proof. induction l as [|p t IH]; cbn [sumw]; [lia|]. pose proof (w_nonneg s p). lia. Qed.

Lemma w_mono s s' : sysnum s' <= sysnum s -> num s' <= num s -> paused s' = paused s ->
  (uq s = [] -> uq s' = []) -> forall q, w s' q <= w s q.
Proof.
  intros H1 H2 H3 H4 q. unfold w, tailw, stale. rewrite H3.
  destruct q; try lia.
  - destruct (uq s); [rewrite (H4 eq_refl); lia|destruct (uq s'); lia].
  - destruct (Z.ltb_spec 0 (sysnum s')), (Z.ltb_spec 0 (sysnum s)), (Z.ltb_spec 0 (num s')), (Z.ltb_spec 0 (num s)),
      (paused s); cbn [orb andb negb]; lia.
  - destruct (Z.ltb_spec 0 (sysnum s')), (Z.ltb_spec 0 (sysnum s)), (0 <? u), (paused s); cbn [orb andb negb]; lia.
Qed.

Lemma sumw_upd_lt s s' l i p p' : nth_error l i = Some p ->
  (forall q, w s' q <= w s q) -> w s' p' < w s p -> sumw s' (upd l i p') < sumw s l.
Proof.
  intros Hp Hm Hlt. revert i Hp. induction l as [|h t IH]; intros [|j] Hp; cbn [nth_error upd sumw] in *; try discriminate.
  - inversion Hp; subst. assert (sumw s' t <= sumw s t).
    { clear -Hm. induction t as [|a t IH]; cbn [sumw]; [lia|]. specialize (Hm a). lia. }
    lia.
  - specialize (IH j Hp). specialize (Hm h). lia.
Qed.

Lemma sumw_bound s l : cnt env_active l = 0 -> sumw s l <= 11 * cnt is_proc l.
Proof.
  induction l as [|p t IH]; cbn [sumw cnt]; intros H; [lia|].
  pose proof (cnt_nonneg env_active t). assert (Hp : env_active p = false) by (unfold b2z in H; destruct (env_active p); [lia|reflexivity]).
  rewrite Hp in H. cbn [b2z] in H. specialize (IH ltac:(lia)).
  assert (w s p <= 11 * b2z (is_proc p)); [|lia].
  unfold is_proc. rewrite Hp. unfold w, tailw.
  destruct p; cbn [negb andb b2z stale]; try destruct (uq s); try lia;
    try (cbn in Hp; discriminate Hp);
    match goal with |- context [if ?b then _ else _] => destruct b end; lia.
Qed.

(** the quiet regime: no client call in progress, nothing processable *)
Record Quiet (s : st) : Prop := {
  q_inv : Inv s;
  q_env : cnt env_active (thr s) = 0;
  q_sq : sq s = [];
  q_uq : uq s = [] \/ paused s = true
}.

Lemma dec_lt_owner b l i p : nth_error l i = Some p -> owner_pc p = true -> at_dec b p = false ->
  cnt (at_dec b) l <= cnt owner_pc l - 1.
Proof.
  intros Hp Ho Hd. pose proof (dec_le_owner b (upd l i Done)) as H.
  rewrite !(cnt_upd _ _ _ _ _ Hp), Ho, Hd in H. cbn [at_dec owner_pc b2z] in H. lia.
Qed.

Lemma quiet_step i s s' : Quiet s -> step i s = Some s' -> Quiet s' /\ potential s' < potential s.
Proof.
  intros [HI He Hsq Huq] Hs.
  pose proof (step_inv _ _ _ HI Hs) as HI'.
  destruct HI as [Hwf Ho Hn Hy _ _].
  pose proof (cnt_nonneg (at_sadd true) (thr s)) as Ha1.
  pose proof (cnt_nonneg (at_sadd false) (thr s)) as Ha2.
  pose proof (cnt_nonneg (at_dec true) (thr s)) as Hd1.
  pose proof (cnt_nonneg (at_dec false) (thr s)) as Hd2.
  rewrite Hsq in Hy. cbn [length] in Hy.
  step_cases Hs Hp.
  all: pose proof (cnt_pos env_active _ _ _ Hp) as Hep; cbn [env_active] in Hep;
       try (specialize (Hep eq_refl); lia).
  1: pose proof (cnt_pos bad_pc _ _ _ Hp) as Hbp;
     destruct k; cbn [bad_pc env_pc] in Hbp, Hep; try (specialize (Hbp eq_refl); lia); try (specialize (Hep eq_refl); lia).
  all: try (rewrite Hsq in *; discriminate).
  all: (split; [split; [exact HI'| | | ] | ]);
       cbn [thr set_thr status paused num sysnum sq uq log] in *.
  all: try (rewrite (cnt_upd _ _ _ _ _ Hp); cbn [env_active env_pc b2z]; lia).
  all: try assumption.
  all: try match goal with |- _ \/ _ => destruct Huq as [Huq|Huq]; [left; congruence|right; congruence] end.
  all: unfold potential; cbn [thr set_thr];
       (apply (sumw_upd_lt s _ _ _ _ _ Hp);
        [ apply w_mono; cbn [set_thr sysnum num paused uq status sq log thr]; try lia; try reflexivity; try (intros; congruence) | ]).
  all: unfold w, tailw, stale; cbn [set_thr sysnum num paused uq status sq log thr].
  all: try (pose proof (dec_lt_owner true _ _ _ Hp eq_refl eq_refl) as Hl1);
       try (pose proof (dec_lt_owner false _ _ _ Hp eq_refl eq_refl) as Hl2).
  all: destruct Huq as [Huq|Huq];
       repeat match goal with H : _ = _ :> bool |- _ => rewrite H in * end;
       repeat match goal with H : _ = _ :> list _ |- _ => rewrite H in * end;
       try discriminate; cbn [length negb andb orb] in *;
       repeat match goal with
       | |- context [0 <? ?x] => destruct (Z.ltb_spec 0 x)
       end; cbn [negb andb orb]; try lia.
  all: unfold b2z in Ho; destruct (status s); lia.
Qed.

Lemma quiet_steps sched s : Quiet s -> Z.of_nat (effective_steps sched s) <= potential s.
Proof.
  unfold effective_steps. revert s. induction sched as [|i r IH]; intros s HQ; cbn [run_trace length].
  - apply sumw_nonneg.
  - destruct (nth_error (thr s) i) as [p|] eqn:Hp; [|exact (IH s HQ)].
    destruct (step i s) as [s'|] eqn:Hs; [|exact (IH s HQ)].
    destruct (quiet_step _ _ _ HQ Hs) as [HQ' Hlt]. specialize (IH s' HQ'). cbn [length]. lia.
Qed.

Lemma env_done_cnt s : env_done s -> cnt env_active (thr s) = 0.
Proof.
  unfold env_done. induction (thr s) as [|p t IH]; intros H; cbn [cnt]; [reflexivity|].
  rewrite (H p (or_introl eq_refl)), IH; [reflexivity|]. intros q Hq. apply H. right. exact Hq.
Qed.

Lemma processors_cnt s : Z.of_nat (processors s) = cnt is_proc (thr s).
Proof. unfold processors. rewrite cnt_filter. reflexivity. Qed.

Theorem no_spin s : reachable s -> env_done s -> sq s = [] -> (uq s = [] \/ paused s = true) ->
  forall sched, (effective_steps sched s <= 11 * processors s)%nat.
Proof.
  intros Hr He Hsq Huq sched.
  assert (HQ : Quiet s) by (split; [apply reachable_inv, Hr|apply env_done_cnt, He|exact Hsq|exact Huq]).
  pose proof (quiet_steps sched s HQ) as H1.
  pose proof (sumw_bound s (thr s) (q_env _ HQ)) as H2. fold (potential s) in H2.
  rewrite <- processors_cnt in H2. lia.
Qed.

(** the processors all terminate: in the quiet regime a schedule that runs every thread long enough
    reaches a terminal state; stated as: if no thread can take a step any more nothing is left to do -
    see [terminal_thm]; and conversely the bound above says a terminal state is reached after at most
    [11 * processors s] effective steps under any schedule that keeps choosing enabled threads. *)

