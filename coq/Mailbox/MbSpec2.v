(** More derived notions used by the statements of C01 / C02 (definitions only, no proofs). *)
From Coq Require Import List NArith ZArith Bool.
From Vivid Require Import Mailbox.MbModel Mailbox.MbSpec.
Import ListNotations.
Local Open Scope Z_scope.

(** number of threads whose pc satisfies [P] *)
Definition count (P : pc -> bool) (s : st) : Z := Z.of_nat (length (filter P (thr s))).

(** a sender that has pushed its message and not yet incremented the counter *)
Definition at_sadd (sys : bool) (p : pc) : bool :=
  match p with SAdd b => Bool.eqb b sys | _ => false end.
(** the consumer has popped a message and not yet decremented the counter *)
Definition at_dec (sys : bool) (p : pc) : bool :=
  match p with HSysDec _ => sys | HUserDec _ => negb sys | _ => false end.

(** Wake-up cover.  A thread at one of these pcs has not yet made its decision about waking the
    mailbox up; following its own program text it reaches a CompareAndSwap(status, idle, processing)
    unless it observes that the wake-up is not needed:
      SAdd/SCas (Enqueue), RCas2 (Resume), PCas (process): the CAS is the next or next-but-one step;
      PLoadNum: about to load num; PLoadSys u: about to load systemNum (goes to PCas when it is positive;
      when it is not and u > 0 it goes on to PLoadPaused u); PLoadPaused u: about to load paused (goes to
      PCas when it is 0).
    [sys_cover] is what protects a queued system message, [user_cover] a queued user message of a
    mailbox that is not paused. *)
Definition sys_cover (p : pc) : bool :=
  match p with SAdd _ | SCas | RCas2 | PCas | PLoadNum | PLoadSys _ => true | _ => false end.
Definition user_cover (p : pc) : bool :=
  match p with
  | SAdd _ | SCas | RCas2 | PCas | PLoadNum | PLoadPaused _ => true
  | PLoadSys u => 0 <? u
  | _ => false
  end.

(** the effective steps of a schedule with the thread, the pc it was at, and the state BEFORE the step
    ([map fst (run_trace2 sched s) = run_trace sched s]) *)
Fixpoint run_trace2 (sched : list nat) (s : st) : list (nat * pc * st) :=
  match sched with
  | [] => []
  | i :: r =>
      match nth_error (thr s) i, step i s with
      | Some p, Some s' => (i, p, s) :: run_trace2 r s'
      | _, _ => run_trace2 r s
      end
  end.

(** the steps of thread [i] in a trace, oldest first *)
Definition steps_of (i : nat) (tr : list (nat * pc * st)) : list (pc * st) :=
  flat_map (fun e => if Nat.eqb (fst (fst e)) i then [(snd (fst e), snd e)] else []) tr.

(** a step that takes a user message out of the user queue *)
Definition is_user_pop (e : nat * pc * st) : bool :=
  match snd (fst e), uq (snd e) with HUserPop, _ :: _ => true | _, _ => false end.
Definition user_pops (tr : list (nat * pc * st)) : nat := length (filter is_user_pop tr).
