(** Replay entry point: input = (threads schedule), output = per-step (label, projected state) + final log. *)
From Coq Require Import List NArith ZArith Bool.
From Vivid Require Import Base.Tm Mailbox.MbModel Mailbox.MbFine Mailbox.MbClass.
Import ListNotations.
Local Open Scope N_scope.

(** thread descriptor: (0 sys m inline) sender | (1 inline) Pause | (2 inline) Resume.
    [inline] = the operation runs inside a handler on the processor goroutine (no goroutine start step). *)
Definition get_thread (t : tm) : option (pc * bool) :=
  match t with
  | TL [TN 0; TN sys; TN m; TN i] => Some (SPush (negb (sys =? 0)) m, negb (i =? 0))
  | TL [TN 1; TN i] => Some (PStore, negb (i =? 0))
  | TL [TN 2; TN i] => Some (RCas1, negb (i =? 0))
  | _ => None
  end.

(** inline threads take their (silent) start step before the replay begins *)
Fixpoint start_inline (i : nat) (fl : list bool) (s : st) : st :=
  match fl with
  | [] => s
  | b :: r => start_inline (S i) r (if b then step_or_stay s i else s)
  end.

(** what crosses the boundary per step is the OPERATION CLASS of the stepping thread's pc (Mailbox/MbClass.v: kind of
    operation + field, independent of the enclosing function), not a per-pc label *)
Definition pc_code (p : pc) : N := class_code (class_of_pc p).

Definition proj (s : st) : list tm :=
  [tbool (status s); tbool (paused s); tz (num s); tz (sysnum s);
   TN (N.of_nat (length (sq s))); TN (N.of_nat (length (uq s))); TN (N.of_nat (length (log s)))].

Fixpoint replay (sched : list nat) (s : st) : list tm * st :=
  match sched with
  | [] => ([], s)
  | i :: r =>
      let lab := match nth_error (thr s) i with Some p => pc_code p | None => 0 end in
      match step i s with
      | Some s' => let (out, sf) := replay r s' in (TL (TN lab :: proj s') :: out, sf)
      | None => ([TL [TN 99; TN (N.of_nat i)]], s)
      end
  end.

(** terminal: every goroutine finished; an inline operation whose carrier message was never handled simply
    never ran (it is still at its first pc) *)
Fixpoint all_done_from (fl : list bool) (ths : list pc) : bool :=
  match ths with
  | [] => true
  | p :: r =>
      let inl := match fl with b :: _ => b | [] => false end in
      (match p with Done => true | _ => inl && env_pc p end) && all_done_from (tl fl) r
  end.

Definition run_mailbox (t : tm) : tm :=
  match t with
  | TL [ths; sched] =>
      match get_list get_thread ths, get_list get_n sched with
      | Some ths, Some sched =>
          let (out, sf) := replay (map N.to_nat sched) (start_inline 0 (map snd ths) (init (map fst ths))) in
          TL [TL out;
              tlist (fun p => TL [tbool (fst p); TN (snd p)]) (log sf);
              tbool (all_done_from (map snd ths) (thr sf))]
      | _, _ => tm_err 1
      end
  | _ => tm_err 0
  end.
