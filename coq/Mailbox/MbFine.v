(** Fine-grained micro-step model: internal/mailbox/unbounded_mailbox.go TOGETHER WITH the ring queue
    internal/queues/ring.go underneath it, as both are in /repo now.

    Mailbox/MbModel.v treats a RingQueue Push / Pop as ONE atomic step (assumption M4: "linearizable because
    every access is under the queue's mutex").  That assumption is not literally true of the code: [Pop]
    decides emptiness with [atomic.LoadInt64(&q.len)] OUTSIDE the mutex, and [len] is changed by an atomic add in
    the middle of the critical sections.  Here nothing about the queue is assumed: one step = one synchronisation
    operation of one goroutine in EITHER file -

      Push(item):  q.lock.Lock()                       [FPushLock]   blocks while the mutex is held; then, under the
                       c.tail = (c.tail+1) % c.mod; grow + rotated copy when c.tail == c.head       mutex, up to
                   atomic.AddInt64(&q.len, 1)          [FPushAdd]    ... the add; then buffer[tail] = item; Unlock
      Pop():       atomic.LoadInt64(&q.len)  (Empty)   [FQLoad]      0 -> (nil,false), no lock taken
                   q.lock.Lock()                       [FQLock]      blocks; head = (head+1) % mod; res = buffer[head];
                                                                     buffer[head] = nil
                   atomic.AddInt64(&q.len, -1)         [FQPopAdd]    then Unlock; return (res, true)

    (non-atomic accesses to data that only the mutex holder touches are merged with the adjacent step of the same
    goroutine: M1) - and the mailbox's own atomics exactly as in MbModel.v.  Two queues (system, user), each with its
    buffer, head, tail, len (Z: the code's int64 may go negative if the discipline were broken) and lock bit.
    [msg.(vivid.Envelop)] on a nil slot handed out by Pop, and [% c.mod] with mod = 0, crash the process: pc [FCrash].

    The theorems (Mailbox/MbFineSim.v, Properties/C01_fine.v) show that every execution of THIS machine is simulated
    by MbModel.v - so M4 is a theorem under exactly the discipline the mailbox provides (one consumer at a time) -
    and is refuted without it (two overlapping Pops hand out a nil slot and drive len to -1). *)
From Coq Require Import List NArith ZArith Bool Arith.
From Vivid Require Import Queue.Ring.
From Vivid Require Import Mailbox.MbModel.
Import ListNotations.
Local Open Scope Z_scope.

(** one RingQueue *)
Record cq : Type := {
  qbuf : list (option msg);     (* content.buffer; mod = its length *)
  qhead : nat;
  qtail : nat;
  qlen : Z;                     (* q.len *)
  qlock : bool;                 (* q.lock is held *)
}.

Definition qmod (q : cq) : nat := length (qbuf q).

(** New(initialSize), initialSize >= 0 *)
Definition q_new (n : nat) : cq :=
  {| qbuf := repeat None n; qhead := 0; qtail := 0; qlen := 0; qlock := false |}.

(** Push, from Lock up to (not including) the atomic add: cursor advance, growth.  [None] = "integer divide by zero" *)
Definition q_push_pre (q : cq) : option cq :=
  let m := qmod q in
  if (m =? 0)%nat then None
  else
    let t := ((qtail q + 1) mod m)%nat in
    if (t =? qhead q)%nat then
      Some {| qbuf := grow_copy (qbuf q) t; qhead := 0; qtail := m; qlen := qlen q; qlock := true |}
    else
      Some {| qbuf := qbuf q; qhead := qhead q; qtail := t; qlen := qlen q; qlock := true |}.

(** Push, the atomic add, the slot write, Unlock *)
Definition q_push_fin (x : msg) (q : cq) : cq :=
  {| qbuf := Ring.upd (qtail q) (Some x) (qbuf q); qhead := qhead q; qtail := qtail q;
     qlen := qlen q + 1; qlock := false |}.

(** Pop, from Lock up to the atomic add: head advance, read, clear *)
Definition q_pop_pre (q : cq) : option (option msg * cq) :=
  let m := qmod q in
  if (m =? 0)%nat then None
  else
    let h := ((qhead q + 1) mod m)%nat in
    Some (slot (qbuf q) h,
          {| qbuf := Ring.upd h None (qbuf q); qhead := h; qtail := qtail q; qlen := qlen q; qlock := true |}).

(** Pop, the atomic add, Unlock *)
Definition q_pop_fin (q : cq) : cq :=
  {| qbuf := qbuf q; qhead := qhead q; qtail := qtail q; qlen := qlen q - 1; qlock := false |}.

Inductive fpc : Type :=
| FStart (k : fpc)
(* Enqueue *)
| FPushLock (sys : bool) (m : msg)
| FPushAdd (sys : bool) (m : msg)
| FAdd (sys : bool)
| FCas
(* Pause / Resume *)
| FPStore
| FRCas1
| FRCas2
(* processHandle: Pop of the system (sys = true) / user queue, counter, handler *)
| FQLoad (sys : bool)
| FQLock (sys : bool)
| FQPopAdd (sys : bool) (v : option msg)
| FDec (sys : bool) (m : msg)
| FHandle (sys : bool) (m : msg)
| FLoadPaused
(* process *)
| FStoreIdle
| FLoadNum
| FLoadSys (u : Z)
| FPLoadPaused (u : Z)
| FPCas
| FDone
| FCrash.

Record fstate : Type := {
  fstatus : bool;
  fpaused : bool;
  fnum : Z;
  fsysnum : Z;
  fsq : cq;
  fuq : cq;
  flog : list (bool * msg);
  fthr : list fpc;
}.

Definition getq (sys : bool) (f : fstate) : cq := if sys then fsq f else fuq f.
Definition setq (sys : bool) (f : fstate) (q : cq) : fstate :=
  if sys then {| fstatus := fstatus f; fpaused := fpaused f; fnum := fnum f; fsysnum := fsysnum f; fsq := q; fuq := fuq f; flog := flog f; fthr := fthr f |}
  else {| fstatus := fstatus f; fpaused := fpaused f; fnum := fnum f; fsysnum := fsysnum f; fsq := fsq f; fuq := q; flog := flog f; fthr := fthr f |}.
Definition fset_thr (f : fstate) (t : list fpc) : fstate :=
  {| fstatus := fstatus f; fpaused := fpaused f; fnum := fnum f; fsysnum := fsysnum f; fsq := fsq f; fuq := fuq f; flog := flog f; fthr := t |}.

(** what the thread does after a Pop that found its queue empty *)
Definition after_empty (sys : bool) : fpc := if sys then FLoadPaused else FStoreIdle.

Definition fstep (i : nat) (f : fstate) : option fstate :=
  match nth_error (fthr f) i with
  | None => None
  | Some p =>
    let goto q := Some (fset_thr f (upd (fthr f) i q)) in
    let with_st f' q := Some (fset_thr f' (upd (fthr f) i q)) in
    match p with
    | FDone | FCrash => None
    | FStart k => goto k
    | FPushLock sys m =>
        if qlock (getq sys f) then None
        else match q_push_pre (getq sys f) with
             | Some q' => with_st (setq sys f q') (FPushAdd sys m)
             | None => goto FCrash
             end
    | FPushAdd sys m => with_st (setq sys f (q_push_fin m (getq sys f))) (FAdd sys)
    | FAdd true =>
        with_st {| fstatus := fstatus f; fpaused := fpaused f; fnum := fnum f; fsysnum := fsysnum f + 1; fsq := fsq f; fuq := fuq f; flog := flog f; fthr := fthr f |} FCas
    | FAdd false =>
        with_st {| fstatus := fstatus f; fpaused := fpaused f; fnum := fnum f + 1; fsysnum := fsysnum f; fsq := fsq f; fuq := fuq f; flog := flog f; fthr := fthr f |} FCas
    | FCas | FRCas2 =>
        if fstatus f then goto FDone
        else Some {| fstatus := true; fpaused := fpaused f; fnum := fnum f; fsysnum := fsysnum f; fsq := fsq f; fuq := fuq f; flog := flog f;
                     fthr := upd (fthr f) i FDone ++ [FStart (FQLoad true)] |}
    | FPStore =>
        with_st {| fstatus := fstatus f; fpaused := true; fnum := fnum f; fsysnum := fsysnum f; fsq := fsq f; fuq := fuq f; flog := flog f; fthr := fthr f |} FDone
    | FRCas1 =>
        if fpaused f then
          with_st {| fstatus := fstatus f; fpaused := false; fnum := fnum f; fsysnum := fsysnum f; fsq := fsq f; fuq := fuq f; flog := flog f; fthr := fthr f |} FRCas2
        else goto FDone
    | FQLoad sys => if qlen (getq sys f) =? 0 then goto (after_empty sys) else goto (FQLock sys)
    | FQLock sys =>
        if qlock (getq sys f) then None
        else match q_pop_pre (getq sys f) with
             | Some (v, q') => with_st (setq sys f q') (FQPopAdd sys v)
             | None => goto FCrash
             end
    | FQPopAdd sys v =>
        with_st (setq sys f (q_pop_fin (getq sys f))) (match v with Some m => FDec sys m | None => FCrash end)
    | FDec true m =>
        with_st {| fstatus := fstatus f; fpaused := fpaused f; fnum := fnum f; fsysnum := fsysnum f - 1; fsq := fsq f; fuq := fuq f; flog := flog f; fthr := fthr f |} (FHandle true m)
    | FDec false m =>
        with_st {| fstatus := fstatus f; fpaused := fpaused f; fnum := fnum f - 1; fsysnum := fsysnum f; fsq := fsq f; fuq := fuq f; flog := flog f; fthr := fthr f |} (FHandle false m)
    | FHandle sys m =>
        with_st {| fstatus := fstatus f; fpaused := fpaused f; fnum := fnum f; fsysnum := fsysnum f; fsq := fsq f; fuq := fuq f; flog := flog f ++ [(sys, m)]; fthr := fthr f |} (FQLoad true)
    | FLoadPaused => if fpaused f then goto FStoreIdle else goto (FQLoad false)
    | FStoreIdle =>
        with_st {| fstatus := false; fpaused := fpaused f; fnum := fnum f; fsysnum := fsysnum f; fsq := fsq f; fuq := fuq f; flog := flog f; fthr := fthr f |} FLoadNum
    | FLoadNum => goto (FLoadSys (fnum f))
    | FLoadSys u =>
        if 0 <? fsysnum f then goto FPCas
        else if 0 <? u then goto (FPLoadPaused u)
        else goto FDone
    | FPLoadPaused u => if fpaused f then goto FDone else goto FPCas
    | FPCas =>
        if fstatus f then goto FDone
        else with_st {| fstatus := true; fpaused := fpaused f; fnum := fnum f; fsysnum := fsysnum f; fsq := fsq f; fuq := fuq f; flog := flog f; fthr := fthr f |} (FQLoad true)
    end
  end.

(** NewUnboundedMailbox(size, handler) with the client goroutines not yet started *)
Definition finit (size : nat) (ths : list fpc) : fstate :=
  {| fstatus := false; fpaused := false; fnum := 0; fsysnum := 0; fsq := q_new size; fuq := q_new size; flog := [];
     fthr := map FStart ths |}.

Definition fstep_or_stay (f : fstate) (i : nat) : fstate := match fstep i f with Some f' => f' | None => f end.
Definition frun (sched : list nat) (f : fstate) : fstate := fold_left fstep_or_stay sched f.

(** client programs: Enqueue(user/system message), Pause, Resume *)
Definition fenv_pc (p : fpc) : bool :=
  match p with FPushLock _ _ | FPStore | FRCas1 => true | _ => false end.

(** reachable: after SOME schedule of SOME client population on a mailbox created with SOME size >= 1 *)
Definition freachable (f : fstate) : Prop :=
  exists size ths sched, (1 <= size)%nat /\ forallb fenv_pc ths = true /\ frun sched (finit size ths) = f.

(** the operation class of the step a thread at pc [p] performs next: [class_of_fpc], Mailbox/MbClass.v *)

(** ---------------------------------------------------------------------------------------------------------
    the abstraction to Mailbox/MbModel.v: a fine pc is "inside" the coarse pc whose single step it refines.
    Push linearises at its atomic add ([FPushLock], [FPushAdd] are both still [SPush]); Pop of a non-empty queue at
    its atomic add ([FQLoad], [FQLock], [FQPopAdd] are all still [HSysPop] / [HUserPop]); Pop of an empty queue at
    its load. *)
Fixpoint apc (p : fpc) : pc :=
  match p with
  | FStart k => Start (apc k)
  | FPushLock sys m | FPushAdd sys m => SPush sys m
  | FAdd sys => SAdd sys
  | FCas => SCas
  | FPStore => PStore
  | FRCas1 => RCas1
  | FRCas2 => RCas2
  | FQLoad true | FQLock true | FQPopAdd true _ => HSysPop
  | FQLoad false | FQLock false | FQPopAdd false _ => HUserPop
  | FDec true m => HSysDec m
  | FDec false m => HUserDec m
  | FHandle true m => HSysHandle m
  | FHandle false m => HUserHandle m
  | FLoadPaused => HLoadPaused
  | FStoreIdle => PStoreIdle
  | FLoadNum => PLoadNum
  | FLoadSys u => PLoadSys u
  | FPLoadPaused u => PLoadPaused u
  | FPCas => PCas
  | FDone | FCrash => Done
  end.

(** the coarse state with the two queue contents [ls], [lu] *)
Definition absl (f : fstate) (ls lu : list msg) : st :=
  {| status := fstatus f; paused := fpaused f; num := fnum f; sysnum := fsysnum f; sq := ls; uq := lu;
     log := flog f; thr := map apc (fthr f) |}.

(** a step that has no counterpart in MbModel.v (it stays inside the same coarse step) *)
Definition stutter (p : fpc) (f : fstate) : bool :=
  match p with
  | FPushLock _ _ => true
  | FQLoad sys => negb (qlen (getq sys f) =? 0)
  | FQLock _ => true
  | _ => false
  end.

(** the effective steps of a schedule: thread, the pc it was at, the state before the step *)
Fixpoint frun_trace (sched : list nat) (f : fstate) : list (nat * fpc * fstate) :=
  match sched with
  | [] => []
  | i :: r =>
      match nth_error (fthr f) i, fstep i f with
      | Some p, Some f' => (i, p, f) :: frun_trace r f'
      | _, _ => frun_trace r f
      end
  end.
Definition feffective_steps (sched : list nat) (f : fstate) : nat := length (frun_trace sched f).

(** the schedule of MbModel.v that simulates a fine schedule: the non-stuttering effective steps *)
Fixpoint csched_of (sched : list nat) (f : fstate) : list nat :=
  match sched with
  | [] => []
  | i :: r =>
      match nth_error (fthr f) i, fstep i f with
      | Some p, Some f' => (if stutter p f then [] else [i]) ++ csched_of r f'
      | _, _ => csched_of r f
      end
  end.

(** the trace of MbModel.v that corresponds to a fine trace: the stuttering steps removed, pcs abstracted *)
Definition ctrace_of (tr : list (nat * fpc * fstate)) : list (nat * pc) :=
  flat_map (fun e => if stutter (snd (fst e)) (snd e) then [] else [(fst (fst e), apc (snd (fst e)))]) tr.

(** the content of a queue, read off the buffer: the [qlen] slots after head *)
Definition qcontent (q : cq) : list (option msg) :=
  map (fun i => slot (qbuf q) ((qhead q + 1 + i) mod qmod q)%nat) (seq 0 (Z.to_nat (qlen q))).

(** derived notions for the statements *)
Definition fhandling_pc (p : fpc) : bool := match p with FHandle _ _ => true | _ => false end.
Definition fowner_pc (p : fpc) : bool :=
  match p with
  | FStart (FQLoad true) | FQLoad _ | FQLock _ | FQPopAdd _ _ | FDec _ _ | FHandle _ _ | FLoadPaused | FStoreIdle => true
  | _ => false
  end.
Definition funsent_of (p : fpc) : list (bool * msg) :=
  match p with FStart (FPushLock b m) | FPushLock b m | FPushAdd b m => [(b, m)] | _ => [] end.
Definition fmsgs_of (ths : list fpc) : list (bool * msg) := flat_map funsent_of ths.
Definition fterminal (f : fstate) : Prop := forall i, fstep i f = None.
Definition fall_done (f : fstate) : Prop := forall i p, nth_error (fthr f) i = Some p -> p = FDone.
(** order in which messages of a kind were pushed = order of the atomic adds of their Push calls *)
Definition fpush_order (sys : bool) (tr : list (nat * fpc * fstate)) : list msg :=
  flat_map (fun e => match snd (fst e) with FPushAdd b m => if Bool.eqb b sys then [m] else [] | _ => [] end) tr.
Definition flog_of (sys : bool) (f : fstate) : list msg :=
  flat_map (fun e => if Bool.eqb (fst e) sys then [snd e] else []) (flog f).
Definition fenv_active (p : fpc) : bool :=
  match p with
  | FStart k => fenv_pc k
  | FPushLock _ _ | FPushAdd _ _ | FAdd _ | FCas | FPStore | FRCas1 | FRCas2 => true
  | _ => false
  end.
Definition fenv_done (f : fstate) : Prop := forall p, In p (fthr f) -> fenv_active p = false.
Definition fprocessors (f : fstate) : nat :=
  length (filter (fun p => negb (fenv_active p) && negb (match p with FDone | FCrash => true | _ => false end)) (fthr f)).

(** wake-up cover (cf. Mailbox/MbSpec2.v): a thread that has not yet made its decision about waking the mailbox up *)
Definition fsys_cover (p : fpc) : bool :=
  match p with FAdd _ | FCas | FRCas2 | FPCas | FLoadNum | FLoadSys _ => true | _ => false end.
Definition fuser_cover (p : fpc) : bool :=
  match p with
  | FAdd _ | FCas | FRCas2 | FPCas | FLoadNum | FPLoadPaused _ => true
  | FLoadSys u => 0 <? u
  | _ => false
  end.
(** a thread inside a critical section of queue [sys] (between Lock and Unlock) *)
Definition in_critical (sys : bool) (p : fpc) : bool :=
  match p with FPushAdd b _ | FQPopAdd b _ => Bool.eqb b sys | _ => false end.
(** the ring of Queue/Ring.v that a queue is (len as a natural number) *)
Definition to_ring (q : cq) : ring msg :=
  {| rbuf := qbuf q; rhead := qhead q; rtail := qtail q; rlen := Z.to_nat (qlen q) |}.
