(** General termination of the mailbox machine: every schedule of every population of client threads has
    at most quadratically many effective steps.  Potential-function proof with one ghost bit per thread. *)
From Coq Require Import List NArith ZArith Bool Lia Arith ZifyBool.
From Vivid Require Import Mailbox.MbModel Mailbox.MbSpec Mailbox.MbSpec2 Mailbox.MbInv Mailbox.MbOrder.
Import ListNotations.
Local Open Scope Z_scope.

(** * sums over the thread list *)
Fixpoint sumz (f : pc -> Z) (l : list pc) : Z := match l with [] => 0 | p :: t => f p + sumz f t end.
Lemma sumz_upd f l i p x : nth_error l i = Some p -> sumz f (upd l i x) = sumz f l - f p + f x.
Proof.
  revert i. induction l as [|h t IH]; intros [|j] H; cbn [sumz upd nth_error] in *; try discriminate.
  - inversion H; subst. lia.
  - specialize (IH j H). lia.
Qed.
Lemma sumz_app f l1 l2 : sumz f (l1 ++ l2) = sumz f l1 + sumz f l2.
Proof. induction l1 as [|h t IH]; cbn [sumz app]; lia. Qed.
Lemma sumz_nonneg f l : (forall p, 0 <= f p) -> 0 <= sumz f l.
Proof. intros H. induction l as [|h t IH]; cbn [sumz]; [lia|]. specialize (H h). lia. Qed.

(** * the measure *)
Definition envrem (p : pc) : Z :=
  match p with
  | Start (SPush _ _) => 4 | Start PStore => 2 | Start RCas1 => 3
  | SPush _ _ => 3 | SAdd _ => 2 | SCas => 1 | PStore => 1 | RCas1 => 2 | RCas2 => 1
  | _ => 0
  end.
Definition is_decp (p : pc) : bool := match p with HSysDec _ | HUserDec _ => true | _ => false end.
Definition is_held (p : pc) : bool :=
  match p with HSysDec _ | HSysHandle _ | HUserDec _ | HUserHandle _ => true | _ => false end.
Definition lenz {A} (l : list A) : Z := Z.of_nat (length l).

(** events still to come: client steps (weight 2) and counter decrements of messages already pushed *)
Definition EV (s : st) : Z := 2 * sumz envrem (thr s) + lenz (sq s) + lenz (uq s) + cnt is_decp (thr s).
(** messages pushed and not yet handled *)
Definition GM (s : st) : Z := 8 * (lenz (sq s) + lenz (uq s) + cnt is_held (thr s)).

Definition tenv (p : pc) : Z :=
  match p with
  | Start (SPush _ _) => 12 | SPush _ _ => 11 | Start RCas1 => 3 | Start PStore => 2
  | SAdd _ => 2 | SCas => 1 | PStore => 1 | RCas1 => 2 | RCas2 => 1
  | _ => 0
  end.
Definition tproc (p : pc) : Z :=
  match p with
  | Start _ => 9 | HSysPop => 8 | HLoadPaused => 7 | HUserPop => 6 | PStoreIdle => 5 | PLoadNum => 4
  | PLoadSys _ => 3 | PLoadPaused _ => 2 | PCas => 1
  | HSysDec _ | HUserDec _ => 2 | HSysHandle _ | HUserHandle _ => 1
  | _ => 0
  end.
Definition stalep (sn n : Z) (pa : bool) (p : pc) : bool :=
  match p with
  | PCas => true
  | PLoadPaused _ => negb pa
  | PLoadSys u => (0 <? sn) || ((0 <? u) && negb pa)
  | PLoadNum => (0 <? sn) || ((0 <? n) && negb pa)
  | _ => false
  end.
Definition Wp (e sn n : Z) (pa : bool) (p : pc) (b : bool) : Z :=
  if env_active p then tenv p + 9 + 8 * (e + 1)
  else match p with
       | Done => 0
       | _ => tproc p + 8 * (e + b2z (stalep sn n pa p) + b2z b)
       end.
Definition W (s : st) (p : pc) (b : bool) : Z := Wp (EV s) (sysnum s) (num s) (paused s) p b.

Fixpoint sumW (s : st) (g : nat -> bool) (k : nat) (l : list pc) : Z :=
  match l with [] => 0 | p :: t => W s p (g k) + sumW s g (S k) t end.
Definition Phi (s : st) (g : nat -> bool) : Z := GM s + sumW s g 0 (thr s).

(** ghost: [g i = false] iff no event (client step or counter decrement) has happened since thread i's last
    Store(status, idle) *)
Definition is_event (p : pc) : bool := env_active p || is_decp p.
Definition gnext (i : nat) (s : st) (g : nat -> bool) : nat -> bool :=
  match nth_error (thr s) i with
  | Some p => if is_event p then (fun _ => true)
              else match p with PStoreIdle => (fun k => if Nat.eqb k i then false else g k) | _ => g end
  | None => g
  end.

Lemma envrem_nonneg p : 0 <= envrem p.
Proof. destruct p as [k| | | | | | | | | | | | | | | | | | |]; try destruct k; cbn; lia. Qed.
Lemma lenz_nonneg {A} (l : list A) : 0 <= lenz l.
Proof. unfold lenz. lia. Qed.
Lemma EV_nonneg s : 0 <= EV s.
Proof.
  unfold EV. pose proof (sumz_nonneg envrem (thr s) envrem_nonneg). pose proof (lenz_nonneg (sq s)).
  pose proof (lenz_nonneg (uq s)). pose proof (cnt_nonneg is_decp (thr s)). lia.
Qed.
Lemma tenv_nonneg p : 0 <= tenv p.
Proof. destruct p as [k| | | | | | | | | | | | | | | | | | |]; try destruct k; cbn; lia. Qed.
Lemma tproc_nonneg p : 0 <= tproc p.
Proof. destruct p; cbn; lia. Qed.
Lemma Wp_nonneg e sn n pa p b : 0 <= e -> 0 <= Wp e sn n pa p b.
Proof.
  intros He. unfold Wp. pose proof (tenv_nonneg p). pose proof (tproc_nonneg p).
  assert (0 <= b2z (stalep sn n pa p)) by (unfold b2z; destruct (stalep sn n pa p); lia).
  assert (0 <= b2z b) by (unfold b2z; destruct b; lia).
  destruct (env_active p); [lia|]. destruct p; lia.
Qed.
Lemma sumW_nonneg s g k l : 0 <= sumW s g k l.
Proof.
  revert k. induction l as [|p t IH]; intros k; cbn [sumW]; [lia|].
  pose proof (Wp_nonneg (EV s) (sysnum s) (num s) (paused s) p (g k) (EV_nonneg s)). specialize (IH (S k)). unfold W. lia.
Qed.
Lemma GM_nonneg s : 0 <= GM s.
Proof.
  unfold GM. pose proof (lenz_nonneg (sq s)). pose proof (lenz_nonneg (uq s)). pose proof (cnt_nonneg is_held (thr s)). lia.
Qed.
Lemma Phi_nonneg s g : 0 <= Phi s g.
Proof. unfold Phi. pose proof (GM_nonneg s). pose proof (sumW_nonneg s g 0 (thr s)). lia. Qed.

(** * comparing sums *)
Lemma sumW_upd_le s s' g g' k l i p p' d :
  nth_error l i = Some p ->
  (forall j q, j <> i -> nth_error l j = Some q -> W s' q (g' (k + j)%nat) <= W s q (g (k + j)%nat)) ->
  W s' p' (g' (k + i)%nat) + d <= W s p (g (k + i)%nat) ->
  sumW s' g' k (upd l i p') + d <= sumW s g k l.
Proof.
  revert k i. induction l as [|h t IH]; intros k [|i] Hp Ho Hi; cbn [nth_error upd sumW] in *; try discriminate.
  - inversion Hp; subst. rewrite Nat.add_0_r in Hi.
    assert (sumW s' g' (S k) t <= sumW s g (S k) t); [|lia].
    clear -Ho. revert k Ho. induction t as [|a t IH]; intros k Ho; cbn [sumW]; [lia|].
    pose proof (Ho 1%nat a ltac:(lia) eq_refl) as H1. replace (k + 1)%nat with (S k) in H1 by lia.
    assert (sumW s' g' (S (S k)) t <= sumW s g (S (S k)) t); [|lia].
    apply IH. intros j q Hj Hq. destruct j as [|j]; [congruence|].
    specialize (Ho (S (S j)) q ltac:(lia) Hq). replace (k + S (S j))%nat with (S k + S j)%nat in Ho by lia. exact Ho.
  - pose proof (Ho 0%nat h ltac:(lia) eq_refl) as H0. rewrite Nat.add_0_r in H0.
    assert (sumW s' g' (S k) (upd t i p') + d <= sumW s g (S k) t); [|lia].
    apply (IH (S k) i Hp).
    + intros j q Hj Hq. specialize (Ho (S j) q ltac:(lia) Hq). replace (k + S j)%nat with (S k + j)%nat in Ho by lia. exact Ho.
    + replace (S k + i)%nat with (k + S i)%nat by lia. exact Hi.
Qed.

Lemma sumW_app s g k l1 l2 : sumW s g k (l1 ++ l2) = sumW s g k l1 + sumW s g (k + length l1) l2.
Proof.
  revert k. induction l1 as [|h t IH]; intros k; cbn [sumW app length].
  - rewrite Nat.add_0_r. lia.
  - rewrite IH. replace (S k + length t)%nat with (k + S (length t))%nat by lia. lia.
Qed.

(** * how the weight of the other threads changes *)
Lemma b2z_range b : 0 <= b2z b <= 1.
Proof. destruct b; cbn; lia. Qed.

Lemma W_event2 s s' : EV s' <= EV s - 2 -> forall q b, W s' q true <= W s q b.
Proof.
  intros HE q b. unfold W, Wp.
  pose proof (b2z_range (stalep (sysnum s') (num s') (paused s') q)).
  pose proof (b2z_range (stalep (sysnum s) (num s) (paused s) q)). pose proof (b2z_range b).
  destruct (env_active q); [lia|]. destruct q; cbn [b2z] in *; lia.
Qed.

Lemma stalep_mono sn n pa sn' n' pa' q : sn' <= sn -> n' <= n -> (pa' = pa \/ pa' = true) ->
  b2z (stalep sn' n' pa' q) <= b2z (stalep sn n pa q).
Proof.
  intros H1 H2 H3. destruct q; cbn [stalep b2z]; try lia.
  - destruct (Z.ltb_spec 0 sn'), (Z.ltb_spec 0 sn), (Z.ltb_spec 0 n'), (Z.ltb_spec 0 n), pa, pa'; cbn; try lia;
      destruct H3; congruence.
  - destruct (Z.ltb_spec 0 sn'), (Z.ltb_spec 0 sn), (0 <? u), pa, pa'; cbn; try lia; destruct H3; congruence.
  - destruct pa, pa'; cbn; try lia; destruct H3; congruence.
Qed.

Lemma W_event1 s s' : EV s' <= EV s - 1 -> sysnum s' <= sysnum s -> num s' <= num s ->
  (paused s' = paused s \/ paused s' = true) -> forall q b, W s' q true <= W s q b.
Proof.
  intros HE H1 H2 H3 q b. unfold W, Wp.
  pose proof (stalep_mono _ _ _ _ _ _ q H1 H2 H3). pose proof (b2z_range b).
  destruct (env_active q); [lia|]. destruct q; cbn [b2z] in *; lia.
Qed.

Lemma W_same s s' : EV s' = EV s -> sysnum s' = sysnum s -> num s' = num s -> paused s' = paused s ->
  forall q b, W s' q b = W s q b.
Proof. intros H1 H2 H3 H4 q b. unfold W. rewrite H1, H2, H3, H4. reflexivity. Qed.

Lemma phi_event s s' g i p p' : nth_error (thr s) i = Some p -> thr s' = upd (thr s) i p' ->
  (forall q b, W s' q true <= W s q b) ->
  W s' p' true + (GM s' - GM s) + 1 <= W s p (g i) ->
  Phi s' (fun _ => true) < Phi s g.
Proof.
  intros Hp Ht Ho Hi. unfold Phi. rewrite Ht.
  pose proof (sumW_upd_le s s' g (fun _ => true) 0 (thr s) i p p' (GM s' - GM s + 1) Hp) as H.
  cbn [Nat.add] in H. specialize (H ltac:(intros; apply Ho) ltac:(lia)). lia.
Qed.

Lemma phi_event_spawn s s' g i p p' x : nth_error (thr s) i = Some p -> thr s' = upd (thr s) i p' ++ [x] ->
  (forall q b, W s' q true <= W s q b) ->
  W s' p' true + W s' x true + (GM s' - GM s) + 1 <= W s p (g i) ->
  Phi s' (fun _ => true) < Phi s g.
Proof.
  intros Hp Ht Ho Hi. unfold Phi. rewrite Ht, sumW_app. cbn [sumW].
  pose proof (sumW_upd_le s s' g (fun _ => true) 0 (thr s) i p p' (W s' x true + (GM s' - GM s) + 1) Hp) as H.
  cbn [Nat.add] in H. specialize (H ltac:(intros; apply Ho) ltac:(lia)). lia.
Qed.

Lemma phi_quiet s s' g g' i p p' : nth_error (thr s) i = Some p -> thr s' = upd (thr s) i p' ->
  (forall q b, W s' q b = W s q b) -> (forall j, j <> i -> g' j = g j) ->
  W s' p' (g' i) + (GM s' - GM s) + 1 <= W s p (g i) ->
  Phi s' g' < Phi s g.
Proof.
  intros Hp Ht Ho Hg Hi. unfold Phi. rewrite Ht.
  pose proof (sumW_upd_le s s' g g' 0 (thr s) i p p' (GM s' - GM s + 1) Hp) as H.
  cbn [Nat.add] in H.
  specialize (H ltac:(intros j q Hj _; rewrite (Hg j Hj), Ho; lia) ltac:(lia)). lia.
Qed.

Ltac evs Hp :=
  unfold W, Wp, EV, GM, lenz in *; cbn [thr set_thr sq uq sysnum num paused status log];
  rewrite ?sumz_app, ?cnt_app, ?(sumz_upd _ _ _ _ _ Hp), ?(cnt_upd _ _ _ _ _ Hp), ?app_length;
  cbn [sumz cnt envrem is_decp is_held env_active env_pc tenv tproc stalep b2z length];
  repeat match goal with H : _ = _ :> list _ |- _ => rewrite H in * end; cbn [length].

(** * every step decreases the measure *)
Lemma phi_step i s s' g : Inv s -> (nth_error (thr s) i = Some PStoreIdle -> g i = true) ->
  step i s = Some s' -> Phi s' (gnext i s g) < Phi s g.
Proof.
  intros HI HK Hs. destruct HI as [Hwf Ho Hn Hy _ _].
  pose proof (dec_le_owner true (thr s)) as Hdo1.
  pose proof (dec_le_owner false (thr s)) as Hdo2.
  pose proof (cnt_nonneg (at_dec true) (thr s)) as Hd1.
  pose proof (cnt_nonneg (at_dec false) (thr s)) as Hd2.
  pose proof (cnt_nonneg (at_sadd true) (thr s)) as Ha1.
  pose proof (cnt_nonneg (at_sadd false) (thr s)) as Ha2.
  pose proof (EV_nonneg s) as HEV.
  step_cases Hs Hp.
  1: pose proof (cnt_pos bad_pc _ _ _ Hp) as Hbp;
     destruct k; cbn [bad_pc] in Hbp; try (specialize (Hbp eq_refl); lia); clear Hbp.
  all: unfold gnext; rewrite Hp; cbn [is_event env_active env_pc is_decp orb].
  all: try (rewrite (HK eq_refl) in *).
  all: first
    [ eapply (phi_event_spawn _ _ _ _ _ _ _ Hp); [reflexivity | apply W_event2 | ]
    | eapply (phi_event _ _ _ _ _ _ Hp);
      [reflexivity
      | first [ apply W_event2; evs Hp; lia
              | apply W_event1; [evs Hp; lia | cbn [set_thr sysnum]; lia | cbn [set_thr num]; lia
                                | cbn [set_thr paused]; auto ] ]
      | ]
    | eapply (phi_quiet _ _ _ _ _ _ _ Hp);
      [reflexivity | apply W_same; [evs Hp; lia | reflexivity ..]
      | intros j Hj; try reflexivity; rewrite (proj2 (Nat.eqb_neq j i) Hj); reflexivity | ] ].
  all: evs Hp; rewrite ?Nat.eqb_refl; try lia.
  all: destruct (g i); cbn [b2z]; try lia; try discriminate (HK eq_refl).
  all: repeat match goal with
       | |- context [0 <? ?x] => destruct (Z.ltb_spec 0 x)
       end; destruct (paused s); cbn [negb andb orb b2z] in *; lia.
Qed.

(** * the ghost invariant: a thread with no event since its last store still has the reason of its
      wake-up decision in front of it *)
Definition Kc (s : st) (p : pc) : Prop :=
  match p with
  | PStoreIdle | HSysHandle _ | HUserHandle _ | Start HSysPop => False
  | HSysPop => 1 <= lenz (sq s) \/ (1 <= lenz (uq s) /\ paused s = false)
  | HLoadPaused => 1 <= lenz (uq s) /\ paused s = false
  | HUserPop => 1 <= lenz (uq s)
  | PLoadSys u => 0 < u -> 1 <= lenz (uq s) + cnt (at_dec false) (thr s)
  | PLoadPaused u => 1 <= lenz (uq s) + cnt (at_dec false) (thr s)
  | PCas => 1 <= lenz (sq s) + cnt (at_dec true) (thr s) \/
            (1 <= lenz (uq s) + cnt (at_dec false) (thr s) /\ paused s = false)
  | _ => True
  end.
Definition K (s : st) (g : nat -> bool) : Prop :=
  forall i p, nth_error (thr s) i = Some p -> g i = false -> Kc s p.

Lemma K_step j s s' g : Inv s -> K s g -> step j s = Some s' -> K s' (gnext j s g).
Proof.
  intros HI HK Hs i p' Hi' Hg'. destruct HI as [Hwf Ho Hn Hy _ _].
  pose proof (dec_le_owner true (thr s)) as Hdo1.
  pose proof (dec_le_owner false (thr s)) as Hdo2.
  pose proof (cnt_nonneg (at_dec true) (thr s)) as Hd1.
  pose proof (cnt_nonneg (at_dec false) (thr s)) as Hd2.
  pose proof (cnt_nonneg (at_sadd true) (thr s)) as Ha1.
  pose proof (cnt_nonneg (at_sadd false) (thr s)) as Ha2.
  assert (Hb : 0 <= b2z (status s) <= 1) by apply b2z_range.
  step_cases Hs Hp.
  1: pose proof (cnt_pos bad_pc _ _ _ Hp) as Hbp;
     destruct k; cbn [bad_pc] in Hbp; try (specialize (Hbp eq_refl); lia); clear Hbp.
  all: unfold gnext in Hg'; rewrite Hp in Hg'; cbn [is_event env_active env_pc is_decp orb] in Hg'; try discriminate Hg'.
  all: cbn [thr set_thr] in Hi'; destruct (Nat.eq_dec i j) as [->|Hij].
  all: try (rewrite (nth_error_upd_eq _ _ _ _ Hp) in Hi'; inversion Hi'; subst p'; clear Hi').
  all: try (rewrite (nth_error_upd_ne _ _ _ _ Hij) in Hi'; rewrite ?(proj2 (Nat.eqb_neq i j) Hij) in Hg').
  all: try (pose proof (HK i p' Hi' Hg') as Hk;
            pose proof (fun H1 H2 => cnt_two owner_pc _ _ _ _ _ Hij Hi' Hp H1 H2) as Hex;
            destruct p'; cbn [Kc owner_pc] in Hk, Hex |- *; try exact I; try (destruct Hk; fail);
            try (specialize (Hex eq_refl eq_refl))).
  all: try (pose proof (HK j _ Hp Hg') as Hk; cbn [Kc] in Hk).
  all: cbn [Kc]; unfold lenz in *; cbn [thr set_thr sq uq paused sysnum num] in *;
       rewrite ?(cnt_upd _ _ _ _ _ Hp); cbn [at_dec b2z negb];
       repeat match goal with H : _ = _ :> list _ |- _ => rewrite H in * end; cbn [length] in *;
       try exact I; try (exfalso; exact Hk); try exact Hk; try lia.
  cbn [b2z] in *. destruct Hk as [Hk|[Hk Hk2]]; [left|right; split; [|exact Hk2]]; lia.
Qed.

(** * the bound *)
Lemma K_store s g i : K s g -> nth_error (thr s) i = Some PStoreIdle -> g i = true.
Proof.
  intros HK Hp. destruct (g i) eqn:E; [reflexivity|]. destruct (HK i _ Hp E).
Qed.

Lemma steps_le_phi sched s g : Inv s -> K s g -> Z.of_nat (effective_steps sched s) <= Phi s g.
Proof.
  unfold effective_steps. revert s g. induction sched as [|i r IH]; intros s g HI HK; cbn [run_trace length].
  - apply Phi_nonneg.
  - destruct (nth_error (thr s) i) as [p|] eqn:Hp; [|exact (IH s g HI HK)].
    destruct (step i s) as [s'|] eqn:Hs; [|exact (IH s g HI HK)].
    pose proof (phi_step i s s' g HI (K_store s g i HK) Hs) as Hlt.
    specialize (IH s' (gnext i s g) (step_inv _ _ _ HI Hs) (K_step _ _ _ _ HI HK Hs)). cbn [length]. lia.
Qed.

Lemma K_init s : K s (fun _ => true).
Proof. intros i p _ H. discriminate H. Qed.

Lemma sumW_init_bound s g k ths : forallb env_pc ths = true ->
  sumW s g k (map Start ths) <= Z.of_nat (length ths) * (29 + 8 * EV s).
Proof.
  revert k. induction ths as [|q t IH]; intros k H; cbn [forallb map sumW length]; [lia|].
  apply andb_true_iff in H as [Hq Ht]. specialize (IH (S k) Ht).
  assert (W s (Start q) (g k) <= 29 + 8 * EV s); [|lia].
  unfold W, Wp. cbn [env_active]. rewrite Hq. destruct q; cbn in Hq; try discriminate Hq; cbn [tenv]; lia.
Qed.

Lemma EV_init ths : forallb env_pc ths = true -> EV (init ths) <= 8 * Z.of_nat (length ths).
Proof.
  intros H. unfold EV, lenz. cbn [init thr sq uq length].
  assert (A : sumz envrem (map Start ths) <= 4 * Z.of_nat (length ths)).
  { induction ths as [|q t IH]; cbn [forallb map sumz length] in *; [lia|].
    apply andb_true_iff in H as [Hq Ht]. specialize (IH Ht).
    destruct q; cbn in Hq; try discriminate Hq; cbn [envrem]; lia. }
  assert (B : cnt is_decp (map Start ths) = 0) by (clear; induction ths as [|q t IH]; cbn [map cnt is_decp b2z]; lia).
  lia.
Qed.

Theorem termination ths sched : forallb env_pc ths = true ->
  (effective_steps sched (init ths) <= 64 * (length ths + 1) * (length ths + 1))%nat.
Proof.
  intros He.
  pose proof (steps_le_phi sched (init ths) (fun _ => true) (init_inv _ He) (K_init _)) as H.
  unfold Phi in H. pose proof (sumW_init_bound (init ths) (fun _ => true) 0 ths He) as H1.
  pose proof (EV_init ths He) as H2. pose proof (EV_nonneg (init ths)) as H3.
  assert (HG : GM (init ths) = 0).
  { unfold GM, lenz. cbn [init thr sq uq length].
    assert (B : cnt is_held (map Start ths) = 0) by (clear; induction ths as [|q t IH]; cbn [map cnt is_held b2z]; lia).
    lia. }
  cbn [init thr] in H. cbn [init thr] in H1. nia.
Qed.


(** * every execution can be completed, and a completed execution is terminal *)
Lemma non_done_steps s i p : nth_error (thr s) i = Some p -> p <> Done -> exists s', step i s = Some s'.
Proof.
  intros Hp Hd. unfold step. rewrite Hp.
  destruct p as [k|sys m|sys| | | | | |m|m| | |m|m| | |u|u| | ]; try congruence; try destruct sys; cbv zeta;
    repeat match goal with
    | |- exists _, (if ?b then _ else _) = Some _ => destruct b
    | |- exists _, match ?l with [] => _ | _ :: _ => _ end = Some _ => destruct l
    end; eexists; reflexivity.
Qed.

Lemma done_or_not (l : list pc) :
  (forall i p, nth_error l i = Some p -> p = Done) \/ (exists i p, nth_error l i = Some p /\ p <> Done).
Proof.
  induction l as [|h t IH].
  - left. intros [|i] p H; discriminate H.
  - assert (Hh : h = Done \/ h <> Done) by (destruct h; (left; reflexivity) || (right; discriminate)).
    destruct Hh as [->|Hh].
    + destruct IH as [IH|(i & p & Hi & Hp)].
      * left. intros [|i] p H; [inversion H; reflexivity|exact (IH i p H)].
      * right. exists (S i), p. split; assumption.
    + right. exists 0%nat, h. split; [reflexivity|exact Hh].
Qed.

Lemma all_done_terminal s : (forall i p, nth_error (thr s) i = Some p -> p = Done) -> terminal s.
Proof.
  intros H i. unfold step. destruct (nth_error (thr s) i) as [p|] eqn:Hp; [|reflexivity].
  rewrite (H i p Hp). reflexivity.
Qed.

Lemma can_finish_aux n : forall s g, Inv s -> K s g -> Phi s g <= Z.of_nat n ->
  exists sched, terminal (run sched s).
Proof.
  induction n as [|n IH]; intros s g HI HK Hn.
  - destruct (done_or_not (thr s)) as [D|(i & p & Hi & Hp)]; [exists []; apply all_done_terminal, D|].
    destruct (non_done_steps s i p Hi Hp) as (s' & Hs).
    pose proof (phi_step i s s' g HI (K_store s g i HK) Hs). pose proof (Phi_nonneg s' (gnext i s g)). lia.
  - destruct (done_or_not (thr s)) as [D|(i & p & Hi & Hp)]; [exists []; apply all_done_terminal, D|].
    destruct (non_done_steps s i p Hi Hp) as (s' & Hs).
    pose proof (phi_step i s s' g HI (K_store s g i HK) Hs) as Hlt.
    destruct (IH s' (gnext i s g) (step_inv _ _ _ HI Hs) (K_step _ _ _ _ HI HK Hs) ltac:(lia)) as (sched & Ht).
    exists (i :: sched). rewrite run_cons. unfold step_or_stay. rewrite Hs. exact Ht.
Qed.

Lemma run_K sched : forall s g, Inv s -> K s g -> exists g', K (run sched s) g'.
Proof.
  induction sched as [|i r IH]; intros s g HI HK; [exists g; exact HK|].
  rewrite run_cons. unfold step_or_stay. destruct (step i s) as [s'|] eqn:Hs; [|exact (IH s g HI HK)].
  exact (IH s' (gnext i s g) (step_inv _ _ _ HI Hs) (K_step _ _ _ _ HI HK Hs)).
Qed.

Theorem can_finish s : reachable s -> exists sched, terminal (run sched s).
Proof.
  intros (ths & sched & He & <-).
  destruct (run_K sched _ _ (init_inv _ He) (K_init _)) as (g & HK).
  pose proof (run_inv sched _ (init_inv _ He)) as HI.
  apply (can_finish_aux (Z.to_nat (Phi (run sched (init ths)) g)) _ g HI HK).
  pose proof (Phi_nonneg (run sched (init ths)) g). lia.
Qed.

Lemma reachable_continue s sched : reachable s -> reachable (run sched s).
Proof.
  intros (ths & sched0 & He & <-). exists ths, (sched0 ++ sched). split; [exact He|].
  unfold run. apply fold_left_app.
Qed.
