(** Operation classes: WHAT a step does - the kind of synchronisation operation and the field / object it acts on -
    independent of the function it is written in and of the receiver's name.  The lock-step replay compares, per step,
    the class the model computes from the stepping thread's pc ([class_of_pc], many pcs -> one class) with the class
    the harness computes from the instrumenter's label "<enclosing function>:<callee>:<operand>" after dropping the
    function and the receiver variable ([class_name] is that string); the per-step state comparison keeps the check
    tight.  A refactoring that moves an operation into a helper function therefore changes nothing; an operation on a
    different field, of a different kind, or in a different order does. *)
From Coq Require Import List String NArith ZArith Bool.
From Vivid Require Import Mailbox.MbModel Mailbox.MbFine.
Import ListNotations.
Local Open Scope string_scope.

Inductive opclass : Type :=
| KStart            (* first step of a goroutine: `go m.process()` / a client goroutine *)
| KLock             (* q.lock.Lock() *)
| KAddLen           (* atomic.AddInt64(&q.len, +-1) *)
| KLoadLen          (* atomic.LoadInt64(&q.len) *)
| KAddSysNum        (* atomic.AddInt32(&m.systemNum, +-1) *)
| KAddNum           (* atomic.AddInt32(&m.num, +-1) *)
| KCasStatus        (* atomic.CompareAndSwapUint32(&m.status, ..) *)
| KStoreStatus      (* atomic.StoreUint32(&m.status, ..) *)
| KStorePaused      (* atomic.StoreUint32(&m.paused, ..) *)
| KCasPaused        (* atomic.CompareAndSwapUint32(&m.paused, ..) *)
| KLoadPaused       (* atomic.LoadUint32(&m.paused) *)
| KLoadNum          (* atomic.LoadInt32(&m.num) *)
| KLoadSysNum       (* atomic.LoadInt32(&m.systemNum) *)
| KHandle           (* m.handler.HandleEnvelop(..) *)
| KPushSys          (* m.systemBuffer.Push(..)   - a step only where the queue is atomic (MbModel.v) *)
| KPushUser         (* m.buffer.Push(..) *)
| KPopSys           (* m.systemBuffer.Pop() *)
| KPopUser          (* m.buffer.Pop() *)
| KNone.

Definition class_name (c : opclass) : string :=
  match c with
  | KStart => "go:process"
  | KLock => "Lock:lock"
  | KAddLen => "atomic.AddInt64:len"
  | KLoadLen => "atomic.LoadInt64:len"
  | KAddSysNum => "atomic.AddInt32:systemNum"
  | KAddNum => "atomic.AddInt32:num"
  | KCasStatus => "atomic.CompareAndSwapUint32:status"
  | KStoreStatus => "atomic.StoreUint32:status"
  | KStorePaused => "atomic.StoreUint32:paused"
  | KCasPaused => "atomic.CompareAndSwapUint32:paused"
  | KLoadPaused => "atomic.LoadUint32:paused"
  | KLoadNum => "atomic.LoadInt32:num"
  | KLoadSysNum => "atomic.LoadInt32:systemNum"
  | KHandle => "call:handler.HandleEnvelop"
  | KPushSys => "call:systemBuffer.Push"
  | KPushUser => "call:buffer.Push"
  | KPopSys => "call:systemBuffer.Pop"
  | KPopUser => "call:buffer.Pop"
  | KNone => ""
  end.

(** the number that crosses the model / harness boundary *)
Definition class_code (c : opclass) : N :=
  match c with
  | KStart => 1 | KPushSys => 2 | KPushUser => 3 | KAddSysNum => 4 | KAddNum => 5 | KCasStatus => 6
  | KStorePaused => 7 | KCasPaused => 8 | KPopSys => 9 | KHandle => 11 | KLoadPaused => 12 | KPopUser => 13
  | KStoreStatus => 15 | KLoadNum => 16 | KLoadSysNum => 17
  | KLock => 20 | KAddLen => 21 | KLoadLen => 22 | KNone => 0
  end%N.

(** Mailbox/MbModel.v *)
Definition class_of_pc (p : pc) : opclass :=
  match p with
  | Start _ => KStart
  | SPush true _ => KPushSys | SPush false _ => KPushUser
  | SAdd true => KAddSysNum | SAdd false => KAddNum
  | SCas | RCas2 | PCas => KCasStatus
  | PStore => KStorePaused
  | RCas1 => KCasPaused
  | HSysPop => KPopSys
  | HSysDec _ => KAddSysNum
  | HSysHandle _ | HUserHandle _ => KHandle
  | HLoadPaused | PLoadPaused _ => KLoadPaused
  | HUserPop => KPopUser
  | HUserDec _ => KAddNum
  | PStoreIdle => KStoreStatus
  | PLoadNum => KLoadNum
  | PLoadSys _ => KLoadSysNum
  | Done => KNone
  end.

(** Mailbox/MbFine.v *)
Definition class_of_fpc (p : fpc) : opclass :=
  match p with
  | FStart _ => KStart
  | FPushLock _ _ | FQLock _ => KLock
  | FPushAdd _ _ | FQPopAdd _ _ => KAddLen
  | FQLoad _ => KLoadLen
  | FAdd true | FDec true _ => KAddSysNum
  | FAdd false | FDec false _ => KAddNum
  | FCas | FRCas2 | FPCas => KCasStatus
  | FPStore => KStorePaused
  | FRCas1 => KCasPaused
  | FHandle _ _ => KHandle
  | FLoadPaused | FPLoadPaused _ => KLoadPaused
  | FStoreIdle => KStoreStatus
  | FLoadNum => KLoadNum
  | FLoadSys _ => KLoadSysNum
  | FDone | FCrash => KNone
  end.
