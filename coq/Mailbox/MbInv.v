(** Safety invariants of the mailbox micro-step machine (Mailbox/MbModel.v), for every population of
    environment threads and every schedule: well-formedness, single consumer, counter lemmas,
    wake-up cover, message accounting. *)
From Coq Require Import List NArith ZArith Bool Lia Permutation Arith.
From Vivid Require Import Mailbox.MbModel Mailbox.MbSpec Mailbox.MbSpec2.
Import ListNotations.
Local Open Scope Z_scope.

(** * counting threads *)
Definition b2z (b : bool) : Z := if b then 1 else 0.
Fixpoint cnt (P : pc -> bool) (l : list pc) : Z :=
  match l with [] => 0 | h :: t => b2z (P h) + cnt P t end.

Lemma cnt_filter P l : cnt P l = Z.of_nat (length (filter P l)).
Proof.
  induction l as [|h t IH]; cbn [cnt filter length]; [reflexivity|].
  destruct (P h); cbn [b2z length]; lia.
Qed.

Lemma cnt_count P s : cnt P (thr s) = count P s.
Proof. apply cnt_filter. Qed.

Lemma cnt_upd P i x l old : nth_error l i = Some old ->
  cnt P (upd l i x) = cnt P l - b2z (P old) + b2z (P x).
Proof.
  revert i. induction l as [|h t IH]; intros [|j] H; cbn [cnt upd nth_error] in *; try discriminate.
  - inversion H; subst. lia.
  - specialize (IH j H). lia.
Qed.

Lemma cnt_app P l1 l2 : cnt P (l1 ++ l2) = cnt P l1 + cnt P l2.
Proof. induction l1 as [|h t IH]; cbn [cnt app]; lia. Qed.

Lemma cnt_nonneg P l : 0 <= cnt P l.
Proof. induction l as [|h t IH]; cbn [cnt]; [lia|]. unfold b2z; destruct (P h); lia. Qed.

Lemma cnt_pos P l p i : nth_error l i = Some p -> P p = true -> 1 <= cnt P l.
Proof.
  revert i. induction l as [|h t IH]; intros [|j] H Hp; cbn [cnt nth_error] in *; try discriminate.
  - inversion H; subst. rewrite Hp. pose proof (cnt_nonneg P t). unfold b2z. lia.
  - specialize (IH j H Hp). unfold b2z; destruct (P h); lia.
Qed.

Lemma cnt_two P l i j p q : i <> j -> nth_error l i = Some p -> nth_error l j = Some q ->
  P p = true -> P q = true -> 2 <= cnt P l.
Proof.
  revert i j. induction l as [|h t IH]; intros [|i] [|j] Hij Hi Hj Hp Hq; cbn [cnt nth_error] in *;
    try discriminate; try congruence.
  - inversion Hi; subst. rewrite Hp. pose proof (cnt_pos P t q j Hj Hq). unfold b2z; lia.
  - inversion Hj; subst. rewrite Hq. pose proof (cnt_pos P t p i Hi Hp). unfold b2z; lia.
  - assert (i <> j) by congruence. specialize (IH i j H Hi Hj Hp Hq). unfold b2z; destruct (P h); lia.
Qed.

Lemma cnt_le (P Q : pc -> bool) l : (forall p, P p = true -> Q p = true) -> cnt P l <= cnt Q l.
Proof.
  intros H. induction l as [|h t IH]; cbn [cnt]; [lia|].
  specialize (H h). unfold b2z. destruct (P h), (Q h); try lia; discriminate (H eq_refl).
Qed.

Lemma cnt_zero_all P l : cnt P l = 0 -> forall p, In p l -> P p = false.
Proof.
  induction l as [|h t IH]; intros H p Hin; [destruct Hin|].
  cbn [cnt] in H. pose proof (cnt_nonneg P t). destruct Hin as [->|Hin].
  - unfold b2z in H. destruct (P p); [lia|reflexivity].
  - apply IH; [|exact Hin]. unfold b2z in H. destruct (P h); lia.
Qed.

Lemma cnt_exists P l : 1 <= cnt P l -> exists i p, nth_error l i = Some p /\ P p = true.
Proof.
  induction l as [|h t IH]; cbn [cnt]; intros H; [lia|].
  destruct (P h) eqn:E.
  - exists 0%nat, h. split; [reflexivity|exact E].
  - cbn [b2z] in H. destruct IH as (i & p & Hi & Hp); [lia|]. exists (S i), p. split; assumption.
Qed.

(** * predicates *)
Definition bad_pc (p : pc) : bool :=
  match p with
  | Start (SPush _ _) | Start PStore | Start RCas1 | Start HSysPop => false
  | Start _ => true
  | _ => false
  end.
Definition is_sadd (sys : bool) := at_sadd sys.
Definition is_dec (sys : bool) := at_dec sys.

(** * the invariant *)
Record Inv (s : st) : Prop := {
  i_wf : cnt bad_pc (thr s) = 0;
  i_own : cnt owner_pc (thr s) = b2z (status s);
  i_num : num s = Z.of_nat (length (uq s)) - cnt (at_sadd false) (thr s) + cnt (at_dec false) (thr s);
  i_sys : sysnum s = Z.of_nat (length (sq s)) - cnt (at_sadd true) (thr s) + cnt (at_dec true) (thr s);
  i_ws : status s = false -> sq s <> [] -> 1 <= cnt sys_cover (thr s);
  i_wu : status s = false -> uq s <> [] -> paused s = false -> 1 <= cnt user_cover (thr s)
}.

Lemma dec_le_owner b l : cnt (at_dec b) l <= cnt owner_pc l.
Proof. apply cnt_le. intros p. destruct p, b; cbn; congruence. Qed.

Lemma saddT_le_scover l : cnt (at_sadd true) l <= cnt sys_cover l.
Proof. apply cnt_le. intros p. destruct p; cbn; congruence. Qed.
Lemma saddF_le_ucover l : cnt (at_sadd false) l <= cnt user_cover l.
Proof. apply cnt_le. intros p. destruct p; cbn; congruence. Qed.

Definition is_ploadsys p := match p with PLoadSys _ => true | _ => false end.
Definition is_ploadnum p := match p with PLoadNum => true | _ => false end.
Lemma saddT_ploadsys_le_scover l : cnt (at_sadd true) l + cnt is_ploadsys l <= cnt sys_cover l.
Proof.
  induction l as [|h t IH]; cbn [cnt]; [lia|].
  destruct h as [k|b m|b| | | | | |m|m| | |m|m| | |u|u| | ]; try destruct b; cbn [at_sadd is_ploadsys sys_cover b2z Bool.eqb]; lia.
Qed.
Lemma saddF_ploadnum_le_ucover l : cnt (at_sadd false) l + cnt is_ploadnum l <= cnt user_cover l.
Proof.
  induction l as [|h t IH]; cbn [cnt]; [lia|].
  destruct h as [k|b m|b| | | | | |m|m| | |m|m| | |u|u| | ]; try destruct b; cbn [at_sadd is_ploadnum user_cover b2z Bool.eqb]; try lia.
  unfold b2z; destruct (0 <? u); lia.
Qed.

(** * step inversion *)
Ltac step_cases Hs Hp :=
  unfold step in Hs;
  match type of Hs with context [nth_error ?l ?i] =>
    let p := fresh "p" in destruct (nth_error l i) as [p|] eqn:Hp; [|discriminate Hs];
    destruct p as [k|sys m|sys| | | | | |m|m| | |m|m| | |u|u| | ];
    try destruct sys; cbv zeta in Hs; cbn [set_thr status paused num sysnum sq uq log thr] in Hs;
    repeat match type of Hs with
    | (if ?b then _ else _) = Some _ => let E := fresh "E" in destruct b eqn:E
    | match ?l with [] => _ | _ :: _ => _ end = Some _ => let E := fresh "E" in destruct l eqn:E
    end;
    try discriminate Hs;
    inversion Hs; subst; clear Hs
  end.

Lemma length_pos_Z {A} (l : list A) : l <> [] -> 1 <= Z.of_nat (length l).
Proof. destruct l; [congruence|cbn [length]; lia]. Qed.

Lemma step_wf i s s' : cnt bad_pc (thr s) = 0 -> step i s = Some s' -> cnt bad_pc (thr s') = 0.
Proof.
  intros Hw Hs. step_cases Hs Hp;
  cbn [thr set_thr]; rewrite ?cnt_app, (cnt_upd _ _ _ _ _ Hp); cbn [cnt bad_pc b2z]; try lia.
  pose proof (cnt_pos bad_pc _ _ _ Hp) as Hb.
  destruct k; cbn [bad_pc b2z] in *; try lia; specialize (Hb eq_refl); lia.
Qed.

Theorem step_inv i s s' : Inv s -> step i s = Some s' -> Inv s'.
Proof.
  intros [Hwf Ho Hn Hy Hws Hwu] Hs.
  pose proof (step_wf _ _ _ Hwf Hs) as Hwf'.
  pose proof (dec_le_owner true (thr s)) as Hdo1.
  pose proof (dec_le_owner false (thr s)) as Hdo2.
  pose proof (cnt_nonneg (at_dec true) (thr s)) as Hd1.
  pose proof (cnt_nonneg (at_dec false) (thr s)) as Hd2.
  pose proof (cnt_nonneg (at_sadd true) (thr s)) as Ha1.
  pose proof (cnt_nonneg (at_sadd false) (thr s)) as Ha2.
  pose proof (saddT_ploadsys_le_scover (thr s)) as Hc1.
  pose proof (saddF_ploadnum_le_ucover (thr s)) as Hc2.
  pose proof (cnt_nonneg is_ploadsys (thr s)) as Hn1.
  pose proof (cnt_nonneg is_ploadnum (thr s)) as Hn2.
  step_cases Hs Hp.
  all: pose proof (cnt_pos owner_pc _ _ _ Hp) as Hop;
       pose proof (cnt_pos sys_cover _ _ _ Hp) as Hsp;
       pose proof (cnt_pos user_cover _ _ _ Hp) as Hup;
       pose proof (cnt_pos bad_pc _ _ _ Hp) as Hbp;
       pose proof (cnt_pos is_ploadsys _ _ _ Hp) as Hlp;
       pose proof (cnt_pos is_ploadnum _ _ _ Hp) as Hmp.
  1: destruct k; cbn [bad_pc] in Hbp; try (specialize (Hbp eq_refl); lia).
  all: split; [exact Hwf' | | | | | ];
       cbn [thr set_thr status paused num sysnum sq uq log];
       rewrite ?cnt_app, !(cnt_upd _ _ _ _ _ Hp);
       cbn [cnt owner_pc at_sadd at_dec sys_cover user_cover is_ploadsys is_ploadnum b2z Bool.eqb negb] in *;
       rewrite ?app_length; cbn [length];
       match goal with
       | |- _ -> _ -> _ -> _ <= _ => intros Hst Hq Hpa
       | |- _ -> _ -> _ <= _ => intros Hst Hq
       | _ => idtac
       end.
  all: try discriminate.
  all: pose proof (cnt_nonneg sys_cover (thr s)) as Hsn; pose proof (cnt_nonneg user_cover (thr s)) as Hun.
  all: repeat match goal with
       | H : true = true -> _ |- _ => specialize (H eq_refl)
       | H : false = true -> _ |- _ => clear H
       end.
  all: try (pose proof (Hws Hst Hq) as Hws'); try (pose proof (Hwu Hst Hq Hpa) as Hwu'); try (pose proof (Hwu Hst Hq eq_refl) as Hwu');
       try (pose proof (length_pos_Z _ Hq) as Hlen).
  all: repeat match goal with
       | |- context [0 <? ?x] => destruct (Z.ltb_spec 0 x)
       | H : context [0 <? ?x] |- _ => destruct (Z.ltb_spec 0 x)
       end.
  all: try discriminate.
  all: rewrite ?Ho in *; unfold b2z in *; destruct (status s) eqn:Est; try discriminate;
       repeat match goal with H : _ = _ :> list _ |- _ => rewrite H in * end; cbn [length] in *; try lia; congruence.
Qed.

(** * initial states and runs *)
Lemma cnt_map_Start_env P ths :
  (forall k, env_pc k = true -> P (Start k) = false) ->
  forallb env_pc ths = true -> cnt P (map Start ths) = 0.
Proof.
  intros HP. induction ths as [|k t IH]; cbn [forallb map cnt]; intros H; [reflexivity|].
  apply andb_true_iff in H as [Hk Ht]. rewrite (HP k Hk), (IH Ht). reflexivity.
Qed.

Lemma init_inv ths : forallb env_pc ths = true -> Inv (init ths).
Proof.
  intros H. split; cbn [init thr status num sysnum sq uq paused length b2z].
  - apply cnt_map_Start_env; [|exact H]. intros k Hk. destruct k; cbn in *; congruence.
  - apply cnt_map_Start_env; [|exact H]. intros k Hk. destruct k; cbn in *; congruence.
  - rewrite !cnt_map_Start_env; try exact H; try reflexivity; intros k Hk; destruct k; reflexivity.
  - rewrite !cnt_map_Start_env; try exact H; try reflexivity; intros k Hk; destruct k; reflexivity.
  - congruence.
  - congruence.
Qed.

Lemma step_or_stay_inv s i : Inv s -> Inv (step_or_stay s i).
Proof.
  intros H. unfold step_or_stay. destruct (step i s) eqn:E; [|exact H]. exact (step_inv _ _ _ H E).
Qed.

Lemma run_inv sched s : Inv s -> Inv (run sched s).
Proof.
  revert s. induction sched as [|i r IH]; intros s H; cbn [run fold_left]; [exact H|].
  apply IH. apply step_or_stay_inv. exact H.
Qed.

Lemma reachable_inv s : reachable s -> Inv s.
Proof. intros (ths & sched & He & <-). apply run_inv, init_inv, He. Qed.

(** * C01.1 single consumer *)
Lemma single_consumer s : reachable s -> count_owner s = (if status s then 1 else 0)%nat.
Proof.
  intros H. pose proof (i_own _ (reachable_inv _ H)) as Ho. rewrite cnt_filter in Ho.
  unfold count_owner. unfold b2z in Ho. destruct (status s); lia.
Qed.

Lemma owners_exclusive s i j p q : reachable s -> i <> j ->
  nth_error (thr s) i = Some p -> nth_error (thr s) j = Some q ->
  owner_pc p = true -> owner_pc q = true -> False.
Proof.
  intros H Hij Hi Hj Hp Hq. pose proof (i_own _ (reachable_inv _ H)) as Ho.
  pose proof (cnt_two owner_pc _ _ _ _ _ Hij Hi Hj Hp Hq). unfold b2z in Ho. destruct (status s); lia.
Qed.

Lemma handling_is_owner p : handling_pc p = true -> owner_pc p = true.
Proof. destruct p; cbn; congruence. Qed.

Lemma handlers_exclusive s i j p q : reachable s -> i <> j ->
  nth_error (thr s) i = Some p -> nth_error (thr s) j = Some q ->
  handling_pc p = true -> handling_pc q = true -> False.
Proof.
  intros H Hij Hi Hj Hp Hq.
  exact (owners_exclusive s i j p q H Hij Hi Hj (handling_is_owner _ Hp) (handling_is_owner _ Hq)).
Qed.

(** a handler invocation = the interval between a thread's Handle step and its next step; during that
    interval the thread stays at an owner pc (HSysPop), so by [owners_exclusive] no other thread is at
    any owner pc, in particular none can perform a Handle step *)
Lemma after_handle_owner i s s' p : nth_error (thr s) i = Some p -> handling_pc p = true ->
  step i s = Some s' -> nth_error (thr s') i = Some HSysPop.
Proof.
  intros Hp Hh Hs. unfold step in Hs. rewrite Hp in Hs.
  assert (U : forall l x, nth_error l i = Some p -> nth_error (upd l i x) i = Some x).
  { clear. intros l. revert i. induction l as [|h t IH]; intros [|i] x H; cbn in *; try discriminate; auto. }
  destruct p; try discriminate Hh; inversion Hs; cbn [thr set_thr]; apply U; exact Hp.
Qed.

(** * C01.3 counters *)
Lemma counters s : reachable s ->
  num s = Z.of_nat (length (uq s)) - count (at_sadd false) s + count (at_dec false) s /\
  sysnum s = Z.of_nat (length (sq s)) - count (at_sadd true) s + count (at_dec true) s.
Proof.
  intros H. pose proof (reachable_inv _ H) as [_ _ Hn Hy _ _]. rewrite <- !cnt_count. split; assumption.
Qed.

(** * C01.4 no lost wake-up *)
Lemma no_lost_wakeup s : reachable s -> status s = false ->
  (sq s <> [] -> exists i p, nth_error (thr s) i = Some p /\ sys_cover p = true) /\
  (uq s <> [] -> paused s = false -> exists i p, nth_error (thr s) i = Some p /\ user_cover p = true).
Proof.
  intros H Hst. pose proof (reachable_inv _ H) as [_ _ _ _ Hs Hu]. split.
  - intros Hq. apply cnt_exists. exact (Hs Hst Hq).
  - intros Hq Hp. apply cnt_exists. exact (Hu Hst Hq Hp).
Qed.

(** * C01.2 accounting: every message is in exactly one place *)
Definition pm_dec : forall x y : bool * msg, {x = y} + {x <> y}.
Proof. decide equality; [apply N.eq_dec | apply bool_dec]. Defined.
Definition co (e : bool * msg) (l : list (bool * msg)) : nat := count_occ pm_dec l e.

Lemma co_app e l1 l2 : co e (l1 ++ l2) = (co e l1 + co e l2)%nat.
Proof. apply count_occ_app. Qed.
Lemma co_cons e x l : co e (x :: l) = (co e [x] + co e l)%nat.
Proof. change (x :: l) with ([x] ++ l). apply co_app. Qed.
Lemma co_nil e : co e [] = 0%nat.
Proof. reflexivity. Qed.

Lemma co_flat_upd e (f : pc -> list (bool * msg)) l i old x : nth_error l i = Some old ->
  (co e (flat_map f (upd l i x)) + co e (f old) = co e (flat_map f l) + co e (f x))%nat.
Proof.
  revert i. induction l as [|h t IH]; intros [|j] H; cbn [flat_map upd nth_error] in *; try discriminate.
  - inversion H; subst. rewrite !co_app. lia.
  - specialize (IH j H). rewrite !co_app. lia.
Qed.

Definition acct (e : bool * msg) (s : st) : nat :=
  (co e (unsent s) + co e (map (pair true) (sq s)) + co e (map (pair false) (uq s)) + co e (held s) + co e (log s))%nat.

Lemma step_acct e i s s' : cnt bad_pc (thr s) = 0 -> step i s = Some s' -> acct e s' = acct e s.
Proof.
  intros Hwf Hs. step_cases Hs Hp.
  1: pose proof (cnt_pos bad_pc _ _ _ Hp) as Hbp;
     destruct k; cbn [bad_pc] in Hbp; try (specialize (Hbp eq_refl); lia).
  all: unfold acct, unsent, held; cbn [thr set_thr sq uq log];
       rewrite ?flat_map_app;
       match goal with |- context [upd _ _ ?x] =>
         pose proof (co_flat_upd e unsent_of _ _ _ x Hp) as Hu;
         pose proof (co_flat_upd e held_of _ _ _ x Hp) as Hh
       end;
       repeat match goal with H : _ = _ :> list _ |- _ => rewrite H in * end;
       cbn [unsent_of held_of flat_map map app] in *;
       rewrite ?map_app, ?co_app in *; cbn [map] in *;
       repeat match goal with
       | |- context [co ?ee (?x :: ?l)] => lazymatch l with nil => fail | _ => rewrite (co_cons ee x l) end
       end;
       rewrite ?co_nil in *; lia.
Qed.

Lemma flat_map_Start_env ths : forallb env_pc ths = true ->
  flat_map unsent_of (map Start ths) = flat_map unsent_of ths /\ flat_map held_of (map Start ths) = [].
Proof.
  induction ths as [|k t IH]; cbn [forallb map flat_map]; intros H; [split; reflexivity|].
  apply andb_true_iff in H as [Hk Ht]. destruct (IH Ht) as [-> ->].
  destruct k; cbn in Hk; try discriminate; split; reflexivity.
Qed.

Lemma init_acct e ths : forallb env_pc ths = true -> acct e (init ths) = co e (msgs_of ths).
Proof.
  intros H. unfold acct, unsent, held, msgs_of. cbn [init thr sq uq log map].
  destruct (flat_map_Start_env ths H) as [-> ->]. rewrite !co_nil. lia.
Qed.

Lemma run_acct e sched s : Inv s -> acct e (run sched s) = acct e s.
Proof.
  revert s. induction sched as [|i r IH]; intros s H; cbn [run fold_left]; [reflexivity|].
  fold (run r (step_or_stay s i)). rewrite IH by (apply step_or_stay_inv; exact H).
  unfold step_or_stay. destruct (step i s) eqn:E; [|reflexivity].
  exact (step_acct e _ _ _ (i_wf _ H) E).
Qed.

Theorem exactly_once ths sched : forallb env_pc ths = true ->
  let s := run sched (init ths) in
  Permutation (msgs_of ths) (unsent s ++ queued s ++ held s ++ log s).
Proof.
  intros H s. apply (Permutation_count_occ pm_dec). intros e.
  pose proof (run_acct e sched _ (init_inv _ H)) as A. rewrite (init_acct e _ H) in A.
  fold s in A. unfold acct, co in A. unfold queued. rewrite !count_occ_app. lia.
Qed.

Lemma NoDup_app_r {A} (l1 l2 : list A) : NoDup (l1 ++ l2) -> NoDup l2.
Proof. induction l1 as [|h t IH]; cbn [app]; intros H; [exact H|]. inversion H; subst. auto. Qed.

Corollary handled_at_most_once ths sched : forallb env_pc ths = true ->
  NoDup (msgs_of ths) -> NoDup (log (run sched (init ths))).
Proof.
  intros H Hnd. pose proof (exactly_once ths sched H) as P. cbv zeta in P.
  pose proof (Permutation_NoDup P Hnd) as N.
  apply NoDup_app_r in N. apply NoDup_app_r in N. apply NoDup_app_r in N. exact N.
Qed.

Corollary handled_was_sent ths sched e : forallb env_pc ths = true ->
  In e (log (run sched (init ths))) -> In e (msgs_of ths).
Proof.
  intros H Hin. pose proof (exactly_once ths sched H) as P. cbv zeta in P.
  apply (Permutation_in e (Permutation_sym P)). rewrite !in_app_iff. auto.
Qed.

Lemma reachable_run ths sched : forallb env_pc ths = true -> reachable (run sched (init ths)).
Proof. intros H. exists ths, sched. split; [exact H|reflexivity]. Qed.
