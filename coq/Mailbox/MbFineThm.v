(** Theorems about the fine-grained machine (Mailbox/MbFine.v), obtained through the simulation of
    Mailbox/MbFineSim.v from the theorems about the coarse machine, plus what only exists at the fine level:
    mutual exclusion and representation invariant of the two rings at every micro-step, absence of the two crashes
    (nil slot handed out, modulus zero), deadlock freedom with the mutexes, the step bound including the ring's
    own steps, and the refutation of "RingQueue is linearizable" without the single-consumer discipline. *)
From Coq Require Import List NArith ZArith Bool Arith Lia Permutation.
From Coq Require Import ZifyNat ZifyBool.
From Vivid Require Import Queue.Ring Queue.RingProofs.
From Vivid Require Import Mailbox.MbModel Mailbox.MbSpec Mailbox.MbSpec2 Mailbox.MbInv Mailbox.MbLive Mailbox.MbOrder Mailbox.MbTerm.
From Vivid Require Import Mailbox.MbFine Mailbox.MbFineQ Mailbox.MbFineSim.
Import ListNotations.
Local Open Scope Z_scope.

(** * pcs through the abstraction *)
Lemma fowner_apc p : fowner_pc p = true -> owner_pc (apc p) = true.
Proof.
  destruct p as [k|sys m|sys m|sys| | | | |sys|sys|sys v|sys m|sys m| | | |u|u| | | ]; cbn; try congruence;
    try (destruct sys; reflexivity).
  destruct k as [k'|sys m|sys m|sys| | | | |sys|sys|sys v|sys m|sys m| | | |u|u| | | ]; cbn; try congruence.
  destruct sys; cbn; congruence.
Qed.

Lemma fhandling_owner p : fhandling_pc p = true -> fowner_pc p = true.
Proof. destruct p; cbn; congruence. Qed.

Lemma fenv_active_apc p : fcnt fbad [p] = 0 -> env_active (apc p) = fenv_active p.
Proof.
  cbn [fcnt]. intros Hb.
  destruct p as [k|sys m|sys m|sys| | | | |sys|sys|sys v|sys m|sys m| | | |u|u| | | ]; cbn; try reflexivity;
    try (destruct sys; reflexivity).
  destruct k as [k'|sys m|sys m|sys| | | | |sys|sys|sys v|sys m|sys m| | | |u|u| | | ]; cbn in *; try reflexivity; try lia;
    try (destruct sys; cbn in *; try reflexivity; lia).
Qed.

(** * (1) one consumer - now including the inside of Pop *)
Lemma fone_owner f i j p q : freachable f -> i <> j ->
  nth_error (fthr f) i = Some p -> nth_error (fthr f) j = Some q ->
  fowner_pc p = true -> fowner_pc q = true -> False.
Proof.
  intros Hr Hij Hi Hj Hp Hq. destruct (freachable_SR f Hr) as (ls & lu & [HI _ _ _] & _).
  pose proof (i_own _ HI) as Ho. cbn [absl thr status] in Ho.
  pose proof (cnt_two owner_pc (map apc (fthr f)) i j _ _ Hij
                (nth_error_map_some apc _ _ _ Hi) (nth_error_map_some apc _ _ _ Hj) (fowner_apc _ Hp) (fowner_apc _ Hq)).
  unfold b2z in Ho. destruct (fstatus f); lia.
Qed.

Lemma fone_handler f i j p q : freachable f -> i <> j ->
  nth_error (fthr f) i = Some p -> nth_error (fthr f) j = Some q ->
  fhandling_pc p = true -> fhandling_pc q = true -> False.
Proof.
  intros Hr Hij Hi Hj Hp Hq.
  exact (fone_owner f i j p q Hr Hij Hi Hj (fhandling_owner _ Hp) (fhandling_owner _ Hq)).
Qed.

(** * (2) no crash: Pop never hands out a nil slot, no modulus is zero *)
Lemma fno_crash f i : freachable f -> nth_error (fthr f) i <> Some FCrash.
Proof.
  intros Hr Hi. destruct (freachable_SR f Hr) as (ls & lu & [_ _ _ Hw] & _).
  pose proof (fcnt_zero_all _ _ Hw _ _ Hi) as Hb. discriminate Hb.
Qed.

Lemma fpop_hands_out_element f i sys v : freachable f -> nth_error (fthr f) i = Some (FQPopAdd sys v) -> exists m, v = Some m.
Proof.
  intros Hr Hi. destruct (freachable_SR f Hr) as (ls & lu & H & _).
  destruct (qi_pop _ _ _ _ (SR_q sys _ _ _ H) i v Hi) as (a & l' & _ & -> & _). exists a. reflexivity.
Qed.

(** * (3) the rings: mutual exclusion, len, representation invariant whenever the mutex is free *)
Lemma fring_safe f sys : freachable f ->
  exists l, qlen (getq sys f) = Z.of_nat (length l) /\
            (qlock (getq sys f) = false -> ring_repr (to_ring (getq sys f)) l /\ qcontent (getq sys f) = map Some l) /\
            Z.of_nat (length (filter (holder sys) (fthr f))) = (if qlock (getq sys f) then 1 else 0).
Proof.
  intros Hr. destruct (freachable_SR f Hr) as (ls & lu & H & _).
  pose proof (SR_q sys _ _ _ H) as Q. exists (lsel sys ls lu). split; [exact (qi_len _ _ _ _ Q)|]. split.
  - intros Hf. pose proof (qi_free _ _ _ _ Q Hf) as HR. split; [exact (proj2 HR)|exact (QR_content _ _ HR)].
  - pose proof (qi_cnt _ _ _ _ Q) as Hc.
    assert (E : forall P l, fcnt P l = Z.of_nat (length (filter P l))).
    { clear. intros P l. induction l as [|h t IH]; cbn [fcnt filter length]; [reflexivity|].
      destruct (P h); cbn [b2z length]; lia. }
    rewrite <- E, Hc. unfold b2z. reflexivity.
Qed.

(** * (4) deadlock freedom *)
Definition blocked (p : fpc) (f : fstate) : bool :=
  match p with FPushLock s _ | FQLock s => qlock (getq s f) | _ => false end.

Lemma fnon_blocked_steps f i p : nth_error (fthr f) i = Some p -> p <> FDone -> p <> FCrash -> blocked p f = false ->
  exists f', fstep i f = Some f'.
Proof.
  intros Hp Hd Hc Hb. unfold fstep. rewrite Hp. cbv zeta.
  destruct p as [k|sys m|sys m|sys| | | | |sys|sys|sys v|sys m|sys m| | | |u|u| | | ]; try congruence; cbn [blocked] in Hb;
    try rewrite Hb; try (destruct sys);
    repeat match goal with
    | |- exists _, (if ?b then _ else _) = Some _ => destruct b
    | |- exists _, match ?o with Some _ => _ | None => _ end = Some _ => destruct o
    | |- exists _, (let (_, _) := ?x in _) = Some _ => destruct x
    end; eexists; reflexivity.
Qed.

Lemma fcnt_exists P l : 1 <= fcnt P l -> exists i p, nth_error l i = Some p /\ P p = true.
Proof.
  induction l as [|h t IH]; cbn [fcnt]; intros H; [lia|].
  destruct (P h) eqn:E.
  - exists 0%nat, h. split; [reflexivity|exact E].
  - cbn [b2z] in H. destruct IH as (i & p & Hi & Hp); [lia|]. exists (S i), p. split; assumption.
Qed.

Lemma SR_no_deadlock f ls lu : SR f ls lu -> (exists i p, nth_error (fthr f) i = Some p /\ p <> FDone) ->
  exists i f', fstep i f = Some f'.
Proof.
  intros H (i & p & Hi & Hd).
  assert (Hc : p <> FCrash).
  { intros ->. pose proof (fcnt_zero_all _ _ (sr_wf _ _ _ H) _ _ Hi) as Hb. discriminate Hb. }
  destruct (blocked p f) eqn:Hb.
  - (* waiting for a held mutex: its holder can step *)
    assert (Hs : exists s, qlock (getq s f) = true) by (destruct p; cbn [blocked] in Hb; try discriminate; eexists; exact Hb).
    destruct Hs as (s & Hl). pose proof (qi_cnt _ _ _ _ (SR_q s _ _ _ H)) as Hcn. rewrite Hl in Hcn. cbn [b2z] in Hcn.
    destruct (fcnt_exists (holder s) (fthr f) ltac:(lia)) as (j & q & Hj & Hq).
    exists j. apply (fnon_blocked_steps f j q Hj); destruct q; cbn in Hq; try discriminate; try reflexivity.
  - exists i. exact (fnon_blocked_steps f i p Hi Hd Hc Hb).
Qed.

Lemma fno_deadlock f : freachable f -> (exists i p, nth_error (fthr f) i = Some p /\ p <> FDone) ->
  exists i f', fstep i f = Some f'.
Proof. intros Hr He. destruct (freachable_SR f Hr) as (ls & lu & H & _). exact (SR_no_deadlock f ls lu H He). Qed.

Lemma fdone_or_not (l : list fpc) :
  (forall i p, nth_error l i = Some p -> p = FDone) \/ (exists i p, nth_error l i = Some p /\ p <> FDone).
Proof.
  induction l as [|h t IH].
  - left. intros [|i] p H; discriminate H.
  - assert (Hh : h = FDone \/ h <> FDone) by (destruct h; (left; reflexivity) || (right; discriminate)).
    destruct Hh as [->|Hh].
    + destruct IH as [IH|(i & p & Hi & Hp)].
      * left. intros [|i] p H; [inversion H; reflexivity|exact (IH i p H)].
      * right. exists (S i), p. split; assumption.
    + right. exists 0%nat, h. split; [reflexivity|exact Hh].
Qed.

Lemma fterminal_all_done f : freachable f -> fterminal f -> fall_done f.
Proof.
  intros Hr Ht. destruct (fdone_or_not (fthr f)) as [D|E]; [exact D|].
  destruct (fno_deadlock f Hr E) as (i & f' & Hs). rewrite (Ht i) in Hs. discriminate.
Qed.

(** * (5) terminal states *)
Lemma all_done_map f : fall_done f -> forall i p, nth_error (map apc (fthr f)) i = Some p -> p = Done.
Proof.
  intros D i p Hp. rewrite nth_error_map in Hp. destruct (nth_error (fthr f) i) as [q|] eqn:Hq; [|discriminate].
  inversion Hp; subst. rewrite (D i q Hq). reflexivity.
Qed.

Lemma fmsgs_apc ths : forallb fenv_pc ths = true -> msgs_of (map apc ths) = fmsgs_of ths.
Proof.
  unfold msgs_of, fmsgs_of. induction ths as [|p t IH]; cbn [forallb map flat_map]; intros H; [reflexivity|].
  apply andb_true_iff in H as [Hp Ht]. rewrite (IH Ht). destruct p; try discriminate Hp; reflexivity.
Qed.

Lemma all_done_fcnt P l : P FDone = false -> (forall i p, nth_error l i = Some p -> p = FDone) -> fcnt P l = 0.
Proof.
  intros HP. induction l as [|h t IH]; intros H; cbn [fcnt]; [reflexivity|].
  rewrite (H 0%nat h eq_refl), HP. rewrite IH; [reflexivity|]. intros i p Hi. exact (H (S i) p Hi).
Qed.

Theorem fterminal_thm size ths sched : (1 <= size)%nat -> forallb fenv_pc ths = true ->
  let f := frun sched (finit size ths) in
  fterminal f ->
  fall_done f /\ fstatus f = false /\
  qlock (fsq f) = false /\ qlock (fuq f) = false /\
  qlen (fsq f) = 0 /\ qcontent (fsq f) = [] /\
  exists lu, qcontent (fuq f) = map Some lu /\ qlen (fuq f) = Z.of_nat (length lu) /\
             (lu = [] \/ fpaused f = true) /\
             Permutation (fmsgs_of ths) (map (pair false) lu ++ flog f).
Proof.
  intros Hn He f Ht.
  assert (Hr : freachable f) by (exists size, ths, sched; repeat split; assumption).
  pose proof (fterminal_all_done f Hr Ht) as D.
  destruct (fsim size ths sched Hn He) as (ls & lu & H & Hrun & _). cbv zeta in Hrun. fold f in Hrun, H.
  set (cs := csched_of sched (finit size ths)) in *.
  assert (Hct : terminal (run cs (init (map apc ths)))).
  { rewrite Hrun. apply all_done_terminal. cbn [absl thr]. exact (all_done_map f D). }
  pose proof (apc_env ths He) as He'.
  destruct (terminal_all_handled (map apc ths) cs He' Hct) as (HP & _).
  destruct (terminal_thm _ (reachable_run _ cs He') Hct) as (Hsq & Hu & Hst & _ & _).
  rewrite Hrun in HP, Hsq, Hu, Hst. cbn [absl sq uq status paused log] in HP, Hsq, Hu, Hst. subst ls.
  rewrite (fmsgs_apc ths He) in HP.
  pose proof (sr_s _ _ _ H) as Qs. pose proof (sr_u _ _ _ H) as Qu.
  assert (Ls : qlock (fsq f) = false).
  { pose proof (qi_cnt _ _ _ _ Qs) as C. rewrite (all_done_fcnt _ _ eq_refl D) in C. destruct (qlock (fsq f)); [discriminate C|reflexivity]. }
  assert (Lu : qlock (fuq f) = false).
  { pose proof (qi_cnt _ _ _ _ Qu) as C. rewrite (all_done_fcnt _ _ eq_refl D) in C. destruct (qlock (fuq f)); [discriminate C|reflexivity]. }
  split; [exact D|]. split; [exact Hst|]. split; [exact Ls|]. split; [exact Lu|].
  split; [exact (qi_len _ _ _ _ Qs)|].
  split; [exact (QR_content _ _ (qi_free _ _ _ _ Qs Ls))|].
  exists lu. split; [exact (QR_content _ _ (qi_free _ _ _ _ Qu Lu))|]. split; [exact (qi_len _ _ _ _ Qu)|].
  split; [exact Hu|exact HP].
Qed.

(** * (6) exactly once *)
Theorem fat_most_once size ths sched : (1 <= size)%nat -> forallb fenv_pc ths = true ->
  NoDup (fmsgs_of ths) -> NoDup (flog (frun sched (finit size ths))).
Proof.
  intros Hn He Hnd. destruct (fsim size ths sched Hn He) as (ls & lu & _ & Hrun & _). cbv zeta in Hrun.
  rewrite <- (fmsgs_apc ths He) in Hnd.
  pose proof (handled_at_most_once (map apc ths) (csched_of sched (finit size ths)) (apc_env ths He) Hnd) as N.
  rewrite Hrun in N. exact N.
Qed.

Theorem fhandled_was_sent size ths sched e : (1 <= size)%nat -> forallb fenv_pc ths = true ->
  In e (flog (frun sched (finit size ths))) -> In e (fmsgs_of ths).
Proof.
  intros Hn He Hin. destruct (fsim size ths sched Hn He) as (ls & lu & _ & Hrun & _). cbv zeta in Hrun.
  rewrite <- (fmsgs_apc ths He).
  apply (handled_was_sent (map apc ths) (csched_of sched (finit size ths)) e (apc_env ths He)).
  rewrite Hrun. exact Hin.
Qed.

(** * (7) FIFO in the order of the Pushes' atomic adds *)
Lemma push_order_ctrace b tr : push_order b (ctrace_of tr) = fpush_order b tr.
Proof.
  unfold push_order, fpush_order, ctrace_of. induction tr as [|[[i p] f] t IH]; [reflexivity|].
  cbn [flat_map fst snd]. rewrite flat_map_app, IH. f_equal.
  destruct p as [k|sys m|sys m|sys| | | | |sys|sys|sys v|sys m|sys m| | | |u|u| | | ]; cbn [stutter apc flat_map snd app]; try reflexivity;
    try (destruct sys; reflexivity).
  all: try (rewrite app_nil_r; reflexivity).
  destruct (negb (qlen (getq sys f) =? 0)); [reflexivity|]. destruct sys; reflexivity.
Qed.

Theorem ffifo_prefix b size ths sched : (1 <= size)%nat -> forallb fenv_pc ths = true ->
  exists rest, fpush_order b (frun_trace sched (finit size ths)) = flog_of b (frun sched (finit size ths)) ++ rest.
Proof.
  intros Hn He. destruct (fsim size ths sched Hn He) as (ls & lu & _ & Hrun & Htr). cbv zeta in Hrun, Htr.
  destruct (fifo_prefix b (map apc ths) (csched_of sched (finit size ths)) (apc_env ths He)) as (rest & E).
  exists rest. rewrite Htr, push_order_ctrace, Hrun in E. exact E.
Qed.

(** * (8) step bounds: the ring's own steps cost at most a factor 3 (+3) *)
Definition debt (p : fpc) : Z := match p with FPushAdd _ _ | FQLock _ => 1 | FQPopAdd _ _ => 2 | _ => 0 end.
Fixpoint fsum (g : fpc -> Z) (l : list fpc) : Z := match l with [] => 0 | p :: t => g p + fsum g t end.

Lemma fsum_upd g l i p x : nth_error l i = Some p -> fsum g (upd l i x) = fsum g l - g p + g x.
Proof.
  revert i. induction l as [|h t IH]; intros [|j] H; cbn [fsum upd nth_error] in *; try discriminate.
  - inversion H; subst. lia.
  - specialize (IH j H). lia.
Qed.
Lemma fsum_app g l1 l2 : fsum g (l1 ++ l2) = fsum g l1 + fsum g l2.
Proof. induction l1 as [|h t IH]; cbn [fsum app]; lia. Qed.

Lemma crash_bad T i p : nth_error T i = Some p -> fcnt fbad (upd T i FCrash) = 0 -> False.
Proof. intros Hp Hw. pose proof (fcnt_zero_all _ _ Hw i FCrash (fnth_upd_eq _ _ _ _ Hp)) as B. discriminate B. Qed.

Lemma debt_step i f f' p : nth_error (fthr f) i = Some p -> fstep i f = Some f' -> fcnt fbad (fthr f') = 0 ->
  if stutter p f then fsum debt (fthr f') = fsum debt (fthr f) + 1
  else fsum debt (fthr f) - 2 <= fsum debt (fthr f').
Proof.
  intros Hp Hs Hw. unfold fstep in Hs. rewrite Hp in Hs. cbv zeta in Hs.
  destruct p as [k|sys m|sys m|sys| | | | |sys|sys|sys v|sys m|sys m| | | |u|u| | | ]; cbn [stutter];
    try discriminate Hs; try (destruct sys);
    repeat match type of Hs with
    | (if ?b then _ else _) = Some _ => let E := fresh "E" in destruct b eqn:E
    | match ?o with Some _ => _ | None => _ end = Some _ => let E := fresh "E" in destruct o eqn:E
    | (let (_, _) := ?x in _) = Some _ => destruct x
    end; try discriminate Hs; inversion Hs; subst; clear Hs;
    cbn [fset_thr setq fthr negb] in *;
    try (exfalso; exact (crash_bad _ _ _ Hp Hw));
    rewrite ?fsum_app, (fsum_upd _ _ _ _ _ Hp); cbn [debt fsum];
    try lia.
  all: try (destruct v; cbn [debt]; lia).
  all: destruct k; cbn [debt]; lia.
Qed.

Lemma steps_debt sched : forall f ls lu, SR f ls lu ->
  Z.of_nat (length (frun_trace sched f)) + fsum debt (fthr f)
  <= 3 * Z.of_nat (length (ctrace_of (frun_trace sched f))) + fsum debt (fthr (frun sched f)).
Proof.
  induction sched as [|i r IH]; intros f ls lu H.
  - cbn. lia.
  - cbn [frun fold_left frun_trace]. fold (frun r (fstep_or_stay f i)). unfold fstep_or_stay.
    destruct (nth_error (fthr f) i) as [p|] eqn:Hp.
    + destruct (fstep i f) as [f1|] eqn:Hs.
      * destruct (sim_step _ _ _ _ _ _ H Hp Hs) as (ls1 & lu1 & H1 & _).
        pose proof (debt_step _ _ _ _ Hp Hs (sr_wf _ _ _ H1)) as Hd.
        specialize (IH f1 ls1 lu1 H1).
        unfold ctrace_of. cbn [flat_map fst snd length]. fold (ctrace_of (frun_trace r f1)).
        rewrite app_length. destruct (stutter p f); cbn [length]; lia.
      * exact (IH f ls lu H).
    + rewrite (fstep_none_nth _ _ Hp). exact (IH f ls lu H).
Qed.

Definition popwait (p : fpc) : bool := match p with FQLock _ | FQPopAdd _ _ => true | _ => false end.

Lemma debt_le T : fsum debt T <= fcnt (holder true) T + fcnt (holder false) T + fcnt popwait T.
Proof.
  induction T as [|p t IH]; cbn [fsum fcnt]; [lia|].
  assert (debt p <= b2z (holder true p) + b2z (holder false p) + b2z (popwait p)); [|lia].
  destruct p as [k|sys m|sys m|sys| | | | |sys|sys|sys v|sys m|sys m| | | |u|u| | | ]; cbn; try lia; destruct sys; cbn; lia.
Qed.

Lemma SR_debt_bound f ls lu : SR f ls lu -> 0 <= fsum debt (fthr f) <= 3.
Proof.
  intros H. split.
  - clear. induction (fthr f) as [|p t IH]; cbn [fsum]; [lia|]. destruct p; cbn [debt]; lia.
  - pose proof (debt_le (fthr f)) as D.
    pose proof (qi_cnt _ _ _ _ (sr_s _ _ _ H)) as C1. pose proof (qi_cnt _ _ _ _ (sr_u _ _ _ H)) as C2.
    pose proof (i_own _ (sr_inv _ _ _ H)) as Ho. cbn [absl thr status] in Ho. rewrite cnt_map_apc in Ho.
    assert (Hpw : fcnt popwait (fthr f) <= fcnt (fun p => owner_pc (apc p)) (fthr f)).
    { apply fcnt_le. intros p. destruct p; cbn; try congruence; destruct sys; reflexivity. }
    unfold b2z in *. destruct (qlock (fsq f)), (qlock (fuq f)), (fstatus f); lia.
Qed.

Lemma fsteps_le_coarse sched f ls lu : SR f ls lu ->
  (feffective_steps sched f <= 3 * effective_steps (csched_of sched f) (absl f ls lu) + 3)%nat.
Proof.
  intros H. destruct (sim_run sched f ls lu H) as (ls' & lu' & H' & _ & Htr).
  pose proof (steps_debt sched f ls lu H) as D.
  pose proof (SR_debt_bound _ _ _ H) as B0. pose proof (SR_debt_bound _ _ _ H') as B1.
  unfold feffective_steps, effective_steps. rewrite Htr. lia.
Qed.

Theorem ftermination size ths sched : (1 <= size)%nat -> forallb fenv_pc ths = true ->
  (feffective_steps sched (finit size ths) <= 192 * (length ths + 1) * (length ths + 1) + 3)%nat.
Proof.
  intros Hn He. pose proof (fsteps_le_coarse sched _ _ _ (SR_init size ths Hn He)) as H.
  rewrite absl_init in H.
  pose proof (termination (map apc ths) (csched_of sched (finit size ths)) (apc_env ths He)) as T.
  rewrite map_length in T. lia.
Qed.

(** no spinning, at the granularity of the ring's steps *)
Lemma fprocessors_apc f : fcnt fbad (fthr f) = 0 -> processors {| status := false; paused := false; num := 0; sysnum := 0; sq := []; uq := []; log := []; thr := map apc (fthr f) |} = fprocessors f.
Proof.
  unfold processors, fprocessors. cbn [thr]. induction (fthr f) as [|p t IH]; cbn [map filter fcnt]; intros Hw; [reflexivity|].
  pose proof (fcnt_nonneg fbad t) as Hn.
  assert (Hp : fcnt fbad [p] = 0) by (cbn [fcnt]; unfold b2z in *; destruct (fbad p); lia).
  assert (Ht : fcnt fbad t = 0) by (unfold b2z in *; destruct (fbad p); lia).
  rewrite (fenv_active_apc p Hp).
  assert (E : (match apc p with Done => true | _ => false end) = (match p with FDone | FCrash => true | _ => false end)).
  { destruct p as [k|sys m|sys m|sys| | | | |sys|sys|sys v|sys m|sys m| | | |u|u| | | ]; try reflexivity; destruct sys; reflexivity. }
  rewrite E. destruct (negb (fenv_active p) && negb (match p with FDone | FCrash => true | _ => false end)); cbn [length]; rewrite (IH Ht); reflexivity.
Qed.

Theorem fno_spin f : freachable f -> fenv_done f -> qlen (fsq f) = 0 -> (qlen (fuq f) = 0 \/ fpaused f = true) ->
  forall sched, (feffective_steps sched f <= 33 * fprocessors f + 3)%nat.
Proof.
  intros Hr He Hs Hu sched. destruct (freachable_SR f Hr) as (ls & lu & H & Hrc).
  pose proof (fsteps_le_coarse sched f ls lu H) as B.
  assert (Els : ls = []) by exact (QI_len_zero _ _ _ _ (sr_s _ _ _ H) Hs).
  assert (Elu : lu = [] \/ fpaused f = true).
  { destruct Hu as [Hu|Hu]; [left; exact (QI_len_zero _ _ _ _ (sr_u _ _ _ H) Hu)|right; exact Hu]. }
  assert (Hed : env_done (absl f ls lu)).
  { intros p Hin. cbn [absl thr] in Hin. apply in_map_iff in Hin as (q & <- & Hq).
    destruct (In_nth_error _ _ Hq) as (i & Hi).
    assert (Hb : fcnt fbad [q] = 0).
    { cbn [fcnt]. rewrite (fcnt_zero_all _ _ (sr_wf _ _ _ H) _ _ Hi). reflexivity. }
    rewrite (fenv_active_apc q Hb). exact (He q Hq). }
  pose proof (no_spin (absl f ls lu) Hrc Hed Els Elu (csched_of sched f)) as N.
  assert (Ep : processors (absl f ls lu) = fprocessors f).
  { rewrite <- (fprocessors_apc f (sr_wf _ _ _ H)). reflexivity. }
  rewrite Ep in N. lia.
Qed.

(** * (9) every execution can be completed *)
Lemma frun_app a b f : frun (a ++ b) f = frun b (frun a f).
Proof. unfold frun. apply fold_left_app. Qed.

Lemma frun_trace_app a : forall b f, frun_trace (a ++ b) f = frun_trace a f ++ frun_trace b (frun a f).
Proof.
  induction a as [|i r IH]; intros b f; [reflexivity|].
  cbn [app frun_trace frun fold_left]. fold (frun r (fstep_or_stay f i)). unfold fstep_or_stay.
  destruct (nth_error (fthr f) i) as [p|] eqn:Hp.
  - destruct (fstep i f) as [f1|] eqn:Hs; [cbn [app]; f_equal; apply IH|apply IH].
  - rewrite (fstep_none_nth _ _ Hp). apply IH.
Qed.

Theorem fcan_finish size ths sched : (1 <= size)%nat -> forallb fenv_pc ths = true ->
  exists more, fall_done (frun (sched ++ more) (finit size ths)).
Proof.
  intros Hn He.
  set (B := (192 * (length ths + 1) * (length ths + 1) + 3)%nat).
  assert (Hgen : forall k sched, (B - feffective_steps sched (finit size ths) <= k)%nat ->
                 exists more, fall_done (frun (sched ++ more) (finit size ths))).
  { induction k as [|k IH]; intros sc Hk.
    - destruct (fdone_or_not (fthr (frun sc (finit size ths)))) as [D|E].
      + exists []. rewrite app_nil_r. exact D.
      + exfalso.
        assert (Hr : freachable (frun sc (finit size ths))) by (exists size, ths, sc; repeat split; assumption).
        destruct (fno_deadlock _ Hr E) as (i & f' & Hs).
        pose proof (ftermination size ths (sc ++ [i]) Hn He) as T. fold B in T.
        unfold feffective_steps in *. rewrite frun_trace_app, app_length in T.
        cbn [frun_trace] in T. rewrite Hs in T.
        destruct (nth_error (fthr (frun sc (finit size ths))) i) eqn:Hp; [|rewrite (fstep_none_nth _ _ Hp) in Hs; discriminate].
        cbn [length] in T. pose proof (ftermination size ths sc Hn He) as T0. fold B in T0. unfold feffective_steps in T0. lia.
    - destruct (fdone_or_not (fthr (frun sc (finit size ths)))) as [D|E].
      + exists []. rewrite app_nil_r. exact D.
      + assert (Hr : freachable (frun sc (finit size ths))) by (exists size, ths, sc; repeat split; assumption).
        destruct (fno_deadlock _ Hr E) as (i & f' & Hs).
        destruct (IH (sc ++ [i])) as (more & Hm).
        * unfold feffective_steps in *. rewrite frun_trace_app, app_length. cbn [frun_trace]. rewrite Hs.
          destruct (nth_error (fthr (frun sc (finit size ths))) i) eqn:Hp; [|rewrite (fstep_none_nth _ _ Hp) in Hs; discriminate].
          cbn [length]. lia.
        * exists (i :: more). rewrite <- app_assoc in Hm. exact Hm. }
  exact (Hgen B sched ltac:(lia)).
Qed.

(** * (10) without the single-consumer discipline the queue is NOT linearizable: New(2); Push(7); two overlapping Pops.
    Both emptiness checks see len = 1; the first critical section takes the element; the second one advances head
    past tail, hands out the nil slot with ok = true, and leaves len = -1. *)
Lemma two_consumers_refuted :
  exists q1 q2 qa qb va vb,
    q_push_pre (q_new 2) = Some q1 /\ q2 = q_push_fin 7%N q1 /\     (* New(2); Push(7) *)
    qlen q2 = 1 /\                                                  (* both Pops pass `if q.Empty()` *)
    q_pop_pre q2 = Some (va, qa) /\ va = Some 7%N /\                (* first critical section *)
    q_pop_pre (q_pop_fin qa) = Some (vb, qb) /\ vb = None /\        (* second one: (nil, true) *)
    qlen (q_pop_fin qb) = -1.
Proof. vm_compute. do 6 eexists. repeat split. Qed.

(** * (11) no lost wake-up, with "accepted" = the Push's atomic add has happened (len > 0) *)
Lemma fcover_apc p : (sys_cover (apc p) = true -> fsys_cover p = true) /\ (user_cover (apc p) = true -> fuser_cover p = true).
Proof.
  destruct p as [k|sys m|sys m|sys| | | | |sys|sys|sys v|sys m|sys m| | | |u|u| | | ]; cbn; split; try congruence;
    destruct sys; cbn; congruence.
Qed.

Theorem fno_lost_wakeup f : freachable f -> fstatus f = false ->
  (0 < qlen (fsq f) -> exists i p, nth_error (fthr f) i = Some p /\ fsys_cover p = true) /\
  (0 < qlen (fuq f) -> fpaused f = false -> exists i p, nth_error (fthr f) i = Some p /\ fuser_cover p = true).
Proof.
  intros Hr Hst. destruct (freachable_SR f Hr) as (ls & lu & H & _).
  pose proof (sr_inv _ _ _ H) as [_ _ _ _ Hws Hwu]. cbn [absl status sq uq paused thr] in Hws, Hwu.
  rewrite cnt_map_apc in Hws, Hwu. split.
  - intros Hl. pose proof (qi_len _ _ _ _ (sr_s _ _ _ H)) as E.
    assert (Hne : ls <> []) by (intros ->; cbn [length] in E; lia).
    destruct (fcnt_exists _ _ (Hws Hst Hne)) as (i & p & Hi & Hp). exists i, p. split; [exact Hi|]. exact (proj1 (fcover_apc p) Hp).
  - intros Hl Hpa. pose proof (qi_len _ _ _ _ (sr_u _ _ _ H)) as E.
    assert (Hne : lu <> []) by (intros ->; cbn [length] in E; lia).
    destruct (fcnt_exists _ _ (Hwu Hst Hne Hpa)) as (i & p & Hi & Hp). exists i, p. split; [exact Hi|]. exact (proj2 (fcover_apc p) Hp).
Qed.

(** * (12) the refinement statement in terms of the model files only *)
Theorem frefines size ths sched : (1 <= size)%nat -> forallb fenv_pc ths = true ->
  let f0 := finit size ths in
  let f := frun sched f0 in
  exists ls lu,
    run (csched_of sched f0) (init (map apc ths)) = absl f ls lu /\
    run_trace (csched_of sched f0) (init (map apc ths)) = ctrace_of (frun_trace sched f0) /\
    qlen (fsq f) = Z.of_nat (length ls) /\ qlen (fuq f) = Z.of_nat (length lu) /\
    (qlock (fsq f) = false -> ring_repr (to_ring (fsq f)) ls /\ qcontent (fsq f) = map Some ls) /\
    (qlock (fuq f) = false -> ring_repr (to_ring (fuq f)) lu /\ qcontent (fuq f) = map Some lu).
Proof.
  intros Hn He f0 f. destruct (fsim size ths sched Hn He) as (ls & lu & H & Hrun & Htr).
  exists ls, lu. split; [exact Hrun|]. split; [exact Htr|].
  pose proof (sr_s _ _ _ H) as Qs. pose proof (sr_u _ _ _ H) as Qu.
  split; [exact (qi_len _ _ _ _ Qs)|]. split; [exact (qi_len _ _ _ _ Qu)|]. split.
  - intros L. pose proof (qi_free _ _ _ _ Qs L) as R. split; [exact (proj2 R)|exact (QR_content _ _ R)].
  - intros L. pose proof (qi_free _ _ _ _ Qu L) as R. split; [exact (proj2 R)|exact (QR_content _ _ R)].
Qed.
