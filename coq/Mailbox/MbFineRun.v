(** Replay entry point of the fine-grained mailbox model: input = (size threads schedule), output = per-step
    (label, projected state incl. both rings' cursors / len / lock bit / the slots at head and tail), the final log,
    whether every goroutine finished, and the two buffers in full. *)
From Coq Require Import List NArith ZArith Bool.
From Vivid Require Import Base.Tm Queue.Ring Mailbox.MbModel Mailbox.MbFine Mailbox.MbClass.
Import ListNotations.
Local Open Scope N_scope.

(** thread descriptor: (0 sys m inline) sender | (1 inline) Pause | (2 inline) Resume.
    [inline] = the operation runs inside a handler on the processor goroutine (no goroutine start step). *)
Definition fget_thread (t : tm) : option (fpc * bool) :=
  match t with
  | TL [TN 0; TN sys; TN m; TN i] => Some (FPushLock (negb (sys =? 0)) m, negb (i =? 0))
  | TL [TN 1; TN i] => Some (FPStore, negb (i =? 0))
  | TL [TN 2; TN i] => Some (FRCas1, negb (i =? 0))
  | _ => None
  end.

Fixpoint fstart_inline (i : nat) (fl : list bool) (f : fstate) : fstate :=
  match fl with
  | [] => f
  | b :: r => fstart_inline (S i) r (if b then fstep_or_stay f i else f)
  end.

(** per step: the operation class of the stepping thread's pc (Mailbox/MbClass.v) *)
Definition fpc_code (p : fpc) : N := class_code (class_of_fpc p).

Definition slot_code (s : option msg) : tm := match s with None => TN 0 | Some m => TN (m + 1) end.

Definition qproj (q : cq) : tm :=
  TL [TN (N.of_nat (qhead q)); TN (N.of_nat (qtail q)); TN (N.of_nat (qmod q)); tz (qlen q); tbool (qlock q);
      slot_code (slot (qbuf q) (qhead q)); slot_code (slot (qbuf q) (qtail q))].

Definition fproj (f : fstate) : list tm :=
  [tbool (fstatus f); tbool (fpaused f); tz (fnum f); tz (fsysnum f); TN (N.of_nat (length (flog f)));
   qproj (fsq f); qproj (fuq f)].

Fixpoint freplay (sched : list nat) (f : fstate) : list tm * fstate :=
  match sched with
  | [] => ([], f)
  | i :: r =>
      let lab := match nth_error (fthr f) i with Some p => fpc_code p | None => 0 end in
      match fstep i f with
      | Some f' => let (out, ff) := freplay r f' in (TL (TN lab :: fproj f') :: out, ff)
      | None => ([TL [TN 99; TN (N.of_nat i)]], f)
      end
  end.

Fixpoint fall_done_from (fl : list bool) (ths : list fpc) : bool :=
  match ths with
  | [] => true
  | p :: r =>
      let inl := match fl with b :: _ => b | [] => false end in
      (match p with FDone => true | _ => inl && fenv_pc p end) && fall_done_from (tl fl) r
  end.

Definition run_mbfine (t : tm) : tm :=
  match t with
  | TL [TN size; ths; sched] =>
      match get_list fget_thread ths, get_list get_n sched with
      | Some ths, Some sched =>
          let (out, ff) := freplay (map N.to_nat sched) (fstart_inline 0 (map snd ths) (finit (N.to_nat size) (map fst ths))) in
          TL [TL out;
              tlist (fun p => TL [tbool (fst p); TN (snd p)]) (flog ff);
              tbool (fall_done_from (map snd ths) (fthr ff));
              TL (map slot_code (qbuf (fsq ff)));
              TL (map slot_code (qbuf (fuq ff)))]
      | _, _ => tm_err 1
      end
  | _ => tm_err 0
  end.
