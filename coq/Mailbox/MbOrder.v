(** Order theorems of the mailbox machine: FIFO per kind, system-before-user. *)
From Coq Require Import List NArith ZArith Bool Lia Arith.
From Vivid Require Import Mailbox.MbModel Mailbox.MbSpec Mailbox.MbSpec2 Mailbox.MbInv.
Import ListNotations.
Local Open Scope Z_scope.

(** * list helpers *)
Lemma nth_error_upd_eq {A} (l : list A) i p x : nth_error l i = Some p -> nth_error (upd l i x) i = Some x.
Proof. revert i. induction l as [|h t IH]; intros [|i] H; cbn in *; try discriminate; auto. Qed.
Lemma nth_error_upd_ne {A} (l : list A) i j x : i <> j -> nth_error (upd l j x) i = nth_error l i.
Proof.
  revert i j. induction l as [|h t IH]; intros [|i] [|j] H; cbn; try reflexivity; try congruence.
  apply IH. congruence.
Qed.
Lemma length_upd {A} (l : list A) i x : length (upd l i x) = length l.
Proof. revert i. induction l as [|h t IH]; intros [|i]; cbn; auto. Qed.

Lemma flat_upd_same {B} (f : pc -> list B) l i p x : nth_error l i = Some p -> f x = f p ->
  flat_map f (upd l i x) = flat_map f l.
Proof.
  revert i. induction l as [|h t IH]; intros [|i] H E; cbn [nth_error upd flat_map] in *; try discriminate.
  - inversion H; subst. rewrite E. reflexivity.
  - rewrite (IH i H E). reflexivity.
Qed.

Lemma not_owner_no_held p : owner_pc p = false -> held_of p = [].
Proof. destruct p; cbn; congruence. Qed.

Lemma no_owner_no_held l : cnt owner_pc l = 0 -> flat_map held_of l = [].
Proof.
  induction l as [|h t IH]; cbn [cnt flat_map]; intros H; [reflexivity|].
  pose proof (cnt_nonneg owner_pc t). unfold b2z in H. destruct (owner_pc h) eqn:E; [lia|].
  rewrite (not_owner_no_held h E), IH by lia. reflexivity.
Qed.

Lemma held_single l i p x : nth_error l i = Some p -> owner_pc p = true -> cnt owner_pc l = 1 ->
  flat_map held_of l = held_of p /\ flat_map held_of (upd l i x) = held_of x.
Proof.
  revert i. induction l as [|h t IH]; intros [|i] H Ho Hc; cbn [nth_error upd flat_map cnt] in *; try discriminate.
  - inversion H; subst. rewrite Ho in Hc. cbn [b2z] in Hc. rewrite no_owner_no_held by lia.
    rewrite !app_nil_r. split; reflexivity.
  - pose proof (cnt_pos owner_pc t p i H Ho). unfold b2z in Hc. destruct (owner_pc h) eqn:E; [lia|].
    rewrite (not_owner_no_held h E). cbn [app]. apply IH; [exact H|exact Ho|lia].
Qed.

(** * C02.6 FIFO *)
Definition qof (b : bool) (s : st) : list msg := if b then sq s else uq s.
Definition ksel (b : bool) (e : bool * msg) : list msg := if Bool.eqb (fst e) b then [snd e] else [].
Definition L (b : bool) (s : st) : list msg := flat_map (ksel b) (log s) ++ flat_map (ksel b) (held s) ++ qof b s.
Definition pushed (b : bool) (p : pc) : list msg :=
  match p with SPush b' m => if Bool.eqb b' b then [m] else [] | _ => [] end.

Lemma step_fifo b i s s' p : Inv s -> nth_error (thr s) i = Some p -> step i s = Some s' ->
  L b s' = L b s ++ pushed b p.
Proof.
  intros [Hwf Ho _ _ _ _] Hp0 Hs.
  assert (Hb : b2z (status s) <= 1) by (unfold b2z; destruct (status s); lia).
  step_cases Hs Hp; inversion Hp0; subst p; clear Hp0.
  1: pose proof (cnt_pos bad_pc _ _ _ Hp) as Hbp;
     destruct k; cbn [bad_pc] in Hbp; try (specialize (Hbp eq_refl); lia).
  all: pose proof (cnt_pos owner_pc _ _ _ Hp) as Hop; cbn [owner_pc] in Hop.
  all: unfold L, held, qof; cbn [thr set_thr sq uq log pushed]; rewrite ?flat_map_app; cbn [flat_map held_of app].
  all: try (rewrite (flat_upd_same held_of _ _ _ _ Hp) by reflexivity).
  all: try (specialize (Hop eq_refl);
            match goal with |- context [upd _ _ ?x] =>
              destruct (held_single _ _ _ x Hp eq_refl ltac:(lia)) as [Hh1 Hh2]; rewrite ?Hh1, ?Hh2 end).
  all: repeat match goal with H : _ = _ :> list _ |- _ => rewrite H in * end.
  all: destruct b; cbn [held_of flat_map ksel fst snd Bool.eqb app]; rewrite ?app_nil_r, <- ?app_assoc; cbn [app]; try reflexivity.
Qed.

Lemma run_fifo b sched s : Inv s -> L b (run sched s) = L b s ++ push_order b (run_trace sched s).
Proof.
  revert s. induction sched as [|i r IH]; intros s H; cbn [run fold_left run_trace].
  - cbn [push_order flat_map]. rewrite app_nil_r. reflexivity.
  - fold (run r (step_or_stay s i)). unfold step_or_stay.
    destruct (nth_error (thr s) i) as [p|] eqn:Hp.
    + destruct (step i s) as [s'|] eqn:Hs; [|exact (IH s H)].
      rewrite (IH s' (step_inv _ _ _ H Hs)), (step_fifo b _ _ _ _ H Hp Hs).
      unfold push_order. cbn [flat_map snd]. fold (pushed b p). rewrite <- app_assoc. reflexivity.
    + assert (Hs : step i s = None) by (unfold step; rewrite Hp; reflexivity). rewrite Hs. exact (IH s H).
Qed.

Theorem fifo b ths sched : forallb env_pc ths = true ->
  let s := run sched (init ths) in
  log_of b s ++ held_kind b s ++ (if b then sq s else uq s) = push_order b (run_trace sched (init ths)).
Proof.
  intros He s. pose proof (run_fifo b sched _ (init_inv _ He)) as H. fold s in H.
  assert (L0 : L b (init ths) = []).
  { unfold L, held. cbn [init log thr]. destruct (flat_map_Start_env ths He) as [_ E]. rewrite E.
    destruct b; reflexivity. }
  rewrite L0 in H. cbn [app] in H. rewrite <- H. unfold L, qof, log_of, held_kind, ksel. reflexivity.
Qed.

(** * traces with states *)
Lemma run_trace2_fst sched s : map fst (run_trace2 sched s) = run_trace sched s.
Proof.
  revert s. induction sched as [|i r IH]; intros s; cbn [run_trace2 run_trace map]; [reflexivity|].
  destruct (nth_error (thr s) i); [|apply IH]. destruct (step i s); [|apply IH].
  cbn [map fst]. rewrite IH. reflexivity.
Qed.

Lemma step_none_of_nth s i : nth_error (thr s) i = None -> step i s = None.
Proof. intros H. unfold step. rewrite H. reflexivity. Qed.

Lemma run_cons i r s : run (i :: r) s = run r (step_or_stay s i).
Proof. reflexivity. Qed.

(** a prefix of the trace of a schedule is the trace of a prefix of the schedule *)
Lemma run_trace2_split sched s A B : run_trace2 sched s = A ++ B ->
  exists sa sb, sched = sa ++ sb /\ run_trace2 sa s = A /\ run_trace2 sb (run sa s) = B.
Proof.
  revert s A. induction sched as [|i r IH]; intros s A H.
  - cbn [run_trace2] in H. symmetry in H. apply app_eq_nil in H as [-> ->].
    exists [], []. repeat split.
  - destruct A as [|e A'].
    + exists [], (i :: r). repeat split. exact H.
    + cbn [run_trace2] in H.
      destruct (nth_error (thr s) i) as [p|] eqn:Hp.
      * destruct (step i s) as [s'|] eqn:Hs.
        -- cbn [app] in H. inversion H as [[He Ht]]. destruct (IH s' A' Ht) as (sa & sb & -> & Ha & Hb).
           exists (i :: sa), sb. repeat split.
           ++ cbn [run_trace2]. rewrite Hp, Hs, Ha. reflexivity.
           ++ rewrite run_cons. unfold step_or_stay. rewrite Hs. exact Hb.
        -- destruct (IH s (e :: A') H) as (sa & sb & -> & Ha & Hb).
           exists (i :: sa), sb. repeat split.
           ++ cbn [run_trace2]. rewrite Hp, Hs. exact Ha.
           ++ rewrite run_cons. unfold step_or_stay. rewrite Hs. exact Hb.
      * destruct (IH s (e :: A') H) as (sa & sb & -> & Ha & Hb).
        exists (i :: sa), sb. repeat split.
        -- cbn [run_trace2]. rewrite Hp. exact Ha.
        -- rewrite run_cons. unfold step_or_stay. rewrite (step_none_of_nth _ _ Hp). exact Hb.
Qed.

(** the first entry of a trace records the start state, the pc of the chosen thread, and the step is enabled *)
Lemma run_trace2_head sb s0 i p s post : run_trace2 sb s0 = (i, p, s) :: post ->
  s = s0 /\ nth_error (thr s0) i = Some p /\ exists s' sb', step i s0 = Some s' /\ post = run_trace2 sb' s'.
Proof.
  induction sb as [|j r IH]; cbn [run_trace2]; intros H; [discriminate|].
  destruct (nth_error (thr s0) j) as [q|] eqn:Hq; [|exact (IH H)].
  destruct (step j s0) as [s'|] eqn:Hs; [|exact (IH H)].
  inversion H; subst. repeat split; [exact Hq|]. exists s', r. split; [exact Hs|reflexivity].
Qed.

(** executions, built at the end *)
Inductive exec (s0 : st) : list (nat * pc * st) -> st -> Prop :=
| exec_nil : exec s0 [] s0
| exec_snoc tr s i p s' : exec s0 tr s -> nth_error (thr s) i = Some p -> step i s = Some s' ->
    exec s0 (tr ++ [(i, p, s)]) s'.

Lemma exec_cons s0 i p s1 tr s : nth_error (thr s0) i = Some p -> step i s0 = Some s1 ->
  exec s1 tr s -> exec s0 ((i, p, s0) :: tr) s.
Proof.
  intros Hp Hs H. induction H as [|tr s j q s' H IH Hq Hs'].
  - apply (exec_snoc s0 [] s0 i p s1); [constructor|exact Hp|exact Hs].
  - change ((i, p, s0) :: tr ++ [(j, q, s)]) with (((i, p, s0) :: tr) ++ [(j, q, s)]).
    apply exec_snoc; assumption.
Qed.

Lemma exec_run sched s0 : exec s0 (run_trace2 sched s0) (run sched s0).
Proof.
  revert s0. induction sched as [|i r IH]; intros s0; cbn [run_trace2]; [constructor|].
  rewrite run_cons. unfold step_or_stay.
  destruct (nth_error (thr s0) i) as [p|] eqn:Hp.
  - destruct (step i s0) as [s'|] eqn:Hs; [|apply IH]. apply (exec_cons s0 i p s'); [exact Hp|exact Hs|apply IH].
  - rewrite (step_none_of_nth _ _ Hp). apply IH.
Qed.

Lemma exec_prefix sched s0 A e B : run_trace2 sched s0 = A ++ e :: B ->
  exec s0 A (snd e) /\ nth_error (thr (snd e)) (fst (fst e)) = Some (snd (fst e)) /\
  exists s' sb, step (fst (fst e)) (snd e) = Some s' /\ B = run_trace2 sb s'.
Proof.
  intros H. destruct (run_trace2_split _ _ _ _ H) as (sa & sb & -> & Ha & Hb).
  destruct e as [[i p] s]. destruct (run_trace2_head _ _ _ _ _ _ Hb) as (-> & Hp & s' & sb' & Hs & HB).
  cbn [fst snd]. split; [|split; [exact Hp|exists s', sb'; split; assumption]].
  rewrite <- Ha. apply exec_run.
Qed.

Lemma exec_inv s0 tr s : Inv s0 -> exec s0 tr s -> Inv s.
Proof. intros H0 H. induction H; [exact H0|]. eapply step_inv; eassumption. Qed.

(** * how a step changes the thread list *)
Lemma step_thr j s s' : step j s = Some s' ->
  exists q, thr s' = upd (thr s) j q \/ thr s' = upd (thr s) j q ++ [Start HSysPop].
Proof.
  intros Hs. step_cases Hs Hp; cbn [thr set_thr]; eexists; (left; reflexivity) || (right; reflexivity).
Qed.

Lemma step_other i j s s' q : step j s = Some s' -> i <> j -> nth_error (thr s') i = Some q ->
  q <> Start HSysPop -> nth_error (thr s) i = Some q.
Proof.
  intros Hs Hij Hq Hne. destruct (step_thr _ _ _ Hs) as (x & [E|E]); rewrite E in Hq.
  - rewrite nth_error_upd_ne in Hq by exact Hij. exact Hq.
  - destruct (lt_dec i (length (upd (thr s) j x))) as [Hl|Hl].
    + rewrite nth_error_app1 in Hq by exact Hl. rewrite nth_error_upd_ne in Hq by exact Hij. exact Hq.
    + rewrite nth_error_app2 in Hq by lia.
      destruct (i - length (upd (thr s) j x))%nat as [|[|n]]; cbn in Hq; try discriminate. congruence.
Qed.

Lemma steps_of_snoc i tr j p s :
  steps_of i (tr ++ [(j, p, s)]) = steps_of i tr ++ (if Nat.eqb j i then [(p, s)] else []).
Proof. unfold steps_of. rewrite flat_map_app. cbn [flat_map fst snd]. rewrite app_nil_r. reflexivity. Qed.

(** which steps lead into the window between the "system queue empty" observation and the user pop *)
Lemma step_to_loadpaused j s s' p : cnt bad_pc (thr s) = 0 -> nth_error (thr s) j = Some p -> step j s = Some s' ->
  nth_error (thr s') j = Some HLoadPaused -> p = HSysPop /\ sq s = [].
Proof.
  intros Hwf Hp0 Hs Hq. step_cases Hs Hp; inversion Hp0; subst p; clear Hp0; cbn [thr set_thr] in Hq;
    try (rewrite nth_error_app1 in Hq by (rewrite length_upd; apply nth_error_Some; congruence));
    rewrite (nth_error_upd_eq _ _ _ _ Hp) in Hq; try discriminate Hq.
  - pose proof (cnt_pos bad_pc _ _ _ Hp) as Hbp. inversion Hq; subst k. specialize (Hbp eq_refl). lia.
  - split; auto.
Qed.

Lemma step_to_userpop j s s' p : cnt bad_pc (thr s) = 0 -> nth_error (thr s) j = Some p -> step j s = Some s' ->
  nth_error (thr s') j = Some HUserPop -> p = HLoadPaused /\ paused s = false.
Proof.
  intros Hwf Hp0 Hs Hq. step_cases Hs Hp; inversion Hp0; subst p; clear Hp0; cbn [thr set_thr] in Hq;
    try (rewrite nth_error_app1 in Hq by (rewrite length_upd; apply nth_error_Some; congruence));
    rewrite (nth_error_upd_eq _ _ _ _ Hp) in Hq; try discriminate Hq.
  - pose proof (cnt_pos bad_pc _ _ _ Hp) as Hbp. inversion Hq; subst k. specialize (Hbp eq_refl). lia.
  - split; auto.
Qed.

(** * C02.7 system first *)
Definition SF (tr : list (nat * pc * st)) (s : st) : Prop :=
  forall i,
    (nth_error (thr s) i = Some HLoadPaused ->
       exists pre s1, steps_of i tr = pre ++ [(HSysPop, s1)] /\ sq s1 = []) /\
    (nth_error (thr s) i = Some HUserPop ->
       exists pre s1 s2, steps_of i tr = pre ++ [(HSysPop, s1); (HLoadPaused, s2)] /\ sq s1 = [] /\ paused s2 = false).

Lemma exec_SF ths tr s : forallb env_pc ths = true -> exec (init ths) tr s -> SF tr s.
Proof.
  intros He H. pose proof (init_inv _ He) as HI0.
  induction H as [|tr s j p s' H IH Hp Hs].
  - intros i. cbn [init thr]. split; intros Hi; exfalso;
      apply nth_error_In in Hi; apply in_map_iff in Hi as (k & Hk & _); discriminate Hk.
  - pose proof (exec_inv _ _ _ HI0 H) as HI. pose proof (i_wf _ HI) as Hwf.
    intros i. rewrite steps_of_snoc. destruct (Nat.eqb_spec j i) as [->|Hji].
    + split; intros Hi.
      * destruct (step_to_loadpaused _ _ _ _ Hwf Hp Hs Hi) as [-> Hq].
        exists (steps_of i tr), s. split; [reflexivity|exact Hq].
      * destruct (step_to_userpop _ _ _ _ Hwf Hp Hs Hi) as [-> Hq].
        destruct (proj1 (IH i) Hp) as (pre & s1 & E & Hs1).
        exists pre, s1, s. rewrite E, <- app_assoc. repeat split; assumption.
    + rewrite app_nil_r. split; intros Hi.
      * apply (proj1 (IH i)). apply (step_other i j s s' _ Hs); [congruence|exact Hi|discriminate].
      * apply (proj2 (IH i)). apply (step_other i j s s' _ Hs); [congruence|exact Hi|discriminate].
Qed.

Theorem system_first ths sched pre i s post : forallb env_pc ths = true ->
  run_trace2 sched (init ths) = pre ++ (i, HUserPop, s) :: post ->
  exists pre0 s1 s2, steps_of i pre = pre0 ++ [(HSysPop, s1); (HLoadPaused, s2)] /\ sq s1 = [] /\ paused s2 = false.
Proof.
  intros He H. destruct (exec_prefix _ _ _ _ _ H) as (Hex & Hp & _). cbn [fst snd] in *.
  exact (proj2 (exec_SF ths pre s He Hex i) Hp).
Qed.

(** * the window between the "system queue empty" observation and the user pop *)
Definition in_window (p : pc) : bool := match p with HLoadPaused | HUserPop => true | _ => false end.

Lemma window_le_owner l : cnt in_window l <= cnt owner_pc l.
Proof. apply cnt_le. intros p. destruct p; cbn; congruence. Qed.

Lemma step_window i s s' p : cnt bad_pc (thr s) = 0 -> nth_error (thr s) i = Some p -> step i s = Some s' ->
  sq s <> [] ->
  cnt in_window (thr s') + (if is_user_pop (i, p, s) then 1 else 0) <= cnt in_window (thr s).
Proof.
  intros Hwf Hp0 Hs Hne. unfold is_user_pop. cbn [fst snd].
  step_cases Hs Hp; inversion Hp0; subst p; clear Hp0; try congruence.
  1: pose proof (cnt_pos bad_pc _ _ _ Hp) as Hbp;
     destruct k; cbn [bad_pc] in Hbp; try (specialize (Hbp eq_refl); lia).
  all: cbn [thr set_thr uq]; rewrite ?cnt_app, (cnt_upd _ _ _ _ _ Hp); cbn [cnt in_window b2z];
       repeat match goal with H : _ = _ :> list _ |- _ => rewrite H in * end;
       try destruct (uq s); lia.
Qed.

Lemma window_trace sb s : Inv s -> Forall (fun e => sq (snd e) <> []) (run_trace2 sb s) ->
  Z.of_nat (user_pops (run_trace2 sb s)) + cnt in_window (thr (run sb s)) <= cnt in_window (thr s).
Proof.
  revert s. induction sb as [|i r IH]; intros s HI HF; cbn [run_trace2] in *.
  - cbn. lia.
  - rewrite run_cons. unfold step_or_stay.
    destruct (nth_error (thr s) i) as [p|] eqn:Hp.
    + destruct (step i s) as [s'|] eqn:Hs; [|exact (IH s HI HF)].
      inversion HF as [|e l Hne HF']; subst. cbn [snd] in Hne.
      specialize (IH s' (step_inv _ _ _ HI Hs) HF').
      pose proof (step_window _ _ _ _ (i_wf _ HI) Hp Hs Hne) as Hw.
      unfold user_pops in *. cbn [filter]. destruct (is_user_pop (i, p, s)); cbn [length]; lia.
    + rewrite (step_none_of_nth _ _ Hp). exact (IH s HI HF).
Qed.

(** in a stretch of an execution during which the system queue is never empty at most one user message
    is taken out of the user queue *)
Theorem window_one_pop ths sched A B C : forallb env_pc ths = true ->
  run_trace2 sched (init ths) = A ++ B ++ C ->
  (forall e, In e B -> sq (snd e) <> []) -> (user_pops B <= 1)%nat.
Proof.
  intros He H HB.
  destruct (run_trace2_split _ _ _ _ H) as (sa & sb & -> & Ha & Hb).
  destruct (run_trace2_split _ _ _ _ Hb) as (sb1 & sb2 & -> & Hb1 & _).
  pose proof (run_inv sa _ (init_inv _ He)) as HI.
  assert (HF : Forall (fun e => sq (snd e) <> []) (run_trace2 sb1 (run sa (init ths)))).
  { rewrite Hb1. apply Forall_forall. exact HB. }
  pose proof (window_trace sb1 _ HI HF) as Hw. rewrite Hb1 in Hw.
  pose proof (window_le_owner (thr (run sa (init ths)))) as H1.
  pose proof (cnt_nonneg in_window (thr (run sb1 (run sa (init ths))))) as H2.
  pose proof (i_own _ HI) as Ho. unfold b2z in Ho. destruct (status (run sa (init ths))); lia.
Qed.

Theorem kill_overtakes ths sched A j m s0 B C : forallb env_pc ths = true ->
  run_trace2 sched (init ths) = A ++ (j, SPush true m, s0) :: B ++ C ->
  (forall e, In e B -> In m (sq (snd e))) -> (user_pops B <= 1)%nat.
Proof.
  intros He H HB. apply (window_one_pop ths sched (A ++ [(j, SPush true m, s0)]) B C He).
  - rewrite <- app_assoc. exact H.
  - intros e Hin Hnil. specialize (HB e Hin). rewrite Hnil in HB. destruct HB.
Qed.

(** the hypothesis of [kill_overtakes] holds right after the push: the message is in the system queue *)
Lemma pushed_is_queued ths sched A j m s0 e1 C :
  run_trace2 sched (init ths) = A ++ (j, SPush true m, s0) :: e1 :: C -> In m (sq (snd e1)).
Proof.
  intros H. destruct (exec_prefix _ _ _ _ _ H) as (_ & Hp & s' & sb & Hs & HB). cbn [fst snd] in *.
  destruct e1 as [[i1 p1] s1]. symmetry in HB. destruct (run_trace2_head _ _ _ _ _ _ HB) as (-> & _).
  cbn [snd]. unfold step in Hs. rewrite Hp in Hs. inversion Hs. cbn [sq set_thr]. apply in_or_app. right. left. reflexivity.
Qed.

Corollary fifo_prefix b ths sched : forallb env_pc ths = true ->
  exists rest, push_order b (run_trace sched (init ths)) = log_of b (run sched (init ths)) ++ rest.
Proof. intros He. eexists. symmetry. apply (fifo b ths sched He). Qed.
