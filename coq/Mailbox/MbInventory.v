(** The model's side of the source-level inventory check.

    The translator harness/cmd/syncops extracts from the CURRENT internal/queues/ring.go and
    internal/mailbox/unbounded_mailbox.go the SET of operation classes of their synchronisation operations
    (Generated/MbSyncOps.v: [src_sync_classes], (class, kind) pairs; a class = kind of operation + field, without the
    enclosing function and the receiver variable - the same reduction the lock-step harness applies to the
    instrumenter's labels and [class_name] of Mailbox/MbClass.v gives for the model's pcs).

    [model_sync_classes] is what the models know: every class with its kind and the model step class ([opclass]) that
    performs it.  Properties/C01_fine.v states [inventory_report = ([], [])]:
      - [unknown_ops]: source classes of a kind other than "load" that are not in the table - a write, a CAS, a lock,
        a go statement, a channel operation, a call through a field (queue API), a sync-typed field the models have no
        step for;
      - [missing_ops]: classes of the table that the source no longer contains - an operation the models rely on.
    A new class of kind "load" (a read-only operation) is deliberately not an error here ([tolerated_loads] lists
    them): the lock-step run treats such a step as a stuttering step, only if the shared state is unchanged across
    it, and reports it; every later step must still match the model. *)
From Coq Require Import List String Bool NArith ZArith.
From Vivid Require Import Mailbox.MbModel Mailbox.MbFine Mailbox.MbClass.
Import ListNotations.
Local Open Scope string_scope.

Inductive role : Type :=
| Step (c : opclass)     (* performed by the model steps of class c (a scheduling point of the lock-step run) *)
| Within (c : opclass)   (* no scheduling point of its own; runs at the end of the step of class c (a step lasts until the
                            goroutine's next scheduling point) and touches only data the goroutine owns at that moment *)
| Decl.                  (* a declaration the operations refer to *)

Definition model_sync_classes : list (string * string * role) := [
  ("Lock:lock", "lock", Step KLock);
  ("Unlock:lock", "unlock", Within KAddLen);
  ("atomic.AddInt32:num", "rmw", Step KAddNum);
  ("atomic.AddInt32:systemNum", "rmw", Step KAddSysNum);
  ("atomic.AddInt64:len", "rmw", Step KAddLen);
  ("atomic.CompareAndSwapUint32:paused", "rmw", Step KCasPaused);
  ("atomic.CompareAndSwapUint32:status", "rmw", Step KCasStatus);
  ("atomic.LoadInt32:num", "load", Step KLoadNum);
  ("atomic.LoadInt32:systemNum", "load", Step KLoadSysNum);
  ("atomic.LoadInt64:len", "load", Step KLoadLen);
  ("atomic.LoadUint32:paused", "load", Step KLoadPaused);
  ("atomic.StoreUint32:paused", "store", Step KStorePaused);
  ("atomic.StoreUint32:status", "store", Step KStoreStatus);
  ("call:buffer.Pop", "call", Step KPopUser);
  ("call:buffer.Push", "call", Step KPushUser);
  ("call:handler.HandleEnvelop", "call", Step KHandle);
  ("call:systemBuffer.Pop", "call", Step KPopSys);
  ("call:systemBuffer.Push", "call", Step KPushSys);
  ("field:lock:sync.Mutex", "field", Decl);
  ("go:process", "go", Step KStart)
].

Definition pair_eqb (a b : string * string) : bool := String.eqb (fst a) (fst b) && String.eqb (snd a) (snd b).
Definition mem (x : string * string) (l : list (string * string)) : bool := existsb (pair_eqb x) l.
Definition table_pairs : list (string * string) := map fst model_sync_classes.

Definition unknown_ops (src : list (string * string)) : list (string * string) :=
  filter (fun e => negb (String.eqb (snd e) "load") && negb (mem e table_pairs)) src.
Definition missing_ops (src : list (string * string)) : list (string * string) :=
  filter (fun e => negb (mem e src)) table_pairs.
Definition tolerated_loads (src : list (string * string)) : list (string * string) :=
  filter (fun e => String.eqb (snd e) "load" && negb (mem e table_pairs)) src.
Definition inventory_report (src : list (string * string)) := (unknown_ops src, missing_ops src).

(** the table is about the model: the class of every entry is [class_name] of its step class *)
Definition table_steps : list opclass :=
  flat_map (fun e => match snd e with Step c => [c] | _ => [] end) model_sync_classes.

Definition table_consistent : bool :=
  forallb (fun e => match snd e with
                    | Step c => String.eqb (fst (fst e)) (class_name c)
                    | _ => true
                    end) model_sync_classes.

Definition opclass_eqb (a b : opclass) : bool := N.eqb (class_code a) (class_code b).
Lemma opclass_eqb_eq a b : opclass_eqb a b = true -> a = b.
Proof. destruct a, b; cbn; intros H; try discriminate H; reflexivity. Qed.

Lemma table_names_are_class_names : table_consistent = true.
Proof. vm_compute. reflexivity. Qed.

(** every kind of step either model can take is the step of an operation class found in the table ... *)
Lemma class_in_table c : c = KNone \/ In c table_steps.
Proof.
  assert (H : c = KNone \/ existsb (opclass_eqb c) table_steps = true) by (destruct c; vm_compute; auto).
  destruct H as [E|E]; [left; exact E|right].
  apply existsb_exists in E as (x & Hin & Hx). apply opclass_eqb_eq in Hx. subst. exact Hin.
Qed.

Lemma every_fine_step_in_table (p : fpc) : class_of_fpc p = KNone \/ In (class_of_fpc p) table_steps.
Proof. apply class_in_table. Qed.
Lemma every_coarse_step_in_table (p : pc) : class_of_pc p = KNone \/ In (class_of_pc p) table_steps.
Proof. apply class_in_table. Qed.

(** ... and every step class of the table is the class of a pc of one of the models *)
Definition sample_fpcs : list fpc :=
  [FStart FDone; FPushLock true 0%N; FPushAdd true 0%N; FAdd true; FAdd false; FCas; FPStore; FRCas1; FQLoad true;
   FHandle true 0%N; FLoadPaused; FStoreIdle; FLoadNum; FLoadSys 0%Z].
Definition sample_pcs : list pc := [SPush true 0%N; SPush false 0%N; HSysPop; HUserPop].

Lemma every_table_step_is_a_pc c : In c table_steps ->
  (exists p : fpc, class_of_fpc p = c) \/ (exists p : pc, class_of_pc p = c).
Proof.
  intros Hin.
  assert (H : forallb (fun c => existsb (fun p => opclass_eqb (class_of_fpc p) c) sample_fpcs
                                || existsb (fun p => opclass_eqb (class_of_pc p) c) sample_pcs) table_steps = true)
    by (vm_compute; reflexivity).
  rewrite forallb_forall in H. specialize (H c Hin). apply orb_true_iff in H as [H|H];
    apply existsb_exists in H as (p & _ & Hp); [left|right]; exists p; exact (opclass_eqb_eq _ _ Hp).
Qed.
