(** Micro-step model of internal/mailbox/unbounded_mailbox.go (as it is in /repo now, i.e. with the
    paused re-check in [process]).  One step = one atomic operation of one goroutine: an atomic.* call,
    one ring-queue Push/Pop (linearizable: every access is under the queue's mutex, M4), the start of a
    handler invocation.  Any number of environment threads (senders of user/system messages, Pause and
    Resume callers); processor threads are created by a successful idle->processing CAS.  A handler
    that sends to / pauses / resumes its own mailbox is an ordinary environment thread that happens to
    be scheduled while the owner sits between its Handle step and its next step. *)
From Coq Require Import List NArith ZArith Bool.
Import ListNotations.
Local Open Scope Z_scope.

Notation msg := N.            (* message identity *)

Inductive pc : Type :=
| Start (k : pc)                      (* goroutine created, has not run yet *)
(* sender of a message: Enqueue *)
| SPush (sys : bool) (m : msg)
| SAdd (sys : bool)
| SCas
(* Pause() *)
| PStore
(* Resume() *)
| RCas1
| RCas2
(* process / processHandle *)
| HSysPop
| HSysDec (m : msg)
| HSysHandle (m : msg)
| HLoadPaused
| HUserPop
| HUserDec (m : msg)
| HUserHandle (m : msg)
| PStoreIdle
| PLoadNum
| PLoadSys (u : Z)
| PLoadPaused (u : Z)
| PCas
| Done.

Record st : Type := {
  status : bool;          (* true = processing *)
  paused : bool;
  num : Z;
  sysnum : Z;
  sq : list msg;          (* system queue, head = next to pop *)
  uq : list msg;
  log : list (bool * msg);     (* handled messages, oldest first: (system?, id) *)
  thr : list pc;          (* thread i is at [nth i thr] *)
}.

Definition set_thr (s : st) (t : list pc) : st :=
  {| status := status s; paused := paused s; num := num s; sysnum := sysnum s; sq := sq s; uq := uq s; log := log s; thr := t |}.

Fixpoint upd {A} (l : list A) (i : nat) (x : A) : list A :=
  match l, i with
  | [], _ => []
  | _ :: r, O => x :: r
  | y :: r, S i' => y :: upd r i' x
  end.

(** labels = what the instrumented Go code reports at the scheduling point before the step *)
Inductive label : Type :=
| LStart | LPushSys | LPushUser | LAddSys | LAddUser | LCasStatus | LStorePaused | LCasPaused
| LPopSys | LDecSys | LHandle | LLoadPaused | LPopUser | LDecUser | LStoreStatus | LLoadNum | LLoadSys | LNone.

Definition label_of (p : pc) : label :=
  match p with
  | Start _ => LStart
  | SPush true _ => LPushSys | SPush false _ => LPushUser
  | SAdd true => LAddSys | SAdd false => LAddUser
  | SCas | RCas2 | PCas => LCasStatus
  | PStore => LStorePaused
  | RCas1 => LCasPaused
  | HSysPop => LPopSys
  | HSysDec _ => LDecSys
  | HSysHandle _ | HUserHandle _ => LHandle
  | HLoadPaused | PLoadPaused _ => LLoadPaused
  | HUserPop => LPopUser
  | HUserDec _ => LDecUser
  | PStoreIdle => LStoreStatus
  | PLoadNum => LLoadNum
  | PLoadSys _ => LLoadSys
  | Done => LNone
  end.

(** [cas_status s i next_fail]: thread [i] attempts idle->processing; on success a new processor thread is
    appended (the `go m.process()`), and thread [i] itself is finished / continues at [next_ok]. *)
Definition step (i : nat) (s : st) : option st :=
  match nth_error (thr s) i with
  | None => None
  | Some p =>
    let goto q := Some (set_thr s (upd (thr s) i q)) in
    let with_st s' q := Some (set_thr s' (upd (thr s) i q)) in
    match p with
    | Done => None
    | Start k => goto k
    | SPush true m =>
        with_st {| status := status s; paused := paused s; num := num s; sysnum := sysnum s; sq := sq s ++ [m]; uq := uq s; log := log s; thr := thr s |} (SAdd true)
    | SPush false m =>
        with_st {| status := status s; paused := paused s; num := num s; sysnum := sysnum s; sq := sq s; uq := uq s ++ [m]; log := log s; thr := thr s |} (SAdd false)
    | SAdd true =>
        with_st {| status := status s; paused := paused s; num := num s; sysnum := sysnum s + 1; sq := sq s; uq := uq s; log := log s; thr := thr s |} SCas
    | SAdd false =>
        with_st {| status := status s; paused := paused s; num := num s + 1; sysnum := sysnum s; sq := sq s; uq := uq s; log := log s; thr := thr s |} SCas
    | SCas | RCas2 =>
        if status s then goto Done
        else Some {| status := true; paused := paused s; num := num s; sysnum := sysnum s; sq := sq s; uq := uq s; log := log s;
                     thr := upd (thr s) i Done ++ [Start HSysPop] |}
    | PStore =>
        with_st {| status := status s; paused := true; num := num s; sysnum := sysnum s; sq := sq s; uq := uq s; log := log s; thr := thr s |} Done
    | RCas1 =>
        if paused s then
          with_st {| status := status s; paused := false; num := num s; sysnum := sysnum s; sq := sq s; uq := uq s; log := log s; thr := thr s |} RCas2
        else goto Done
    | HSysPop =>
        match sq s with
        | m :: r => with_st {| status := status s; paused := paused s; num := num s; sysnum := sysnum s; sq := r; uq := uq s; log := log s; thr := thr s |} (HSysDec m)
        | [] => goto HLoadPaused
        end
    | HSysDec m =>
        with_st {| status := status s; paused := paused s; num := num s; sysnum := sysnum s - 1; sq := sq s; uq := uq s; log := log s; thr := thr s |} (HSysHandle m)
    | HSysHandle m =>
        with_st {| status := status s; paused := paused s; num := num s; sysnum := sysnum s; sq := sq s; uq := uq s; log := log s ++ [(true, m)]; thr := thr s |} HSysPop
    | HLoadPaused => if paused s then goto PStoreIdle else goto HUserPop
    | HUserPop =>
        match uq s with
        | m :: r => with_st {| status := status s; paused := paused s; num := num s; sysnum := sysnum s; sq := sq s; uq := r; log := log s; thr := thr s |} (HUserDec m)
        | [] => goto PStoreIdle
        end
    | HUserDec m =>
        with_st {| status := status s; paused := paused s; num := num s - 1; sysnum := sysnum s; sq := sq s; uq := uq s; log := log s; thr := thr s |} (HUserHandle m)
    | HUserHandle m =>
        with_st {| status := status s; paused := paused s; num := num s; sysnum := sysnum s; sq := sq s; uq := uq s; log := log s ++ [(false, m)]; thr := thr s |} HSysPop
    | PStoreIdle =>
        with_st {| status := false; paused := paused s; num := num s; sysnum := sysnum s; sq := sq s; uq := uq s; log := log s; thr := thr s |} PLoadNum
    | PLoadNum => goto (PLoadSys (num s))
    | PLoadSys u =>
        if 0 <? sysnum s then goto PCas
        else if 0 <? u then goto (PLoadPaused u)
        else goto Done
    | PLoadPaused u => if paused s then goto Done else goto PCas
    | PCas =>
        if status s then goto Done
        else with_st {| status := true; paused := paused s; num := num s; sysnum := sysnum s; sq := sq s; uq := uq s; log := log s; thr := thr s |} HSysPop
    end
  end.

Definition init (ths : list pc) : st :=
  {| status := false; paused := false; num := 0; sysnum := 0; sq := []; uq := []; log := []; thr := map Start ths |}.

(** run a schedule; a choice that cannot step (finished or non-existent thread) is skipped *)
Definition step_or_stay (s : st) (i : nat) : st := match step i s with Some s' => s' | None => s end.
Definition run (sched : list nat) (s : st) : st := fold_left step_or_stay sched s.

(** environment thread programs: what a client may start (Enqueue, Pause, Resume) *)
Definition env_pc (p : pc) : bool :=
  match p with SPush _ _ | PStore | RCas1 => true | _ => false end.

Definition reachable (s : st) : Prop :=
  exists ths sched, forallb env_pc ths = true /\ run sched (init ths) = s.
