(** Forward simulation: every execution of the fine-grained machine (Mailbox/MbFine.v: mailbox atomics + ring-queue
    mutex / len micro-steps) is simulated step by step by the coarse machine (Mailbox/MbModel.v), whose queue
    operations are atomic.  The simulation relation [SR f ls lu] says: the coarse state [absl f ls lu] satisfies the
    coarse invariant, and each ring represents its abstract content ([QI]).  The single-consumer argument is circular
    only in appearance: "at most one thread inside Pop" is read off the COARSE invariant of the abstracted state
    ([i_own]), and is what makes the Pop whose emptiness check succeeded find an element ([QI_popadd]). *)
From Coq Require Import List NArith ZArith Bool Arith Lia.
From Coq Require Import ZifyNat ZifyBool.
From Vivid Require Import Queue.Ring Queue.RingProofs.
From Vivid Require Import Mailbox.MbModel Mailbox.MbSpec Mailbox.MbSpec2 Mailbox.MbInv Mailbox.MbOrder Mailbox.MbFine Mailbox.MbFineQ.
Import ListNotations.
Local Open Scope Z_scope.

(** thread pcs that cannot occur: a goroutine is only ever started on Enqueue / Pause / Resume / process; a crash *)
Definition fbad (p : fpc) : bool :=
  match p with
  | FStart (FPushLock _ _) | FStart FPStore | FStart FRCas1 | FStart (FQLoad true) => false
  | FStart _ => true
  | FCrash => true
  | _ => false
  end.

Record SR (f : fstate) (ls lu : list msg) : Prop := {
  sr_inv : Inv (absl f ls lu);
  sr_s : QI true (fsq f) (fthr f) ls;
  sr_u : QI false (fuq f) (fthr f) lu;
  sr_wf : fcnt fbad (fthr f) = 0
}.

Lemma fbad_upd T i p p' : fcnt fbad T = 0 -> nth_error T i = Some p -> fbad p' = false -> fcnt fbad (upd T i p') = 0.
Proof.
  intros H Hp Hb. rewrite (fcnt_upd _ _ _ _ _ Hp), H, Hb, (fcnt_zero_all _ _ H _ _ Hp). reflexivity.
Qed.

(** the coarse step of thread i at the abstraction of [p] *)
Ltac coarse_step Hp :=
  unfold step; cbn [absl thr]; rewrite (nth_error_map_some apc _ _ _ Hp); cbn [apc]; cbv zeta;
  cbn [absl status paused num sysnum sq uq log thr set_thr].

(** a step that leaves both queues alone and moves thread i between pcs that mean nothing to either queue *)
Lemma sim_plain i f p p' g ls lu :
  SR f ls lu -> nth_error (fthr f) i = Some p ->
  fsq g = fsq f -> fuq g = fuq f ->
  qrel true p = false -> qrel false p = false -> qrel true p' = false -> qrel false p' = false -> fbad p' = false ->
  step i (absl f ls lu) = Some (absl (fset_thr g (upd (fthr f) i p')) ls lu) ->
  SR (fset_thr g (upd (fthr f) i p')) ls lu.
Proof.
  intros [Hi Hs Hu Hw] Hp Es Eu R1 R2 R3 R4 Hb Hstep. split.
  - exact (step_inv _ _ _ Hi Hstep).
  - cbn [fset_thr fsq fthr]. rewrite Es. exact (QI_irrel _ _ _ _ _ _ _ Hs Hp R1 R3).
  - cbn [fset_thr fuq fthr]. rewrite Eu. exact (QI_irrel _ _ _ _ _ _ _ Hu Hp R2 R4).
  - cbn [fset_thr fthr]. exact (fbad_upd _ _ _ _ Hw Hp Hb).
Qed.

(** the same with the `go m.process()` appended *)
Lemma sim_spawn i f p g ls lu :
  SR f ls lu -> nth_error (fthr f) i = Some p ->
  fsq g = fsq f -> fuq g = fuq f -> fthr g = upd (fthr f) i FDone ++ [FStart (FQLoad true)] ->
  qrel true p = false -> qrel false p = false ->
  step i (absl f ls lu) = Some (absl g ls lu) ->
  SR g ls lu.
Proof.
  intros [Hi Hs Hu Hw] Hp Es Eu Et R1 R2 Hstep. split.
  - exact (step_inv _ _ _ Hi Hstep).
  - rewrite Es, Et. apply QI_app; [|reflexivity]. exact (QI_irrel true _ _ _ i p FDone Hs Hp R1 eq_refl).
  - rewrite Eu, Et. apply QI_app; [|reflexivity]. exact (QI_irrel false _ _ _ i p FDone Hu Hp R2 eq_refl).
  - rewrite Et, fcnt_app. cbn [fcnt fbad b2z]. rewrite (fbad_upd _ i p FDone Hw Hp eq_refl). reflexivity.
Qed.

Lemma getq_setq sys f q : getq sys (setq sys f q) = q.
Proof. destruct sys; reflexivity. Qed.

Definition lsel (sys : bool) (ls lu : list msg) : list msg := if sys then ls else lu.

Lemma SR_q sys f ls lu : SR f ls lu -> QI sys (getq sys f) (fthr f) (lsel sys ls lu).
Proof. intros [_ Hs Hu _]. destruct sys; assumption. Qed.

(** Push: Lock (stutter) *)
Lemma sim_pushlock i f sys m ls lu :
  SR f ls lu -> nth_error (fthr f) i = Some (FPushLock sys m) -> qlock (getq sys f) = false ->
  exists q1, q_push_pre (getq sys f) = Some q1 /\
    let f' := fset_thr (setq sys f q1) (upd (fthr f) i (FPushAdd sys m)) in
    SR f' ls lu /\ absl f' ls lu = absl f ls lu.
Proof.
  intros H Hp Hfree. pose proof H as [Hi Hs Hu Hw].
  destruct (QI_pushlock _ _ _ _ _ _ (SR_q sys _ _ _ H) Hp Hfree) as (q1 & E & HQ).
  exists q1. split; [exact E|]. cbv zeta.
  assert (Eabs : absl (fset_thr (setq sys f q1) (upd (fthr f) i (FPushAdd sys m))) ls lu = absl f ls lu).
  { unfold absl. destruct sys; cbn [fset_thr setq fstatus fpaused fnum fsysnum flog fthr];
      rewrite (map_upd_same apc (fthr f) i _ _ Hp) by reflexivity; reflexivity. }
  split; [|exact Eabs]. split.
  - rewrite Eabs. exact Hi.
  - destruct sys; cbn [fset_thr setq fsq fthr lsel] in *; [exact HQ|].
    eapply QI_irrel; [exact Hs|exact Hp|reflexivity|reflexivity].
  - destruct sys; cbn [fset_thr setq fuq fthr lsel] in *; [|exact HQ].
    eapply QI_irrel; [exact Hu|exact Hp|reflexivity|reflexivity].
  - destruct sys; cbn [fset_thr setq fthr]; (eapply fbad_upd; [exact Hw|exact Hp|reflexivity]).
Qed.

(** Push: the atomic add = the coarse SPush step *)
Lemma sim_pushadd i f sys m ls lu :
  SR f ls lu -> nth_error (fthr f) i = Some (FPushAdd sys m) ->
  let f' := fset_thr (setq sys f (q_push_fin m (getq sys f))) (upd (fthr f) i (FAdd sys)) in
  let ls' := if sys then ls ++ [m] else ls in
  let lu' := if sys then lu else lu ++ [m] in
  SR f' ls' lu' /\ step i (absl f ls lu) = Some (absl f' ls' lu').
Proof.
  intros H Hp. pose proof H as [Hi Hs Hu Hw]. cbv zeta.
  pose proof (QI_pushadd _ _ _ _ _ _ (SR_q sys _ _ _ H) Hp) as HQ.
  assert (Hstep : step i (absl f ls lu) =
                  Some (absl (fset_thr (setq sys f (q_push_fin m (getq sys f))) (upd (fthr f) i (FAdd sys)))
                             (if sys then ls ++ [m] else ls) (if sys then lu else lu ++ [m]))).
  { coarse_step Hp. destruct sys; unfold absl; cbn [fset_thr setq fstatus fpaused fnum fsysnum flog fthr];
      rewrite map_upd; reflexivity. }
  split; [|exact Hstep]. split.
  - exact (step_inv _ _ _ Hi Hstep).
  - destruct sys; cbn [fset_thr setq fsq fthr lsel getq] in *; [exact HQ|].
    eapply QI_irrel; [exact Hs|exact Hp|reflexivity|reflexivity].
  - destruct sys; cbn [fset_thr setq fuq fthr lsel getq] in *; [|exact HQ].
    eapply QI_irrel; [exact Hu|exact Hp|reflexivity|reflexivity].
  - destruct sys; cbn [fset_thr setq fthr]; (eapply fbad_upd; [exact Hw|exact Hp|reflexivity]).
Qed.

(** Pop: non-zero load (stutter) *)
Lemma sim_load_nz i f sys ls lu :
  SR f ls lu -> nth_error (fthr f) i = Some (FQLoad sys) -> qlen (getq sys f) <> 0 ->
  let f' := fset_thr f (upd (fthr f) i (FQLock sys)) in
  SR f' ls lu /\ absl f' ls lu = absl f ls lu.
Proof.
  intros H Hp Hnz. pose proof H as [Hi Hs Hu Hw]. cbv zeta.
  pose proof (QI_load_nz _ _ _ _ _ (SR_q sys _ _ _ H) Hp Hnz) as HQ.
  assert (Eabs : absl (fset_thr f (upd (fthr f) i (FQLock sys))) ls lu = absl f ls lu).
  { unfold absl. cbn [fset_thr fstatus fpaused fnum fsysnum flog fthr].
    rewrite (map_upd_same apc _ _ _ _ Hp); [reflexivity|]. destruct sys; reflexivity. }
  split; [|exact Eabs]. split.
  - rewrite Eabs. exact Hi.
  - destruct sys; cbn [fset_thr fsq fthr lsel getq] in *; [exact HQ|].
    eapply QI_irrel; [exact Hs|exact Hp|reflexivity|reflexivity].
  - destruct sys; cbn [fset_thr fuq fthr lsel getq] in *; [|exact HQ].
    eapply QI_irrel; [exact Hu|exact Hp|reflexivity|reflexivity].
  - cbn [fset_thr fthr]. (eapply fbad_upd; [exact Hw|exact Hp|reflexivity]).
Qed.

(** Pop: Lock (stutter) *)
Lemma sim_poplock i f sys ls lu :
  SR f ls lu -> nth_error (fthr f) i = Some (FQLock sys) -> qlock (getq sys f) = false ->
  exists a q1, q_pop_pre (getq sys f) = Some (Some a, q1) /\
    let f' := fset_thr (setq sys f q1) (upd (fthr f) i (FQPopAdd sys (Some a))) in
    SR f' ls lu /\ absl f' ls lu = absl f ls lu.
Proof.
  intros H Hp Hfree. pose proof H as [Hi Hs Hu Hw].
  destruct (QI_poplock _ _ _ _ _ (SR_q sys _ _ _ H) Hp Hfree) as (a & l' & q1 & El & E & HQ).
  exists a, q1. split; [exact E|]. cbv zeta.
  assert (Eabs : absl (fset_thr (setq sys f q1) (upd (fthr f) i (FQPopAdd sys (Some a)))) ls lu = absl f ls lu).
  { unfold absl. destruct sys; cbn [fset_thr setq fstatus fpaused fnum fsysnum flog fthr];
      rewrite (map_upd_same apc (fthr f) i _ _ Hp) by reflexivity; reflexivity. }
  split; [|exact Eabs]. split.
  - rewrite Eabs. exact Hi.
  - destruct sys; cbn [fset_thr setq fsq fthr lsel] in *; [exact HQ|].
    eapply QI_irrel; [exact Hs|exact Hp|reflexivity|reflexivity].
  - destruct sys; cbn [fset_thr setq fuq fthr lsel] in *; [|exact HQ].
    eapply QI_irrel; [exact Hu|exact Hp|reflexivity|reflexivity].
  - destruct sys; cbn [fset_thr setq fthr]; (eapply fbad_upd; [exact Hw|exact Hp|reflexivity]).
Qed.

(** two threads inside Pop of the same queue: both at owner pcs of the coarse state - excluded by [i_own] *)
Lemma no_second_consumer f ls lu i j sys v : SR f ls lu -> nth_error (fthr f) i = Some (FQPopAdd sys v) -> j <> i ->
  nth_error (fthr f) j <> Some (FQLock sys).
Proof.
  intros [Hi _ _ _] Hp Hne Hj.
  pose proof (i_own _ Hi) as Ho. cbn [absl thr status] in Ho.
  pose proof (cnt_two owner_pc (map apc (fthr f)) i j _ _ (not_eq_sym Hne)
                (nth_error_map_some apc _ _ _ Hp) (nth_error_map_some apc _ _ _ Hj)) as H2.
  assert (2 <= cnt owner_pc (map apc (fthr f))) by (apply H2; destruct sys; reflexivity).
  unfold b2z in Ho. destruct (fstatus f); lia.
Qed.

(** Pop: the atomic add = the coarse HSysPop / HUserPop step on a non-empty queue *)
Lemma sim_popadd i f sys v ls lu :
  SR f ls lu -> nth_error (fthr f) i = Some (FQPopAdd sys v) ->
  exists a ls' lu',
    v = Some a /\
    let f' := fset_thr (setq sys f (q_pop_fin (getq sys f))) (upd (fthr f) i (FDec sys a)) in
    SR f' ls' lu' /\ step i (absl f ls lu) = Some (absl f' ls' lu').
Proof.
  intros H Hp. pose proof H as [Hi Hs Hu Hw].
  destruct (QI_popadd _ _ _ _ _ _ (SR_q sys _ _ _ H) Hp (fun j Hne => no_second_consumer _ _ _ _ _ _ _ H Hp Hne))
    as (a & l' & El & -> & HQ).
  exists a, (if sys then l' else ls), (if sys then lu else l'). split; [reflexivity|]. cbv zeta.
  assert (Hstep : step i (absl f ls lu) =
                  Some (absl (fset_thr (setq sys f (q_pop_fin (getq sys f))) (upd (fthr f) i (FDec sys a)))
                             (if sys then l' else ls) (if sys then lu else l'))).
  { coarse_step Hp. destruct sys; cbn [lsel] in El; subst; unfold absl;
      cbn [fset_thr setq fstatus fpaused fnum fsysnum flog fthr apc]; rewrite map_upd; reflexivity. }
  split; [|exact Hstep]. split.
  - exact (step_inv _ _ _ Hi Hstep).
  - destruct sys; cbn [fset_thr setq fsq fthr lsel getq] in *; [exact HQ|].
    eapply QI_irrel; [exact Hs|exact Hp|reflexivity|reflexivity].
  - destruct sys; cbn [fset_thr setq fuq fthr lsel getq] in *; [|exact HQ].
    eapply QI_irrel; [exact Hu|exact Hp|reflexivity|reflexivity].
  - destruct sys; cbn [fset_thr setq fthr]; (eapply fbad_upd; [exact Hw|exact Hp|reflexivity]).
Qed.

(** * the simulation step *)
Ltac fin_step Hp :=
  coarse_step Hp;
  repeat match goal with E : _ = _ |- _ => rewrite E end;
  unfold absl; cbn [fset_thr fstatus fpaused fnum fsysnum fsq fuq flog fthr apc after_empty];
  rewrite ?map_app, ?map_upd; reflexivity.

Lemma sim_step i f f' p ls lu : SR f ls lu -> nth_error (fthr f) i = Some p -> fstep i f = Some f' ->
  exists ls' lu', SR f' ls' lu' /\
    (if stutter p f then absl f' ls' lu' = absl f ls lu else step i (absl f ls lu) = Some (absl f' ls' lu')).
Proof.
  intros H Hp Hs. unfold fstep in Hs. rewrite Hp in Hs. cbv zeta in Hs.
  destruct p as [k|sys m|sys m|sys| | | | |sys|sys|sys v|sys m|sys m| | | |u|u| | | ].
  - (* FStart *)
    pose proof (fcnt_zero_all _ _ (sr_wf _ _ _ H) _ _ Hp) as Hb.
    inversion Hs; subst; clear Hs. exists ls, lu. cbn [stutter].
    destruct k as [k'|sys m|sys m|sys| | | | |sys|sys|sys v|sys m|sys m| | | |u|u| | | ]; try discriminate Hb;
      try (destruct sys; try discriminate Hb).
    all: (split; [eapply (sim_plain i f _ _ f); try exact H; try exact Hp; try reflexivity|]); fin_step Hp.
  - (* FPushLock *)
    destruct (qlock (getq sys f)) eqn:E; [discriminate|].
    destruct (sim_pushlock _ _ _ _ _ _ H Hp E) as (q1 & Eq & HSR & Eabs). rewrite Eq in Hs.
    inversion Hs; subst; clear Hs. exists ls, lu. cbn [stutter]. split; assumption.
  - (* FPushAdd *)
    inversion Hs; subst; clear Hs. destruct (sim_pushadd _ _ _ _ _ _ H Hp) as (HSR & Hstep).
    eexists _, _. cbn [stutter]. split; eassumption.
  - (* FAdd *)
    exists ls, lu. cbn [stutter].
    destruct sys; inversion Hs; subst; clear Hs;
      (split; [eapply (sim_plain i f); try exact H; try exact Hp; try reflexivity|]); fin_step Hp.
  - (* FCas *)
    exists ls, lu. cbn [stutter]. destruct (fstatus f) eqn:E; inversion Hs; subst; clear Hs.
    + split; [eapply (sim_plain i f _ _ f); try exact H; try exact Hp; try reflexivity|]; fin_step Hp.
    + split; [eapply (sim_spawn i f); try exact H; try exact Hp; try reflexivity|]; fin_step Hp.
  - (* FPStore *)
    exists ls, lu. cbn [stutter]. inversion Hs; subst; clear Hs.
    split; [eapply (sim_plain i f); try exact H; try exact Hp; try reflexivity|]; fin_step Hp.
  - (* FRCas1 *)
    exists ls, lu. cbn [stutter]. destruct (fpaused f) eqn:E; inversion Hs; subst; clear Hs.
    + split; [eapply (sim_plain i f); try exact H; try exact Hp; try reflexivity|]; fin_step Hp.
    + split; [eapply (sim_plain i f _ _ f); try exact H; try exact Hp; try reflexivity|]; fin_step Hp.
  - (* FRCas2 *)
    exists ls, lu. cbn [stutter]. destruct (fstatus f) eqn:E; inversion Hs; subst; clear Hs.
    + split; [eapply (sim_plain i f _ _ f); try exact H; try exact Hp; try reflexivity|]; fin_step Hp.
    + split; [eapply (sim_spawn i f); try exact H; try exact Hp; try reflexivity|]; fin_step Hp.
  - (* FQLoad *)
    cbn [stutter]. destruct (Z.eqb_spec (qlen (getq sys f)) 0) as [E|E]; inversion Hs; subst; clear Hs; cbn [negb].
    + pose proof (QI_len_zero _ _ _ _ (SR_q sys _ _ _ H) E) as El.
      exists ls, lu. destruct sys; cbn [lsel] in El; subst.
      * split; [eapply (sim_plain i f _ _ f); try exact H; try exact Hp; try reflexivity|]; fin_step Hp.
      * split; [eapply (sim_plain i f _ _ f); try exact H; try exact Hp; try reflexivity|]; fin_step Hp.
    + exists ls, lu. exact (sim_load_nz _ _ _ _ _ H Hp E).
  - (* FQLock *)
    destruct (qlock (getq sys f)) eqn:E; [discriminate|].
    destruct (sim_poplock _ _ _ _ _ H Hp E) as (a & q1 & Eq & HSR & Eabs). rewrite Eq in Hs.
    inversion Hs; subst; clear Hs. exists ls, lu. cbn [stutter]. split; assumption.
  - (* FQPopAdd *)
    inversion Hs; subst; clear Hs. destruct (sim_popadd _ _ _ _ _ _ H Hp) as (a & ls' & lu' & -> & HSR & Hstep).
    exists ls', lu'. cbn [stutter]. split; assumption.
  - (* FDec *)
    exists ls, lu. cbn [stutter].
    destruct sys; inversion Hs; subst; clear Hs;
      (split; [eapply (sim_plain i f); try exact H; try exact Hp; try reflexivity|]); fin_step Hp.
  - (* FHandle *)
    exists ls, lu. cbn [stutter]. inversion Hs; subst; clear Hs.
    destruct sys; (split; [eapply (sim_plain i f); try exact H; try exact Hp; try reflexivity|]); fin_step Hp.
  - (* FLoadPaused *)
    exists ls, lu. cbn [stutter]. destruct (fpaused f) eqn:E; inversion Hs; subst; clear Hs;
      (split; [eapply (sim_plain i f _ _ f); try exact H; try exact Hp; try reflexivity|]); fin_step Hp.
  - (* FStoreIdle *)
    exists ls, lu. cbn [stutter]. inversion Hs; subst; clear Hs.
    split; [eapply (sim_plain i f); try exact H; try exact Hp; try reflexivity|]; fin_step Hp.
  - (* FLoadNum *)
    exists ls, lu. cbn [stutter]. inversion Hs; subst; clear Hs.
    split; [eapply (sim_plain i f _ _ f); try exact H; try exact Hp; try reflexivity|]; fin_step Hp.
  - (* FLoadSys *)
    exists ls, lu. cbn [stutter].
    destruct (0 <? fsysnum f) eqn:E1; [|destruct (0 <? u) eqn:E2]; inversion Hs; subst; clear Hs;
      (split; [eapply (sim_plain i f _ _ f); try exact H; try exact Hp; try reflexivity|]); fin_step Hp.
  - (* FPLoadPaused *)
    exists ls, lu. cbn [stutter]. destruct (fpaused f) eqn:E; inversion Hs; subst; clear Hs;
      (split; [eapply (sim_plain i f _ _ f); try exact H; try exact Hp; try reflexivity|]); fin_step Hp.
  - (* FPCas *)
    exists ls, lu. cbn [stutter]. destruct (fstatus f) eqn:E; inversion Hs; subst; clear Hs.
    + split; [eapply (sim_plain i f _ _ f); try exact H; try exact Hp; try reflexivity|]; fin_step Hp.
    + split; [eapply (sim_plain i f); try exact H; try exact Hp; try reflexivity|]; fin_step Hp.
  - discriminate.
  - discriminate.
Qed.

(** * initial states *)
Lemma apc_env ths : forallb fenv_pc ths = true -> forallb env_pc (map apc ths) = true.
Proof.
  induction ths as [|p t IH]; cbn [forallb map]; intros H; [reflexivity|].
  apply andb_true_iff in H as [Hp Ht]. rewrite (IH Ht), andb_true_r. destruct p; try discriminate Hp; reflexivity.
Qed.

Lemma absl_init size ths : absl (finit size ths) [] [] = init (map apc ths).
Proof. unfold absl, finit, init. cbn [fstatus fpaused fnum fsysnum flog fthr]. rewrite !map_map. reflexivity. Qed.

Lemma fbad_init ths : forallb fenv_pc ths = true -> fcnt fbad (map FStart ths) = 0.
Proof.
  induction ths as [|p t IH]; cbn [forallb map fcnt]; intros H; [reflexivity|].
  apply andb_true_iff in H as [Hp Ht]. rewrite (IH Ht). destruct p; try discriminate Hp; reflexivity.
Qed.

Lemma SR_init size ths : (1 <= size)%nat -> forallb fenv_pc ths = true -> SR (finit size ths) [] [].
Proof.
  intros Hn He. split.
  - rewrite absl_init. apply init_inv, apc_env, He.
  - exact (QI_init true size ths Hn He).
  - exact (QI_init false size ths Hn He).
  - exact (fbad_init ths He).
Qed.

(** * whole runs: the coarse schedule [csched_of] simulates the fine one; the coarse trace is the fine trace with the
    stuttering steps removed *)
Lemma fstep_none_nth i f : nth_error (fthr f) i = None -> fstep i f = None.
Proof. intros H. unfold fstep. rewrite H. reflexivity. Qed.

Lemma sim_run sched : forall f ls lu, SR f ls lu ->
  exists ls' lu', SR (frun sched f) ls' lu' /\
    run (csched_of sched f) (absl f ls lu) = absl (frun sched f) ls' lu' /\
    run_trace (csched_of sched f) (absl f ls lu) = ctrace_of (frun_trace sched f).
Proof.
  induction sched as [|i r IH]; intros f ls lu H.
  - exists ls, lu. cbn. split; [exact H|]. split; reflexivity.
  - cbn [frun fold_left csched_of frun_trace]. fold (frun r (fstep_or_stay f i)). unfold fstep_or_stay.
    destruct (nth_error (fthr f) i) as [p|] eqn:Hp.
    + destruct (fstep i f) as [f1|] eqn:Hs.
      * destruct (sim_step _ _ _ _ _ _ H Hp Hs) as (ls1 & lu1 & H1 & Hc).
        destruct (IH f1 ls1 lu1 H1) as (ls' & lu' & HSR & Hrun & Htr).
        exists ls', lu'. split; [exact HSR|].
        unfold ctrace_of. cbn [flat_map fst snd]. fold (ctrace_of (frun_trace r f1)).
        destruct (stutter p f) eqn:St.
        -- cbn [app]. rewrite <- Hc. split; assumption.
        -- cbn [app]. rewrite run_cons. unfold step_or_stay. rewrite Hc. split; [exact Hrun|].
           cbn [run_trace]. rewrite Hc.
           assert (Hn : nth_error (thr (absl f ls lu)) i = Some (apc p)) by (cbn [absl thr]; exact (nth_error_map_some apc _ _ _ Hp)).
           rewrite Hn. f_equal. exact Htr.
      * exact (IH f ls lu H).
    + rewrite (fstep_none_nth _ _ Hp). exact (IH f ls lu H).
Qed.

Theorem fsim size ths sched : (1 <= size)%nat -> forallb fenv_pc ths = true ->
  let f0 := finit size ths in
  exists ls lu, SR (frun sched f0) ls lu /\
    run (csched_of sched f0) (init (map apc ths)) = absl (frun sched f0) ls lu /\
    run_trace (csched_of sched f0) (init (map apc ths)) = ctrace_of (frun_trace sched f0).
Proof.
  intros Hn He f0. destruct (sim_run sched f0 [] [] (SR_init size ths Hn He)) as (ls & lu & H & Hr & Ht).
  unfold f0 in *. rewrite absl_init in Hr, Ht. exists ls, lu. split; [exact H|]. split; assumption.
Qed.

Lemma freachable_SR f : freachable f -> exists ls lu, SR f ls lu /\ reachable (absl f ls lu).
Proof.
  intros (size & ths & sched & Hn & He & <-). destruct (fsim size ths sched Hn He) as (ls & lu & H & Hr & _).
  exists ls, lu. split; [exact H|]. rewrite <- Hr. apply reachable_run, apc_env, He.
Qed.
