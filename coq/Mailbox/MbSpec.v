(** Derived notions used by the statements of C01 / C02 (definitions only, no proofs). *)
From Coq Require Import List NArith ZArith Bool Permutation.
From Vivid Require Import Mailbox.MbModel.
Import ListNotations.
Local Open Scope Z_scope.

(** a thread holds the processing token from the goroutine's creation until its Store(status, idle) *)
Definition owner_pc (p : pc) : bool :=
  match p with
  | Start HSysPop | HSysPop | HSysDec _ | HSysHandle _ | HLoadPaused | HUserPop | HUserDec _ | HUserHandle _ | PStoreIdle => true
  | _ => false
  end.
Definition count_owner (s : st) : nat := length (filter owner_pc (thr s)).

(** a handler invocation is in progress at thread [p]: it has passed the pop of message m and not yet
    finished the handler (the Handle step marks the call; the handler body runs until the thread's next step) *)
Definition handling_pc (p : pc) : bool :=
  match p with HSysHandle _ | HUserHandle _ => true | _ => false end.

(** where a message can be *)
Definition unsent_of (p : pc) : list (bool * msg) :=
  match p with Start (SPush b m) | SPush b m => [(b, m)] | _ => [] end.
Definition held_of (p : pc) : list (bool * msg) :=
  match p with
  | HSysDec m | HSysHandle m => [(true, m)]
  | HUserDec m | HUserHandle m => [(false, m)]
  | _ => []
  end.
Definition unsent (s : st) : list (bool * msg) := flat_map unsent_of (thr s).
Definition held (s : st) : list (bool * msg) := flat_map held_of (thr s).
Definition queued (s : st) : list (bool * msg) := map (pair true) (sq s) ++ map (pair false) (uq s).
Definition msgs_of (ths : list pc) : list (bool * msg) := flat_map unsent_of ths.

(** accepted = Enqueue has pushed it *)
Definition accepted (ths : list pc) (s : st) : list (bool * msg) -> Prop :=
  fun l => Permutation (msgs_of ths) (unsent s ++ l).

Definition terminal (s : st) : Prop := forall i, step i s = None.

(** effective steps of a schedule, with the pc each thread was at (the ghost history) *)
Fixpoint run_trace (sched : list nat) (s : st) : list (nat * pc) :=
  match sched with
  | [] => []
  | i :: r =>
      match nth_error (thr s) i, step i s with
      | Some p, Some s' => (i, p) :: run_trace r s'
      | _, _ => run_trace r s
      end
  end.

(** order in which user / system messages were pushed into their queue *)
Definition push_order (sys : bool) (tr : list (nat * pc)) : list msg :=
  flat_map (fun e => match snd e with SPush b m => if Bool.eqb b sys then [m] else [] | _ => [] end) tr.
Definition log_of (sys : bool) (s : st) : list msg :=
  flat_map (fun e => if Bool.eqb (fst e) sys then [snd e] else []) (log s).
Definition held_kind (sys : bool) (s : st) : list msg :=
  flat_map (fun e => if Bool.eqb (fst e) sys then [snd e] else []) (held s).

Definition effective_steps (sched : list nat) (s : st) : nat := length (run_trace sched s).
(** an environment thread that has not finished its Enqueue / Pause / Resume call *)
Definition env_active (p : pc) : bool :=
  match p with
  | Start k => env_pc k
  | SPush _ _ | SAdd _ | SCas | PStore | RCas1 | RCas2 => true
  | _ => false
  end.
Definition env_done (s : st) : Prop := forall p, In p (thr s) -> env_active p = false.
Definition processors (s : st) : nat := length (filter (fun p => negb (env_active p) && negb (match p with Done => true | _ => false end)) (thr s)).
