(** Queue-level lemmas for the fine-grained mailbox model (Mailbox/MbFine.v): the two halves of Push / Pop compose
    to the sequential [ring_push] / [ring_pop] of Queue/Ring.v, and the per-queue invariant [QI] (who holds the mutex,
    what the buffer represents in the middle of a critical section, a consumer past its emptiness check finds an
    element) is preserved by every queue micro-step. *)
From Coq Require Import List NArith ZArith Bool Arith Lia.
From Coq Require Import ZifyNat ZifyBool.
From Vivid Require Import Queue.Ring Queue.RingProofs.
From Vivid Require Import Mailbox.MbModel Mailbox.MbSpec Mailbox.MbSpec2 Mailbox.MbInv Mailbox.MbOrder Mailbox.MbFine.
Import ListNotations.
Local Open Scope Z_scope.

(** * counting fine threads *)
Fixpoint fcnt (P : fpc -> bool) (l : list fpc) : Z :=
  match l with [] => 0 | h :: t => b2z (P h) + fcnt P t end.

Lemma fcnt_upd P i x l old : nth_error l i = Some old ->
  fcnt P (upd l i x) = fcnt P l - b2z (P old) + b2z (P x).
Proof.
  revert i. induction l as [|h t IH]; intros [|j] H; cbn [fcnt upd nth_error] in *; try discriminate.
  - inversion H; subst. lia.
  - specialize (IH j H). lia.
Qed.

Lemma fcnt_app P l1 l2 : fcnt P (l1 ++ l2) = fcnt P l1 + fcnt P l2.
Proof. induction l1 as [|h t IH]; cbn [fcnt app]; lia. Qed.

Lemma fcnt_nonneg P l : 0 <= fcnt P l.
Proof. induction l as [|h t IH]; cbn [fcnt]; [lia|]. unfold b2z; destruct (P h); lia. Qed.

Lemma fcnt_pos P l p i : nth_error l i = Some p -> P p = true -> 1 <= fcnt P l.
Proof.
  revert i. induction l as [|h t IH]; intros [|j] H Hp; cbn [fcnt nth_error] in *; try discriminate.
  - inversion H; subst. rewrite Hp. pose proof (fcnt_nonneg P t). unfold b2z. lia.
  - specialize (IH j H Hp). unfold b2z; destruct (P h); lia.
Qed.

Lemma fcnt_two P l i j p q : i <> j -> nth_error l i = Some p -> nth_error l j = Some q ->
  P p = true -> P q = true -> 2 <= fcnt P l.
Proof.
  revert i j. induction l as [|h t IH]; intros [|i] [|j] Hij Hi Hj Hp Hq; cbn [fcnt nth_error] in *;
    try discriminate; try congruence.
  - inversion Hi; subst. rewrite Hp. pose proof (fcnt_pos P t q j Hj Hq). unfold b2z; lia.
  - inversion Hj; subst. rewrite Hq. pose proof (fcnt_pos P t p i Hi Hp). unfold b2z; lia.
  - assert (i <> j) by congruence. specialize (IH i j H Hi Hj Hp Hq). unfold b2z; destruct (P h); lia.
Qed.

Lemma fcnt_le (P Q : fpc -> bool) l : (forall p, P p = true -> Q p = true) -> fcnt P l <= fcnt Q l.
Proof.
  intros H. induction l as [|h t IH]; cbn [fcnt]; [lia|].
  specialize (H h). unfold b2z. destruct (P h), (Q h); try lia; discriminate (H eq_refl).
Qed.

Lemma fcnt_zero_all P l : fcnt P l = 0 -> forall i p, nth_error l i = Some p -> P p = false.
Proof.
  intros H i p Hp. destruct (P p) eqn:E; [|reflexivity]. pose proof (fcnt_pos P l p i Hp E). lia.
Qed.

Lemma cnt_map_apc P l : cnt P (map apc l) = fcnt (fun p => P (apc p)) l.
Proof. induction l as [|h t IH]; cbn [map cnt fcnt]; [reflexivity|]. rewrite IH. reflexivity. Qed.

Lemma map_upd {A B} (g : A -> B) l i x : map g (upd l i x) = upd (map g l) i (g x).
Proof. revert i. induction l as [|h t IH]; intros [|i]; cbn [map upd]; try reflexivity. now rewrite IH. Qed.

Lemma map_upd_same {A B} (g : A -> B) l i p x : nth_error l i = Some p -> g x = g p -> map g (upd l i x) = map g l.
Proof.
  revert i. induction l as [|h t IH]; intros [|i] H E; cbn [map upd nth_error] in *; try discriminate.
  - inversion H; subst. now rewrite E.
  - now rewrite (IH i H E).
Qed.

Lemma nth_error_map_some {A B} (g : A -> B) l i p : nth_error l i = Some p -> nth_error (map g l) i = Some (g p).
Proof. intros H. rewrite nth_error_map, H. reflexivity. Qed.

Lemma fnth_upd_eq (l : list fpc) i p x : nth_error l i = Some p -> nth_error (upd l i x) i = Some x.
Proof. apply nth_error_upd_eq. Qed.
Lemma fnth_upd_ne (l : list fpc) i j x : i <> j -> nth_error (upd l j x) i = nth_error l i.
Proof. apply nth_error_upd_ne. Qed.

(** * one queue against Queue/Ring.v *)
(** [q] (whatever its lock bit) represents the FIFO content [l] *)
Definition QR (q : cq) (l : list msg) : Prop :=
  qlen q = Z.of_nat (length l) /\ ring_repr (to_ring q) l.

Lemma push_split x q : 0 <= qlen q ->
  match q_push_pre q with
  | Some q1 => ring_push x (to_ring q) = inl (to_ring (q_push_fin x q1)) /\ qlen q1 = qlen q /\ qlock q1 = true
  | None => ring_push x (to_ring q) = inr PDivZero
  end.
Proof.
  intros Hl. unfold q_push_pre, ring_push, rmod, qmod, to_ring. cbn [rbuf rhead rtail rlen].
  destruct (Nat.eqb_spec (length (qbuf q)) 0) as [E|NE]; [reflexivity|].
  destruct (Nat.eqb_spec ((qtail q + 1) mod length (qbuf q)) (qhead q)) as [E2|NE2];
    unfold q_push_fin; cbn [qbuf qhead qtail qlen qlock]; (split; [|split; reflexivity]); f_equal; f_equal; lia.
Qed.

Lemma pop_split q : 0 < qlen q ->
  match q_pop_pre q with
  | Some (v, q1) => ring_pop (to_ring q) = inl (Some v, to_ring (q_pop_fin q1)) /\ qlen q1 = qlen q /\ qlock q1 = true
  | None => ring_pop (to_ring q) = inr PDivZero
  end.
Proof.
  intros Hl. unfold q_pop_pre, ring_pop, rmod, qmod, to_ring. cbn [rbuf rhead rtail rlen].
  destruct (Nat.eqb_spec (Z.to_nat (qlen q)) 0) as [E|NE]; [lia|].
  destruct (Nat.eqb_spec (length (qbuf q)) 0) as [E|NE']; [reflexivity|].
  unfold q_pop_fin; cbn [qbuf qhead qtail qlen qlock]. split; [|split; reflexivity]. f_equal. f_equal. f_equal. lia.
Qed.

Lemma QR_new n : (1 <= n)%nat -> QR (q_new n) [].
Proof.
  intros Hn. split; [reflexivity|].
  destruct (@new_repr msg (Z.of_nat n) ltac:(lia)) as (r & Hr & Hrep).
  unfold ring_new in Hr. destruct (Z.ltb_spec (Z.of_nat n) 0); [lia|]. inversion Hr; subst. clear Hr.
  rewrite Nat2Z.id in Hrep. exact Hrep.
Qed.

Lemma QR_push_pre q l : QR q l ->
  exists q1, q_push_pre q = Some q1 /\ qlen q1 = qlen q /\ qlock q1 = true /\ forall x, QR (q_push_fin x q1) (l ++ [x]).
Proof.
  intros [Hlen Hrep].
  assert (Hnn : 0 <= qlen q) by lia.
  destruct (q_push_pre q) as [q1|] eqn:E.
  - exists q1. split; [reflexivity|].
    pose proof (push_split 0%N q Hnn) as P0. rewrite E in P0. destruct P0 as (_ & Hl1 & Hk1).
    split; [exact Hl1|]. split; [exact Hk1|]. intros x. split.
    + unfold q_push_fin; cbn [qlen]. rewrite app_length; cbn [length]. lia.
    + pose proof (push_split x q Hnn) as P. rewrite E in P. destruct P as (P & _).
      destruct (push_refines x Hrep) as (r' & Hr' & Hrep'). rewrite P in Hr'. inversion Hr'; subst. exact Hrep'.
  - exfalso. pose proof (push_split 0%N q Hnn) as P. rewrite E in P.
    destruct (push_refines 0%N Hrep) as (r' & Hr' & _). rewrite P in Hr'. discriminate.
Qed.

Lemma QR_pop_pre q a l : QR q (a :: l) ->
  exists q1, q_pop_pre q = Some (Some a, q1) /\ qlen q1 = qlen q /\ qlock q1 = true /\ QR (q_pop_fin q1) l.
Proof.
  intros [Hlen Hrep]. cbn [length] in Hlen.
  assert (Hpos : 0 < qlen q) by lia.
  pose proof (pop_split q Hpos) as P.
  destruct (pop_refines_cons Hrep) as (r' & Hr' & Hrep').
  destruct (q_pop_pre q) as [[v q1]|] eqn:E.
  - destruct P as (P & Hl1 & Hk1). rewrite P in Hr'. inversion Hr'; subst.
    exists q1. split; [reflexivity|]. split; [exact Hl1|]. split; [exact Hk1|]. split; [|exact Hrep'].
    unfold q_pop_fin; cbn [qlen]. lia.
  - rewrite P in Hr'. discriminate.
Qed.

Lemma QR_nil_len q l : QR q l -> qlen q = 0 -> l = [].
Proof. intros [H _] E. destruct l; [reflexivity|]. cbn [length] in H. lia. Qed.

(** the content read off the buffer is the represented list *)
Lemma QR_content q l : QR q l -> qcontent q = map Some l.
Proof.
  intros [Hlen Hrep]. pose proof (abs_repr Hrep) as A. unfold ring_abs, to_ring, rmod in A. cbn [rbuf rhead rlen] in A.
  unfold qcontent, qmod. exact A.
Qed.

(** * the per-queue invariant *)
Notation holder := in_critical.
(** pcs whose meaning depends on queue [sys] *)
Definition qrel (sys : bool) (p : fpc) : bool :=
  match p with FPushAdd b _ | FQPopAdd b _ | FQLock b => Bool.eqb b sys | _ => false end.

Record QI (sys : bool) (q : cq) (T : list fpc) (l : list msg) : Prop := {
  qi_cnt : fcnt (holder sys) T = b2z (qlock q);
  qi_free : qlock q = false -> QR q l;
  qi_len : qlen q = Z.of_nat (length l);
  qi_push : forall i m, nth_error T i = Some (FPushAdd sys m) -> forall x, QR (q_push_fin x q) (l ++ [x]);
  qi_pop : forall i v, nth_error T i = Some (FQPopAdd sys v) -> exists a l', l = a :: l' /\ v = Some a /\ QR (q_pop_fin q) l';
  qi_lock : forall i, nth_error T i = Some (FQLock sys) -> l <> []
}.

Lemma holder_qrel sys p : holder sys p = true -> qrel sys p = true.
Proof. destruct p; cbn; congruence. Qed.

Lemma QI_irrel sys q T l i p p' : QI sys q T l -> nth_error T i = Some p ->
  qrel sys p = false -> qrel sys p' = false -> QI sys q (upd T i p') l.
Proof.
  intros [Hc Hf Hl Hpu Hpo Hlk] Hp Hr Hr'.
  assert (Hh : holder sys p = false) by (destruct (holder sys p) eqn:E; [apply holder_qrel in E; congruence|reflexivity]).
  assert (Hh' : holder sys p' = false) by (destruct (holder sys p') eqn:E; [apply holder_qrel in E; congruence|reflexivity]).
  assert (Hother : forall j x, nth_error (upd T i p') j = Some x -> qrel sys x = true -> nth_error T j = Some x).
  { intros j x Hj Hx. destruct (Nat.eq_dec j i) as [->|Hne].
    - rewrite (fnth_upd_eq _ _ _ _ Hp) in Hj. inversion Hj; subst. congruence.
    - rewrite fnth_upd_ne in Hj by exact Hne. exact Hj. }
  split.
  - rewrite (fcnt_upd _ _ _ _ _ Hp), Hh, Hh'. cbn [b2z]. lia.
  - exact Hf.
  - exact Hl.
  - intros j m Hj. apply (Hpu j m). apply Hother; [exact Hj|]. cbn. apply Bool.eqb_reflx.
  - intros j v Hj. apply (Hpo j v). apply Hother; [exact Hj|]. cbn. apply Bool.eqb_reflx.
  - intros j Hj. apply (Hlk j). apply Hother; [exact Hj|]. cbn. apply Bool.eqb_reflx.
Qed.

Lemma QI_app sys q T l x : QI sys q T l -> qrel sys x = false -> QI sys q (T ++ [x]) l.
Proof.
  intros [Hc Hf Hl Hpu Hpo Hlk] Hr.
  assert (Hh : holder sys x = false) by (destruct (holder sys x) eqn:E; [apply holder_qrel in E; congruence|reflexivity]).
  assert (Hother : forall j y, nth_error (T ++ [x]) j = Some y -> qrel sys y = true -> nth_error T j = Some y).
  { intros j y Hj Hy. destruct (Nat.lt_ge_cases j (length T)) as [Hlt|Hge].
    - rewrite nth_error_app1 in Hj by exact Hlt. exact Hj.
    - rewrite nth_error_app2 in Hj by exact Hge. destruct (j - length T)%nat as [|k]; cbn in Hj.
      + inversion Hj; subst. congruence.
      + destruct k; discriminate. }
  split.
  - rewrite fcnt_app. cbn [fcnt]. rewrite Hh. cbn [b2z]. lia.
  - exact Hf.
  - exact Hl.
  - intros j m Hj. apply (Hpu j m). apply Hother; [exact Hj|]. cbn. apply Bool.eqb_reflx.
  - intros j v Hj. apply (Hpo j v). apply Hother; [exact Hj|]. cbn. apply Bool.eqb_reflx.
  - intros j Hj. apply (Hlk j). apply Hother; [exact Hj|]. cbn. apply Bool.eqb_reflx.
Qed.

(** no holder exists while the lock is free; a second holder never exists *)
Lemma QI_no_holder sys q T l j x : QI sys q T l -> qlock q = false -> nth_error T j = Some x -> holder sys x = true -> False.
Proof.
  intros H Hf Hj Hx. pose proof (qi_cnt _ _ _ _ H) as Hc. rewrite Hf in Hc. cbn [b2z] in Hc.
  pose proof (fcnt_pos _ _ _ _ Hj Hx). lia.
Qed.
Lemma QI_one_holder sys q T l i j x y : QI sys q T l -> i <> j -> nth_error T i = Some x -> nth_error T j = Some y ->
  holder sys x = true -> holder sys y = true -> False.
Proof.
  intros H Hij Hi Hj Hx Hy. pose proof (qi_cnt _ _ _ _ H) as Hc.
  pose proof (fcnt_two _ _ _ _ _ _ Hij Hi Hj Hx Hy). unfold b2z in Hc. destruct (qlock q); lia.
Qed.
Lemma QI_holder_locked sys q T l i x : QI sys q T l -> nth_error T i = Some x -> holder sys x = true -> qlock q = true.
Proof.
  intros H Hi Hx. destruct (qlock q) eqn:E; [reflexivity|]. exfalso. exact (QI_no_holder _ _ _ _ _ _ H E Hi Hx).
Qed.

(** Push: Lock *)
Lemma QI_pushlock sys q T l i m : QI sys q T l -> nth_error T i = Some (FPushLock sys m) -> qlock q = false ->
  exists q1, q_push_pre q = Some q1 /\ QI sys q1 (upd T i (FPushAdd sys m)) l.
Proof.
  intros H Hp Hfree. pose proof H as [Hc Hf Hl Hpu Hpo Hlk].
  destruct (QR_push_pre _ _ (Hf Hfree)) as (q1 & E & Hl1 & Hk1 & Hfin).
  exists q1. split; [exact E|].
  assert (Hother : forall j x, j <> i -> nth_error (upd T i (FPushAdd sys m)) j = Some x -> nth_error T j = Some x).
  { intros j x Hne Hj. rewrite fnth_upd_ne in Hj by exact Hne. exact Hj. }
  split.
  - rewrite (fcnt_upd _ _ _ _ _ Hp), Hc, Hfree, Hk1. cbn [holder b2z]. rewrite Bool.eqb_reflx. cbn [b2z]. lia.
  - rewrite Hk1. discriminate.
  - lia.
  - intros j m' Hj x. destruct (Nat.eq_dec j i) as [->|Hne]; [apply Hfin|].
    exfalso. apply (QI_no_holder _ _ _ _ j _ H Hfree (Hother _ _ Hne Hj)). cbn. apply Bool.eqb_reflx.
  - intros j v Hj. destruct (Nat.eq_dec j i) as [->|Hne].
    + rewrite (fnth_upd_eq _ _ _ _ Hp) in Hj. discriminate.
    + exfalso. apply (QI_no_holder _ _ _ _ j _ H Hfree (Hother _ _ Hne Hj)). cbn. apply Bool.eqb_reflx.
  - intros j Hj. destruct (Nat.eq_dec j i) as [->|Hne].
    + rewrite (fnth_upd_eq _ _ _ _ Hp) in Hj. discriminate.
    + apply (Hlk j). exact (Hother _ _ Hne Hj).
Qed.

(** Push: the atomic add (+ slot write + Unlock) *)
Lemma QI_pushadd sys q T l i m : QI sys q T l -> nth_error T i = Some (FPushAdd sys m) ->
  QI sys (q_push_fin m q) (upd T i (FAdd sys)) (l ++ [m]).
Proof.
  intros H Hp. pose proof H as [Hc Hf Hl Hpu Hpo Hlk].
  assert (Hhp : holder sys (FPushAdd sys m) = true) by (cbn; apply Bool.eqb_reflx).
  pose proof (QI_holder_locked _ _ _ _ _ _ H Hp Hhp) as Hlocked.
  pose proof (Hpu i m Hp m) as HQR.
  assert (Hother : forall j x, j <> i -> nth_error (upd T i (FAdd sys)) j = Some x -> nth_error T j = Some x).
  { intros j x Hne Hj. rewrite fnth_upd_ne in Hj by exact Hne. exact Hj. }
  split.
  - rewrite (fcnt_upd _ _ _ _ _ Hp), Hc, Hlocked, Hhp. cbn [holder b2z q_push_fin qlock]. lia.
  - intros _. exact HQR.
  - exact (proj1 HQR).
  - intros j m' Hj x. destruct (Nat.eq_dec j i) as [->|Hne].
    + rewrite (fnth_upd_eq _ _ _ _ Hp) in Hj. discriminate.
    + exfalso. apply (QI_one_holder _ _ _ _ i j _ _ H (not_eq_sym Hne) Hp (Hother _ _ Hne Hj) Hhp). cbn. apply Bool.eqb_reflx.
  - intros j v Hj. destruct (Nat.eq_dec j i) as [->|Hne].
    + rewrite (fnth_upd_eq _ _ _ _ Hp) in Hj. discriminate.
    + exfalso. apply (QI_one_holder _ _ _ _ i j _ _ H (not_eq_sym Hne) Hp (Hother _ _ Hne Hj) Hhp). cbn. apply Bool.eqb_reflx.
  - intros j _. destruct l; discriminate.
Qed.

(** Pop: the emptiness check saw a non-zero len *)
Lemma QI_load_nz sys q T l i : QI sys q T l -> nth_error T i = Some (FQLoad sys) -> qlen q <> 0 ->
  QI sys q (upd T i (FQLock sys)) l.
Proof.
  intros H Hp Hnz. pose proof H as [Hc Hf Hl Hpu Hpo Hlk].
  assert (Hother : forall j x, j <> i -> nth_error (upd T i (FQLock sys)) j = Some x -> nth_error T j = Some x).
  { intros j x Hne Hj. rewrite fnth_upd_ne in Hj by exact Hne. exact Hj. }
  split.
  - rewrite (fcnt_upd _ _ _ _ _ Hp). cbn [holder b2z]. lia.
  - exact Hf.
  - exact Hl.
  - intros j m Hj. destruct (Nat.eq_dec j i) as [->|Hne].
    + rewrite (fnth_upd_eq _ _ _ _ Hp) in Hj. discriminate.
    + exact (Hpu j m (Hother _ _ Hne Hj)).
  - intros j v Hj. destruct (Nat.eq_dec j i) as [->|Hne].
    + rewrite (fnth_upd_eq _ _ _ _ Hp) in Hj. discriminate.
    + exact (Hpo j v (Hother _ _ Hne Hj)).
  - intros j Hj. destruct (Nat.eq_dec j i) as [->|Hne].
    + intros ->. cbn [length] in Hl. lia.
    + exact (Hlk j (Hother _ _ Hne Hj)).
Qed.

Lemma QI_len_zero sys q T l : QI sys q T l -> qlen q = 0 -> l = [].
Proof. intros H E. pose proof (qi_len _ _ _ _ H) as Hl. destruct l; [reflexivity|]. cbn [length] in Hl. lia. Qed.

(** Pop: Lock *)
Lemma QI_poplock sys q T l i : QI sys q T l -> nth_error T i = Some (FQLock sys) -> qlock q = false ->
  exists a l' q1, l = a :: l' /\ q_pop_pre q = Some (Some a, q1) /\ QI sys q1 (upd T i (FQPopAdd sys (Some a))) l.
Proof.
  intros H Hp Hfree. pose proof H as [Hc Hf Hl Hpu Hpo Hlk].
  pose proof (Hlk i Hp) as Hne. destruct l as [|a l']; [congruence|].
  destruct (QR_pop_pre _ _ _ (Hf Hfree)) as (q1 & E & Hl1 & Hk1 & Hfin).
  exists a, l', q1. split; [reflexivity|]. split; [exact E|].
  assert (Hother : forall j x, j <> i -> nth_error (upd T i (FQPopAdd sys (Some a))) j = Some x -> nth_error T j = Some x).
  { intros j x Hn Hj. rewrite fnth_upd_ne in Hj by exact Hn. exact Hj. }
  split.
  - rewrite (fcnt_upd _ _ _ _ _ Hp), Hc, Hfree, Hk1. cbn [holder b2z]. rewrite Bool.eqb_reflx. cbn [b2z]. lia.
  - rewrite Hk1. discriminate.
  - lia.
  - intros j m' Hj x. destruct (Nat.eq_dec j i) as [->|Hn].
    + rewrite (fnth_upd_eq _ _ _ _ Hp) in Hj. discriminate.
    + exfalso. apply (QI_no_holder _ _ _ _ j _ H Hfree (Hother _ _ Hn Hj)). cbn. apply Bool.eqb_reflx.
  - intros j v Hj. destruct (Nat.eq_dec j i) as [->|Hn].
    + rewrite (fnth_upd_eq _ _ _ _ Hp) in Hj. inversion Hj; subst. exists a, l'. split; [reflexivity|]. split; [reflexivity|]. exact Hfin.
    + exfalso. apply (QI_no_holder _ _ _ _ j _ H Hfree (Hother _ _ Hn Hj)). cbn. apply Bool.eqb_reflx.
  - intros j Hj. discriminate.
Qed.

(** Pop: the atomic add (+ Unlock); needs: no OTHER consumer is past its emptiness check (single consumer) *)
Lemma QI_popadd sys q T l i v : QI sys q T l -> nth_error T i = Some (FQPopAdd sys v) ->
  (forall j, j <> i -> nth_error T j <> Some (FQLock sys)) ->
  exists a l', l = a :: l' /\ v = Some a /\ QI sys (q_pop_fin q) (upd T i (FDec sys a)) l'.
Proof.
  intros H Hp Hsingle. pose proof H as [Hc Hf Hl Hpu Hpo Hlk].
  assert (Hhp : holder sys (FQPopAdd sys v) = true) by (cbn; apply Bool.eqb_reflx).
  pose proof (QI_holder_locked _ _ _ _ _ _ H Hp Hhp) as Hlocked.
  destruct (Hpo i v Hp) as (a & l' & -> & -> & HQR).
  exists a, l'. split; [reflexivity|]. split; [reflexivity|].
  assert (Hother : forall j x, j <> i -> nth_error (upd T i (FDec sys a)) j = Some x -> nth_error T j = Some x).
  { intros j x Hne Hj. rewrite fnth_upd_ne in Hj by exact Hne. exact Hj. }
  split.
  - rewrite (fcnt_upd _ _ _ _ _ Hp), Hc, Hlocked, Hhp. cbn [holder b2z q_pop_fin qlock]. lia.
  - intros _. exact HQR.
  - exact (proj1 HQR).
  - intros j m' Hj x. destruct (Nat.eq_dec j i) as [->|Hne].
    + rewrite (fnth_upd_eq _ _ _ _ Hp) in Hj. discriminate.
    + exfalso. apply (QI_one_holder _ _ _ _ i j _ _ H (not_eq_sym Hne) Hp (Hother _ _ Hne Hj) Hhp). cbn. apply Bool.eqb_reflx.
  - intros j v' Hj. destruct (Nat.eq_dec j i) as [->|Hne].
    + rewrite (fnth_upd_eq _ _ _ _ Hp) in Hj. discriminate.
    + exfalso. apply (QI_one_holder _ _ _ _ i j _ _ H (not_eq_sym Hne) Hp (Hother _ _ Hne Hj) Hhp). cbn. apply Bool.eqb_reflx.
  - intros j Hj. destruct (Nat.eq_dec j i) as [->|Hne].
    + rewrite (fnth_upd_eq _ _ _ _ Hp) in Hj. discriminate.
    + exfalso. exact (Hsingle j Hne (Hother _ _ Hne Hj)).
Qed.

Lemma QI_init sys n ths : (1 <= n)%nat -> forallb fenv_pc ths = true -> QI sys (q_new n) (map FStart ths) [].
Proof.
  intros Hn He.
  assert (Hno : forall j x, nth_error (map FStart ths) j = Some x -> qrel sys x = false).
  { intros j x Hj. rewrite nth_error_map in Hj. destruct (nth_error ths j); [|discriminate]. inversion Hj. reflexivity. }
  split.
  - cbn [q_new qlock b2z]. clear Hno. induction ths as [|k t IH]; cbn [map fcnt forallb] in *; [reflexivity|].
    apply andb_true_iff in He as [_ Ht]. rewrite (IH Ht). cbn. lia.
  - intros _. exact (QR_new n Hn).
  - reflexivity.
  - intros j m Hj. apply Hno in Hj. cbn in Hj. rewrite Bool.eqb_reflx in Hj. discriminate.
  - intros j v Hj. apply Hno in Hj. cbn in Hj. rewrite Bool.eqb_reflx in Hj. discriminate.
  - intros j Hj. apply Hno in Hj. cbn in Hj. rewrite Bool.eqb_reflx in Hj. discriminate.
Qed.
