From Vivid Require Import Actor.Core.
