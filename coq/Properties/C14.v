(** C14 — Remoting under connection faults: never corrupt, duplicate or reorder; recover.
    Statements only; every proof is [exact <lemma>] (Remoting/LinkProofs.v, FrameProofs.v).
    Models: Remoting/Link.v (Mailbox.Enqueue / backoff.Try as a machine whose step is one iteration of Try's
    loop; the environment's decisions of an iteration are one [answers] record and the script is universally
    quantified: a connection may be cut after ANY number of bytes [COk (Some k)], dials refused, handshakes
    failed, the context stopped, a short write reported or not) and Remoting/Frame.v (the receiver).

    M5 as modelled ([write]): a Write delivers all its bytes, or a strict prefix after which the connection
    carries nothing more; only the second case can return an error (C14_failed_write_is_strict_prefix). *)
From Coq Require Import List NArith ZArith Lia.
From Vivid Require Import Codec.Prim Remoting.Frame Remoting.FrameProofs Remoting.Link Remoting.LinkProofs
  Remoting.LinkPeers Remoting.LinkPeersProofs Remoting.FrameRoute Remoting.Accept Remoting.AcceptProofs.
Import ListNotations.
Local Open Scope N_scope.

(** SUBSEQUENCE (partial: under the stated assumption).  For every message list, every ReconnectLimit and every
    environment script, what the remote actor receives is a subsequence of what was sent (order-preserving
    embedding: no duplicate, nothing reordered, every element equal to a sent one) — PROVIDED the connections
    of the one sender mailbox do not overlap at the receiver: [concat (per_conn ...)] hands the remote actor
    connection 1's deliveries, then connection 2's, ...  Without that proviso the clause is false
    (C14_overlap_reorder_refuted). *)
Theorem C14_subsequence_partial :
  forall (M : Type) (encode : M -> option bytes) (limit : N) (dec : bytes -> option M),
    (forall m b, encode m = Some b -> dec b = Some m) ->
    forall (ms : list M) (script : list answers),
      subseq (concat (per_conn dec (fst (exec encode limit ms script init)))) ms.
Proof. exact (@subsequence). Qed.

(** every connection has its own reader actor; if the tail of an old connection is processed after the head
    of its successor the remote actor sees messages out of order.  Witness: messages 1 2 3, ReconnectLimit 0,
    connection 1 cut after exactly one frame: 1 arrives on connection 1, 2 is dead-lettered, 3 arrives on
    connection 2; the interleaving [3; 1] is not a subsequence of [1; 2; 3]. *)
Theorem C14_overlap_reorder_refuted :
  exists (ms : list bytes) (script : list answers) (r : list bytes),
    let s := fst (exec id_encode 0 ms script init) in
    merges (per_conn (fun b => Some b) s) r /\ ~ subseq r ms.
Proof. exact overlap_refuted. Qed.

(** a frame cut anywhere (inside the length prefix, inside the body) is never delivered, and the complete
    frames before it are *)
Theorem C14_cut_frame_never_delivered :
  forall (D : Type) (dec : bytes -> option D) (bodies : list bytes) (b : bytes) (k : nat),
    Forall legal bodies -> legal b -> (k < length (frame b))%nat ->
    delivered (receive_stream dec (concat (map frame bodies) ++ firstn k (frame b))) = decodable dec bodies.
Proof. exact (@receive_stream_frames_partial). Qed.

Theorem C14_failed_write_is_strict_prefix :
  forall (c : conn) (data : bytes) (c' : conn),
    write c data = (c', false) ->
    exists k, (k < length data)%nat /\ c_wire c' = c_wire c ++ firstn k data /\ c_cap c' = Some 0.
Proof. exact write_incomplete_strict_prefix. Qed.

(** DEAD LETTERS.  Every Enqueue that returns ends in exactly one of: one RemotingMessageSentEvent and no dead
    letter, or exactly one HandleFailedRemotingEnvelop for that message and no Sent event; the caller slept
    at most [limit] times. *)
Theorem C14_dead_letter_exactly_once :
  forall (M : Type) (encode : M -> option bytes) (limit : N) (m : M) (script : list answers)
         (s s' : st) (rest : list answers),
    attempt s <= limit ->
    try_loop encode limit m script s = (s', rest, true) ->
    attempt s' = 0 /\
    exists tr, trace s' = trace s ++ tr /\ count_sleeps tr + attempt s <= limit /\
      ((dead s' = dead s /\ exists n tr0, tr = tr0 ++ [LSent n] /\ ~ In LDead tr0 /\ forall k, ~ In (LSent k) tr0) \/
       (dead s' = dead s ++ [m] /\ exists tr0, tr = tr0 ++ [LDead] /\ ~ In LDead tr0 /\ forall k, ~ In (LSent k) tr0)).
Proof. exact (@try_loop_spec). Qed.

(** limit+1 failed attempts: exactly one dead letter after exactly [limit] sleeps whose nominal durations are
    100 ms * 2^k capped at 3 s *)
Theorem C14_dead_letter_after_exhaustion :
  forall (M : Type) (encode : M -> option bytes) (limit : N) (m : M) (data : bytes) (n : nat)
         (script : list answers) (s : st),
    wire_of encode m = Some data ->
    attempt s + N.of_nat n = limit ->
    (n < length script)%nat -> Forall hard_fail (firstn (S n) script) ->
    exists s', try_loop encode limit m script s = (s', skipn (S n) script, true) /\
      dead s' = dead s ++ [m] /\ attempt s' = 0 /\
      exists tr, trace s' = trace s ++ tr /\ count_sleeps tr = N.of_nat n /\ sleeps_ms tr = nominal_ms (attempt s) n.
Proof. exact (@try_loop_exhaust). Qed.

Example C14_exhaustion_example :
  wire_of id_encode [7] = Some (frame [7]) /\ Forall hard_fail (firstn 3 [refuse_closed; refuse_closed; refuse_closed]) /\
  dead (fst (fst (try_loop id_encode 2 [7] [refuse_closed; refuse_closed; refuse_closed] init))) = [[7]].
Proof. repeat split; try reflexivity. repeat constructor. Qed.

(** a message the codec cannot encode, or whose envelope is empty or larger than 4 MiB, is dead-lettered at
    once (no retry, no sleep) as soon as a connection is at hand *)
Theorem C14_dead_letter_on_encode_failure :
  forall (M : Type) (encode : M -> option bytes) (limit : N) (m : M) (a : answers) (script : list answers) (s : st),
    wire_of encode m = None -> a_stopped a = false ->
    (cur s <> None \/ exists cap, a_connect a = COk cap) ->
    exists s', try_loop encode limit m (a :: script) s = (s', script, true) /\ dead s' = dead s ++ [m] /\
      exists tr, trace s' = trace s ++ tr /\ count_sleeps tr = 0.
Proof. exact (@try_loop_encode_fail). Qed.

Theorem C14_sender_refuses_empty_and_oversize :
  forall b : bytes, ~ (1 <= N.of_nat (length b) <= max_frame) -> send_frame b = None.
Proof. exact send_frame_refuses. Qed.

(** UNDECODABLE / OVERSIZE FRAMES DO NOT STOP LATER FRAMES.  Any stream of well-formed frames (decodable,
    undecodable, or with a length above 4 MiB as a foreign writer might send), any chunking: the stream stays
    aligned, every frame gets exactly one reaction, and the actor receives exactly the decodable bodies of
    accepted size, in order — nothing of a rejected frame's body is ever interpreted. *)
Theorem C14_undecodable_continues :
  forall (D : Type) (dec : bytes -> option D) (bodies chunks : list bytes),
    Forall (fun b => 1 <= N.of_nat (length b) < 4294967296) bodies ->
    concat chunks = concat (map frame bodies) ->
    receive dec chunks = map (on_frame dec) bodies ++ [REof] /\
    delivered (receive dec chunks) = decodable dec (accepted bodies).
Proof. exact (@receive_mixed). Qed.

(** ... AND NEITHER DOES A FRAME THAT DECODES BUT CANNOT BE HANDED TO ANYBODY.  [routable d] = System.HandleRemotingEnvelop
    returned nil for the decoded envelope d (actor.NewRef accepted the sender and the receiver strings; an absent sender
    is written as two empty strings and rejected; so are a bad port, a bare IP, a receiver path without '/').  Such a
    frame is "received" and reaches no mailbox; the reader is re-armed as after every frame.  Any stream of well-formed
    frames, any chunking: local mailboxes get exactly the bodies of accepted size that decode and can be routed, in order. *)
Theorem C14_unroutable_continues :
  forall (D : Type) (dec : bytes -> option D) (routable : D -> bool) (bodies chunks : list bytes),
    Forall (fun b => 1 <= N.of_nat (length b) < 4294967296) bodies ->
    concat chunks = concat (map frame bodies) ->
    receive dec chunks = map (on_frame dec) bodies ++ [REof] /\
    handed routable (receive dec chunks) = filter routable (decodable dec (accepted bodies)).
Proof. exact (@unroutable_continues). Qed.

(** m1 .. | BAD | m3 ..: the mailboxes get exactly what they would have got had the unroutable frame not been sent *)
Theorem C14_unroutable_frame_is_skipped :
  forall (D : Type) (dec : bytes -> option D) (routable : D -> bool) (pre : list bytes) (bad : bytes) (post chunks : list bytes) (d : D),
    Forall (fun b => 1 <= N.of_nat (length b) < 4294967296) (pre ++ bad :: post) ->
    dec bad = Some d -> routable d = false ->
    concat chunks = concat (map frame (pre ++ bad :: post)) ->
    handed routable (receive dec chunks) =
    filter routable (decodable dec (accepted pre)) ++ filter routable (decodable dec (accepted post)).
Proof. exact (@unroutable_frame_is_skipped). Qed.

Example C14_unroutable_example :
  let dec := fun b : bytes => Some b in
  let routable := fun b : bytes => match b with 66 :: _ => false | _ => true end in    (* bodies starting with 'B' cannot be routed *)
  handed routable (receive dec [[0; 0; 0; 1; 7; 0; 0]; [0; 2; 66; 1; 0; 0; 0; 1; 9]]) = [[7]; [9]].
Proof. vm_compute. reflexivity. Qed.

(** RECOVERY.  Once the peer is reachable and errors are reported ([fine]): with at least one retry configured a
    message sent from ANY reachable state (healthy connection, connection already cut, none) is delivered exactly
    once after everything delivered before, on a new connection that starts at a frame boundary if need be ... *)
Theorem C14_recovers :
  forall (M : Type) (encode : M -> option bytes) (limit : N) (dec : bytes -> option M),
    (forall m b, encode m = Some b -> dec b = Some m) ->
    forall (done : list M) (m : M) (a1 a2 : answers) (script : list answers) (s : st) (data : bytes),
      1 <= limit -> Inv encode done s -> attempt s = 0 ->
      wire_of encode m = Some data -> fine a1 -> fine a2 ->
      exists s' rest, try_loop encode limit m (a1 :: a2 :: script) s = (s', rest, true) /\
        received dec s' = received dec s ++ [m] /\ dead s' = dead s.
Proof. exact (@recovers_retry). Qed.

(** ... and for every limit (0 included): a reported failure drops the cached connection
    (C14_failure_drops_connection), and without a cached connection the next message is delivered *)
Theorem C14_recovers_after_reported_failure :
  forall (M : Type) (encode : M -> option bytes) (limit : N) (dec : bytes -> option M),
    (forall m b, encode m = Some b -> dec b = Some m) ->
    forall (m : M) (a : answers) (script : list answers) (s : st) (data : bytes),
      wire_of encode m = Some data -> fine a -> cur s = None ->
      exists s', try_loop encode limit m (a :: script) s = (s', script, true) /\
        received dec s' = received dec s ++ [m] /\ dead s' = dead s /\ old s' = old s.
Proof. exact (@recovers_after_drop). Qed.

Theorem C14_failure_drops_connection :
  forall (M : Type) (encode : M -> option bytes) (m : M) (a : answers) (s s1 : st),
    attempt_once encode m a s = (s1, ORetry) -> cur s1 = None.
Proof. exact (@retry_drops). Qed.

Theorem C14_reachable_states_satisfy_Inv :
  forall (M : Type) (encode : M -> option bytes) (limit : N) (ms done : list M) (script : list answers) (s : st),
    Inv encode done s -> Inv encode (done ++ ms) (fst (exec encode limit ms script s)).
Proof. exact (@exec_inv). Qed.

Example C14_recovers_example :
  Inv id_encode [] (@init bytes) /\ fine (ok_conn None) /\ wire_of id_encode [9] = Some (frame [9]).
Proof. split; [apply Inv_init|]. split; [repeat split|reflexivity]. Qed.

(** RECOVERY, RECEIVING SIDE (model: Remoting/Accept.v, the code since /repo c1a2e19: the reader actor of an accepted
    connection, registered as "accept-<peer ip:port>", terminates and releases its name at EVERY end of its stream - io.EOF
    after a plain FIN included; before that repair a FIN-closed connection kept the name for ever and every later
    connection from the same peer ip:port was accepted but never read: defect C14-accept-name-collision, fixed).
    Events: [AAccept p n] a connection from p is accepted, shakes hands and is registered (the dialler writes n frames),
    [AGone p] the kernel's connection is gone (a new one from the same ip:port can be accepted), [AReaderEnd p] the
    registered reader of p has worked through what was queued for it, seen the end of its stream and is deregistered.
    [accept_run evs []] lists per accepted connection (peer, frames written, frames read).
    EVERY ACCEPTED CONNECTION WHOSE PREDECESSOR'S READER HAS ENDED IS READ: for every history [pre] - any set of peer
    addresses, re-used ones included, FIN, RST, connections that were not read - and every future [post], a connection
    from p accepted when the last event of p in [pre] among accept / reader-end is not an accept is read completely. *)
Theorem C14_accepted_connection_read :
  forall (pre : list aev) (p : bytes) (n : N) (post : list aev),
    reader_pending p pre false = false ->
    exists a b, accept_run (pre ++ AAccept p n :: post) [] = a ++ (p, n, n) :: b /\ length a = accepts pre.
Proof. exact accepted_after_reader_end_is_read. Qed.

(** hence no accepted-but-unread connection in any history in which every connection is accepted after the reader of
    its predecessor from the same address has ended *)
Theorem C14_all_accepted_connections_read :
  forall (evs : list aev), prompt evs [] -> all_read (accept_run evs []).
Proof. exact prompt_accepts_all_read. Qed.

Example C14_accept_example :
  prompt [AAccept peerP 3; AGone peerP; AReaderEnd peerP; AAccept peerP 5] [] /\
  accept_run [AAccept peerP 3; AGone peerP; AReaderEnd peerP; AAccept peerP 5] [] = [(peerP, 3, 3); (peerP, 5, 5)].
Proof. exact reader_end_first_all_read. Qed.

(** THE RESIDUAL WINDOW (FINDING C14-accept-name-window, reproduced on the repaired code).  [AGone] and [AReaderEnd] are
    independent: after a RST the kernel accepts a new connection from the same ip:port at once, while the reader actor
    of the old one may still be busy (user Codec.Decode runs inside it; frames already buffered) and has not seen the end
    of its stream.  A connection registered in that window finds the name taken and is never read - TCP allows the
    history ([tcp_ok]), the dialler's handshake succeeds, its writes succeed, nothing reaches a mailbox, no dead letter. *)
Theorem C14_accepted_before_reader_end_refuted :
  exists (evs : list aev),
    tcp_ok evs [] = true /\ ~ all_read (accept_run evs []) /\
    accept_run evs [] = [(peerP, 3, 3); (peerP, 5, 0)].
Proof. exact accepted_before_reader_end_unread. Qed.

(** TELL DOES NOT BLOCK THE CALLER: false.  All labels of [try_loop], [LSleep] included, are actions of the
    goroutine that called Tell (Enqueue runs synchronously under connectionLock).  Witness: ReconnectLimit 3, peer
    refuses: the caller sleeps 3 times, nominally 100+200+400 = 700 ms, before the dead letter. *)
Theorem C14_tell_nonblocking_refuted :
  exists (limit : N) (m : bytes) (script : list answers),
    let s := fst (fst (try_loop id_encode limit m script init)) in
    count_sleeps (trace s) = 3 /\ sleeps_ms (trace s) = 700 /\ dead s = [m].
Proof. exact tell_refuted. Qed.

(** what does hold: one Enqueue sleeps at most [limit] times (C14_dead_letter_exactly_once), so with
    ReconnectLimit 0 Tell never sleeps *)
Theorem C14_tell_nonblocking_partial :
  forall (M : Type) (encode : M -> option bytes) (m : M) (script : list answers) (s s' : st) (rest : list answers),
    attempt s = 0 ->
    try_loop encode 0 m script s = (s', rest, true) ->
    exists tr, trace s' = trace s ++ tr /\ count_sleeps tr = 0.
Proof. exact (@try_loop_limit0_no_sleep). Qed.

(** SEVERAL PEERS (model: Remoting/LinkPeers.v).  One Mailbox per remote address, each with its own connection, lock
    and back-off counter; Enqueue calls to different mailboxes interleave at the granularity of one iteration of
    backoff.Try's loop ([iter]; [try_loop] is its iteration: C14_enqueue_is_iterated_step).  [pair_run] runs two
    mailboxes under an arbitrary schedule. *)
Theorem C14_enqueue_is_iterated_step :
  forall (M : Type) (encode : M -> option bytes) (limit : N) (m : M) (script : list answers) (s s' : st)
         (rest : list answers),
    try_loop encode limit m script s = (s', rest, true) ->
    exists used, script = used ++ rest /\ run_iters encode limit (map (fun a => (m, a)) used) s = s'.
Proof. exact (@try_loop_iters). Qed.

(** independence: under every schedule the run of each mailbox is the run of its own iterations alone; the
    iterations of the other one, interleaved anywhere, change nothing *)
Theorem C14_peers_independent :
  forall (M : Type) (encode : M -> option bytes) (limit : N) (evs : list (peer * (M * answers))) (sR sH : st),
    fst (pair_run encode limit evs (sR, sH)) = run_iters encode limit (proj PR evs) sR /\
    snd (pair_run encode limit evs (sR, sH)) = run_iters encode limit (proj PH evs) sH.
Proof. exact (@pair_run_independent). Qed.

(** hence the dead letter after limit+1 failed attempts (C14_dead_letter_after_exhaustion) holds for the refusing
    peer under ANY traffic to another peer interleaved with its retries: exactly [limit] sleeps, then the dead letter *)
Theorem C14_dead_letter_after_exhaustion_two_peers :
  forall (M : Type) (encode : M -> option bytes) (limit : N) (m : M) (data : bytes) (n : nat)
         (script : list answers) (evs : list (peer * (M * answers))) (sR sH : st),
    wire_of encode m = Some data ->
    attempt sR + N.of_nat n = limit ->
    (n < length script)%nat -> Forall hard_fail (firstn (S n) script) ->
    proj PR evs = map (fun a => (m, a)) (firstn (S n) script) ->
    let sR' := fst (pair_run encode limit evs (sR, sH)) in
    dead sR' = dead sR ++ [m] /\ attempt sR' = 0 /\
    exists tr, trace sR' = trace sR ++ tr /\ count_sleeps tr = N.of_nat n.
Proof. exact (@two_peers_dead_letter). Qed.

(** what the theorem excludes: if the two mailboxes shared ONE attempt counter ([shared_run]: not the code), then
    with ReconnectLimit >= 1, a peer that refuses and another mailbox whose Enqueue returns between any two retries
    (every return resets the counter), the message to the refusing peer is never dead-lettered, however many
    attempts fail ... *)
Theorem C14_shared_counter_never_dead_letters :
  forall (M : Type) (encode : M -> option bytes) (limit : N) (mr : M) (ar : answers) (mh : M) (ah : answers) (data : bytes),
    wire_of encode mr = Some data -> hard_fail ar -> 1 <= limit ->
    (forall s : st, snd (iter encode limit mh ah s) = true) ->
    forall (n : nat) (sR sH : st), attempt sR = 0 ->
      let p := shared_run encode limit (alternate n mr ar mh ah) (sR, sH) in
      dead (fst p) = dead sR /\ attempt (fst p) = 0.
Proof. exact (@shared_counter_never_dead_letters). Qed.

(** ... witness (also the non-vacuity of the hypotheses above): limit 1, R refuses, H's Enqueue returns at once;
    with a shared counter no dead letter after any number n of failed attempts, with separate counters the dead
    letter after the second one *)
Theorem C14_shared_counter_refuted :
  forall n : nat,
    dead (fst (shared_run id_encode 1 (alternate n [7] refuse_closed [8] stopped) (init, init))) = [] /\
    dead (fst (pair_run id_encode 1 (alternate 2 [7] refuse_closed [8] stopped) (init, init))) = [[7]].
Proof. exact shared_counter_refuted. Qed.

Example C14_two_peers_example :
  wire_of id_encode [7] = Some (frame [7]) /\ hard_fail refuse_closed /\ 1 <= 1 /\
  (forall s : @st bytes, snd (iter id_encode 1 [8] stopped s) = true) /\
  proj PR (alternate 2 [7] refuse_closed [8] stopped) = map (fun a => ([7], a)) (firstn 2 [refuse_closed; refuse_closed]).
Proof. repeat split; try reflexivity. Qed.

Print Assumptions C14_subsequence_partial.
Print Assumptions C14_overlap_reorder_refuted.
Print Assumptions C14_cut_frame_never_delivered.
Print Assumptions C14_failed_write_is_strict_prefix.
Print Assumptions C14_dead_letter_exactly_once.
Print Assumptions C14_dead_letter_after_exhaustion.
Print Assumptions C14_dead_letter_on_encode_failure.
Print Assumptions C14_sender_refuses_empty_and_oversize.
Print Assumptions C14_undecodable_continues.
Print Assumptions C14_unroutable_continues.
Print Assumptions C14_unroutable_frame_is_skipped.
Print Assumptions C14_recovers.
Print Assumptions C14_recovers_after_reported_failure.
Print Assumptions C14_failure_drops_connection.
Print Assumptions C14_reachable_states_satisfy_Inv.
Print Assumptions C14_accepted_connection_read.
Print Assumptions C14_all_accepted_connections_read.
Print Assumptions C14_accepted_before_reader_end_refuted.
Print Assumptions C14_tell_nonblocking_refuted.
Print Assumptions C14_tell_nonblocking_partial.
Print Assumptions C14_enqueue_is_iterated_step.
Print Assumptions C14_peers_independent.
Print Assumptions C14_dead_letter_after_exhaustion_two_peers.
Print Assumptions C14_shared_counter_never_dead_letters.
Print Assumptions C14_shared_counter_refuted.
