(** C05, restart clause, over whole histories: "A supervised restart starts a new incarnation under the same
    reference: it begins with an OnLaunch delivered to the restarted actor itself (and to nobody else), with the
    behaviour stack reset to the actor's OnReceive and, if a provider was configured, a fresh actor instance."

    Properties/C05.v has the one-instruction facts ([C05_restart_starts_with_launch]: what [IRestartFinish] does)
    and the history-level [C05_nothing_after_own_killed] (whatever an actor sees right after its own OnKilled is
    an OnLaunch).  Here the WHO is added, for every reachable state of the ActorCore machine (Actor/Core.v): the log
    [seen_full a (olog s)] (Actor/SpecLife.v) lists every invocation of actor [a]'s behaviour as (instance, mode,
    message) - instance = the provider's counter of the actor object whose method ran, mode = 0 for the actor's
    OnReceive and m for a behaviour installed by Become(m).  Between the completion of the restart and the OnLaunch
    call lie scheduling points (mailbox.Resume's two CASes, the insertions of the ActorRestarted / MailboxResumed
    events), so this is an invariant over all interleavings, not a property of one atomic phase.
    Statements only; proofs in Actor/ProofsRestartLog.v (on top of Actor/ProofsLifeLog.v). *)
From Coq Require Import List NArith ZArith Bool.
From Vivid Require Import Actor.Core Actor.CoreRun Actor.SpecMail Actor.SpecLife Actor.SpecRestartLog Actor.ProofsRestartLog.
Import ListNotations.
Local Open Scope N_scope.

(** every reachable state, every actor but the guard: whatever directly follows the invocation for the actor's own
    OnKilled is the OnLaunch of the new incarnation, invoked on the behaviour the stack was reset to (mode 0: the
    actor's OnReceive - not a behaviour the previous incarnation had installed with Become) of the instance the
    restart put in charge ([next_inst]: a fresh one if a provider is configured, else the same one) - not of the
    instance that has just seen its own OnKilled *)
Theorem C05_restart_opens_with_launch_at_fresh_instance s a x pre i1 md1 i2 md2 m post :
  SpecLife.reachable s -> a <> 0%nat -> get s a = Some x ->
  seen_full a (olog s) = pre ++ (i1, md1, MKilled (RObj a)) :: (i2, md2, m) :: post ->
  m = MLaunch /\ md2 = 0 /\ i2 = next_inst x i1.
Proof. exact (restart_opens_with_launch s a x pre i1 md1 i2 md2 m post). Qed.

(** the same as a property of the whole log *)
Theorem C05_restart_log s a x :
  SpecLife.reachable s -> a <> 0%nat -> get s a = Some x -> restart_log_ok a x (seen_full a (olog s)).
Proof. exact (restart_log_reachable s a x). Qed.

(** the instance in charge changes nowhere else: every instruction but the completion of a restart keeps it (so
    within an incarnation every invocation is by the same instance, [C05_behaviour_call_logged]) *)
Theorem C05_instance_changes_only_at_restart s t h i s1 front x x1 :
  exec1 s t h i = (s1, front) -> get s (self_of t) = Some x -> get s1 (self_of t) = Some x1 -> i <> IRestartFinish ->
  a_inst x1 = a_inst x.
Proof. exact (instance_changes_only_at_restart s t h i s1 front x x1). Qed.

(** ============================ example ============================ *)

(** a worker with a provider installs behaviour 2 with Become, fails, and is restarted by its one-for-one supervisor:
    instance 0 sees OnLaunch, 7, 9 (in mode 2), OnKill, its own OnKilled (all in mode 2); the new incarnation's
    OnLaunch and the next message are handled by instance 1 in mode 0 *)
Definition ex_w : spec := Spec 1 [] [] [] 0 [] true [] true.
Definition ex_p : spec := Spec 1 [ASpawn ex_w] [] [] 1 [DRestart] true [] false.
Definition ex_scs : list (list action) :=
  [[ASpawn ex_p]; [ATell (XPath [1;1]) 7 [ABecome 2 true]; ATell (XPath [1;1]) 9 [APanic]; ATell (XPath [1;1]) 10 []]].
Definition ex_s0 : state := SpecLife.init_with ex_scs.
Definition ex_evs1 : list event := Eval vm_compute in drive 400 [TX 0; TA 0; TA 1; TA 2] ex_s0.
Definition ex_evs : list event := Eval vm_compute in ex_evs1 ++ drive_all 600 (run_events ex_evs1 ex_s0).

Example C05_ex_restart_after_become_with_provider :
  let sf := run_events ex_evs ex_s0 in
  SpecLife.reachable sf /\
  seen_full 2 (olog sf) =
    [(0, 0, MLaunch); (0, 0, MUser 7 [ABecome 2 true]); (0, 2, MUser 9 [APanic]); (0, 2, MKill (RObj 2) false);
     (0, 2, MKilled (RObj 2)); (1, 0, MLaunch); (1, 0, MUser 10 [])] /\
  (exists x, get sf 2%nat = Some x /\ next_inst x 0 = 1 /\ a_inst x = 1 /\ a_modes x = [0]).
Proof.
  cbv zeta. split; [exists ex_scs, ex_evs; split; [reflexivity|vm_compute; reflexivity]|].
  split; [vm_compute; reflexivity|]. vm_compute. eexists. repeat split.
Qed.

Print Assumptions C05_restart_opens_with_launch_at_fresh_instance.
Print Assumptions C05_restart_log.
Print Assumptions C05_instance_changes_only_at_restart.
