(** C12 (registered-message half) — the wire codec round-trips every value of every registered message
    type; the envelope's system flag, sender and receiver survive; the reader consumes exactly the
    writer's bytes.

    Statements only; every proof is [exact <lemma>] (lemmas in Codec/*Proofs.v, witnesses in
    Codec/MsgsWitnesses.v).  Reading guide:
    - [drun d bs = MOk (v, rest)]: decoder [d] on input [bs] yields [v] and leaves [rest] unread;
    - [ty_*]: the value is a Go value (field ranges); [valid_*]: the value survives the wire.  Every value
      class excluded by a [valid_*] is a theorem of its own below ([C12_*_refuted]) with a concrete
      witness that the harness replays on the real code;
    - user code is universally quantified: the Codec ([hc] = configured, [cenc], [cdec]), the error
      registry [qerr] = vivid.QueryError, the ActorRef factory [newref] = actor.NewRef. *)
From Coq Require Import List NArith ZArith Lia.
From stdpp Require Import gmap.
From Vivid Require Import Codec.Prim Codec.MsgPrim Codec.MsgPrimProofs Cluster.VV Cluster.VVProofs
  Codec.ClusterMsgs Codec.ClusterMsgsProofs Codec.Msgs Codec.MsgsProofs Codec.Envelope Codec.EnvelopeProofs
  Codec.MsgsWitnesses.
From Vivid Require Import Generated.MsgRegistry.
From Vivid Require Import Codec.RefNorm Codec.RefNormProofs Codec.RefMsgs.
Local Open Scope N_scope.

(** * registry completeness: every wire name found at a RegisterInternalMessage / RegisterCustomMessage
    site of the tree under test (Generated/MsgRegistry.v, regenerated on every run) has a codec in the
    table [codec_names] = the 28 kinds below, no site computes its name, and the table has no stale entry *)
Theorem C12_registry_complete :
  forallb (fun n => existsb (bytes_eqb n) codec_names) msg_registry && is_nil msg_registry_dynamic = true.
Proof. exact registry_covered_ok. Qed.
Theorem C12_registry_exact : forallb (fun n => existsb (bytes_eqb n) msg_registry) codec_names = true.
Proof. exact registry_exact_ok. Qed.
Theorem C12_names_dispatch k : kind_of_name (name_of k) = Some k.
Proof. exact (kind_of_name_of k). Qed.

(** * flat message types *)
(** OnLaunch, WatchMessage, UnwatchMessage, clusterGossipTick, clusterGossipCrossDCTick,
    clusterFailureDetectionTick, clusterGetViewRequest, clusterLeaveRequest, clusterLeaveAck,
    clusterExitingReady: no field, nothing written, nothing read *)
Theorem C12_rt_empty U hc cenc cdec qerr newref (e : empty_kind) rest fuel :
  enc_body U hc cenc (M_Empty e) = MOk [] /\
  drun (dec_body U hc cdec qerr newref (S fuel) (kind_of_empty e)) rest = MOk (M_Empty e, rest).
Proof. exact (empty_rt U hc cenc cdec qerr newref e rest fuel). Qed.

(** OnKill / OnKilled: the ActorRef field survives iff it is nil or a ref that the factory accepts
    unchanged ([valid_kref]) *)
Theorem C12_rt_OnKill newref k reason poison rest :
  match k with
  | RAbsent => True
  | RRef a p => len32 a /\ len32 p /\ (a <> [] \/ p <> []) /\ newref a p = MOk (a, p)
  | RTypedNil => False
  end ->
  len32 reason ->
  drun (dec_OnKill newref) (enc_OnKill k reason poison ++ rest) = MOk ((k, reason, poison), rest).
Proof. exact (OnKill_rt newref k reason poison rest). Qed.
Theorem C12_rt_OnKilled newref k rest :
  valid_kref newref k -> drun (dec_OnKilled newref) (enc_OnKilled k ++ rest) = MOk (k, rest).
Proof. exact (OnKilled_rt newref k rest). Qed.
(** The ActorRef factory is no longer only an uninterpreted function: Codec/RefNorm.v models actor.NewRef at string level
    ([new_ref ip a p]; [ip] = the net.ParseIP oracle) and Codec/RefNormProofs.v proves it idempotent for every oracle
    (C12_newref_idempotent in C12_reflect.v, Part II).  [newref_model ip] is the factory built from that model. *)
(** Hence: OnKill / OnKilled carrying ANY ref the factory built (from strings below 4 GiB) round-trip, the decoder using
    the factory model itself — C12_rt_OnKill / C12_rt_OnKilled without the hypothesis on the uninterpreted [newref] *)
Theorem C12_rt_OnKill_factory_ref ip a p a' p' reason poison rest :
  new_ref ip a p = inl (a', p') -> len32 a -> len32 p -> len32 reason ->
  drun (dec_OnKill (newref_model ip)) (enc_OnKill (RRef a' p') reason poison ++ rest) = MOk ((RRef a' p', reason, poison), rest).
Proof. exact (OnKill_factory_rt ip a p a' p' reason poison rest). Qed.
Theorem C12_rt_OnKilled_factory_ref ip a p a' p' rest :
  new_ref ip a p = inl (a', p') -> len32 a -> len32 p ->
  drun (dec_OnKilled (newref_model ip)) (enc_OnKilled (RRef a' p') ++ rest) = MOk (RRef a' p', rest).
Proof. exact (OnKilled_factory_rt ip a p a' p' rest). Qed.

Theorem C12_rt_Pong ping resp rest :
  in_i64 ping -> in_i64 resp -> drun dec_Pong (enc_Pong ping resp ++ rest) = MOk ((ping, resp), rest).
Proof. exact (Pong_rt ping resp rest). Qed.
Theorem C12_rt_Error code text rest :
  in_i32 code -> len32 text -> drun dec_Error (enc_Error code text ++ rest) = MOk ((code, text), rest).
Proof. exact (Error_rt code text rest). Qed.
Theorem C12_rt_NoneArgsCommandMessage c rest :
  c < 256 -> drun dec_Command (enc_Command c ++ rest) = MOk (c, rest).
Proof. exact (Command_rt c rest). Qed.
Theorem C12_rt_PingMessage t rest : in_i64 t -> drun dec_Ping (enc_Ping t ++ rest) = MOk (t, rest).
Proof. exact (Ping_rt t rest). Qed.
Theorem C12_rt_PongMessage p r rest :
  in_i64 p -> in_i64 r ->
  enc_PongMessage (Some p) r = MOk (put_i64 p ++ put_i64 r) /\
  drun dec_PongMessage ((put_i64 p ++ put_i64 r) ++ rest) = MOk ((Some p, r), rest).
Proof. exact (PongMessage_rt p r rest). Qed.

(** * cluster data *)
(** map[string]string: nil, or non-empty with at most 65536 entries *)
Theorem C12_rt_mapss (m : gomap) rest :
  match m with
  | None => True
  | Some m => m <> ∅ /\ N.of_nat (size m) <= 65536 /\ forall k v, m !! k = Some v -> len32 k /\ len32 v
  end ->
  drun dec_mapss (enc_mapss m ++ rest) = MOk (m, rest).
Proof. exact (mapss_rt m rest). Qed.
Theorem C12_rt_NodeState n rest :
  ty_ns n ->
  len32 (ns_id n) /\ len32 (ns_cluster n) /\ len32 (ns_addr n) /\ in_i32 (ns_gen n) /\ in_i32 (ns_status n) /\
  valid_mapss (ns_meta n) /\ valid_mapss (ns_labels n) ->
  drun dec_ns_body (enc_ns_body n ++ rest) = MOk (n, rest).
Proof. exact (ns_body_rt n rest). Qed.
Theorem C12_rt_VersionVector (v : vv) rest :
  wf_vv v -> exists b, vwrite v = Ok b /\ drun d_vv (b ++ rest) = MOk (v, rest).
Proof. exact (vv_rt v rest). Qed.
(** ClusterView (nil pointer included): [valid_view] = ViewID fits, the four counts fit int32, the version
    vector is within its caps, Members is a non-nil map whose values are non-nil valid NodeStates *)
Theorem C12_rt_ClusterView (v : option view) rest :
  ty_view_opt v -> valid_view_opt v ->
  exists b, enc_view v = MOk b /\ drun dec_view (b ++ rest) = MOk (v, rest).
Proof. exact (view_rt v rest). Qed.

(** * flat cluster messages *)
Theorem C12_rt_clusterJoinRequest ns tok rest :
  ty_ns_opt ns -> valid_ns_opt ns -> len32 tok ->
  drun dec_JoinRequest (enc_JoinRequest ns tok ++ rest) = MOk ((ns, tok), rest).
Proof. exact (JoinRequest_rt ns tok rest). Qed.
Theorem C12_rt_clusterJoinResponse (v : option view) rest :
  ty_view_opt v -> valid_view_opt v ->
  exists b, enc_ViewMsg v = MOk b /\ drun dec_ViewMsg (b ++ rest) = MOk (v, rest).
Proof. exact (view_rt v rest). Qed.
Theorem C12_rt_clusterGossip (v : option view) rest :
  ty_view_opt v -> valid_view_opt v ->
  exists b, enc_ViewMsg v = MOk b /\ drun dec_ViewMsg (b ++ rest) = MOk (v, rest).
Proof. exact (view_rt v rest). Qed.
Theorem C12_rt_clusterGetViewResponse v q l rest :
  ty_view_opt v -> valid_view_opt v -> len32 l ->
  exists b, enc_GetViewResponse v q l = MOk b /\ drun dec_GetViewResponse (b ++ rest) = MOk ((v, q, l), rest).
Proof. exact (GetViewResponse_rt v q l rest). Qed.
Theorem C12_rt_clusterLeaveBroadcastRound r rest :
  in_i32 r -> drun dec_LeaveBroadcastRound (enc_LeaveBroadcastRound r ++ rest) = MOk (r, rest).
Proof. exact (LeaveBroadcastRound_rt r rest). Qed.
Theorem C12_rt_clusterJoinRetryTick d rest :
  in_i64 d -> drun dec_JoinRetryTick (enc_JoinRetryTick d ++ rest) = MOk (d, rest).
Proof. exact (JoinRetryTick_rt d rest). Qed.
Theorem C12_rt_clusterForceMemberDown id tok rest :
  len32 id -> len32 tok -> drun dec_ForceMemberDown (enc_ForceMemberDown id tok ++ rest) = MOk ((id, tok), rest).
Proof. exact (ForceMemberDown_rt id tok rest). Qed.
Theorem C12_rt_clusterTriggerViewBroadcast tok rest :
  len32 tok -> drun dec_TriggerViewBroadcast (enc_TriggerViewBroadcast tok ++ rest) = MOk (tok, rest).
Proof. exact (TriggerViewBroadcast_rt tok rest). Qed.

(** * the message universe: every registered message, nested ones included *)
(** [valid_msg] (Codec/Msgs.v) is the conjunction of the field conditions stated above, recursively for
    nested messages, plus [fits]: the encoded body of a nested message fits its 4-byte length prefix.
    [fuel] is the decoder's nesting budget; [deserialize_remoting] always supplies enough (C13). *)
Theorem C12_rt_universe U hc cenc cdec qerr newref (m : msg U) k :
  kind_of U m = Some k -> ty_msg U m -> valid_msg U hc cenc cdec qerr newref m ->
  exists b, enc_body U hc cenc m = MOk b /\
    forall rest fuel, (length (b ++ rest) < fuel)%nat ->
      drun (dec_body U hc cdec qerr newref fuel k) (b ++ rest) = MOk (m, rest).
Proof. exact (rt_registered U hc cenc cdec qerr newref m k). Qed.
Theorem C12_rt_deserialize U hc cenc cdec qerr newref (m : msg U) k :
  kind_of U m = Some k -> ty_msg U m -> valid_msg U hc cenc cdec qerr newref m ->
  exists b, enc_body U hc cenc m = MOk b /\
    forall rest, drun (deserialize_remoting U hc cdec qerr newref k) (b ++ rest) = MOk (m, rest).
Proof. exact (rt_deserialize U hc cenc cdec qerr newref m k). Qed.
(** Writer.WriteMessage / Reader.ReadMessage, registered or Codec-encoded *)
Theorem C12_rt_write_message U hc cenc cdec qerr newref (m : msg U) :
  ty_msg U m -> valid_msg U hc cenc cdec qerr newref m -> fits U hc cenc m ->
  exists w, write_message U hc cenc m = MOk w /\
    forall rest, drun (read_message U hc cdec qerr newref) (w ++ rest) = MOk (m, rest).
Proof. exact (rt_read_message U hc cenc cdec qerr newref m). Qed.

(** PipeResult{Id, Message, Error}, wire = bool(Message != nil) [message] Id code text: Message valid
    (recursively), Error nil or a *vivid.Error whose code is non-zero and registered and whose text is
    non-empty (or equal to the registered text) *)
Theorem C12_rt_PipeResult U hc cenc cdec qerr newref id (m : msg U) e :
  ty_msg U m -> ty_perr e ->
  len32 id -> valid_msg U hc cenc cdec qerr newref m -> fits U hc cenc m ->
  match e with
  | PENil => True
  | PEVivid c t => c <> 0%Z /\ len32 t /\ exists reg, qerr c = Some reg /\ (t <> [] \/ t = reg)
  | PEOther _ => False
  | PETypedNil => False
  end ->
  exists b, enc_body U hc cenc (M_PipeResult id m e) = MOk b /\
    forall rest fuel, (length (b ++ rest) < fuel)%nat ->
      drun (dec_body U hc cdec qerr newref fuel K_PipeResult) (b ++ rest) = MOk (M_PipeResult id m e, rest).
Proof. exact (fun Tm Te Hid Vm Fm Ve => rt_registered U hc cenc cdec qerr newref (M_PipeResult id m e) K_PipeResult eq_refl (conj Tm Te) (conj Hid (conj Vm (conj Fm Ve)))). Qed.
(** a failure result — Message nil — round-trips as well *)
Theorem C12_rt_PipeResult_nil_message U hc cenc cdec qerr newref id e :
  ty_perr e -> len32 id ->
  match e with
  | PENil => True
  | PEVivid c t => c <> 0%Z /\ len32 t /\ exists reg, qerr c = Some reg /\ (t <> [] \/ t = reg)
  | PEOther _ => False
  | PETypedNil => False
  end ->
  exists b, enc_body U hc cenc (M_PipeResultNil id e) = MOk b /\
    forall rest fuel, (length (b ++ rest) < fuel)%nat ->
      drun (dec_body U hc cdec qerr newref fuel K_PipeResult) (b ++ rest) = MOk (M_PipeResultNil id e, rest).
Proof. exact (fun Te Hid Ve => rt_registered U hc cenc cdec qerr newref (M_PipeResultNil id e) K_PipeResult eq_refl Te (conj Hid Ve)). Qed.
Theorem C12_rt_SchedulerMessage U hc cenc cdec qerr newref ref (m : msg U) :
  ty_msg U m -> len32 ref -> valid_msg U hc cenc cdec qerr newref m -> fits U hc cenc m ->
  exists b, enc_body U hc cenc (M_Scheduler ref m) = MOk b /\
    forall rest fuel, (length (b ++ rest) < fuel)%nat ->
      drun (dec_body U hc cdec qerr newref fuel K_Scheduler) (b ++ rest) = MOk (M_Scheduler ref m, rest).
Proof. exact (fun Tm Href Vm Fm => rt_registered U hc cenc cdec qerr newref (M_Scheduler ref m) K_Scheduler eq_refl Tm (conj Href (conj Vm Fm))). Qed.
(** clusterSingletonForwardedMessage: the sender travels as (senderAddr, senderPath); the [sender] field
    itself is not rebuilt, so only a message whose [sender] is nil comes back equal *)
Theorem C12_rt_clusterSingletonForwardedMessage U hc cenc cdec qerr newref addr path (m : msg U) :
  ty_msg U m -> len32 addr -> len32 path -> valid_msg U hc cenc cdec qerr newref m -> fits U hc cenc m ->
  exists b, enc_body U hc cenc (M_SingletonFwd RAbsent addr path m) = MOk b /\
    forall rest fuel, (length (b ++ rest) < fuel)%nat ->
      drun (dec_body U hc cdec qerr newref fuel K_SingletonFwd) (b ++ rest) = MOk (M_SingletonFwd RAbsent addr path m, rest).
Proof. exact (fun Tm Ha Hp Vm Fm => rt_registered U hc cenc cdec qerr newref (M_SingletonFwd RAbsent addr path m) K_SingletonFwd eq_refl Tm (conj eq_refl (conj Ha (conj Hp (conj Vm Fm))))). Qed.
(** a message outside the registry goes through the user Codec; M9: the Codec round-trips this value *)
Theorem C12_rt_outside U cenc cdec qerr newref (u : U) d :
  cenc u = MOk d -> len32 d -> cdec d = MOk u ->
  exists w, write_message U true cenc (M_Outside u) = MOk w /\
    forall rest, drun (read_message U true cdec qerr newref) (w ++ rest) = MOk (M_Outside u, rest).
Proof. exact (rt_outside U cenc cdec qerr newref u d). Qed.

(** * envelope: system flag, sender, receiver and payload survive; an absent ref travels as two empty
    strings and is read back as absent.  [valid_ref]: a present ref's strings fit their length prefix *)
Theorem C12_envelope U hc cenc cdec qerr newref (e : envelope U) rest :
  valid_ref (e_sender U e) /\ valid_ref (e_receiver U e) /\
  ty_msg U (e_msg U e) /\ valid_msg U hc cenc cdec qerr newref (e_msg U e) ->
  fits U hc cenc (e_msg U e) ->
  exists b, enc_envelope U hc cenc e = MOk b /\
    drun (dec_envelope U hc cdec qerr newref) (b ++ rest) =
    MOk ({| o_system := e_system U e;
            o_saddr := fst (strs_of (e_sender U e)); o_spath := snd (strs_of (e_sender U e));
            o_raddr := fst (strs_of (e_receiver U e)); o_rpath := snd (strs_of (e_receiver U e));
            o_msg := e_msg U e |}, rest).
Proof. exact (envelope_rt U hc cenc cdec qerr newref e rest). Qed.
Theorem C12_envelope_refs (r : eref) :
  r <> RTypedNil -> r <> RRef [] [] -> ref_of_strs (fst (strs_of r)) (snd (strs_of r)) = r.
Proof. exact (ref_of_strs_of r). Qed.
(** an absent ref — nil interface or typed nil pointer — travels as two empty strings and is read as absent *)
Theorem C12_envelope_absent :
  strs_of RAbsent = ([], []) /\ strs_of RTypedNil = ([], []) /\ ref_of_strs [] [] = RAbsent.
Proof. exact (conj eq_refl (conj eq_refl eq_refl)). Qed.

(** * handshake: the advertised address survives and nothing beyond the handshake is consumed *)
Theorem C12_handshake addr rest :
  N.of_nat (length addr) <= 4096 -> drun dec_handshake (enc_handshake addr ++ rest) = MOk (addr, rest).
Proof. exact (handshake_rt addr rest). Qed.

(** * history independence.  In the functional model an encode is a function of the value only, so the
    statement is immediate; the real encoders draw their Writers from a sync.Pool, and that a failed
    encode leaves nothing behind in a pooled Writer (sticky error, partial bytes) is DECIDED ON THE
    IMPLEMENTATION: the harness runs histories of failing encodes of every kind interleaved with valid
    ones on the pooled paths and requires the isolated result (monitor encode-after-failed-encode) *)
Theorem C12_encode_history_independent U hc cenc (pre : list (msg U)) (v : msg U) d :
  List.last (map (write_message U hc cenc) (pre ++ [v])) d = write_message U hc cenc v.
Proof. exact (last_of_history (write_message U hc cenc) pre v d). Qed.
Theorem C12_envelope_history_independent U hc cenc (pre : list (envelope U)) (e : envelope U) d :
  List.last (map (enc_envelope U hc cenc) (pre ++ [e])) d = enc_envelope U hc cenc e.
Proof. exact (last_of_history (enc_envelope U hc cenc) pre e d). Qed.

(** * the excluded values, one theorem each *)
(** the zero time.Time (and every instant outside 1677-09-21 .. 2262-04-11) wraps in UnixNano *)
Theorem C12_Pong_zero_time_refuted :
  ~ in_i64 zero_time /\
  drun dec_Pong (enc_Pong zero_time zero_time) = MOk ((zero_time_wrapped, zero_time_wrapped), []).
Proof. exact Pong_zero_time. Qed.
Theorem C12_PingMessage_zero_time_refuted : drun dec_Ping (enc_Ping zero_time) = MOk (zero_time_wrapped, []).
Proof. exact Ping_zero_time. Qed.
Theorem C12_PongMessage_zero_time_refuted :
  mbind (enc_PongMessage (Some zero_time) 0) (fun b => drun dec_PongMessage b) = MOk ((Some zero_time_wrapped, 0%Z), []).
Proof. exact PongMessage_zero_time. Qed.
(** a nil Ping cannot be encoded (the writer's nil dereference is recovered into an error) *)
Theorem C12_PongMessage_nil_ping_refuted r : enc_PongMessage None r = MErr MERecovered.
Proof. exact eq_refl. Qed.
(** PipeResult.Error: code 0, unregistered codes, empty texts and foreign error types do not come back *)
Theorem C12_PipeResult_error_code0_refuted qerr t : perr_of_wire qerr 0 t = PENil.
Proof. exact eq_refl. Qed.
Theorem C12_PipeResult_error_unregistered_refuted qerr c t :
  c <> 0%Z -> qerr c = None ->
  perr_of_wire qerr c t = PEVivid (-1) (txt_exception ++ txt_error_code ++ dec_Z c ++ txt_not_found ++ t).
Proof. exact (perr_unregistered qerr c t). Qed.
Theorem C12_PipeResult_error_empty_text_refuted qerr c reg :
  c <> 0%Z -> qerr c = Some reg -> perr_of_wire qerr c [] = PEVivid c reg.
Proof. exact (perr_empty_text qerr c reg). Qed.
Theorem C12_PipeResult_foreign_error_refuted :
  w_dec_enc K_PipeResult (M_PipeResult [112] (M_Empty E_OnLaunch) (PEOther [98; 111; 111; 109]))
  = MOk (M_PipeResult [112] (M_Empty E_OnLaunch)
           (PEVivid (-1) (txt_exception ++ txt_error_code ++ dec_Z (-1) ++ txt_not_found ++ txt_exception ++ [98; 111; 111; 109])), []).
Proof. exact pipe_foreign_error_retyped. Qed.
Theorem C12_PipeResult_typed_nil_error_refuted : perr_wire PETypedNil = MErr MERecovered.
Proof. exact eq_refl. Qed.
(** SchedulerMessage: a nil Message (no Codec configured) is an encode error *)
Theorem C12_SchedulerMessage_nil_message_refuted u ref :
  enc_body wU false w_cenc (M_Scheduler ref (M_Outside u)) = MErr MENoCodec.
Proof. exact (scheduler_nil_message_error u ref). Qed.
(** int fields are narrowed to int32 *)
Theorem C12_NodeState_generation_refuted :
  ty_ns (ns_with_gen 2147483648) /\
  drun dec_ns_body (enc_ns_body (ns_with_gen 2147483648)) = MOk (ns_with_gen (-2147483648), []).
Proof. exact ns_generation_narrowed. Qed.
Theorem C12_NodeState_status_refuted :
  ty_ns (ns_with_status 4294967296) /\
  drun dec_ns_body (enc_ns_body (ns_with_status 4294967296)) = MOk (ns_with_status 0, []).
Proof. exact ns_status_narrowed. Qed.
Theorem C12_ClusterView_count_refuted :
  dec_enc_view (view_with (Some ∅) 2147483648 ∅) = MOk (Some (view_with (Some ∅) (-2147483648) ∅), []).
Proof. exact view_count_narrowed. Qed.
Theorem C12_LeaveBroadcastRound_round_refuted :
  drun dec_LeaveBroadcastRound (enc_LeaveBroadcastRound 2147483648) = MOk ((-2147483648)%Z, []).
Proof. exact round_narrowed. Qed.
(** maps: empty non-nil becomes nil; more than 65536 entries are written but refused by the reader *)
Theorem C12_mapss_empty_refuted : drun dec_mapss (enc_mapss (Some ∅)) = MOk (None, []).
Proof. exact mapss_empty_becomes_nil. Qed.
Theorem C12_mapss_too_large_refuted (m : smap) rest :
  65536 < N.of_nat (size m) < 2 ^ 32 -> drun dec_mapss (enc_mapss (Some m) ++ rest) = MErr (ME ETooLarge).
Proof. exact (mapss_too_large m rest). Qed.
(** ClusterView.Members: a nil map comes back empty; an entry whose *NodeState is nil is dropped *)
Theorem C12_ClusterView_nil_members_refuted :
  dec_enc_view (view_with None 0 ∅) = MOk (Some (view_with (Some ∅) 0 ∅), []).
Proof. exact view_nil_members_become_empty. Qed.
Theorem C12_ClusterView_nil_member_refuted :
  dec_enc_view (view_with (Some {[ [97] := None ]}) 0 ∅) = MOk (Some (view_with (Some ∅) 0 ∅), []).
Proof. exact view_nil_member_dropped. Qed.
(** a version vector outside its caps: a counter above 2^63-1 is written but refused by the reader; an
    empty node address is refused by the writer *)
Theorem C12_ClusterView_vv_counter_refuted :
  dec_enc_view (view_with (Some ∅) 0 {[ [97] := 9223372036854775808 ]}) = MErr (ME EOverflow).
Proof. exact view_vv_counter_rejected. Qed.
Theorem C12_ClusterView_vv_address_refuted :
  enc_view (Some (view_with (Some ∅) 0 {[ [] := 1 ]})) = MErr (ME EInvalid).
Proof. exact view_vv_address_rejected. Qed.
(** the forwarded message's [sender] is not rebuilt *)
Theorem C12_SingletonForwarded_sender_refuted :
  w_dec_enc K_SingletonFwd (M_SingletonFwd (RRef [97] [47; 112]) [120] [121] (M_Empty E_OnLaunch))
  = MOk (M_SingletonFwd RAbsent [97] [47; 112] (M_Empty E_OnLaunch), []).
Proof. exact singleton_sender_lost. Qed.
(** typed nil message pointers: field-less types come back as non-nil values, the others fail to encode *)
Theorem C12_typed_nil_message_refuted :
  w_dec_enc K_OnLaunch (M_TypedNil K_OnLaunch) = MOk (M_Empty E_OnLaunch, []) /\
  w_enc (M_TypedNil K_Ping) = MErr MERecovered.
Proof. exact (conj typed_nil_becomes_value typed_nil_encode_error). Qed.
(** ActorRef fields: a typed nil pointer and a ref made of two empty strings come back as nil; a ref that
    the factory normalises comes back normalised *)
Theorem C12_OnKill_typed_nil_ref_refuted :
  w_dec_enc K_OnKill (M_OnKill RTypedNil [120] true) = MOk (M_OnKill RAbsent [120] true, []).
Proof. exact onkill_typed_nil_becomes_nil. Qed.
Theorem C12_OnKilled_empty_ref_refuted :
  w_dec_enc K_OnKilled (M_OnKilled (RRef [] [])) = MOk (M_OnKilled RAbsent, []).
Proof. exact onkill_empty_ref_becomes_nil. Qed.
(** a handshake address longer than 4096 bytes is refused by Wait *)
Theorem C12_handshake_long_refuted addr rest :
  4096 < N.of_nat (length addr) < 2 ^ 32 ->
  drun dec_handshake (enc_handshake addr ++ rest) = MErr (ME ETooLarge).
Proof. exact (handshake_too_long addr rest). Qed.

(** * non-vacuity: concrete non-trivial values meeting the hypotheses *)
Example C12_ex_times : in_i64 1700000000123456789 /\ in_i64 (-9223372036854775808) /\ in_i64 9223372036854775807.
Proof. unfold in_i64. lia. Qed.
Example C12_ex_mapss : valid_mapss (Some {[ [98] := [50]; [97] := [] ]}).
Proof.
  split; [intros H; apply (f_equal (fun m => m !! [98])) in H; vm_compute in H; discriminate|].
  split; [vm_compute; discriminate|]. intros k v H.
  apply lookup_insert_Some in H as [[<- <-]|[_ H]]; [split; vm_compute; reflexivity|].
  apply lookup_singleton_Some in H as [<- <-]. split; vm_compute; reflexivity.
Qed.
Example C12_ex_NodeState : ty_ns ex_ns /\ valid_ns ex_ns.
Proof.
  split; [unfold ty_ns, in_i64; cbn; lia|].
  unfold valid_ns. cbn [ex_ns ns_id ns_cluster ns_addr ns_gen ns_status ns_meta ns_labels].
  split; [vm_compute; reflexivity|]. split; [vm_compute; reflexivity|]. split; [vm_compute; reflexivity|].
  split; [unfold in_i32; lia|]. split; [unfold in_i32; lia|]. split; [exact C12_ex_mapss|exact I].
Qed.
Example C12_ex_ClusterView : ty_view ex_view /\ valid_view ex_view.
Proof.
  split.
  - unfold ty_view, in_i64; cbn [ex_view v_epoch v_ts v_healthy v_unhealthy v_quorum v_proto v_maxvv v_members].
    repeat (split; [lia|]). intros k n H. apply lookup_singleton_Some in H as [_ [= <-]]. apply C12_ex_NodeState.
  - unfold valid_view; cbn [ex_view v_id v_healthy v_unhealthy v_quorum v_maxvv v_vv v_members].
    split; [vm_compute; reflexivity|]. do 4 (split; [unfold in_i32; lia|]).
    split; [split; [vm_compute; discriminate|]|].
    + intros k c H. apply lookup_insert_Some in H as [[<- <-]|[_ H]]; [split; [reflexivity|vm_compute; discriminate]|].
      apply lookup_singleton_Some in H as [<- <-]. split; [reflexivity|vm_compute; discriminate].
    + split; [vm_compute; reflexivity|]. intros k st H. apply lookup_singleton_Some in H as [<- <-].
      split; [vm_compute; reflexivity|]. apply C12_ex_NodeState.
Qed.
Example C12_ex_nested :
  ty_msg wU ex_nested /\ valid_msg wU false w_cenc w_cdec w_qerr w_newref ex_nested /\
  kind_of wU ex_nested = Some K_PipeResult.
Proof.
  assert (Hf : forall m : wmsg, (exists b, w_enc m = MOk b /\ len32 b) -> fits wU false w_cenc m).
  { intros m (b & Hb & Hl) b' Hb'. unfold w_enc in Hb. rewrite Hb in Hb'. injection Hb' as <-. exact Hl. }
  split; [|split; [|reflexivity]].
  - cbn [ex_nested ty_msg ty_perr ty_ns_opt]. split; [apply C12_ex_NodeState|exact I].
  - cbn [ex_nested valid_msg valid_perr valid_ns_opt]. pose proof C12_ex_NodeState as [_ Hn].
    split; [vm_compute; reflexivity|]. split; [|split; [|exact I]].
    + split; [vm_compute; reflexivity|]. split; [split; [exact Hn|vm_compute; reflexivity]|].
      apply Hf. eexists. split; [vm_compute; reflexivity|vm_compute; reflexivity].
    + apply Hf. eexists. split; [vm_compute; reflexivity|vm_compute; reflexivity].
Qed.
Example C12_ex_kref : valid_kref w_newref (RRef [104; 58; 49] [47; 97]).
Proof. cbn. repeat split; try (vm_compute; reflexivity). left; discriminate. Qed.
Example C12_ex_perr : valid_perr (fun c => if (c =? 100000)%Z then Some [110; 111] else None) (PEVivid 100000 [122]).
Proof. cbn. split; [discriminate|]. split; [vm_compute; reflexivity|]. exists [110; 111]. split; [reflexivity|left; discriminate]. Qed.

Print Assumptions C12_registry_complete.
Print Assumptions C12_registry_exact.
Print Assumptions C12_names_dispatch.
Print Assumptions C12_rt_empty.
Print Assumptions C12_rt_OnKill.
Print Assumptions C12_rt_OnKilled.
Print Assumptions C12_rt_OnKill_factory_ref.
Print Assumptions C12_rt_OnKilled_factory_ref.
Print Assumptions C12_rt_Pong.
Print Assumptions C12_rt_Error.
Print Assumptions C12_rt_NoneArgsCommandMessage.
Print Assumptions C12_rt_PingMessage.
Print Assumptions C12_rt_PongMessage.
Print Assumptions C12_rt_mapss.
Print Assumptions C12_rt_NodeState.
Print Assumptions C12_rt_VersionVector.
Print Assumptions C12_rt_ClusterView.
Print Assumptions C12_rt_clusterJoinRequest.
Print Assumptions C12_rt_clusterJoinResponse.
Print Assumptions C12_rt_clusterGossip.
Print Assumptions C12_rt_clusterGetViewResponse.
Print Assumptions C12_rt_clusterLeaveBroadcastRound.
Print Assumptions C12_rt_clusterJoinRetryTick.
Print Assumptions C12_rt_clusterForceMemberDown.
Print Assumptions C12_rt_clusterTriggerViewBroadcast.
Print Assumptions C12_rt_universe.
Print Assumptions C12_rt_deserialize.
Print Assumptions C12_rt_write_message.
Print Assumptions C12_rt_PipeResult.
Print Assumptions C12_rt_PipeResult_nil_message.
Print Assumptions C12_rt_SchedulerMessage.
Print Assumptions C12_rt_clusterSingletonForwardedMessage.
Print Assumptions C12_rt_outside.
Print Assumptions C12_envelope.
Print Assumptions C12_envelope_refs.
Print Assumptions C12_envelope_absent.
Print Assumptions C12_handshake.
Print Assumptions C12_encode_history_independent.
Print Assumptions C12_envelope_history_independent.
Print Assumptions C12_Pong_zero_time_refuted.
Print Assumptions C12_PingMessage_zero_time_refuted.
Print Assumptions C12_PongMessage_zero_time_refuted.
Print Assumptions C12_PongMessage_nil_ping_refuted.
Print Assumptions C12_PipeResult_error_code0_refuted.
Print Assumptions C12_PipeResult_error_unregistered_refuted.
Print Assumptions C12_PipeResult_error_empty_text_refuted.
Print Assumptions C12_PipeResult_foreign_error_refuted.
Print Assumptions C12_PipeResult_typed_nil_error_refuted.
Print Assumptions C12_SchedulerMessage_nil_message_refuted.
Print Assumptions C12_NodeState_generation_refuted.
Print Assumptions C12_NodeState_status_refuted.
Print Assumptions C12_ClusterView_count_refuted.
Print Assumptions C12_LeaveBroadcastRound_round_refuted.
Print Assumptions C12_mapss_empty_refuted.
Print Assumptions C12_mapss_too_large_refuted.
Print Assumptions C12_ClusterView_nil_members_refuted.
Print Assumptions C12_ClusterView_nil_member_refuted.
Print Assumptions C12_ClusterView_vv_counter_refuted.
Print Assumptions C12_ClusterView_vv_address_refuted.
Print Assumptions C12_SingletonForwarded_sender_refuted.
Print Assumptions C12_typed_nil_message_refuted.
Print Assumptions C12_OnKill_typed_nil_ref_refuted.
Print Assumptions C12_OnKilled_empty_ref_refuted.
Print Assumptions C12_handshake_long_refuted.
