(** C01 - the mailbox runs one handler at a time, handles every accepted message exactly once, never
    loses a wake-up, and does no work when there is nothing it may process.

    Model: Mailbox/MbModel.v - a micro-step machine of internal/mailbox/unbounded_mailbox.go (one step =
    one atomic operation / queue operation / handler start of one goroutine), any number of client
    threads (Enqueue of a user or system message, Pause, Resume), processor goroutines created by a
    successful CAS(status, idle, processing).  [reachable s] = s is the state after SOME schedule of SOME
    population of client threads, so every theorem below holds for all populations and all interleavings.
    The model is tied to the real code by lock-step replay (bin/check C01).
    Derived notions: Mailbox/MbSpec.v, Mailbox/MbSpec2.v.  Statements only; proofs in Mailbox/MbInv.v and
    Mailbox/MbLive.v, Mailbox/MbTerm.v. *)
From Coq Require Import List NArith ZArith Bool Permutation.
From Vivid Require Import Mailbox.MbModel Mailbox.MbSpec Mailbox.MbSpec2 Mailbox.MbInv Mailbox.MbLive Mailbox.MbTerm.
Import ListNotations.
Local Open Scope Z_scope.

(** ============================ (1) one consumer, one handler at a time ============================ *)

(** the number of threads inside the processing region (from the goroutine's creation / the successful
    CAS up to and including Store(status, idle)) is exactly 1 when status = processing and 0 when idle *)
Theorem C01_single_consumer s :
  reachable s -> count_owner s = (if status s then 1 else 0)%nat.
Proof. exact (single_consumer s). Qed.

(** two different threads are never both inside the processing region *)
Theorem C01_one_owner s i j p q :
  reachable s -> i <> j ->
  nth_error (thr s) i = Some p -> nth_error (thr s) j = Some q ->
  owner_pc p = true -> owner_pc q = true -> False.
Proof. exact (owners_exclusive s i j p q). Qed.

(** in particular two different threads are never both about to run / running the handler *)
Theorem C01_one_handler s i j p q :
  reachable s -> i <> j ->
  nth_error (thr s) i = Some p -> nth_error (thr s) j = Some q ->
  handling_pc p = true -> handling_pc q = true -> False.
Proof. exact (handlers_exclusive s i j p q). Qed.

(** a handler invocation lasts from the thread's Handle step to the same thread's next step; after the
    Handle step the thread is at HSysPop, still inside the processing region, so by [C01_one_owner] no other
    thread can be at a Handle pc (or pop, or decrement) until this thread moves: invocations never overlap *)
Theorem C01_handler_stays_owner i s s' p :
  nth_error (thr s) i = Some p -> handling_pc p = true -> step i s = Some s' ->
  nth_error (thr s') i = Some HSysPop.
Proof. exact (after_handle_owner i s s' p). Qed.

(** ============================ (2) every message exactly once ============================ *)

(** accounting: at every moment of every execution each message given to Enqueue is in exactly one place:
    not yet pushed, in a queue, in the consumer's hands, or handled (the multiset equation counts
    duplicates of equal ids too) *)
Theorem C01_exactly_once ths sched :
  forallb env_pc ths = true ->
  let s := run sched (init ths) in
  Permutation (msgs_of ths) (unsent s ++ queued s ++ held s ++ log s).
Proof. exact (exactly_once ths sched). Qed.

(** hence, with distinct message ids, no message is handled twice ... *)
Theorem C01_at_most_once ths sched :
  forallb env_pc ths = true -> NoDup (msgs_of ths) -> NoDup (log (run sched (init ths))).
Proof. exact (handled_at_most_once ths sched). Qed.

(** ... and nothing is handled that was not sent *)
Theorem C01_handled_was_sent ths sched e :
  forallb env_pc ths = true -> In e (log (run sched (init ths))) -> In e (msgs_of ths).
Proof. exact (handled_was_sent ths sched e). Qed.

(** ============================ (3) the counters ============================ *)

(** num = |user queue| - #(senders between Push and Add) + #(consumer between Pop and Add(-1)); same for systemNum *)
Theorem C01_counters s :
  reachable s ->
  num s = Z.of_nat (length (uq s)) - count (at_sadd false) s + count (at_dec false) s /\
  sysnum s = Z.of_nat (length (sq s)) - count (at_sadd true) s + count (at_dec true) s.
Proof. exact (counters s). Qed.

(** ============================ (4) no lost wake-up ============================ *)

(** whenever the mailbox is idle and holds a system message there is a thread that has not yet made its
    wake-up decision ([sys_cover], Mailbox/MbSpec2.v); whenever it is idle, not paused, and holds a user
    message there is a [user_cover] thread *)
Theorem C01_no_lost_wakeup s :
  reachable s -> status s = false ->
  (sq s <> [] -> exists i p, nth_error (thr s) i = Some p /\ sys_cover p = true) /\
  (uq s <> [] -> paused s = false -> exists i p, nth_error (thr s) i = Some p /\ user_cover p = true).
Proof. exact (no_lost_wakeup s). Qed.

(** consequence: when every goroutine has finished (no step possible) nothing processable is left -
    every accepted system message was handled and every accepted user message was handled unless the
    mailbox is paused - with NO later send required; the mailbox is idle, the consumer holds nothing *)
Theorem C01_terminal s :
  reachable s -> terminal s ->
  sq s = [] /\ (uq s = [] \/ paused s = true) /\ status s = false /\ held s = [] /\ unsent s = [].
Proof. exact (terminal_thm s). Qed.

Theorem C01_resume_drains s :
  reachable s -> terminal s -> paused s = false -> uq s = [].
Proof. exact (resume_drains s). Qed.

(** in a terminal state the handled log is, as a multiset, everything that was given to Enqueue minus the
    user messages still queued in a paused mailbox *)
Theorem C01_terminal_all_handled ths sched :
  forallb env_pc ths = true ->
  let s := run sched (init ths) in
  terminal s ->
  Permutation (msgs_of ths) (map (pair false) (uq s) ++ log s) /\ (paused s = false -> uq s = []).
Proof. exact (terminal_all_handled ths sched). Qed.

(** ============================ (5) no spinning ============================ *)

(** from a state with no client call in progress and nothing the mailbox may process (system queue empty;
    user queue empty or mailbox paused) at most 11 further steps per live processor goroutine are
    possible, whatever the schedule: the processors stop *)
Theorem C01_no_spin s :
  reachable s -> env_done s -> sq s = [] -> (uq s = [] \/ paused s = true) ->
  forall sched, (effective_steps sched s <= 11 * processors s)%nat.
Proof. exact (no_spin s). Qed.

(** general termination: whatever the client threads and the schedule, an execution has at most
    64 * (#client operations + 1)^2 effective steps - no livelock, in particular no goroutine loops for ever
    (the bound is quadratic because k processors may each run one empty round per message) *)
Theorem C01_termination ths sched :
  forallb env_pc ths = true ->
  (effective_steps sched (init ths) <= 64 * (length ths + 1) * (length ths + 1))%nat.
Proof. exact (termination ths sched). Qed.

(** every execution can be continued to a state in which every goroutine has finished ... *)
Theorem C01_can_finish s :
  reachable s -> exists sched, terminal (run sched s).
Proof. exact (can_finish s). Qed.

(** ... and the states on the way stay reachable, so [C01_terminal] applies to that final state: with
    [C01_termination] (no infinite execution) every execution under a scheduler that keeps running enabled
    goroutines ends in a state where everything processable has been handled *)
Theorem C01_reachable_continue s sched :
  reachable s -> reachable (run sched s).
Proof. exact (reachable_continue s sched). Qed.

(** ============================ non-vacuity ============================ *)

(** a reachable state with status = processing and two queued user messages *)
Example C01_ex_processing_two_queued :
  exists s, reachable s /\ status s = true /\ uq s = [1%N; 2%N] /\ count_owner s = 1%nat.
Proof.
  exists (run [0;0;0;0;1;1]%nat (init [SPush false 1%N; SPush false 2%N])). split.
  - apply reachable_run. reflexivity.
  - vm_compute. repeat split.
Qed.

(** a reachable terminal state of a paused mailbox that still holds a user message (Pause(); Enqueue(user 7)):
    the processor has terminated, the message is left queued, nothing else *)
Definition ex_paused_sched : list nat := [0;0;1;1;1;1;2;2;2;2;2;2;2]%nat.
Definition ex_paused : st := run ex_paused_sched (init [PStore; SPush false 7%N]).
Example C01_ex_terminal_paused :
  reachable ex_paused /\ terminal ex_paused /\ paused ex_paused = true /\ uq ex_paused = [7%N] /\ log ex_paused = [].
Proof.
  split; [unfold ex_paused; apply reachable_run; reflexivity|].
  split; [|vm_compute; repeat split].
  intros i. destruct i as [|[|[|[|i]]]]; vm_compute; reflexivity.
Qed.

(** the same run with the Resume added ends with the message handled *)
Example C01_ex_resume_drains :
  let s := run [0;0; 1;1;1;1; 3;3;3;3;3;3;3; 2;2;2; 4;4;4;4;4;4;4;4;4;4;4;4]%nat (init [PStore; SPush false 7%N; RCas1]) in
  terminal s /\ uq s = [] /\ log s = [(false, 7%N)].
Proof.
  cbv zeta. split; [|vm_compute; split; reflexivity].
  intros i. destruct i as [|[|[|[|[|[|i]]]]]]; vm_compute; reflexivity.
Qed.

(** an idle mailbox with a queued user message and the cover thread (the sender before its CAS) *)
Example C01_ex_wakeup_needed :
  let s := run [0;0;0]%nat (init [SPush false 1%N]) in
  reachable s /\ status s = false /\ uq s <> [] /\ paused s = false /\ nth_error (thr s) 0 = Some SCas.
Proof.
  cbv zeta. split; [apply reachable_run; reflexivity|].
  vm_compute. repeat split. discriminate.
Qed.

(** the quiet regime of [C01_no_spin] with live processors: one processor (thread 2) is at PLoadNum with a
    stale view (the other, thread 3, is between Pop and Add(-1)); under this schedule they take 18 more steps, 10 of them by thread 2 (bound 22) *)
Definition ex_quiet : st :=
  run [0;0;0;0; 2;2;2;2;2;2;2;2;2;2; 1;1;1;1; 3;3;3;3]%nat (init [SPush false 1%N; SPush false 2%N]).
Example C01_ex_quiet :
  reachable ex_quiet /\ env_done ex_quiet /\ sq ex_quiet = [] /\ uq ex_quiet = [] /\ processors ex_quiet = 2%nat /\
  effective_steps [2;2;2;3;3;3;3;3;3;3;3;3;2;2;2;2;2;2;2;2;2]%nat ex_quiet = 18%nat.
Proof.
  split; [unfold ex_quiet; apply reachable_run; reflexivity|].
  split; [|vm_compute; repeat split].
  intros p Hp. vm_compute in Hp. repeat (destruct Hp as [<-|Hp]; [reflexivity|]). destruct Hp.
Qed.

Print Assumptions C01_single_consumer.
Print Assumptions C01_one_owner.
Print Assumptions C01_one_handler.
Print Assumptions C01_handler_stays_owner.
Print Assumptions C01_exactly_once.
Print Assumptions C01_at_most_once.
Print Assumptions C01_handled_was_sent.
Print Assumptions C01_counters.
Print Assumptions C01_no_lost_wakeup.
Print Assumptions C01_terminal.
Print Assumptions C01_resume_drains.
Print Assumptions C01_terminal_all_handled.
Print Assumptions C01_no_spin.
Print Assumptions C01_termination.
Print Assumptions C01_can_finish.
Print Assumptions C01_reachable_continue.
