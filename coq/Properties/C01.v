(** C01 — placeholder while the proofs are being written: the theorem file is filled in by Mailbox/MbInv.v etc. *)
From Vivid Require Import Mailbox.MbModel.
