(** C02 (mailbox part) - messages of one kind are handled in the order they were pushed (hence per-sender
    FIFO); system messages have priority over user messages, exactly as far as the code gives it.

    Model: Mailbox/MbModel.v (the micro-step machine of internal/mailbox/unbounded_mailbox.go validated by
    the lock-step replay of C01); traces: [run_trace] (Mailbox/MbSpec.v) = the effective steps (thread, pc)
    of a schedule, [run_trace2] (Mailbox/MbSpec2.v) = the same with the state before each step.
    All theorems hold for every population of client threads and every schedule.
    Statements only; proofs in Mailbox/MbOrder.v. *)
From Coq Require Import List NArith ZArith Bool.
From Vivid Require Import Mailbox.MbModel Mailbox.MbSpec Mailbox.MbSpec2 Mailbox.MbInv Mailbox.MbOrder.
From Vivid Require Import Mailbox.MbFine Mailbox.MbFineThm.
Import ListNotations.

(** ============================ (6) FIFO ============================ *)

(** at every moment: (handled user messages, in handling order) ++ (the one in the consumer's hands) ++
    (user queue) is exactly the sequence of user pushes so far, in push order - whatever the queue length.
    So user messages are handled in push order.  Per-sender FIFO follows: the Enqueue calls of one sender are
    sequential, so its first push precedes its second push in every trace. *)
Theorem C02_fifo_user ths sched :
  forallb env_pc ths = true ->
  let s := run sched (init ths) in
  log_of false s ++ held_kind false s ++ uq s = push_order false (run_trace sched (init ths)).
Proof. exact (fifo false ths sched). Qed.

(** the same for system messages *)
Theorem C02_fifo_system ths sched :
  forallb env_pc ths = true ->
  let s := run sched (init ths) in
  log_of true s ++ held_kind true s ++ sq s = push_order true (run_trace sched (init ths)).
Proof. exact (fifo true ths sched). Qed.

(** the handled messages of a kind are always a prefix of the push order of that kind *)
Theorem C02_fifo_prefix b ths sched :
  forallb env_pc ths = true ->
  exists rest, push_order b (run_trace sched (init ths)) = log_of b (run sched (init ths)) ++ rest.
Proof. exact (fifo_prefix b ths sched). Qed.

(** ============================ (7) system before user ============================ *)

(** [run_trace2] is [run_trace] with the pre-state attached *)
Theorem C02_trace_projection sched s :
  map fst (run_trace2 sched s) = run_trace sched s.
Proof. exact (run_trace2_fst sched s). Qed.

(** A user message is popped only when the system queue was observed empty in the same iteration.
    Whenever thread i performs the user Pop (pc HUserPop), the two steps thread i performed immediately
    before it ([steps_of i pre] = the steps of thread i in the trace so far, oldest first) were
      - HSysPop in a state [s1] whose system queue was empty (the Pop that returned "nothing" and ended the
        inner loop - had the queue been non-empty the thread's next pc would be HSysDec), then
      - HLoadPaused in a state [s2] with paused = 0.
    Thread i is inside the processing region during all of this, so by C01_one_owner nobody else pops or
    handles anything in between; other threads may push. *)
Theorem C02_system_first ths sched pre i s post :
  forallb env_pc ths = true ->
  run_trace2 sched (init ths) = pre ++ (i, HUserPop, s) :: post ->
  exists pre0 s1 s2,
    steps_of i pre = pre0 ++ [(HSysPop, s1); (HLoadPaused, s2)] /\ sq s1 = [] /\ paused s2 = false.
Proof. exact (system_first ths sched pre i s post). Qed.

(** in any stretch B of an execution during which the system queue is never empty, at most one user
    message is taken out of the user queue ([user_pops] counts the HUserPop steps that found a message) *)
Theorem C02_system_pending_one_user_pop ths sched A B C :
  forallb env_pc ths = true ->
  run_trace2 sched (init ths) = A ++ B ++ C ->
  (forall e, In e B -> sq (snd e) <> []) ->
  (user_pops B <= 1)%nat.
Proof. exact (window_one_pop ths sched A B C). Qed.

(** a system message (e.g. the OnKill of an immediate Kill) overtakes all queued user messages but at most
    ONE: after its push (step SPush true m), as long as it has not been popped (it is in the system queue
    before every step of B), at most one user message is popped - the one whose "system queue empty"
    observation had already been made when the push happened *)
Theorem C02_kill_overtakes_at_most_one ths sched A j m s0 B C :
  forallb env_pc ths = true ->
  run_trace2 sched (init ths) = A ++ (j, SPush true m, s0) :: B ++ C ->
  (forall e, In e B -> In m (sq (snd e))) ->
  (user_pops B <= 1)%nat.
Proof. exact (kill_overtakes ths sched A j m s0 B C). Qed.

(** the hypothesis above holds from the push on: right after the push the message is in the system queue *)
Theorem C02_pushed_is_queued ths sched A j m s0 e1 C :
  run_trace2 sched (init ths) = A ++ (j, SPush true m, s0) :: e1 :: C -> In m (sq (snd e1)).
Proof. exact (pushed_is_queued ths sched A j m s0 e1 C). Qed.

(** ============================ (8) with the ring queue inside the model ============================ *)

(** Mailbox/MbFine.v: the same mailbox with internal/queues/ring.go modelled step by step (Lock, atomic add / load of
    len, index arithmetic, growth with the rotated copy) instead of atomic queue operations; by C01_fine_refines_coarse
    (Properties/C01_fine.v) everything above holds of it.  Stated on the fine machine itself: for every initial size
    >= 1, every population of senders and every schedule - preemptions inside Push and Pop, any number of growths -
    the messages of a kind are handled in the order of the atomic adds of their Pushes (the order in which the
    critical sections of Push ran).  One sender's Enqueue calls are sequential, hence per-sender FIFO. *)
Theorem C02_fine_fifo_prefix b size ths sched :
  (1 <= size)%nat -> forallb fenv_pc ths = true ->
  exists rest, fpush_order b (frun_trace sched (finit size ths)) = flog_of b (frun sched (finit size ths)) ++ rest.
Proof. exact (ffifo_prefix b size ths sched). Qed.

(** Why this needed a proof and not the sentence "every access is under the mutex" (the former assumption M4):
    WITHOUT the single-consumer discipline that the mailbox's status word provides (C01_fine_one_owner) the RingQueue
    is not linearizable.  New(2); Push(7); then two overlapping Pops: both emptiness checks (outside the mutex) see
    len = 1; the first critical section takes 7; the second advances head past tail, hands out the nil slot with
    ok = true - which [msg.(vivid.Envelop)] would turn into a crash - and leaves len = -1. *)
Theorem C02_ring_two_consumers_refuted :
  exists q1 q2 qa qb va vb,
    q_push_pre (q_new 2) = Some q1 /\ q2 = q_push_fin 7%N q1 /\
    qlen q2 = 1%Z /\
    q_pop_pre q2 = Some (va, qa) /\ va = Some 7%N /\
    q_pop_pre (q_pop_fin qa) = Some (vb, qb) /\ vb = None /\
    qlen (q_pop_fin qb) = (-1)%Z.
Proof. exact two_consumers_refuted. Qed.

(** ============================ non-vacuity / tightness ============================ *)

(** two user messages and one system message from three senders: handled system first, users in push order *)
Example C02_ex_order :
  let ths := [SPush false 1%N; SPush false 2%N; SPush true 9%N] in
  let sched := [1;1; 0;0; 2;2; 0;0; 3;3;3;3;3;3;3;3;3;3;3;3;3;3;3;3;3;3]%nat in
  push_order false (run_trace sched (init ths)) = [2%N; 1%N] /\
  log (run sched (init ths)) = [(true, 9%N); (false, 2%N); (false, 1%N)].
Proof. vm_compute. split; reflexivity. Qed.

(** "at most one" is exact, not zero: the consumer has observed the system queue empty and loaded paused = 0
    (it is at HUserPop); the system message 9 is pushed; the consumer still pops user message 1 first *)
Example C02_ex_one_overtake :
  let ths := [SPush false 1%N; SPush true 9%N] in
  let sched := [0;0;0;0; 2;2;2; 1;1; 2;2;2]%nat in
  exists A j s0 B,
    run_trace2 sched (init ths) = A ++ (j, SPush true 9%N, s0) :: B ++ [] /\
    (forall e, In e B -> In 9%N (sq (snd e))) /\ user_pops B = 1%nat /\
    log (run sched (init ths)) = [(false, 1%N)].
Proof.
  cbv zeta.
  set (tr := run_trace2 [0;0;0;0; 2;2;2; 1;1; 2;2;2]%nat (init [SPush false 1%N; SPush true 9%N])).
  exists (firstn 8 tr), 1%nat, (snd (nth 8 tr (0%nat, Done, init []))), (skipn 9 tr).
  vm_compute. repeat split.
  intros e [<-|[<-|[<-|[]]]]; cbn; auto.
Qed.

(** three senders, initial size 1 (the user ring grows 1 -> 2 -> 4 while the consumer is inside its first Pop):
    handled in the order of the adds, which is not the order of the Lock attempts *)
Example C02_fine_ex_growth_order :
  let ths := [FPushLock false 1%N; FPushLock false 2%N; FPushLock false 3%N] in
  let sched := [0;0;0;0;0; 3;3;3;3; 2;2;2; 3;3; 1;1;1; 3;3;3;3;3;3;3;3;3;3;3;3;3;3;3;3;3;3;3;3;3;3;3;3;3;3]%nat in
  fpush_order false (frun_trace sched (finit 1 ths)) = [1%N; 3%N; 2%N] /\
  flog (frun sched (finit 1 ths)) = [(false, 1%N); (false, 3%N); (false, 2%N)] /\
  qmod (fuq (frun sched (finit 1 ths))) = 4%nat.
Proof. vm_compute. repeat split. Qed.

Print Assumptions C02_fine_fifo_prefix.
Print Assumptions C02_ring_two_consumers_refuted.
Print Assumptions C02_fifo_user.
Print Assumptions C02_fifo_system.
Print Assumptions C02_fifo_prefix.
Print Assumptions C02_trace_projection.
Print Assumptions C02_system_first.
Print Assumptions C02_system_pending_one_user_pop.
Print Assumptions C02_kill_overtakes_at_most_one.
Print Assumptions C02_pushed_is_queued.
