(** C03 - no user message is silently lost: processed, stashed, or dead-lettered.

    Model: Actor/Core.v (ActorCore) - [resolve] = System.findMailbox with the reference caches, [deliver] =
    Enqueue on the resolved mailbox (deadLetterMailbox for an unknown local target), [dispatch] =
    Context.HandleEnvelop, the guard's dead-letter handling, Stash / Unstash.  User code, supervision decisions
    and hook outcomes are data, so every theorem holds for all of them; [reachable] = the state after SOME event
    list (schedule) from SOME external scripts.  Derived notions: Actor/SpecMail.v.  Statements only; proofs in
    Actor/ProofsMailBase.v, Actor/ProofsMail.v, Actor/ProofsMailInv.v, Actor/ProofsMailWf.v, Actor/ProofsMailAcct.v. *)
From Coq Require Import List NArith ZArith Bool.
From Vivid Require Import Actor.Core Actor.CoreRun Actor.SpecMail Actor.ProofsMailBase Actor.ProofsMail Actor.ProofsMailInv Actor.ProofsMailWf Actor.ProofsMailAcct Actor.ProofsMailReg Actor.ProofsMailGhost.
Import ListNotations.

(** ============================ (a) routing: findMailbox ============================ *)

(** an envelope is routed to an actor's mailbox only if the registry maps the reference's path to that actor
    now, or the reference is a context's own ref object whose cache holds that actor *)
Theorem C03_routing_actor s r y :
  fst (resolve s r) = MbActor y ->
  (exists p, ref_path s r = Some p /\ alookup (reg s) p = Some y) \/
  (exists a x, r = RObj a /\ get s a = Some x /\ a_cache x = Some y).
Proof. exact (routing_actor s r y). Qed.

(** a reference without a filled cache (parsed / cloned: [RFresh p]; or a ref object never resolved before) is
    routed by the registry alone: registered -> that actor; unregistered root path -> the root; any other
    unregistered path (never existed, or released) -> the dead-letter mailbox, NOT the root *)
Theorem C03_routing_uncached s r p :
  (r = RFresh p \/ exists a x, r = RObj a /\ get s a = Some x /\ a_cache x = None /\ a_path x = p) ->
  fst (resolve s r) = match alookup (reg s) p with
                      | Some y => MbActor y
                      | None => if path_eqb p [] then MbRoot else MbDead
                      end.
Proof. exact (routing_uncached s r p). Qed.

(** a filled cache wins over the registry (the mailbox of a released actor stays reachable through its own
    ref object: its HandleEnvelop then reports the message, see (b)) *)
Theorem C03_routing_cached s a x y :
  get s a = Some x -> a_cache x = Some y -> resolve s (RObj a) = (MbActor y, s).
Proof. exact (routing_cached s a x y). Qed.

(** "filled earlier": in every reachable state the registry maps a path only to an actor created under that
    path, and a filled cache names an actor created under the path of the ref object's owner (caches are filled
    from the registry by [resolve] only and never change afterwards) ... *)
Theorem C03_routing_tables_reachable s :
  reachable s ->
  (forall p y, alookup (reg s) p = Some y -> exists xy, get s y = Some xy /\ a_path xy = p) /\
  (forall a x y, get s a = Some x -> a_cache x = Some y -> exists xy, get s y = Some xy /\ a_path xy = a_path x).
Proof. exact (reachable_route_ok s). Qed.

(** ... hence no misrouting: however the sender obtained the reference (ActorOf's ref object, a clone, a parsed
    string), an envelope routed to an actor's mailbox goes to an actor created under the very path the reference names *)
Theorem C03_routing_same_path s r y :
  reachable s -> fst (resolve s r) = MbActor y -> exists xy, get s y = Some xy /\ ref_path s r = Some (a_path xy).
Proof. exact (routed_same_path s r y). Qed.

(** delivering to the dead-letter mailbox inserts exactly one envelope - the dead-letter report of [e], a
    user-level message from the root - at the tail of the root's user queue and changes nothing else *)
Theorem C03_deliver_dead s e x0 :
  get s 0 = Some x0 ->
  deliver s MbDead e =
  (set_actor s 0 (set_mb x0 (a_sq x0)
                         (a_uq x0 ++ [{| e_sys := false; e_sender := root_ref; e_msg := MDeadLetter (e_sys e) (e_msg e) |}])
                         (a_paused x0) (a_cons x0) (a_cur x0)), 0).
Proof. exact (deliver_dead s e x0). Qed.

(** ============================ (b) HandleEnvelop on a user message ============================ *)

(** [user_outcome x e] (Actor/SpecMail.v) is a total function of the target's record: exactly one of four
    cases applies to every handler call on a user message *)

(** (i) the actor is alive (running; or stopping and the envelope is a system one) and not a zombie: the
    behaviour is invoked on the message - the invocation [OSeen] is logged with the current instance and the
    behaviour-stack mode peeked at the start - and no dead letter / drop is recorded by this handler call.
    (Whether the message then ends in the stash is the script's AStash, see (c).) *)
Theorem C03_handle_processed s a x e tag acts p :
  get s a = Some x -> a_cons x = CH e -> e_msg e = MUser tag acts ->
  user_outcome x e = OutProcessed -> a_parent x = Some p ->
  (exists l, olog (step s (EvHandle a)) = olog s ++ OSeen a (a_inst x) (mode_top x) (MUser tag acts) :: l) /\
  ghost (step s (EvHandle a)) = ghost s.
Proof. exact (outcome_processed s a x e tag acts p). Qed.

(** (i') the running guard (root) is given the message and ignores it: guard.Actor.OnReceive has no case for it *)
Theorem C03_handle_processed_root s a x e tag acts :
  get s a = Some x -> a_cons x = CH e -> e_msg e = MUser tag acts ->
  user_outcome x e = OutProcessed -> a_parent x = None ->
  step s (EvHandle a) = set_actor s a (handled x (Some e)).
Proof. exact (outcome_processed_root s a x e tag acts). Qed.

(** (ii) the documented exception: a zombie consumes the message; nothing is observed, nothing is sent, the
    whole step only returns the consumer to its loop *)
Theorem C03_handle_zombie s a x e tag acts :
  get s a = Some x -> a_cons x = CH e -> e_msg e = MUser tag acts -> user_outcome x e = OutZombie ->
  step s (EvHandle a) = set_actor s a (handled x (Some e)).
Proof. exact (outcome_zombie s a x e tag acts). Qed.

(** (iii) the actor is stopping / stopped, not a zombie, not the root: no behaviour runs; the handler's whole
    program is: enqueue one dead-letter report of [e] at the root (actor 0), finish the enqueue, return *)
Theorem C03_handle_dead_letter s a x e tag acts :
  get s a = Some x -> a_cons x = CH e -> e_msg e = MUser tag acts -> user_outcome x e = OutDeadLetter ->
  step s (EvHandle a) =
  set_actor s a (upd_pend (busy x)
    [IEnqMb 0 {| e_sys := false; e_sender := root_ref; e_msg := MDeadLetter (e_sys e) (MUser tag acts) |}; IEnqDone; IEndHandler]).
Proof. exact (outcome_dead_letter s a x e tag acts). Qed.

(** (iv) the stopped root: after the system has stopped an undeliverable message is dropped - recorded in the
    ghost log - and nothing at all is sent (no further work) *)
Theorem C03_handle_dropped s a x e tag acts :
  get s a = Some x -> a_cons x = CH e -> e_msg e = MUser tag acts -> user_outcome x e = OutDropped ->
  step s (EvHandle a) = add_ghost (set_actor s a (handled x (a_cur x))) (ODropped (MUser tag acts)).
Proof. exact (outcome_dropped s a x e tag acts). Qed.

(** the dead branch is the same for every kind of message (in particular for the dead-letter reports
    themselves at the stopped root: they are dropped, not re-wrapped - no loop) *)
Theorem C03_handle_dead_any s a x e :
  get s a = Some x -> a_cons x = CH e -> a_zombie x = false -> is_dead x e = true ->
  step s (EvHandle a) =
  match a_parent x with
  | Some _ => set_actor s a (upd_pend (busy x) (dead_report e))
  | None => add_ghost (set_actor s a (handled x (a_cur x))) (ODropped (e_msg e))
  end.
Proof. exact (handle_dead s a x e). Qed.

(** ============================ (c) the guard publishes each report once; the stash ============================ *)

(** the running guard handling a dead-letter report appends exactly one [ODeadLetter] to the ghost log and
    publishes one DeathLetterEvent: with no subscriber the handler is finished, otherwise its whole remaining
    program is the one fan-out [IEnqAny] to the subscribers *)
Theorem C03_dead_letter_published_once s a x e sys m :
  get s a = Some x -> a_cons x = CH e -> e_msg e = MDeadLetter sys m -> a_parent x = None ->
  a_zombie x = false -> is_dead x e = false ->
  step s (EvHandle a) =
  add_ghost (set_actor s a
      match subscribers s evDeathLetter with
      | [] => handled x (Some e)
      | l => upd_pend (set_mb x (a_sq x) (a_uq x) (a_paused x) (CBusy (mode_top x)) (Some e))
                      [IEnqAny false (map (fun p => RObj (snd p)) l) root_ref (MEvent evDeathLetter (dl_payload m)); IEndHandler]
      end) (ODeadLetter sys m).
Proof. exact (handle_guard_dead_letter s a x e sys m). Qed.

(** Stash appends the current envelope *)
Theorem C03_stash_keeps s t h x e :
  get s (self_of t) = Some x -> a_cur x = Some e ->
  exec1 s t h (IAct AStash) = (set_actor s (self_of t) (set_stash x (a_stash x ++ [e])), []).
Proof. exact (exec1_stash s t h x e). Qed.

(** Unstash re-enqueues exactly the first k stashed envelopes, in order, into the own mailbox and keeps the
    rest; k = 1 without argument, max(min(n, len), 0) with argument n *)
Theorem C03_unstash s t h x n :
  get s (self_of t) = Some x -> a_stash x <> [] ->
  let k := match n with None => 1 | Some n => Z.to_nat (Z.max (Z.min n (Z.of_nat (length (a_stash x)))) 0) end in
  exec1 s t h (IAct (AUnstash n)) =
  (set_actor s (self_of t) (set_stash x (skipn k (a_stash x))),
   flat_map (fun e => [IEnqMb (self_of t) e; IEnqDone]) (firstn k (a_stash x))).
Proof. exact (exec1_unstash s t h x n). Qed.

(** no other instruction changes any actor's stash (in particular not ICleanup and not IRestartFinish: the
    stash survives a restart, and is kept - unreachable - by a terminated actor) *)
Theorem C03_stash_untouched s t h i :
  i <> IAct AStash -> (forall n, i <> IAct (AUnstash n)) ->
  forall b, proj_at a_stash [] (fst (exec1 s t h i)) b = proj_at a_stash [] s b.
Proof. exact (exec1_stash_frame s t h i). Qed.

(** neither does HandleEnvelop's own bookkeeping (for any message kind), nor any queue operation: the stash is
    changed by the user's Stash / Unstash calls only *)
Theorem C03_stash_untouched_by_handle_envelop s a x e :
  get s a = Some x -> forall b, proj_at a_stash [] (fst (dispatch s a x e)) b = proj_at a_stash [] s b.
Proof. exact (dispatch_stash_frame s a x e). Qed.

(** ============================ (e) stopped while paused ============================ *)

(** the cleanup of a terminated actor ends with mailbox.Resume ... *)
Theorem C03_cleanup_resumes s t h x :
  get s (self_of t) = Some x ->
  exists sends, snd (exec1 s t h ICleanup) = sends ++ [IPub evKilled (actor_key x); IResume1].
Proof. exact (cleanup_ends_with_resume s t h x). Qed.

(** ... and Resume's first CAS on a paused mailbox clears the flag and leaves the queues alone, so the user
    envelopes still queued are then popped and handled by case (iii) *)
Theorem C03_stopped_while_paused s t x rest :
  pend_of s t = IResume1 :: rest -> get s (self_of t) = Some x -> a_paused x = true ->
  exists x', get (step s (EvResume1 t)) (self_of t) = Some x' /\ a_paused x' = false /\ a_uq x' = a_uq x /\ a_sq x' = a_sq x.
Proof. exact (step_resume1_unpauses s t x rest). Qed.

(** ============================ (d) conservation ============================ *)

(** once the model has been driven outside its domain it stays there: [err s' = false] for the last state of
    a run says that every step of the run was a legal step *)
Theorem C03_err_sticky s ev : err s = true -> err (step s ev) = true.
Proof. exact (err_mono_step s ev). Qed.

(** one equation for every event, every actor and both of its queues: what the event pops from the head,
    followed by the queue afterwards, is the queue before followed by what the event pushes at the tail.
    [pushed_to] is non-empty only for the one target of an [EvPush] (the resolved actor, or the root with the
    dead-letter report for an unknown target), [popped_from] only for the actor of an [EvSysPop] / [EvUserPop]
    whose consumer is in the popping position: nothing else ever changes a queue *)
Theorem C03_queues_only_change_by_push_pop s ev b sys :
  err (step s ev) = false ->
  popped_from s ev b sys ++ (if sys then sq_at else uq_at) (step s ev) b =
  (if sys then sq_at else uq_at) s b ++ pushed_to s ev b sys.
Proof. exact (queue_step s ev b sys). Qed.

(** the pending instruction lists of a reachable state are well formed ([wf], Actor/SpecMail.v): an actor's list is
    non-empty only inside a handler and ends with the one IEndHandler; external callers hold API-level instructions *)
Theorem C03_wf_reachable s : reachable s -> wf s.
Proof. exact (reachable_wf s). Qed.

Theorem C03_wf_step s ev : wf s -> err (step s ev) = false -> wf (step s ev).
Proof. exact (fun W He => proj1 (step_wf_held s ev W He)). Qed.

(** the envelope in a consumer's hands: put there by a pop, taken by the handler call, untouched by everything else *)
Theorem C03_held_only_pop_and_handle s ev b :
  wf s -> err (step s ev) = false ->
  held_at (step s ev) b ++ handled_at s ev b = held_at s b ++ popped_from s ev b true ++ popped_from s ev b false.
Proof. exact (fun W He => proj2 (step_wf_held s ev W He) b). Qed.

(** accounting, for ANY class P of messages (e.g. [user_tag 7], [is_user], [dl_of (user_tag 7)]): in every
    run from an initial state, the number of queue insertions of P-envelopes = the number still queued or in a
    consumer's hands + the number of handler calls on P-envelopes.  So every inserted envelope is handled at
    most once, and exactly once unless it is still in a mailbox (at quiescence: in the user queue of a paused
    mailbox).  Each handler call on a user message falls in exactly one of the four cases of (b); an insertion
    of a user message addressed to an unknown target IS the insertion of its dead-letter report ([landing]). *)
Theorem C03_conservation P scs evs :
  err (run_events evs (init_with scs)) = false ->
  pushes P evs (init_with scs) = in_mail P (run_events evs (init_with scs)) + handles P evs (init_with scs).
Proof. exact (conservation P scs evs). Qed.

(** the same from any well-formed state *)
Theorem C03_conservation_from P evs s :
  wf s -> err (run_events evs s) = false ->
  in_mail P (run_events evs s) + handles P evs s = in_mail P s + pushes P evs s.
Proof. exact (in_mail_run P evs s). Qed.

(** the ghost log of any run - apart from the guard's own "closed" marks - is exactly the concatenation, in order, of
    what the handler calls of the run recorded ([dispatch_ghost], Actor/SpecMail.v): one [ODeadLetter sys m] for each
    call of the running guard on a dead-letter report of m, one [ODropped] for each call of the stopped guard, nothing
    for any other call.  With [C03_conservation] for the class [dl_of P]: every dead-letter report inserted is
    published at most once, and exactly once when it is no longer in the guard's mailbox and the guard was running *)
Theorem C03_ghost_log_is_the_handler_calls scs evs :
  filter not_guard_closed (ghost (run_events evs (init_with scs))) =
  filter not_guard_closed (run_ghost evs (init_with scs)).
Proof. exact (ghost_run_init scs evs). Qed.

(** ============================ examples ============================ *)
Local Open Scope N_scope.

(** a tell to a path that never existed, through a parsed reference: exactly one dead-letter event, nothing else *)
Definition ex_unknown_scs : list (list action) := [[ATell (XPath [9]) 7 []]].
Definition ex_unknown_evs : list event :=
  [EvStart 0; EvPush (TX 0) 0; EvEnqDone (TX 0); EvSysPop 0; EvLoadPaused 0; EvUserPop 0; EvHandle 0;
   EvSysPop 0; EvLoadPaused 0; EvUserPop 0].
Example C03_ex_unknown_path :
  let s := run_events ex_unknown_evs (init_with ex_unknown_scs) in
  reachable s /\ quiescent s = true /\ ghost s = [ODeadLetter false (MUser 7 [])] /\ olog s = [].
Proof.
  cbv zeta. split; [exists ex_unknown_scs, ex_unknown_evs; split; [reflexivity|vm_compute; reflexivity]|].
  vm_compute. repeat split.
Qed.

(** the accounting on that run: the tell is inserted as its dead-letter report (1 insertion, 1 handler call at the
    guard), never as a plain user envelope *)
Example C03_ex_unknown_path_accounting :
  let s0 := init_with ex_unknown_scs in
  pushes (user_tag 7) ex_unknown_evs s0 = 0%nat /\ pushes (dl_of (user_tag 7)) ex_unknown_evs s0 = 1%nat /\
  handles (dl_of (user_tag 7)) ex_unknown_evs s0 = 1%nat /\ in_mail (dl_of (user_tag 7)) (run_events ex_unknown_evs s0) = 0%nat.
Proof. vm_compute. repeat split. Qed.

Print Assumptions C03_routing_actor.
Print Assumptions C03_routing_uncached.
Print Assumptions C03_routing_cached.
Print Assumptions C03_routing_tables_reachable.
Print Assumptions C03_routing_same_path.
Print Assumptions C03_deliver_dead.
Print Assumptions C03_handle_processed.
Print Assumptions C03_handle_processed_root.
Print Assumptions C03_handle_zombie.
Print Assumptions C03_handle_dead_letter.
Print Assumptions C03_handle_dropped.
Print Assumptions C03_handle_dead_any.
Print Assumptions C03_dead_letter_published_once.
Print Assumptions C03_stash_keeps.
Print Assumptions C03_unstash.
Print Assumptions C03_stash_untouched.
Print Assumptions C03_cleanup_resumes.
Print Assumptions C03_stopped_while_paused.
Print Assumptions C03_err_sticky.
Print Assumptions C03_queues_only_change_by_push_pop.
Print Assumptions C03_wf_reachable.
Print Assumptions C03_wf_step.
Print Assumptions C03_held_only_pop_and_handle.
Print Assumptions C03_conservation.
Print Assumptions C03_conservation_from.
Print Assumptions C03_ghost_log_is_the_handler_calls.
Print Assumptions C03_stash_untouched_by_handle_envelop.
