(** C03 between the API call and the queue insertion, over whole histories: no copy of a user message is lost or
    duplicated on the way from Tell / TellSelf / Unstash into a mailbox.

    With this file the chain of C03 is closed link by link, each link for EVERY event list of the ActorCore machine
    (Actor/Core.v) and every class P of user messages (e.g. [user_tag 7]):
      - a thread ISSUES a copy by Tell / TellSelf or by an Unstash that takes it out of its own stash; what a thread has
        issued = what it has inserted into mailboxes + what was turned into a dead-letter report at the insertion (unknown
        local target) + what is still pending in its instruction list - nothing at quiescence   [this file];
      - what has been inserted = still queued / in a consumer's hands + handled, each exactly once   [C03_conservation];
      - a handled copy is processed by the behaviour, consumed by a zombie, or reported as a dead letter (once), or
        dropped after the system stopped   [C03_handle_*]; a processed copy may be parked by Stash;
      - what an actor has parked = what its Unstash calls took out again, in order, + what is still parked
        [C03_stash_history], and what they took out is exactly what they issued   [C03_unstash_issues_what_it_takes].
    The harness evaluates the same equation on the real runtime (monitors c03-lost-message / c03-duplicated-message).
    Notions: Actor/SpecCopies.v ([issued], [sent], [pushed], [dead_at_push], [pend_list] are read off the run with the
    model's own [exec1] on the model's own states).  Statements only; proofs in Actor/ProofsCopies.v. *)
From Coq Require Import List NArith ZArith Bool.
From Vivid Require Import Actor.Core Actor.CoreRun Actor.SpecMail Actor.SpecStash Actor.SpecCopies Actor.ProofsCopies.
Import ListNotations.

(** one event, any well-formed state, any thread: pending after + inserted + turned into a dead-letter report
    = pending before + issued *)
Theorem C03_thread_step P s ev t :
  user_class P -> wf s -> err (step s ev) = false ->
  pend_list P (pend_of (step s ev) t) + pushed1 P s ev t + dead_at_push1 P s ev t =
  pend_list P (pend_of s t) + step_sum (issued1 P) s ev t.
Proof. exact (step_thread_balance P s ev t). Qed.

(** any run from any well-formed state *)
Theorem C03_thread_run P evs s t :
  user_class P -> wf s -> err (run_events evs s) = false ->
  pend_list P (pend_of (run_events evs s) t) + pushed P evs s t + dead_at_push P evs s t =
  pend_list P (pend_of s t) + issued P evs s t.
Proof. exact (fun HP => thread_balance_run P HP evs s t). Qed.

(** every history of every system, every thread (an actor's handler thread or an external API caller) *)
Theorem C03_issued_is_inserted_or_pending P scs evs t :
  user_class P -> err (run_events evs (init_with scs)) = false ->
  issued P evs (init_with scs) t =
  pushed P evs (init_with scs) t + dead_at_push P evs (init_with scs) t + pend_list P (pend_of (run_events evs (init_with scs)) t).
Proof. exact (thread_history P scs evs t). Qed.

(** ... and at quiescence nothing is pending: every issued copy has been inserted, as itself or as its dead-letter report *)
Theorem C03_issued_is_inserted_at_quiescence P scs evs t :
  user_class P -> err (run_events evs (init_with scs)) = false -> quiescent (run_events evs (init_with scs)) = true ->
  issued P evs (init_with scs) t = pushed P evs (init_with scs) t + dead_at_push P evs (init_with scs) t.
Proof. exact (thread_history_quiescent P scs evs t). Qed.

(** issuing is sending or un-parking, nothing else *)
Theorem C03_issued_is_sent_or_unparked P evs s t : issued P evs s t = sent P evs s t + untaken P evs s t.
Proof. exact (issued_split P evs s t). Qed.

(** what an actor's Unstash calls issue is exactly what the stash log says they took out *)
Theorem C03_unstash_issues_what_it_takes P b evs s :
  b <> 0%nat -> untaken P evs s (TA b) = cnt_env P (taken_of b (run_sops evs s)).
Proof. exact (fun Hb => untaken_is_taken P b Hb evs s). Qed.

(** an actor's own books, every history: what it sent + what it parked = what it inserted + what became a dead-letter
    report at the insertion + what is still pending in its handler + what is still parked *)
Theorem C03_actor_books P scs evs b :
  user_class P -> b <> 0%nat -> err (run_events evs (init_with scs)) = false ->
  sent P evs (init_with scs) (TA b) + cnt_env P (parked_of b (run_sops evs (init_with scs))) =
  pushed P evs (init_with scs) (TA b) + dead_at_push P evs (init_with scs) (TA b) +
  pend_list P (pend_of (run_events evs (init_with scs)) (TA b)) + cnt_env P (stash_at (run_events evs (init_with scs)) b).
Proof. exact (actor_books P scs evs b). Qed.

(** ============================ examples ============================ *)
Local Open Scope N_scope.

Example C03_ex_user_class : user_class (user_tag 7).
Proof. intros m H. destruct m; try discriminate H. reflexivity. Qed.

(** the run of Properties/C03_stash.v (a worker parks 7 and 8, is restarted, un-parks them, they park themselves again)
    plus a tell to a path that never existed: the external caller issues 7 once and inserts it once; the worker (thread
    [TA 2]) sends nothing, parks 7 twice, un-parks (= issues = inserts) it once, one copy is still parked; the tell of
    tag 5 to the unknown path is turned into its dead-letter report at the insertion *)
Definition ex_w : spec := Spec 1 [] [] [] 0 [] true [] true.
Definition ex_p : spec := Spec 1 [ASpawn ex_w] [] [] 1 [DRestart] true [] false.
Definition ex_scs : list (list action) :=
  [[ASpawn ex_p];
   [ATell (XPath [1;1]) 7 [AStash]; ATell (XPath [1;1]) 8 [AStash]; ATell (XPath [1;1]) 9 [APanic];
    ATell (XPath [1;1]) 10 [AUnstash (Some 100%Z)]; ATell (XPath [9]) 5 []]].
Definition ex_s0 : state := init_with ex_scs.
Definition ex_evs1 : list event := Eval vm_compute in drive 400 [TX 0; TA 0; TA 1; TA 2] ex_s0.
Definition ex_evs : list event := Eval vm_compute in ex_evs1 ++ drive_all 600 (run_events ex_evs1 ex_s0).

Example C03_ex_books :
  let sf := run_events ex_evs ex_s0 in
  err sf = false /\ quiescent sf = true /\
  (issued (user_tag 7) ex_evs ex_s0 (TX 1), pushed (user_tag 7) ex_evs ex_s0 (TX 1), dead_at_push (user_tag 7) ex_evs ex_s0 (TX 1)) = (1, 1, 0)%nat /\
  (sent (user_tag 7) ex_evs ex_s0 (TA 2), cnt_env (user_tag 7) (parked_of 2 (run_sops ex_evs ex_s0)),
   untaken (user_tag 7) ex_evs ex_s0 (TA 2), pushed (user_tag 7) ex_evs ex_s0 (TA 2),
   cnt_env (user_tag 7) (stash_at sf 2)) = (0, 2, 1, 1, 1)%nat /\
  (issued (user_tag 5) ex_evs ex_s0 (TX 1), pushed (user_tag 5) ex_evs ex_s0 (TX 1), dead_at_push (user_tag 5) ex_evs ex_s0 (TX 1)) = (1, 0, 1)%nat.
Proof. cbv zeta. vm_compute. repeat split. Qed.

Print Assumptions C03_thread_step.
Print Assumptions C03_thread_run.
Print Assumptions C03_issued_is_inserted_or_pending.
Print Assumptions C03_issued_is_inserted_at_quiescence.
Print Assumptions C03_issued_is_sent_or_unparked.
Print Assumptions C03_unstash_issues_what_it_takes.
Print Assumptions C03_actor_books.
