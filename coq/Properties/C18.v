(** C18 — Gossip converges: same members, same leader, exactly the live nodes (PARTIAL).
    Statements only; every proof is [exact <lemma>] (lemmas in Cluster/GossipProofs.v, model in
    Cluster/Gossip.v, the view algebra of C17 in Cluster/View.v / ViewProofs.v).

    Reading guide.  A [node] is the state of one NodeActor (own NodeState, ClusterView, last version vector
    heard from each address, event-publisher memory, registered timers); a [world] is the running nodes by
    address plus the GossipMessages in flight; [step_world w now s] executes one step (process start with its
    join Asks, join retry, gossip tick, failure-detection tick, delivery or loss of one packet, crash, leave,
    force-down) at wall clock [now]; [run] executes a schedule.  [leader_of v] is ComputeLeaderAddr,
    [iam_leader n] the IAmLeader flag it publishes, [up_addrs v] the addresses of the members with status Up.
    [proj v] (C17) is the membership id -> (generation, logical clock); [pjoin_all] the join of C17.
    [fair_rounds w t d rounds] runs consecutive FAIR rounds of the fault-free phase: all Asks go through,
    nothing is lost, every registered timer of every node fires in every round, nothing is left in flight at
    the end of a round, round i starts at clock >= t + i*d.  [converged w]: every running node lists exactly
    the running nodes (by NodeID and address) and all compute the same leader; [quiet lg]: the log holds no
    ClusterMembersChanged / ClusterViewChanged / ClusterLeaderChanged event.

    The unconditional property [C18_unconditional] is FALSE of the code as it is; the defects are
    established by kernel-checked executions (replayed on the real NodeActors by the harness on every run),
    each with the strongest true statement next to it.

    Section 5 DECIDES the convergence clause by history class.  On the CLEAN histories (Cluster/GossipClean.v:
    failure detection off, every NodeID used once, no crash / leave / force-down, joins accepted by joined nodes
    only - any join order, seed lists, loss, delivery order, retries, for any number of nodes up to the 65535-entry
    cap of the version vector) it is PROVED: the order of the version vectors is the order of the memberships,
    so the suppression of shouldSendGossipTo is sound; one fair round after everybody has joined makes all views
    equal, provided the seed lists connect the nodes; exactly one node is leader; and from then on nothing is
    announced and nothing changes, for ever.  Every class outside is matched by a refutation:
      failure detection on -> (a) (c) (f);  crash + restart -> (c2) (e) (e2);  leave -> (d);  removal -> (b);
      a crash that nothing detects -> (g);  seed lists that do not connect -> (h).
    Undecided (neither proved nor refuted): histories in which a node whose own join is still pending accepts a
    JoinRequest ([ask_ok] in Cluster/GossipClean.v). *)
From Coq Require Import List NArith ZArith Lia Bool.
From stdpp Require Import gmap.
From Vivid Require Import Codec.Prim Cluster.VV Cluster.VVProofs Cluster.View Cluster.ViewProofs Cluster.Gossip Cluster.GossipProofs.
From Vivid Require Import Cluster.GossipClean Cluster.GossipCleanStep Cluster.GossipCleanRun Cluster.GossipCleanConv Cluster.GossipCleanEx.
Local Open Scope N_scope.

(** ** 1. Same Up members => same leader; exactly one IAmLeader *)

(** for ALL views: the leader depends only on the set of addresses of the Up members *)
Theorem C18_same_view_same_leader v1 v2 :
  (forall a, a ∈ up_addrs v1 <-> a ∈ up_addrs v2) -> leader_of v1 = leader_of v2.
Proof. exact (same_up_same_leader v1 v2). Qed.

(** any non-empty set of running nodes with distinct addresses whose views all have, as Up members, exactly
    these nodes: one leader address for all of them, and exactly one of them has IAmLeader *)
Theorem C18_exactly_one_leader (nodes : list node) :
  nodes <> [] ->
  NoDup (map nd_addr nodes) ->
  (forall n, n ∈ nodes -> forall a, a ∈ up_addrs (nd_view n) <-> a ∈ map nd_addr nodes) ->
  exists l, (forall n, n ∈ nodes -> leader_of (nd_view n) = l) /\
            exists n, n ∈ nodes /\ iam_leader n = true /\
                      forall m, m ∈ nodes -> iam_leader m = true -> m = n.
Proof. exact (one_leader nodes). Qed.

(** the leader is the least Up address in Go's string order *)
Theorem C18_leader_is_least v a : a ∈ up_addrs v -> lex_le (leader_of v) a = true.
Proof. exact (leader_least v a). Qed.

(** ** 2. Conditional convergence: the exchange round *)

(** handleGossip acts on the membership as the join of C17 (the LastSeen / Suspect refresh touches no incarnation) *)
Theorem C18_gossip_is_join n src v now choice :
  WF (nd_view n) -> WF v ->
  WF (nd_view (fst (fst (handle_gossip n src v now choice)))) /\
  proj (nd_view (fst (fst (handle_gossip n src v now choice)))) = pjoin (proj (nd_view n)) (proj v).
Proof. exact (handle_gossip_proj n src v now choice). Qed.

(** a round = any schedule of gossip ticks, deliveries (any order, any MemberByAddress choice) and losses, from a
    world with well-formed views and nothing in flight.  Information flow is tracked by [arun] on the annotated
    world: a node starts with the origin {itself}, a GossipMessage carries the origins of its sender at send
    time, a delivery adds them to the receiver's ([all_reached]: at the end every node's origins contain every
    node that was running = every view reached every node, directly or transitively; no failure-detector
    removal, leave or start occurs because such steps are not part of a round).  Then the annotated run
    is the plain run, and afterwards every node's membership is the join of all initial ones:
    by C17 the union of the members, each at the newest incarnation any node had. *)
Theorem C18_exchange_round w0 sc w1 l :
  (forall a n, w_nodes w0 !! a = Some n -> nd_addr n = a) ->
  (forall a n, w_nodes w0 !! a = Some n -> WF (nd_view n)) ->
  w_net w0 = [] ->
  forallb (fun p => round_step (snd p)) sc = true ->
  run w0 sc = Some (w1, l) ->
  exists aw1, arun (annotate w0) sc = Some (aw1, l) /\ erase aw1 = w1 /\
    (all_reached w0 aw1 ->
     forall a n, w_nodes w1 !! a = Some n ->
       WF (nd_view n) /\ proj (nd_view n) = pjoin_all (all_views0 w0)).
Proof. exact (exchange_round w0 sc w1 l). Qed.

(** the hypotheses on the world hold after ANY history: in every world reachable from the empty one by any schedule
    (starts, joins, losses, crashes, restarts, leaves, force-downs, failure detection ...) the nodes are keyed by
    their own address and every view - of a node, of a GossipMessage in flight - is well-formed in the sense of C17 *)
Theorem C18_reachable_well_formed sc w l :
  run empty_world sc = Some (w, l) ->
  (forall a n, w_nodes w !! a = Some n -> nd_addr n = a) /\
  (forall a n, w_nodes w !! a = Some n -> WF (nd_view n)) /\
  (forall p, p ∈ w_net w -> WF (p_view p)).
Proof. exact (reachable_inv sc w l). Qed.

(** ... so: after any history that leaves nothing in flight, any round in which every view reaches every node ends
    with every membership equal to the join of the memberships the round started with *)
Theorem C18_exchange_round_after_any_history hist w0 l0 sc w1 l :
  run empty_world hist = Some (w0, l0) -> w_net w0 = [] ->
  forallb (fun p => round_step (snd p)) sc = true ->
  run w0 sc = Some (w1, l) ->
  exists aw1, arun (annotate w0) sc = Some (aw1, l) /\ erase aw1 = w1 /\
    (all_reached w0 aw1 ->
     forall a n, w_nodes w1 !! a = Some n ->
       WF (nd_view n) /\ proj (nd_view n) = pjoin_all (all_views0 w0)).
Proof. exact (exchange_round_reachable hist w0 l0 sc w1 l). Qed.

(** ** 3. The fixpoint: gossip is suppressed when the vectors are Equal *)

(** exactly when a gossip round (= broadcastViewOnce) sends to [t]: t is a seed or a member address other than
    the own one, and either nothing was ever heard from t or the own vector is After / Concurrent to the last
    vector heard from it.  Equal (and Before) suppress the message. *)
Theorem C18_gossip_sent_iff n t :
  (exists v, (t, v) ∈ snd (fst (gossip_tick n))) <->
  t ∈ select_targets n /\
  match nd_last n !! t with
  | None => True
  | Some theirs => vcompare (vw_vv (nd_view n)) theirs = VAfter \/ vcompare (vw_vv (nd_view n)) theirs = VConcurrent
  end.
Proof. exact (gossip_sent_iff n t). Qed.

(** every target's last known vector is Equal to (or ahead of) the own one: the round sends nothing, publishes
    nothing (no members-changed event in particular) and leaves the view as it is *)
Theorem C18_fixpoint n :
  (forall t, t ∈ select_targets n -> exists theirs, nd_last n !! t = Some theirs /\
       (vcompare (vw_vv (nd_view n)) theirs = VEqual \/ vcompare (vw_vv (nd_view n)) theirs = VBefore)) ->
  snd (fst (gossip_tick n)) = [] /\ snd (gossip_tick n) = [] /\ nd_view (fst (fst (gossip_tick n))) = nd_view n.
Proof. exact (gossip_fixpoint n). Qed.

(** (the strongest true part of (a)) with failure detection off the fixpoint is stable for ever: in a world with
    nothing in flight, no failure-detection loop, no pending join retry and every gossip suppressed, every
    fault-free step is either not enabled or publishes nothing, changes no view and leads to such a world again *)
Theorem C18_fixpoint_stable_without_failure_detection_partial w now s w' l :
  (w_net w = [] /\
   forall a n, w_nodes w !! a = Some n ->
     nd_addr n = a /\ nd_fd_on n = false /\ nd_retry_on n = false /\
     forall t, t ∈ select_targets n -> exists theirs, nd_last n !! t = Some theirs /\
       (vcompare (vw_vv (nd_view n)) theirs = VEqual \/ vcompare (vw_vv (nd_view n)) theirs = VBefore)) ->
  fault_free s = true -> step_world w now s = Some (w', l) ->
  l = [] /\ quiescent w' /\ forall a, nd_view <$> (w_nodes w' !! a) = nd_view <$> (w_nodes w !! a).
Proof. exact (quiescent_stable w now s w' l). Qed.

(** ** 4. The unconditional property is false *)

(** [converged_b] decides [converged] *)
Theorem C18_converged_decided w : converged_b w = true <-> converged w.
Proof. exact (conj (converged_b_sound w) (converged_b_complete w)). Qed.

(** stated in full in Cluster/Gossip.v:
      C18_unconditional L d := forall faults t rounds w1 l1 w2 logs,
        run empty_world faults = Some (w1, l1) -> fair_rounds w1 t d rounds = Some (w2, logs) ->
        L <= length rounds -> converged w2 /\ (forall lg, last logs = Some lg -> quiet lg = true).
    It fails for L = 40 rounds of length d = 50 (and hence for every smaller L) with a timeout of 300. *)
Theorem C18_unconditional_refuted : ~ C18_unconditional 40 50.
Proof. exact unconditional_refuted. Qed.

(** (a) ENDLESS CHURN OF HEALTHY MEMBERS.  Two nodes (seed 127.0.0.1:1, joiner 127.0.0.1:2), FailureDetectionTimeout
    300, no fault at all: the fault phase consists of the two process starts with a successful join.  After 40 fair
    rounds of length 50: a ClusterMembersChangedEvent removing a RUNNING node is still published within the
    last 10 rounds, the two nodes do not list the same members and the world is not converged.  (Once the vectors
    are equal no gossip flows, LastSeen is never refreshed, the failure detector removes the healthy peer, the
    merge that re-adds it copies the sender's own stale LastSeen, and so on.) *)
Theorem C18_a_healthy_members_churn_refuted :
  exists w1 l1 w2 logs,
    run empty_world (faults_of wa_play 40) = Some (w1, l1) /\
    fair_rounds w1 1050 50 (rounds_of wa_play 40) = Some (w2, logs) /\
    (only_clean_starts (faults_of wa_play 40) && (length (rounds_of wa_play 40) =? 40)%nat &&
     (length (nodes_of w2) =? 2)%nat &&
     existsb (removal_of_running w2) (skipn 30 logs) &&
     negb (converged_b w2) && negb (same_members_everywhere w2)) = true.
Proof. exact wa_check. Qed.

(** (b) A REMOVED MEMBER IS RESURRECTED BY ANY PEER THAT STILL LISTS IT.  Failure detection off; seeds s, a and
    member x converge; x crashes; ForceMemberDown(x) at s publishes the removal and x is absent from s's view when
    the faults stop; 30 fair rounds later both running nodes list x again - for ever (all rounds after the fifth are
    quiet).  (RemoveMember also prunes x's version-vector entry, so s's vector becomes Concurrent with a's; a's
    answer carries x and MergeFrom never removes.) *)
Theorem C18_b_removed_member_resurrected_refuted :
  exists w1 l1 w2 logs,
    run empty_world (faults_of wb_play 30) = Some (w1, l1) /\
    fair_rounds w1 1250 50 (rounds_of wb_play 30) = Some (w2, logs) /\
    ((length (rounds_of wb_play 30) =? 30)%nat &&
     negb (is_running w1 ad3) && negb (is_running w2 ad3) &&
     existsb (fun p => bool_decide (fst p = ad1) && match snd p with EMembers _ 0 [r] => bool_decide (r = ad3) | _ => false end) l1 &&
     match w_nodes w1 !! ad1 with Some s => negb (lists_id s [120]) | None => false end &&
     (length (nodes_of w2) =? 2)%nat && forallb (fun n => lists_id n [120]) (nodes_of w2) &&
     forallb quiet (skipn 5 logs)) = true.
Proof. exact wb_check. Qed.

(** (c) A STATUS CHANGE IS NEVER PROPAGATED NOR CLEARED ONCE THE VECTORS ARE EQUAL: TWO LEADERS.  The two healthy
    nodes of (a) with SuspectConfirmDuration 100000: after 40 fair rounds both list the same two members, one of
    them holds the other (running) node as Suspect, and BOTH have IAmLeader. *)
Theorem C18_c_two_leaders_refuted :
  exists w1 l1 w2 logs,
    run empty_world (faults_of wc_play 40) = Some (w1, l1) /\
    fair_rounds w1 1050 50 (rounds_of wc_play 40) = Some (w2, logs) /\
    (only_clean_starts (faults_of wc_play 40) && (length (rounds_of wc_play 40) =? 40)%nat &&
     (length (nodes_of w2) =? 2)%nat && same_members_everywhere w2 && (length (leaders_of w2) =? 2)%nat &&
     existsb (fun n => existsb (fun s => (ns_status s =? st_suspect)%Z && is_running w2 (ns_addr s)) (states (nd_view n))) (nodes_of w2)) = true.
Proof. exact wc_check. Qed.

(** (c2) ... NOR IS A NEW INCARNATION: ONE LOST MESSAGE, PERMANENT DIVERGENCE.  Failure detection off.  j joins the seed
    s, crashes, restarts under the same NodeID and joins s again: s knew (2,2), the new process is at (3,3).  The view s
    broadcast while accepting the join reaches j; the one GossipMessage carrying (3,3) to s is lost.  The restarted j's
    own version-vector entry starts at 1 again, the value it already had, so both vectors are Equal: in 30 fair
    rounds nothing is published, j never sends, and s keeps j at (2,2) while j is at (3,3). *)
Theorem C18_c2_new_incarnation_not_propagated_refuted :
  exists w1 l1 w2 logs,
    run empty_world (faults_of wh_play 30) = Some (w1, l1) /\
    fair_rounds w1 1250 50 (rounds_of wh_play 30) = Some (w2, logs) /\
    ((length (rounds_of wh_play 30) =? 30)%nat && forallb quiet logs &&
     match w_nodes w2 !! ad1, w_nodes w2 !! ad2 with
     | Some s, Some j =>
         bool_decide (inc_of (nd_self j) = (3%Z, 3)) &&
         bool_decide (proj (nd_view j) !! [106] = Some (3%Z, 3)) &&
         bool_decide (proj (nd_view s) !! [106] = Some (2%Z, 2)) &&
         bool_decide (vw_vv (nd_view s) = vw_vv (nd_view j))
     | _, _ => false
     end) = true.
Proof. exact wh_check. Qed.

(** (d) A LEAVE IS NEVER ANNOUNCED.  For every node: handling the LeaveRequest does not touch the view (the Leaving
    status is set on the actor's own NodeState only), and every GossipMessage it sends carries exactly that view. *)
Theorem C18_d_leave_not_announced n :
  nd_view (fst (fst (leave n))) = nd_view n /\
  forall d v, (d, v) ∈ snd (fst (leave n)) -> v = nd_view n.
Proof. exact (leave_not_announced n). Qed.

(** ... hence, with failure detection off: j (127.0.0.1:1) joins the seed s (127.0.0.1:2), both converge, j leaves
    gracefully (ClusterLeaveCompletedEvent published); 30 quiet fair rounds later s still lists j, computes j's
    address as the leader, and no running node considers itself leader. *)
Theorem C18_d_left_node_stays_refuted :
  exists w1 l1 w2 logs,
    run empty_world (faults_of wd_play 30) = Some (w1, l1) /\
    fair_rounds w1 1250 50 (rounds_of wd_play 30) = Some (w2, logs) /\
    ((length (rounds_of wd_play 30) =? 30)%nat &&
     existsb (fun p => bool_decide (fst p = ad1) && match snd p with ELeaveCompleted => true | _ => false end) l1 &&
     negb (is_running w2 ad1) &&
     match w_nodes w2 !! ad2 with
     | Some s => lists_id s [106] && bool_decide (leader_of (nd_view s) = ad1)
     | None => false
     end &&
     (length (nodes_of w2) =? 1)%nat && (length (leaders_of w2) =? 0)%nat && forallb quiet logs) = true.
Proof. exact wd_check. Qed.

(** (e) RESTART SHADOWING.  Failure detection off, seeds s1 and s2.  j joins through s1 while s2 is cut off (s1 holds
    j at incarnation (2,2), timestamp 1020), crashes, restarts under the same NodeID and joins through s2, which
    never heard of it: the new process derives (2,2) again (timestamp 1100).  30 fair rounds later the world counts
    as converged, yet s1 still holds the PREDECESSOR's entry: equal incarnation numbers are never replaced. *)
Theorem C18_e_restart_shadowed_refuted :
  exists w1 l1 w2 logs,
    run empty_world (faults_of we_play 30) = Some (w1, l1) /\
    fair_rounds w1 1150 50 (rounds_of we_play 30) = Some (w2, logs) /\
    ((length (rounds_of we_play 30) =? 30)%nat && converged_b w2 && forallb quiet (skipn 5 logs) &&
     match w_nodes w2 !! ad1, w_nodes w2 !! ad3 with
     | Some s1, Some j =>
         bool_decide (entry_ts s1 [106] = Some (2%Z, 2, 1020%Z)) &&
         bool_decide ((ns_gen (nd_self j), ns_lc (nd_self j), ns_ts (nd_self j)) = (2%Z, 2, 1100%Z)) &&
         bool_decide (entry_ts j [106] = Some (2%Z, 2, 1100%Z))
     | _, _ => false
     end) = true.
Proof. exact we_check. Qed.

(** (e2) RESTART UNDER A FRESH NodeID (the default configuration draws a new uuid per process).  j joins the seed s
    (timeout 300), crashes, and the process restarts at the same address as "k".  s then lists two members with one
    address, and ClusterView.MemberByAddress returns whichever the Go map iteration yields.  In THIS execution it is
    always the predecessor's entry (the pick is the [choice] input of every SDeliver; on the real code it is made at
    random at every delivery, so this witness is not replayed deterministically - the harness observes the defect in
    generated scenarios): after 40 fair rounds the dead j is still listed by s with a LastSeen of the last round
    (3100), the running k (LastSeen 1110) is removed by s in every one of the last 10 rounds, and k itself lists its
    predecessor (a node never times out a member carrying its own address). *)
Theorem C18_e2_fresh_id_restart_refuted :
  exists w1 l1 w2 logs,
    run empty_world (faults_of wg_play 40) = Some (w1, l1) /\
    fair_rounds w1 1150 50 (rounds_of wg_play 40) = Some (w2, logs) /\
    ((length (rounds_of wg_play 40) =? 40)%nat &&
     forallb (removal_of_running w2) (skipn 30 logs) &&
     match w_nodes w2 !! ad1, w_nodes w2 !! ad2 with
     | Some s, Some k =>
         bool_decide (nd_id k = [107]) && lists_id s [106] && lists_id k [106] &&
         bool_decide (ns_seen <$> (vw_members (nd_view s) !! [106]) = Some 3100%Z) &&
         bool_decide (ns_seen <$> (vw_members (nd_view s) !! [107]) = Some 1110%Z)
     | _, _ => false
     end) = true.
Proof. exact wg_check. Qed.

(** (f) part of the mechanism of (a): a member learned through a merge is stored with the LastSeen of the sender's
    copy.  When the sender of a GossipMessage is not itself a member of the local view (so no LastSeen refresh
    happens) an id the local view lacks is adopted verbatim from the received view, LastSeen included - for the
    sender's own entry that is its process start time. *)
Theorem C18_f_learned_member_keeps_foreign_lastseen n src v now id s :
  refresh_candidates (nd_view n) src = [] ->
  vw_members (nd_view n) !! id = None -> vw_members v !! id = Some s ->
  vw_members (nd_view (fst (fst (handle_gossip n src v now None)))) !! id = Some s.
Proof. exact (learned_member_keeps_foreign_lastseen n src v now id s). Qed.

(** ** 5. The clean histories: convergence proved, for any number of nodes *)

(** [clean_history h]: every step of [h] is executed (from the empty world) and is clean where it is executed:
    process starts with FailureDetectionTimeout <= 0, a NodeID of 1..256 bytes that no running node has; join retries,
    gossip ticks, deliveries (any order, any MemberByAddress pick), losses of packets and of join Asks; no crash, leave,
    force-down; a join Ask that goes through reaches a node that has itself joined (or is refused for lack of quorum).
    [view_in w v]: v is the view of a running node or of a GossipMessage in flight.  [ple p q]: every member of p is a
    member of q at the same or a newer incarnation.

    In every world a clean history reaches, the ORDER OF THE VERSION VECTORS IS THE ORDER OF THE MEMBERSHIPS: a view
    whose vector is dominated lists nothing the dominating view does not list at the same or a newer incarnation.
    (This is exactly what fails in (c2): there two views have Equal vectors and different incarnations.) *)
Theorem C18_clean_vector_order_is_membership_order h w l :
  clean_history h = true -> run empty_world h = Some (w, l) ->
  N.of_nat (size (w_nodes w)) <= max_entries -> 3 * N.of_nat (length h) + 3 < max_counter ->
  forall u v, view_in w u -> view_in w v -> vle (vw_vv u) (vw_vv v) -> ple (proj u) (proj v).
Proof. exact (clean_vector_order h w l). Qed.

(** ... hence the gossip suppression is sound there: whenever shouldSendGossipTo says "do not send to t" and t is
    running, t's vector dominates the sender's and t already lists everything the sender lists *)
Theorem C18_clean_suppression_sound h w l a n t m :
  clean_history h = true -> run empty_world h = Some (w, l) ->
  N.of_nat (size (w_nodes w)) <= max_entries -> 3 * N.of_nat (length h) + 3 < max_counter ->
  w_nodes w !! a = Some n -> w_nodes w !! t = Some m ->
  should_send n (vw_vv (nd_view n)) t = false ->
  vle (vw_vv (nd_view n)) (vw_vv (nd_view m)) /\ ple (proj (nd_view n)) (proj (nd_view m)).
Proof. exact (clean_suppression_sound h w l a n t m). Qed.

(** GossipTargetSelector.SelectTargets (no datacenter labels, at most MaxDiscoveryTargetsPerTick candidates): the targets
    of a gossip round / of an immediate broadcast are exactly the non-empty addresses other than the own one that are a
    CONFIGURED SEED - whether or not that seed is a member of the view - or the address of a member of the view.  The
    seeds outside the view are the only rendezvous of groups that do not know each other: this is what [seed_connected]
    relies on. *)
Theorem C18_gossip_targets_exactly n t :
  t ∈ select_targets n <->
  t <> [] /\ t <> nd_addr n /\
  (t ∈ c_seeds (nd_cfg n) \/ exists k s, vw_members (nd_view n) !! k = Some s /\ ns_addr s = t).
Proof. exact (select_targets_spec n t). Qed.

(** CONVERGENCE.  [all_joined w0]: every running node has bootstrapped or completed its join.  [seed_connected w1]:
    the undirected graph "b is a running seed of the running node a" connects all running nodes (self-seeded islands are
    fine as long as some node lists seeds of both - it keeps gossiping to a configured seed that is no member of its
    view, which is how the islands meet).  After any clean history that ends with everybody joined, ONE fair round
    (every gossip timer fires, everything in flight is delivered, in any order) reaches a world in which
      - every running node lists exactly the running nodes and all compute the same leader ([converged]),
      - exactly one running node has IAmLeader,
      - and in all fair rounds that follow, of any number and length: the world stays converged, NO
        ClusterMembersChanged / ClusterViewChanged / ClusterLeaderChanged event is published, and no node's membership
        or version vector changes.
    Sizes: at most 65535 nodes (the entry cap of the version vector) and fewer than 2^61 steps (no counter overflow). *)
Theorem C18_clean_history_converges h w0 l0 t r w1 l1 :
  clean_history h = true -> run empty_world h = Some (w0, l0) ->
  N.of_nat (size (w_nodes w0)) <= max_entries -> 3 * N.of_nat (length h) + 3 < max_counter ->
  all_joined w0 -> fair_round w0 t r = Some (w1, l1) -> seed_connected w1 ->
  converged w1 /\
  (nodes_of w1 <> [] ->
   exists n, n ∈ nodes_of w1 /\ iam_leader n = true /\ forall m, m ∈ nodes_of w1 -> iam_leader m = true -> m = n) /\
  forall t' d rounds w2 logs, fair_rounds w1 t' d rounds = Some (w2, logs) ->
    converged w2 /\ Forall (fun lg => quiet lg = true) logs /\ same_memberships w1 w2.
Proof. exact (clean_convergence h w0 l0 t r w1 l1). Qed.

(** the same in the shape of [C18_unconditional]: on clean histories that end with everybody joined and connected seed
    lists the unconditional property holds with L = 2 rounds of any length d *)
Theorem C18_unconditional_on_clean_histories d faults t rounds w1 l1 w2 logs :
  clean_history faults = true -> run empty_world faults = Some (w1, l1) ->
  N.of_nat (size (w_nodes w1)) <= max_entries -> 3 * N.of_nat (length faults) + 3 < max_counter ->
  all_joined w1 -> seed_connected w1 ->
  fair_rounds w1 t d rounds = Some (w2, logs) -> (2 <= length rounds)%nat ->
  converged w2 /\ (forall lg, last logs = Some lg -> quiet lg = true).
Proof. exact (clean_unconditional d faults t rounds w1 l1 w2 logs). Qed.

(** (g) A CRASH THAT NOTHING DETECTS.  Failure detection off (FailureDetectionTimeout <= 0, "rely on an explicit
    leave"): s and j converge, j crashes; 30 quiet fair rounds later s still lists j.  The clause "a node that crashed
    is eventually absent from every view" needs a failure detector - and with one, (a) and (b) apply. *)
Theorem C18_g_crash_undetected_without_failure_detection_refuted :
  exists w1 l1 w2 logs,
    run empty_world (faults_of wj_play 30) = Some (w1, l1) /\
    fair_rounds w1 1250 50 (rounds_of wj_play 30) = Some (w2, logs) /\
    ((length (rounds_of wj_play 30) =? 30)%nat && negb (is_running w2 ad2) && (length (nodes_of w2) =? 1)%nat &&
     match w_nodes w2 !! ad1 with Some s => lists_id s [106] | None => false end &&
     negb (converged_b w2) && forallb quiet logs) = true.
Proof. exact wj_check. Qed.

(** (h) SEED LISTS THAT DO NOT CONNECT (a configuration, not a defect).  Two self-seeded nodes, a clean history,
    everybody has joined: no running node lists another one among its seeds, and after 30 quiet fair rounds each
    still lists only itself.  The hypothesis [seed_connected] of the convergence theorem cannot be dropped. *)
Theorem C18_h_unconnected_seed_lists_stay_apart :
  exists w1 l1 w2 logs,
    run empty_world (faults_of wk_play 30) = Some (w1, l1) /\
    fair_rounds w1 1050 50 (rounds_of wk_play 30) = Some (w2, logs) /\
    clean_history (faults_of wk_play 30) = true /\ all_joined w1 /\ ~ seed_connected w2 /\
    ~ converged w2 /\ Forall (fun lg => quiet lg = true) logs /\
    map (fun n => map ns_id (states (nd_view n))) (nodes_of w2) = [[[65]]; [[66]]].
Proof. exact wk_example. Qed.

(** ** 6. Thresholds of the failure detector and the default quorum rule, as they are *)

(** FailureDetector.RunDetection (one datacenter): exactly the members whose address is not the own one and whose
    LastSeen is older than FailureDetectionTimeout + max(SuspectConfirmDuration, 0) are removed ... *)
Theorem C18_failure_detector_removes_exactly n now id :
  id ∈ snd (fd_detect n now) <->
  exists s, vw_members (nd_view n) !! id = Some s /\ ns_addr s <> nd_addr n /\ (0 < c_fd (nd_cfg n))%Z /\
            (ns_seen s < now - (c_fd (nd_cfg n) + Z.max (c_confirm (nd_cfg n)) 0))%Z.
Proof. exact (fd_removes_iff n now id). Qed.

(** ... and exactly the Up members last seen in the window [now - timeout - confirm, now - timeout) are marked Suspect,
    when SuspectConfirmDuration > 0.  In particular a member seen within the timeout is never touched. *)
Theorem C18_failure_detector_suspects_exactly n now id :
  id ∈ fst (fd_detect n now) <->
  exists s, vw_members (nd_view n) !! id = Some s /\ ns_addr s <> nd_addr n /\ (0 < c_fd (nd_cfg n))%Z /\
            ns_status s = st_up /\ (0 < c_confirm (nd_cfg n))%Z /\
            (now - (c_fd (nd_cfg n) + c_confirm (nd_cfg n)) <= ns_seen s < now - c_fd (nd_cfg n))%Z.
Proof. exact (fd_suspects_iff n now id). Qed.

(** QuorumCalculator.SatisfiesQuorum, default strategy, on the counts recomputeCounts caches: QuorumSize is derived from
    HealthyCount itself (HealthyCount/2+1), so the test HealthyCount >= QuorumSize holds exactly when at least ONE member
    is Up - whatever the size of the membership.  (An observation about quorum.go, not a clause of C18: the rule cannot
    tell a minority partition from a majority one; a node that has removed or suspected everybody but itself is still
    "in quorum", accepts joins and publishes IAmLeader with InQuorum = true.) *)
Theorem C18_default_quorum_is_at_least_one_up v : sat_quorum (recompute v) = (0 <? vw_healthy (recompute v)).
Proof. exact (default_quorum_trivial v). Qed.

(** ** Non-vacuity *)

(** the hypotheses of C18_exactly_one_leader: the three nodes of [ex_world] (seeds s, a and member x after three
    fair rounds, failure detection off) *)
Example C18_exactly_one_leader_example :
  nodes_of ex_world <> [] /\ NoDup (map nd_addr (nodes_of ex_world)) /\ length (nodes_of ex_world) = 3%nat /\
  (forall n, n ∈ nodes_of ex_world -> forall a, a ∈ up_addrs (nd_view n) <-> a ∈ map nd_addr (nodes_of ex_world)) /\
  converged ex_world.
Proof.
  split; [intros E; apply (f_equal (@length node)) in E; vm_compute in E; discriminate|].
  split; [apply (proj1 (bool_decide_eq_true (NoDup (map nd_addr (nodes_of ex_world))))); vm_compute; reflexivity|]. split; [vm_compute; reflexivity|].
  split; [|apply converged_b_sound; vm_compute; reflexivity].
  assert (H : forallb (fun n => subset_b (up_addrs (nd_view n)) (map nd_addr (nodes_of ex_world)) &&
                                subset_b (map nd_addr (nodes_of ex_world)) (up_addrs (nd_view n))) (nodes_of ex_world) = true)
    by (vm_compute; reflexivity).
  rewrite forallb_forall in H. intros n Hn. apply elem_of_list_In in Hn. apply (same_set_b_sound _ _ (H n Hn)).
Qed.

(** the hypotheses of C18_exchange_round: three islands ([ex_islands]: s and a bootstrapped on their own, x joined s,
    every packet so far lost: the views list {s,x}, {a}, {s,x}); one canonical fair round [ex_round] makes every
    view reach every node, and all three then list s, a and x *)
Example C18_exchange_round_example :
  (forall a n, w_nodes ex_islands !! a = Some n -> nd_addr n = a) /\
  (forall a n, w_nodes ex_islands !! a = Some n -> WF (nd_view n)) /\
  w_net ex_islands = [] /\
  forallb (fun p => round_step (snd p)) ex_round = true /\
  map (fun n => map ns_id (states (nd_view n))) (nodes_of ex_islands) = [[[115]; [120]]; [[97]]; [[115]; [120]]] /\
  exists aw1 l, arun (annotate ex_islands) ex_round = Some (aw1, l) /\ all_reached ex_islands aw1 /\
    map (fun n => map ns_id (states (nd_view n))) (nodes_of (erase aw1)) = [[[97]; [115]; [120]]; [[97]; [115]; [120]]; [[97]; [115]; [120]]].
Proof.
  destruct (world_ok_b_sound ex_islands) as (H1 & H2 & H3); [vm_compute; reflexivity|].
  split; [exact H1|]. split; [exact H2|]. split; [exact H3|]. split; [vm_compute; reflexivity|]. split; [vm_compute; reflexivity|].
  assert (Hc : match arun (annotate ex_islands) ex_round with
               | Some (aw, _) => all_reached_b ex_islands aw &&
                   bool_decide (map (fun n => map ns_id (states (nd_view n))) (nodes_of (erase aw)) = [[[97]; [115]; [120]]; [[97]; [115]; [120]]; [[97]; [115]; [120]]])
               | None => false end = true) by (vm_compute; reflexivity).
  destruct (arun (annotate ex_islands) ex_round) as [[aw1 l]|] eqn:E; [|discriminate Hc].
  exists aw1, l. split; [reflexivity|].
  apply andb_true_iff in Hc as [Ha Hb]. split; [apply all_reached_b_sound; exact Ha|apply bool_decide_eq_true in Hb; exact Hb].
Qed.

(** the hypotheses of C18_fixpoint and of the stability theorem: two seeds that bootstrapped alone and found each
    other by gossip ([ex_two]) are converged and quiescent *)
Example C18_fixpoint_example : quiescent ex_two /\ converged ex_two /\ length (nodes_of ex_two) = 2%nat.
Proof.
  split; [apply quiescent_b_sound; vm_compute; reflexivity|]. split; [apply converged_b_sound; vm_compute; reflexivity|].
  vm_compute. reflexivity.
Qed.

(** ... and the gossip tick of a node of that world is enabled, publishes nothing and leaves a quiescent world *)
Example C18_fixpoint_stable_example :
  fault_free (SGossipTick ad1) = true /\
  exists w' l, step_world ex_two 2000 (SGossipTick ad1) = Some (w', l) /\ l = [] /\ quiescent w'.
Proof.
  split; [reflexivity|].
  assert (Hc : match step_world ex_two 2000 (SGossipTick ad1) with
               | Some (w', l) => match l with [] => true | _ :: _ => false end && quiescent_b w'
               | None => false end = true) by (vm_compute; reflexivity).
  destruct (step_world ex_two 2000 (SGossipTick ad1)) as [[w' l]|]; [|discriminate Hc].
  exists w', l. split; [reflexivity|]. apply andb_true_iff in Hc as [H1 H2].
  split; [destruct l; [reflexivity|discriminate]|apply quiescent_b_sound; exact H2].
Qed.

(** the hypotheses of C18_gossip_is_join: the island of a ({a}) receives the view of s ({s,x}) *)
Example C18_gossip_is_join_example :
  exists n v, w_nodes ex_islands !! ad2 = Some n /\ (nd_view <$> w_nodes ex_islands !! ad1) = Some v /\
    WF (nd_view n) /\ WF v /\
    map ns_id (states (nd_view n)) = [[97]] /\ map ns_id (states v) = [[115]; [120]] /\
    map ns_id (states (nd_view (fst (fst (handle_gossip n ad1 v 1050 None))))) = [[97]; [115]; [120]].
Proof.
  destruct (w_nodes ex_islands !! ad2) as [n|] eqn:E2; [|vm_compute in E2; discriminate].
  destruct (w_nodes ex_islands !! ad1) as [m|] eqn:E1; [|vm_compute in E1; discriminate].
  exists n, (nd_view m). split; [reflexivity|]. split; [reflexivity|].
  assert (Hc : match w_nodes ex_islands !! ad2, w_nodes ex_islands !! ad1 with
               | Some n, Some m => WF_b (nd_view n) && WF_b (nd_view m) &&
                   bool_decide (map ns_id (states (nd_view n)) = [[97]]) && bool_decide (map ns_id (states (nd_view m)) = [[115]; [120]]) &&
                   bool_decide (map ns_id (states (nd_view (fst (fst (handle_gossip n ad1 (nd_view m) 1050 None))))) = [[97]; [115]; [120]])
               | _, _ => false end = true) by (vm_compute; reflexivity).
  rewrite E2, E1 in Hc. rewrite !andb_true_iff, !bool_decide_eq_true in Hc. destruct Hc as [[[[H1 H2] H3] H4] H5].
  split; [apply WF_b_sound; exact H1|]. split; [apply WF_b_sound; exact H2|]. auto.
Qed.

(** the hypotheses of C18_clean_history_converges (and of the two theorems before it): the self-seeded islands
    A = [A], B = [B] with C = [A; B] joined through A and D = [B]; every GossipMessage of the start-up phase was lost, so
    when the faults stop the views are {A,C}, {B,D}, {A,C}, {B,D} and nothing is in flight.  The history is clean,
    everybody has joined, one canonical fair round follows, the seed lists connect the four nodes (A - C - B - D) -
    and after that round all four list A, B, C, D. *)
Example C18_clean_history_converges_example :
  exists w0 l0 r w1 l1,
    clean_history (faults_of wi_play 1) = true /\ run empty_world (faults_of wi_play 1) = Some (w0, l0) /\
    N.of_nat (size (w_nodes w0)) <= max_entries /\ 3 * N.of_nat (length (faults_of wi_play 1)) + 3 < max_counter /\
    all_joined w0 /\ fair_round w0 1050 r = Some (w1, l1) /\ seed_connected w1 /\
    map (fun n => map ns_id (states (nd_view n))) (nodes_of w0) = [[[65]; [67]]; [[66]; [68]]; [[65]; [67]]; [[66]; [68]]] /\
    map (fun n => map ns_id (states (nd_view n))) (nodes_of w1) =
      [[[65]; [66]; [67]; [68]]; [[65]; [66]; [67]; [68]]; [[65]; [66]; [67]; [68]]; [[65]; [66]; [67]; [68]]].
Proof. exact wi_example. Qed.

Print Assumptions C18_same_view_same_leader.
Print Assumptions C18_exactly_one_leader.
Print Assumptions C18_leader_is_least.
Print Assumptions C18_gossip_is_join.
Print Assumptions C18_exchange_round.
Print Assumptions C18_reachable_well_formed.
Print Assumptions C18_exchange_round_after_any_history.
Print Assumptions C18_gossip_sent_iff.
Print Assumptions C18_fixpoint.
Print Assumptions C18_fixpoint_stable_without_failure_detection_partial.
Print Assumptions C18_converged_decided.
Print Assumptions C18_unconditional_refuted.
Print Assumptions C18_a_healthy_members_churn_refuted.
Print Assumptions C18_b_removed_member_resurrected_refuted.
Print Assumptions C18_c_two_leaders_refuted.
Print Assumptions C18_c2_new_incarnation_not_propagated_refuted.
Print Assumptions C18_d_leave_not_announced.
Print Assumptions C18_d_left_node_stays_refuted.
Print Assumptions C18_e_restart_shadowed_refuted.
Print Assumptions C18_e2_fresh_id_restart_refuted.
Print Assumptions C18_f_learned_member_keeps_foreign_lastseen.
Print Assumptions C18_clean_vector_order_is_membership_order.
Print Assumptions C18_clean_suppression_sound.
Print Assumptions C18_clean_history_converges.
Print Assumptions C18_unconditional_on_clean_histories.
Print Assumptions C18_g_crash_undetected_without_failure_detection_refuted.
Print Assumptions C18_h_unconnected_seed_lists_stay_apart.
Print Assumptions C18_failure_detector_removes_exactly.
Print Assumptions C18_failure_detector_suspects_exactly.
Print Assumptions C18_default_quorum_is_at_least_one_up.
Print Assumptions C18_gossip_targets_exactly.
