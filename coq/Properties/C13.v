(** C13 (registered-message half) — the codec is total: decoding an arbitrary byte string as an
    envelope, a registered message, a nested message or a handshake returns a value or an error; it
    never crashes, never loops and never allocates out of proportion to the input (at most 10 — envelope
    11 — bytes per input byte plus one capped 2 MiB map).  Encoding any value of the message universe returns bytes or an error.  A failed decode
    leaves the caller's state untouched.

    Statements only; every proof is [exact <lemma>].  Reading guide:
    - the model's decoders are total Gallina functions, so "never loops" is termination of the model
      PLUS the absence of the artificial outcome [MEFuel] (the nesting budget is never exhausted);
      "never panics" is the absence of the outcome [MECrash] (a panic nothing recovers);
    - [fst (d bs)] is the number of bytes the Go reader allocates from wire-supplied sizes while decoding
      [bs] (copies made by ReadBytes; [make(map, n)] weighted by a lower bound of the slot size);
    - user code (Codec, ActorRef factory) is universally quantified and assumed to return a value or an
      error ([*_total] hypotheses). *)
From Coq Require Import List NArith ZArith Lia.
From stdpp Require Import gmap.
From Vivid Require Import Codec.Prim Codec.MsgPrim Codec.MsgPrimProofs Cluster.VV
  Codec.ClusterMsgs Codec.ClusterMsgsProofs Codec.Msgs Codec.MsgsProofs Codec.MsgsTotalProofs
  Codec.Envelope Codec.EnvelopeProofs Codec.MsgsWitnesses.
Local Open Scope N_scope.

(** * decoding: every byte string, every entry point *)
Theorem C13_decode_total_message U hc (cenc : U -> mres bytes) (cdec : bytes -> mres U) qerr (newref : bytes -> bytes -> mres (bytes * bytes)) :
  (forall (u : U) e, cenc u = MErr e -> ~ (e = MECrash \/ e = MEFuel)) ->
  (forall d e, cdec d = MErr e -> ~ (e = MECrash \/ e = MEFuel)) ->
  (forall a p e, newref a p = MErr e -> ~ (e = MECrash \/ e = MEFuel)) ->
  forall (k : kind) (bs : bytes) e,
    drun (deserialize_remoting U hc cdec qerr newref k) bs = MErr e -> ~ (e = MECrash \/ e = MEFuel).
Proof. exact (deserialize_safe U hc cenc cdec qerr newref). Qed.
Theorem C13_decode_total_read_message U hc (cenc : U -> mres bytes) (cdec : bytes -> mres U) qerr (newref : bytes -> bytes -> mres (bytes * bytes)) :
  (forall (u : U) e, cenc u = MErr e -> ~ (e = MECrash \/ e = MEFuel)) ->
  (forall d e, cdec d = MErr e -> ~ (e = MECrash \/ e = MEFuel)) ->
  (forall a p e, newref a p = MErr e -> ~ (e = MECrash \/ e = MEFuel)) ->
  forall (bs : bytes) e,
    drun (read_message U hc cdec qerr newref) bs = MErr e -> ~ (e = MECrash \/ e = MEFuel).
Proof. exact (read_message_safe U hc cenc cdec qerr newref). Qed.
Theorem C13_decode_total_envelope U hc (cenc : U -> mres bytes) (cdec : bytes -> mres U) qerr (newref : bytes -> bytes -> mres (bytes * bytes)) :
  (forall (u : U) e, cenc u = MErr e -> ~ (e = MECrash \/ e = MEFuel)) ->
  (forall d e, cdec d = MErr e -> ~ (e = MECrash \/ e = MEFuel)) ->
  (forall a p e, newref a p = MErr e -> ~ (e = MECrash \/ e = MEFuel)) ->
  forall (bs : bytes) e,
    drun (dec_envelope U hc cdec qerr newref) bs = MErr e -> ~ (e = MECrash \/ e = MEFuel).
Proof. exact (dec_envelope_safe U hc cenc cdec qerr newref). Qed.
Theorem C13_decode_total_handshake (bs : bytes) e :
  drun dec_handshake bs = MErr e -> ~ (e = MECrash \/ e = MEFuel).
Proof. exact (safe_handshake bs e). Qed.
(** with any budget larger than the input, whatever the nesting depth *)
Theorem C13_fuel_sufficient U hc (cenc : U -> mres bytes) (cdec : bytes -> mres U) qerr (newref : bytes -> bytes -> mres (bytes * bytes)) :
  (forall (u : U) e, cenc u = MErr e -> ~ (e = MECrash \/ e = MEFuel)) ->
  (forall d e, cdec d = MErr e -> ~ (e = MECrash \/ e = MEFuel)) ->
  (forall a p e, newref a p = MErr e -> ~ (e = MECrash \/ e = MEFuel)) ->
  forall fuel (k : kind) (bs : bytes) e, (length bs < fuel)%nat ->
    drun (dec_body U hc cdec qerr newref fuel k) bs = MErr e -> ~ (e = MECrash \/ e = MEFuel).
Proof. exact (dec_body_safe U hc cenc cdec qerr newref). Qed.
(** the cluster view reader on its own (its member loop is bounded by the input, not by the count) *)
Theorem C13_decode_total_view (bs : bytes) e : drun dec_view bs = MErr e -> ~ (e = MECrash \/ e = MEFuel).
Proof. exact (safe_view bs e). Qed.

(** * allocation *)
(** flat entry points (every registered type except the three nesting ones and the three that carry a
    ClusterView): on success the bytes allocated are covered by the bytes consumed plus 4 MiB (two
    65536-entry maps), on failure by the whole input plus 4 MiB *)
Theorem C13_alloc_flat U hc cdec qerr newref fuel k :
  match k with
  | K_PipeResult | K_Scheduler | K_SingletonFwd | K_JoinResponse | K_Gossip | K_GetViewResponse => false
  | _ => true
  end = true ->
  forall bs : bytes,
    match dec_body U hc cdec qerr newref (S fuel) k bs with
    | (a, MOk (_, bs')) => (length bs' <= length bs)%nat /\ a + N.of_nat (length bs') <= N.of_nat (length bs) + 4194304
    | (a, MErr _) => a <= N.of_nat (length bs) + 4194304
    end.
Proof. exact (alloc_flat U hc cdec qerr newref fuel k). Qed.
Theorem C13_alloc_handshake (bs : bytes) :
  match dec_handshake bs with
  | (a, MOk (_, bs')) => (length bs' <= length bs)%nat /\ a + N.of_nat (length bs') <= N.of_nat (length bs) + 4100
  | (a, MErr _) => a <= N.of_nat (length bs) + 4100
  end.
Proof. exact (addb_handshake bs). Qed.
Theorem C13_alloc_mapss (bs : bytes) :
  match dec_mapss bs with
  | (a, MOk (_, bs')) => (length bs' <= length bs)%nat /\ a + N.of_nat (length bs') <= N.of_nat (length bs) + 2097152
  | (a, MErr _) => a <= N.of_nat (length bs) + 2097152
  end.
Proof. exact (addb_mapss bs). Qed.
(** every decoder of the universe, nested messages and cluster views included: on success at most 10
    bytes are allocated per byte consumed; on failure at most 10 per input byte plus 2 MiB (the one
    capped map or version vector whose announced entries the input did not deliver).  The member count of
    a ClusterView is checked against the remaining input before the map is allocated; nested message
    bodies are decoded in place. *)
Theorem C13_alloc_message U hc cdec qerr newref (k : kind) (bs : bytes) :
  match deserialize_remoting U hc cdec qerr newref k bs with
  | (a, MOk (_, bs')) => (length bs' <= length bs)%nat /\ a + 10 * N.of_nat (length bs') <= 10 * N.of_nat (length bs)
  | (a, MErr _) => a <= 10 * N.of_nat (length bs) + 2097152
  end.
Proof. exact (deserialize_linb U hc cdec qerr newref k bs). Qed.
Theorem C13_alloc_read_message U hc cdec qerr newref (bs : bytes) :
  match read_message U hc cdec qerr newref bs with
  | (a, MOk (_, bs')) => (length bs' <= length bs)%nat /\ a + 10 * N.of_nat (length bs') <= 10 * N.of_nat (length bs)
  | (a, MErr _) => a <= 10 * N.of_nat (length bs) + 2097152
  end.
Proof. exact (read_message_linb U hc cdec qerr newref bs). Qed.
Theorem C13_alloc_envelope U hc cdec qerr newref (bs : bytes) :
  match dec_envelope U hc cdec qerr newref bs with
  | (a, MOk (_, bs')) => (length bs' <= length bs)%nat /\ a + 11 * N.of_nat (length bs') <= 11 * N.of_nat (length bs)
  | (a, MErr _) => a <= 11 * N.of_nat (length bs) + 2097152
  end.
Proof. exact (dec_envelope_linb U hc cdec qerr newref bs). Qed.
Theorem C13_alloc_view (bs : bytes) :
  match dec_view bs with
  | (a, MOk (_, bs')) => (length bs' <= length bs)%nat /\ a + 10 * N.of_nat (length bs') <= 10 * N.of_nat (length bs)
  | (a, MErr _) => a <= 10 * N.of_nat (length bs) + 2097152
  end.
Proof. exact (linb_view bs). Qed.

(** * encoding: every value of the universe, nil / typed-nil / non-pointer messages and nil fields
    included, gives bytes or an error *)
Theorem C13_encode_total U hc (cenc : U -> mres bytes) :
  (forall (u : U) e, cenc u = MErr e -> ~ (e = MECrash \/ e = MEFuel)) ->
  forall (m : msg U) e, enc_body U hc cenc m = MErr e -> ~ (e = MECrash \/ e = MEFuel).
Proof. exact (enc_body_safe U hc cenc). Qed.
Theorem C13_encode_total_write_message U hc (cenc : U -> mres bytes) :
  (forall (u : U) e, cenc u = MErr e -> ~ (e = MECrash \/ e = MEFuel)) ->
  forall (m : msg U) e, write_message U hc cenc m = MErr e -> ~ (e = MECrash \/ e = MEFuel).
Proof. exact (write_message_safe U hc cenc). Qed.
Theorem C13_encode_total_envelope U hc (cenc : U -> mres bytes) :
  (forall (u : U) e, cenc u = MErr e -> ~ (e = MECrash \/ e = MEFuel)) ->
  forall (e : envelope U) er, enc_envelope U hc cenc e = MErr er -> ~ (er = MECrash \/ er = MEFuel).
Proof. exact (enc_envelope_safe U hc cenc). Qed.
(** the nil fields the property names are errors, not crashes *)
Theorem C13_encode_nil_fields :
  (forall r, enc_PongMessage None r = MErr MERecovered) /\
  w_enc (M_TypedNil K_Ping) = MErr MERecovered /\
  (forall u ref, enc_body wU false w_cenc (M_Scheduler ref (M_Outside u)) = MErr MENoCodec) /\
  perr_wire PETypedNil = MErr MERecovered.
Proof. exact (conj (fun _ => eq_refl) (conj eq_refl (conj (fun u ref => eq_refl) eq_refl))). Qed.

(** * a failed decode leaves the caller's values untouched *)
(** Handshake.Wait decodes into its receiver: after a failure the address is the old one *)
Theorem C13_no_clobber_handshake old stream e :
  drun dec_handshake stream = MErr e -> handshake_wait old stream = (old, Some e).
Proof. exact (handshake_no_clobber old stream e). Qed.
(** message decoders write into a fresh instance that is dropped on error: the entry points return
    EITHER a message OR an error (in the model by construction of [mres]; on the real code the harness
    checks that no entry point returns an error together with a message) *)
Theorem C13_no_clobber_result U hc cdec qerr newref k bs :
  (exists m rest, drun (deserialize_remoting U hc cdec qerr newref k) bs = MOk (m, rest)) \/
  (exists e, drun (deserialize_remoting U hc cdec qerr newref k) bs = MErr e).
Proof. exact (match drun (deserialize_remoting U hc cdec qerr newref k) bs as r return (exists m rest, r = MOk (m, rest)) \/ (exists e, r = MErr e) with MOk (m, rest) => or_introl (ex_intro _ m (ex_intro _ rest eq_refl)) | MErr e => or_intror (ex_intro _ e eq_refl) end). Qed.

(** a failed decode does not poison the next one: immediate in the functional model (a decode is a
    function of its input); the real decoders draw Readers from a sync.Pool, and that a failed decode
    leaves no sticky error / position / buffer behind is DECIDED ON THE IMPLEMENTATION by the harness's
    decode histories (monitor decode-after-failed-decode) *)
Theorem C13_decode_history_independent U hc cdec qerr newref (pre : list bytes) (bs : bytes) d :
  List.last (map (fun b => drun (read_message U hc cdec qerr newref) b) (pre ++ [bs])) d =
  drun (read_message U hc cdec qerr newref) bs.
Proof. exact (last_of_history (fun b => drun (read_message U hc cdec qerr newref) b) pre bs d). Qed.

(** * non-vacuity *)
Example C13_ex_codec_total :
  (forall (u : wU) e, w_cenc u = MErr e -> ~ (e = MECrash \/ e = MEFuel)) /\
  (forall d e, w_cdec d = MErr e -> ~ (e = MECrash \/ e = MEFuel)) /\
  (forall a p e, w_newref a p = MErr e -> ~ (e = MECrash \/ e = MEFuel)).
Proof.
  repeat split; intros; try discriminate.
  - injection H as <-. intros [X|X]; discriminate.
  - injection H as <-. intros [X|X]; discriminate.
Qed.
Example C13_ex_decode_error :
  drun (deserialize_remoting wU false w_cdec w_qerr w_newref K_JoinResponse) [0; 0; 0; 1; 255] = MErr (ME EEOF).
Proof. vm_compute. reflexivity. Qed.

Print Assumptions C13_decode_total_message.
Print Assumptions C13_decode_total_read_message.
Print Assumptions C13_decode_total_envelope.
Print Assumptions C13_decode_total_handshake.
Print Assumptions C13_fuel_sufficient.
Print Assumptions C13_decode_total_view.
Print Assumptions C13_alloc_flat.
Print Assumptions C13_alloc_handshake.
Print Assumptions C13_alloc_mapss.
Print Assumptions C13_alloc_message.
Print Assumptions C13_alloc_read_message.
Print Assumptions C13_alloc_envelope.
Print Assumptions C13_alloc_view.
Print Assumptions C13_encode_total.
Print Assumptions C13_encode_total_write_message.
Print Assumptions C13_encode_total_envelope.
Print Assumptions C13_encode_nil_fields.
Print Assumptions C13_no_clobber_handshake.
Print Assumptions C13_no_clobber_result.
Print Assumptions C13_decode_history_independent.
