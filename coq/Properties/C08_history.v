(** C08 over whole histories: "its parent's strategy is consulted exactly once for that failure".

    Properties/C08.v has the one-handler statement ([C08_consulted_once]: the handling of one failure report by a
    live supervisor consumes exactly one answer of its decision maker and issues exactly one directive).  Here that
    is lifted to EVERY event list of the ActorCore machine (Actor/Core.v): the decision maker of a context is the
    list [sp_decisions] of its spec (what the scripted decision maker of the harness answers, call by call; an
    exhausted one answers Stop), [a_decisions] is what is left of it, and [consults a evs s] (Actor/SpecConsult.v)
    counts the handler calls of [a] along the run [evs] on a failure report that HandleEnvelop really handles
    ([consulting]: not the dead-letter branch - a supervisor that is itself stopping, or in the middle of its own
    restart, or a zombie, still handles system messages - and a strategy is configured).
    Statements only; proofs in Actor/ProofsConsult.v. *)
From Coq Require Import List NArith ZArith Bool.
From Vivid Require Import Actor.Core Actor.CoreRun Actor.SpecMail Actor.SpecSup Actor.SpecConsult Actor.ProofsConsult.
Import ListNotations.

(** every history of every system, every context: what is left of its decision maker is what remains after exactly
    as many answers as the number of failure reports it has handled.  So along every run each handled report is
    answered by exactly one call of the decision maker (not zero: the supervisor being in its own stop / restart
    sequence does not short-cut the strategy; not two), and nothing else - no restart of the supervisor, no other
    message, no other actor - ever consumes or re-winds an answer *)
Theorem C08_decisions_track_consultations scs evs a x :
  get (run_events evs (init_with scs)) a = Some x ->
  a_decisions x = skipn (consults a evs (init_with scs)) (sp_decisions (a_spec x)).
Proof. exact (decisions_track_consults scs evs a x). Qed.

(** ... and the directive of the report handled next is decided by the k-th answer, k = the number of reports
    handled so far: HandleEnvelop's whole program for the report is "pause the strategy's targets, apply that answer" *)
Theorem C08_next_report_gets_kth_answer scs evs a x e c :
  get (run_events evs (init_with scs)) a = Some x -> e_msg e = MSup c -> consulting x e = true ->
  exists ds targets,
    dispatch (run_events evs (init_with scs)) a x e =
      (set_actor (run_events evs (init_with scs)) a
         (set_decisions (set_mb x (a_sq x) (a_uq x) (a_paused x) (a_cons x) (Some e)) ds),
       [ISupPause c (kth_decision x (consults a evs (init_with scs))) targets []; IEndHandler]) /\
    ds = skipn (S (consults a evs (init_with scs))) (sp_decisions (a_spec x)).
Proof. exact (next_decision_is_kth scs evs a x e c). Qed.

(** one event: exactly the handling of a report by a context with a strategy consumes an answer, of that context,
    exactly one; every other event leaves every decision maker and every spec alone; a context created by the event
    starts with its whole decision maker *)
Theorem C08_step_consumes_exactly_the_consultation s ev :
  (forall a x, get s a = Some x ->
     exists x', get (step s ev) a = Some x' /\ a_spec x' = a_spec x /\
                a_decisions x' = match consult1 s ev a with O => a_decisions x | S _ => tl (a_decisions x) end) /\
  (forall a x', get s a = None -> get (step s ev) a = Some x' -> a_decisions x' = sp_decisions (a_spec x')).
Proof. exact (step_evolves s ev). Qed.

(** ============================ example ============================ *)
Local Open Scope N_scope.

(** the case the one-handler theorem's hypothesis "live supervisor" is about: supervisor /1 (one-for-one, answers
    Resume, Stop, Restart) tells its child a failing message and poison-kills ITSELF; both failures of the child (7
    and 10) are reported while the supervisor is already stopping (state Killing, waiting for the child).  It consults
    its strategy for each: first answer Resume (the child goes on), second answer Stop (the child is killed
    immediately); the third answer is never used *)
Definition ex_c : spec := Spec 1 [] [] [] 0 [] true [] false.
Definition ex_p : spec := Spec 1 [ASpawn ex_c] [] [] 1 [DResume; DStop; DRestart] true [] false.
Definition ex_scs : list (list action) :=
  [[ASpawn ex_p]; [ATell (XPath [1;1]) 7 [APanic]; ATell (XPath [1]) 9 [ATell (XChild 1) 10 [APanic]; AKill XSelf true]]].
Definition ex_s0 : state := init_with ex_scs.
Definition ex_evs1 : list event := Eval vm_compute in drive 400 [TX 0; TA 0; TA 1; TA 2] ex_s0.
Definition ex_evs : list event := Eval vm_compute in ex_evs1 ++ drive_all 600 (run_events ex_evs1 ex_s0).

Example C08_ex_stopping_supervisor_still_consults :
  let at_report n := run_events (firstn n ex_evs) ex_s0 in
  (exists x e c, get (at_report 44%nat) 1%nat = Some x /\ a_cons x = CH e /\ e_msg e = MSup c /\ a_state x = Killing /\
                 consulting x e = true /\ consults 1%nat (firstn 44%nat ex_evs) ex_s0 = 0%nat /\
                 kth_decision x 0%nat = DResume) /\
  (exists x e c, get (at_report 67%nat) 1%nat = Some x /\ a_cons x = CH e /\ e_msg e = MSup c /\ a_state x = Killing /\
                 consulting x e = true /\ consults 1%nat (firstn 67%nat ex_evs) ex_s0 = 1%nat /\
                 kth_decision x 1%nat = DStop) /\
  let sf := run_events ex_evs ex_s0 in
  err sf = false /\ quiescent sf = true /\ consults 1%nat ex_evs ex_s0 = 2%nat /\
  (exists x, get sf 1%nat = Some x /\ a_decisions x = [DRestart]).
Proof.
  cbv zeta. split; [|split].
  - vm_compute. do 3 eexists. repeat split.
  - vm_compute. do 3 eexists. repeat split.
  - vm_compute. repeat split. eexists. split; reflexivity.
Qed.

Print Assumptions C08_decisions_track_consultations.
Print Assumptions C08_next_report_gets_kth_answer.
Print Assumptions C08_step_consumes_exactly_the_consultation.
