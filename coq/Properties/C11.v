(** C11 — Remote delivery over a healthy link: exactly once and in order.
    Statements only; every proof is [exact <lemma>] (Remoting/FrameProofs.v).  Model: Remoting/Frame.v.

    [receive dec chunks] is the receiver as coded: a buffer refilled by an ARBITRARY list of reads
    ([chunks] = what successive conn.Read calls return), io.ReadFull of the 4-byte big-endian length, the
    zero-length close marker, the > 4 MiB discard, decode-failure-continues.  [conn_receive] puts
    Handshake.Wait in front of it.  [frame b = u32be(len b) ++ b] is what the sender writes. *)
From Coq Require Import List NArith ZArith Lia.
From Vivid Require Import Codec.Prim Remoting.Frame Remoting.FrameProofs Remoting.Churn Remoting.ChurnProofs.
Import ListNotations.
Local Open Scope N_scope.

(** the receiver depends only on the concatenation of the reads (proved, not assumed) *)
Theorem C11_chunking_independent :
  forall (D : Type) (dec : bytes -> option D) (chunks : list bytes),
    receive dec chunks = receive_stream dec (concat chunks).
Proof. exact (@receive_chunking_independent). Qed.

Theorem C11_handshake_chunking_independent :
  forall (D : Type) (dec : bytes -> option D) (chunks : list bytes),
    conn_receive dec chunks = conn_receive_stream dec (concat chunks).
Proof. exact (@conn_receive_chunking_independent). Qed.

(** the fuel of the model's loop never runs out *)
Theorem C11_model_fuel_suffices :
  forall (D : Type) (dec : bytes -> option D) (chunks : list bytes), ~ In RFuel (receive dec chunks).
Proof. exact (@receive_no_fuel). Qed.

(** exactly once, in order, intact: every message list whose envelopes have 1 .. 4 MiB bytes, EVERY way of
    cutting the byte stream into reads.  [codec round trip] is the hypothesis (C12 / user codec contract). *)
Theorem C11_exactly_once_in_order :
  forall (M : Type) (enc : M -> bytes) (dec : bytes -> option M),
    (forall m, dec (enc m) = Some m) ->
    forall (ms : list M) (chunks : list bytes),
      Forall (fun m => 1 <= N.of_nat (length (enc m)) <= max_frame) ms ->
      concat chunks = concat (map (fun m => frame (enc m)) ms) ->
      receive dec chunks = map RMsg ms ++ [REof] /\ delivered (receive dec chunks) = ms.
Proof. exact (@exactly_once_in_order). Qed.

(** the same for a whole connection: handshake then frames, any chunking (a read may end inside the
    handshake, or carry the handshake together with the first frames) *)
Theorem C11_exactly_once_in_order_with_handshake :
  forall (M : Type) (enc : M -> bytes) (dec : bytes -> option M),
    (forall m, dec (enc m) = Some m) ->
    forall (addr : bytes) (ms : list M) (chunks : list bytes),
      N.of_nat (length addr) <= hs_max ->
      Forall (fun m => 1 <= N.of_nat (length (enc m)) <= max_frame) ms ->
      concat chunks = handshake addr ++ concat (map (fun m => frame (enc m)) ms) ->
      conn_receive dec chunks = CConn addr (map RMsg ms ++ [REof]).
Proof. exact (@conn_exactly_once). Qed.

(** non-vacuity: two messages (one byte and three bytes), the stream cut inside the first length prefix,
    inside a body and across the frame boundary *)
Example C11_exactly_once_example :
  let enc := fun b : bytes => b in
  let ms := [[7]; [1; 2; 3]] in
  let chunks := [[0; 0]; [0; 1; 7; 0]; [0; 0; 3; 1]; [2; 3]] in
  (forall m, Some (enc m) = Some m) /\
  Forall (fun m => 1 <= N.of_nat (length (enc m)) <= max_frame) ms /\
  concat chunks = concat (map (fun m => frame (enc m)) ms) /\
  receive (fun b => Some b) chunks = map RMsg ms ++ [REof].
Proof.
  cbn zeta. split; [reflexivity|].
  split; [constructor; [unfold max_frame; cbn; lia|constructor; [unfold max_frame; cbn; lia|constructor]]|].
  split; reflexivity.
Qed.

(** an empty body IS the close handshake: the reader stops there and never looks at what follows ... *)
Theorem C11_empty_body_is_close :
  forall (D : Type) (dec : bytes -> option D) (f : nat) (rest : bytes),
    parse dec (S f) (frame [] ++ rest) = [RClose].
Proof. exact (@parse_close_step). Qed.

(** ... but no envelope is empty: at least 25 bytes (4+4+1+4*4 of lengths and the system flag), so a message
    frame is never mistaken for the close marker; and the sender refuses an empty body anyway *)
Theorem C11_envelope_never_empty :
  forall e : env, 25 <= N.of_nat (length (env_encode e)).
Proof. exact env_encode_min. Qed.

Theorem C11_envelope_frame_is_not_close :
  forall (f : nat) (e : env) (rest : bytes),
    N.of_nat (length (env_encode e)) <= max_frame ->
    exists ev, parse env_dec (S f) (frame (env_encode e) ++ rest) = ev :: parse env_dec f rest /\ ev <> RClose.
Proof. exact envelope_frame_not_close. Qed.

Theorem C11_sender_writes_only_legal_frames :
  forall b fr : bytes, send_frame b = Some fr -> (1 <= N.of_nat (length b) <= max_frame) /\ fr = frame b.
Proof. exact send_frame_legal. Qed.

(** envelope layout round trip (payload, message name, system flag, four address/path strings); trailing
    bytes are ignored by the reader *)
Theorem C11_envelope_roundtrip :
  forall (e : env) (junk : bytes), env_len32 e -> env_parse (env_encode e ++ junk) = Ok e.
Proof. exact env_roundtrip. Qed.

(** the sender reference seen by the receiver designates the original sender (so Reply reaches it): the
    receiver rebuilds, with NewRef, exactly the refs whose GetAddress()/GetPath() the encoder wrote.
    Hypotheses: NormalizeAddress / NormalizePath are idempotent (checked on the implementation each run). *)
Theorem C11_sender_ref :
  forall norm_addr norm_path : bytes -> option bytes,
    (forall a a', norm_addr a = Some a' -> norm_addr a' = Some a') ->
    (forall p p', norm_path p = Some p' -> norm_path p' = Some p') ->
    forall (e : env) (junk a1 p1 a2 p2 : bytes) (s r : bytes * bytes),
      new_ref norm_addr norm_path a1 p1 = Some s ->
      new_ref norm_addr norm_path a2 p2 = Some r ->
      e_saddr e = fst s -> e_spath e = snd s -> e_raddr e = fst r -> e_rpath e = snd r ->
      env_len32 e ->
      exists e', env_parse (env_encode e ++ junk) = Ok e' /\ handle_refs norm_addr norm_path e' = Some (s, r).
Proof. exact sender_ref. Qed.

(** non-vacuity: a normaliser that strips leading blanks and rejects the empty string is idempotent *)
Fixpoint ltrim (b : bytes) : bytes := match b with 32 :: r => ltrim r | _ => b end.
Definition norm_ex (b : bytes) : option bytes := match ltrim b with [] => None | t => Some t end.
Example C11_sender_ref_example :
  (forall a a', norm_ex a = Some a' -> norm_ex a' = Some a') /\
  new_ref norm_ex norm_ex [32; 32; 97; 58; 49] [32; 47; 120] = Some ([97; 58; 49], [47; 120]).
Proof.
  split; [|reflexivity].
  assert (I : forall b, ltrim (ltrim b) = ltrim b).
  { induction b as [|x r IH]; [reflexivity|]. cbn [ltrim]. destruct x as [|p]; [reflexivity|].
    repeat (destruct p as [p|p|]; try reflexivity). exact IH. }
  intros a a'. unfold norm_ex. destruct (ltrim a) eqn:E; [discriminate|]. intros [= <-].
  rewrite <- E, I, E. reflexivity.
Qed.

(** ---- receiver churn (model: Remoting/Churn.v; proofs: Remoting/ChurnProofs.v) ----
    The receiving system resolves the receiver of every inbound envelope AT ARRIVAL TIME against the actors
    registered then ([registry]: path -> (incarnation, restart epoch)).  A script interleaves spawn / kill /
    restart steps of the receiving system with the reads of one healthy connection ([STraffic chunks]).
    [run_churn] lists, in order, what happens to every decoded message: [ODeliver p a m] (enqueued into the
    mailbox of the actor [a] registered at p) or [ODead p m] (dead letter on the receiving system). *)

(** every message of a traffic phase, anywhere in a script, is dispatched exactly once and in order against the
    registry as it is when the phase begins, for every chunking of the phase's bytes *)
Theorem C11_churn_phase_exactly_once :
  forall (M : Type) (enc : M -> bytes) (dec : bytes -> option M) (rpath : M -> bytes),
    (forall m, dec (enc m) = Some m) ->
    forall (pre post : list step) (ms : list M) (chunks : list bytes) (r : registry),
      Forall (fun m => 1 <= N.of_nat (length (enc m)) <= max_frame) ms ->
      concat chunks = concat (map (fun m => frame (enc m)) ms) ->
      run_churn dec rpath (pre ++ STraffic chunks :: post) r =
        run_churn dec rpath pre r ++ map (dispatch rpath (reg_after pre r)) ms
          ++ run_churn dec rpath post (reg_after pre r).
Proof. exact (@churn_phase). Qed.

(** name reuse: after "the actor at p was killed; a new actor i was spawned at p" - whatever the history [pre],
    in particular earlier remote traffic to p and earlier incarnations - the messages sent to p are delivered to
    incarnation i exactly once, in order, and none is dead-lettered *)
Theorem C11_respawned_actor_receives :
  forall (M : Type) (enc : M -> bytes) (dec : bytes -> option M) (rpath : M -> bytes),
    (forall m, dec (enc m) = Some m) ->
    forall (pre : list step) (p : bytes) (i : N) (ms : list M) (chunks : list bytes) (r : registry),
      Forall (fun m => 1 <= N.of_nat (length (enc m)) <= max_frame) ms ->
      Forall (fun m => rpath m = p) ms ->
      concat chunks = concat (map (fun m => frame (enc m)) ms) ->
      run_churn dec rpath (pre ++ [SKill p; SSpawn p i; STraffic chunks]) r =
        run_churn dec rpath pre r ++ map (ODeliver p {| i_inc := i; i_epoch := 0 |}) ms.
Proof. exact (@churn_respawn_delivers). Qed.

(** a supervision restart keeps the registration: same incarnation, next epoch *)
Theorem C11_restarted_actor_receives :
  forall (M : Type) (enc : M -> bytes) (dec : bytes -> option M) (rpath : M -> bytes),
    (forall m, dec (enc m) = Some m) ->
    forall (pre : list step) (p : bytes) (a : inst) (ms : list M) (chunks : list bytes) (r : registry),
      lookup p (reg_after pre r) = Some a ->
      Forall (fun m => 1 <= N.of_nat (length (enc m)) <= max_frame) ms ->
      Forall (fun m => rpath m = p) ms ->
      concat chunks = concat (map (fun m => frame (enc m)) ms) ->
      run_churn dec rpath (pre ++ [SRestart p; STraffic chunks]) r =
        run_churn dec rpath pre r ++ map (ODeliver p {| i_inc := i_inc a; i_epoch := i_epoch a + 1 |}) ms.
Proof. exact (@churn_restart_delivers). Qed.

(** while nobody is registered at p the messages are dead letters on the receiving system, in order *)
Theorem C11_killed_actor_dead_letters :
  forall (M : Type) (enc : M -> bytes) (dec : bytes -> option M) (rpath : M -> bytes),
    (forall m, dec (enc m) = Some m) ->
    forall (pre : list step) (p : bytes) (ms : list M) (chunks : list bytes) (r : registry),
      Forall (fun m => 1 <= N.of_nat (length (enc m)) <= max_frame) ms ->
      Forall (fun m => rpath m = p) ms ->
      concat chunks = concat (map (fun m => frame (enc m)) ms) ->
      run_churn dec rpath (pre ++ [SKill p; STraffic chunks]) r =
        run_churn dec rpath pre r ++ map (ODead p) ms.
Proof. exact (@churn_killed_dead_letters). Qed.

(** non-vacuity: path [47] ("/"), messages are their own encoding and all go to that path; incarnation 1 gets
    [7], is killed, incarnation 2 is spawned under the same name and gets [8] and [9] (the stream cut inside a
    length prefix), is restarted and gets [5] *)
Example C11_churn_example :
  let enc := fun b : bytes => b in
  let rp := fun _ : bytes => [47] in
  let script := [SSpawn [47] 1; STraffic [[0; 0; 0; 1; 7]]; SKill [47]; SSpawn [47] 2;
                 STraffic [[0; 0]; [0; 1; 8; 0; 0; 0; 1; 9]]; SRestart [47]; STraffic [[0; 0; 0; 1; 5]]] in
  (forall m, Some (enc m) = Some m) /\
  Forall (fun m => 1 <= N.of_nat (length (enc m)) <= max_frame) [[8]; [9]] /\
  concat [[0; 0]; [0; 1; 8; 0; 0; 0; 1; 9]] = concat (map (fun m => frame (enc m)) [[8]; [9]]) /\
  lookup [47] (reg_after [SSpawn [47] 1; STraffic [[0; 0; 0; 1; 7]]; SKill [47]; SSpawn [47] 2] []) =
    Some {| i_inc := 2; i_epoch := 0 |} /\
  run_churn (fun b => Some b) rp script [] =
    [ODeliver [47] {| i_inc := 1; i_epoch := 0 |} [7];
     ODeliver [47] {| i_inc := 2; i_epoch := 0 |} [8]; ODeliver [47] {| i_inc := 2; i_epoch := 0 |} [9];
     ODeliver [47] {| i_inc := 2; i_epoch := 1 |} [5]].
Proof.
  cbn zeta. split; [reflexivity|].
  split; [constructor; [unfold max_frame; cbn; lia|constructor; [unfold max_frame; cbn; lia|constructor]]|].
  split; [reflexivity|]. split; reflexivity.
Qed.

Print Assumptions C11_chunking_independent.
Print Assumptions C11_handshake_chunking_independent.
Print Assumptions C11_model_fuel_suffices.
Print Assumptions C11_exactly_once_in_order.
Print Assumptions C11_exactly_once_in_order_with_handshake.
Print Assumptions C11_empty_body_is_close.
Print Assumptions C11_envelope_never_empty.
Print Assumptions C11_envelope_frame_is_not_close.
Print Assumptions C11_sender_writes_only_legal_frames.
Print Assumptions C11_envelope_roundtrip.
Print Assumptions C11_sender_ref.
Print Assumptions C11_churn_phase_exactly_once.
Print Assumptions C11_respawned_actor_receives.
Print Assumptions C11_restarted_actor_receives.
Print Assumptions C11_killed_actor_dead_letters.
