(** C06 - killing an actor terminates its whole subtree, children first, once each.

    Model: Actor/Core.v (ActorCore), tied to the real runtime by lock-step replay (bin/check C06).
    [reachable s]: s is the state after SOME event list (schedule) from the initial state with SOME external
    scripts; user code, supervision decisions and hook outcomes are data, so every theorem holds for all of them.
    Derived notions: Actor/SpecLife.v.  Statements only; proofs in Actor/ProofsLife*.v. *)
From Coq Require Import List NArith ZArith Bool.
From Vivid Require Import Base.Tm Actor.Core Actor.CoreRun Actor.SpecLife Actor.ProofsLife Actor.ProofsLifeInv Actor.ProofsLifeSum
  Actor.ProofsLifePhase Actor.ProofsLifeGen Actor.ProofsLifeTree Actor.ProofsLifeReg Actor.ProofsLifeTaint Actor.ProofsLifeKids Actor.ProofsLifeEx.
Import ListNotations.
Local Open Scope N_scope.

(** ============================ (a) state invariants ============================ *)

(** a context marked Killed has no children left (checkAndMarkKilled requires an empty children map, ActorOf is
    refused afterwards) *)
Theorem C06_killed_no_children s a x :
  reachable s -> get s a = Some x -> a_state x = Killed -> a_children x = [].
Proof. exact (killed_no_children s a x). Qed.

(** a zombie (failed restart) is Killed *)
Theorem C06_zombie_is_killed s a x :
  reachable s -> get s a = Some x -> a_zombie x = true -> a_state x = Killed.
Proof. exact (zombie_is_killed s a x). Qed.

(** a handler's instructions are pending only while the consumer is inside HandleEnvelop *)
Theorem C06_pending_implies_busy s a x :
  reachable s -> get s a = Some x -> a_pend x <> [] -> is_busy (a_cons x) = true.
Proof. exact (pending_implies_busy s a x). Qed.

(** the state only moves Running -> Killing -> Killed -> (Running): per atomic instruction, the state of the
    executing context changes only in [ICheckMark] and [IRestartFinish] ... *)
Theorem C06_state_changes_only_in s t h i s' front x :
  exec1 s t h i = (s', front) -> get s (self_of t) = Some x ->
  exists x', get s' (self_of t) = Some x' /\
    (i <> ICheckMark -> i <> IRestartFinish -> a_state x' = a_state x) /\
    (i <> IUnzombie -> i <> IRestartFinish -> a_zombie x' = a_zombie x).
Proof. exact (exec1_state_changes s t h i s' front x). Qed.

(** ... [ICheckMark] only moves Killing to Killed (and only without children) ... *)
Theorem C06_mark_step s t h x :
  get s (self_of t) = Some x ->
  (a_children x = [] /\ a_state x = Killing /\
   exists x', fst (exec1 s t h ICheckMark) = set_actor s (self_of t) x' /\ a_state x' = Killed /\ a_children x' = []) \/
  ((a_children x <> [] \/ a_state x <> Killing) /\ exec1 s t h ICheckMark = (s, [])).
Proof. exact (exec1_ICheckMark_cases s t h x). Qed.

(** ... HandleEnvelop itself only moves Running to Killing (OnKill, RestartMessage) and leaves the children
    map and the zombie flag alone *)
Theorem C06_dispatch_state s a x e s1 ins y :
  get s a = Some x -> dispatch s a x e = (s1, ins) -> get s1 a = Some y ->
  a_children y = a_children x /\ a_zombie y = a_zombie x /\
  (a_state y = a_state x \/ (a_state x = Running /\ a_state y = Killing)).
Proof. exact (dispatch_state_children s a x e s1 ins y). Qed.

(** ============================ (b) the cleanup notifies once ============================ *)

(** cleanupIfNotRestarting: UnsubscribeAll; registry delete; then the remaining instructions are exactly: one
    OnKilled(self) to the watchers (one Enqueue per watcher: [IEnqAny] over the watcher list), one OnKilled(self)
    to the parent (if any), one ActorKilledEvent, mailbox.Resume *)
Theorem C06_cleanup_notifies_once s t held x :
  get s (self_of t) = Some x ->
  exec1 s t held ICleanup =
    (set_reg (set_subs s (unsub_all (subs s) (a_path x))) (aremove (reg s) (a_path x)),
     (match a_watchers x with
      | [] => []
      | l => [IEnqAny true (map snd l) (RObj (self_of t)) (MKilled (RObj (self_of t)))]
      end)
     ++ (match a_parent x with
         | Some p => [IEnq true (RObj p) (RObj (self_of t)) (MKilled (RObj (self_of t))); IEnqDone]
         | None => []
         end)
     ++ [IPub evKilled (actor_key x); IResume1]).
Proof. exact (exec1_ICleanup s t held x). Qed.

(** the path is released: FindActor fails, the name can be registered again *)
Theorem C06_cleanup_releases_path (r : list (path * aid)) p : alookup (aremove r p) p = None.
Proof. exact (alookup_aremove_same r p). Qed.

(** other paths are not touched *)
Theorem C06_cleanup_keeps_others (r : list (path * aid)) p q : path_eqb q p = false -> alookup (aremove r p) q = alookup r q.
Proof. exact (alookup_aremove_other r p q). Qed.

(** the event-stream subscriptions are gone: no subscriber map contains the path any more *)
Theorem C06_cleanup_unsubscribes l p ty m : In (ty, m) (unsub_all l p) -> alookup m p = None.
Proof. exact (unsub_all_spec l p ty m). Qed.

(** a released context ([released], Actor/SpecLife.v: Killed, nothing pending that can lead to a cleanup or a
    restart, and the IUnzombie pending if it still is a zombie) stays released for ever ... *)
Theorem C06_released_is_final a s ev :
  reachable s -> (exists x, get s a = Some x /\ released x) -> err (step s ev) = false ->
  exists x', get (step s ev) a = Some x' /\ released x'.
Proof. exact (fun Hr => released_stable a s ev (SInv_reachable s Hr)). Qed.

(** ... and in every run every context executes its cleanup at most once ([run_tr]: the atomic instructions
    executed, Actor/SpecLife.v): nobody is reported terminated twice *)
Theorem C06_reported_at_most_once scs evs a :
  err (run_events evs (init_with scs)) = false ->
  (length (filter (is_cleanup_of a) (run_tr evs (init_with scs))) <= 1)%nat.
Proof. exact (cleanup_at_most_once scs evs a). Qed.

(** ============================ (c) children first, the whole subtree ============================ *)

(** the tree invariant behind it: a registered actor is in its parent's children map (and the parent exists).
    (The children entry is removed by identity - the fix of /repo 20ffea6; with removal by path the invariant was
    false: a late OnKilled of a released child dropped a new child of the same name.) *)
Theorem C06_registered_in_parent s c xc p :
  reachable s -> get s c = Some xc -> a_parent xc = Some p -> alookup (reg s) (a_path xc) = Some c ->
  exists xp, get s p = Some xp /\ alookup (a_children xp) (a_path xc) = Some c.
Proof. exact (registered_in_parent s c xc p). Qed.

(** an OnKilled naming a registered actor c is nowhere outside c's own context - not in anybody's queues, stash,
    current envelope or pending instructions ([taint], Actor/ProofsLifeTaint.v): c releases its path before it
    notifies anybody, so a parent only ever removes children that have released their path *)
Theorem C06_no_early_killed_notice s c xc q y :
  reachable s -> c <> 0%nat -> get s c = Some xc -> alookup (reg s) (a_path xc) = Some c ->
  get s q = Some y -> q <> c -> taint c y = false.
Proof. exact (no_early_killed_notice s c xc q y). Qed.

(** every context but the root is registered or released (its cleanup has run) *)
Theorem C06_registered_or_released s c xc :
  reachable s -> get s c = Some xc -> c <> 0%nat -> alookup (reg s) (a_path xc) = Some c \/ released xc.
Proof. exact (registered_or_released s c xc). Qed.

(** children first: when p has been marked Killed, every context whose parent is p is released (Killed, cleanup
    done: parent and watchers notified, ActorKilledEvent published) and its path is free *)
Theorem C06_children_first s p xp c xc :
  reachable s -> get s p = Some xp -> a_state xp = Killed ->
  get s c = Some xc -> a_parent xc = Some p ->
  released xc /\ alookup (reg s) (a_path xc) <> Some c.
Proof. exact (children_first s p xp c xc). Qed.

(** ... and so is every descendant ([below s p d]: d is reached from p by parent links): killing an actor
    terminates its whole subtree, and an actor is marked Killed only after all of its descendants have been *)
Theorem C06_subtree_terminated s p xp d :
  reachable s -> get s p = Some xp -> a_state xp = Killed -> below s p d ->
  exists xd, get s d = Some xd /\ released xd /\ alookup (reg s) (a_path xd) <> Some d.
Proof. exact (subtree_terminated s p xp d). Qed.

(** ============================ (d) the released name can be used again ============================ *)

(** once the path is free ([C06_cleanup_releases_path]) ActorOf of the same name by the same parent succeeds; the
    new context is registered under the path and its generation is above that of every earlier context of the path,
    namely (generation of the latest one) + 1 *)
Theorem C06_released_name_reusable s t h sp xp s' front :
  reachable s -> get s (self_of t) = Some xp -> a_state xp <> Killed -> sp_prelaunch sp = true ->
  alookup (reg s) (a_path xp ++ [sp_name sp]) = None ->
  exec1 s t h (IAct (ASpawn sp)) = (s', front) ->
  let p := a_path xp ++ [sp_name sp] in
  exists g, get s' (length (actors s)) = Some (new_actor p g (Some (self_of t)) sp) /\
            alookup (reg s') p = Some (length (actors s)) /\
            (forall b xb, get s b = Some xb -> b <> 0%nat -> a_path xb = p -> a_gen xb < g) /\
            ((exists b xb, get s b = Some xb /\ b <> 0%nat /\ a_path xb = p) ->
             exists b xb, get s b = Some xb /\ a_path xb = p /\ g = a_gen xb + 1).
Proof. exact (released_name_reusable s t h sp xp s' front). Qed.

(** ============================ examples ============================ *)

(** a parent (/1, context 1) with two children (/1/1, /1/2: contexts 2, 3) is killed by an external caller: all
    three end Killed with no children, the registry is empty again, the parent's behaviour has seen exactly two
    OnKilled of its children (and then its own), each child was reported before the parent, and each of the
    three contexts executed its cleanup exactly once *)
Example C06_ex_kill_tree :
  err tree_final = false /\ reg tree_final = [] /\
  map (fun x => (a_path x, a_state x, a_children x)) (actors tree_final) =
    [([], Running, []); ([1], Killed, []); ([1; 1], Killed, []); ([1; 2], Killed, [])] /\
  seen_of 1 (olog tree_final) =
    [MLaunch; MKill (RObj 0) false; MKilled (RObj 2); MKilled (RObj 3); MKilled (RObj 1)] /\
  map (fun p => match p with (TA b, _) => b | _ => 0%nat end)
      (filter (fun p => match p with (_, ICleanup) => true | _ => false end) (run_tr tree_events (init_with tree_scripts))) = [2; 3; 1]%nat.
Proof. vm_compute. repeat split. Qed.

(** a released context exists in a reachable state (hypotheses of [C06_released_is_final] are satisfiable) *)
Example C06_ex_released :
  reachable tree_final /\ exists x, get tree_final 2 = Some x /\ released x.
Proof.
  split; [exists tree_scripts, tree_events; split; [reflexivity|vm_compute; reflexivity]|].
  eexists. split; [vm_compute; reflexivity|]. vm_compute. repeat split. discriminate.
Qed.

(** the hypotheses of [C06_subtree_terminated] are satisfiable: in the killed tree, 2 and 3 are below 1 *)
Example C06_ex_below :
  below tree_final 1 2 /\ below tree_final 1 3 /\ exists x, get tree_final 1 = Some x /\ a_state x = Killed.
Proof.
  split; [eapply below_child; vm_compute; reflexivity|]. split; [eapply below_child; vm_compute; reflexivity|].
  eexists. split; vm_compute; reflexivity.
Qed.

(** name reuse: kill /1, then spawn /1 again: the second context has generation 1 *)
Example C06_ex_reuse :
  let scs := [[ASpawn (leaf 1); AKill (XHeld 0) false]; [ASpawn (leaf 1)]] in
  let s1 := run_events (EvStart 0 :: sched 200 (step (init_with scs) (EvStart 0))) (init_with scs) in
  let s2 := run_events (EvStart 1 :: sched 200 (step s1 (EvStart 1))) s1 in
  err s2 = false /\ map (fun x => (a_path x, a_gen x, a_state x)) (actors s2) = [([], 0, Running); ([1], 0, Killed); ([1], 1, Running)] /\
  reg s2 = [([1], 2%nat)].
Proof. vm_compute. repeat split. Qed.

Print Assumptions C06_killed_no_children.
Print Assumptions C06_zombie_is_killed.
Print Assumptions C06_pending_implies_busy.
Print Assumptions C06_state_changes_only_in.
Print Assumptions C06_mark_step.
Print Assumptions C06_dispatch_state.
Print Assumptions C06_cleanup_notifies_once.
Print Assumptions C06_cleanup_releases_path.
Print Assumptions C06_cleanup_keeps_others.
Print Assumptions C06_cleanup_unsubscribes.
Print Assumptions C06_released_is_final.
Print Assumptions C06_reported_at_most_once.
Print Assumptions C06_registered_in_parent.
Print Assumptions C06_no_early_killed_notice.
Print Assumptions C06_registered_or_released.
Print Assumptions C06_children_first.
Print Assumptions C06_subtree_terminated.
Print Assumptions C06_released_name_reusable.
