(** C02 - per-sender FIFO, system-before-user priority, stash order.
    Parts in this file: the ring queue under every mailbox (internal/queues/ring.go) and the stash
    (internal/actor/context.go Stash/Unstash).  Statements only; every proof is [exact <lemma>]
    (lemmas in Queue/RingProofs.v, Queue/StashProofs.v). *)
From Coq Require Import List Arith ZArith.
From Vivid Require Import Queue.Ring Queue.RingProofs Queue.Stash Queue.StashProofs.
Import ListNotations.

(** ================================ ring queue ================================ *)

(** (1) the representation invariant.  [ring_repr r l] (Queue/Ring.v): the buffer has m >= 1 slots, the
    cursors are inside it, fewer than m elements are stored, [len] is their number, tail = head + len
    (mod m), and walking cyclically from the slot after head one reads the elements of [l] in order and
    then only nil slots.  [ring_inv r := exists l, ring_repr r l].
    New(n) establishes it for every n >= 1, every call that returns preserves it. *)
Theorem C02_ring_new_invariant {A} n (r : ring A) :
  (1 <= n)%Z -> ring_new n = Some r -> ring_inv r.
Proof. exact (@new_inv A n r). Qed.

Theorem C02_ring_new_is_empty {A} n :
  (1 <= n)%Z -> exists r : ring A, ring_new n = Some r /\ ring_repr r [].
Proof. exact (@new_repr A n). Qed.

Theorem C02_ring_invariant_preserved {A} (o : rop A) r r' :
  ring_inv r -> fst (ring_step o r) = Some r' -> ring_inv r'.
Proof. exact (@step_inv A o r r'). Qed.

Theorem C02_ring_invariant_reachable {A} (ops : list (rop A)) n r' :
  (1 <= n)%Z ->
  match ring_new n with Some r => ring_exec r ops | None => None end = Some r' ->
  ring_inv r'.
Proof. exact (@exec_inv A ops n r'). Qed.

(** (2) refinement.  Every call commutes with the abstraction: on a ring that represents [l] it returns
    exactly what the list FIFO returns on [l], and the new ring represents the new list - whether or
    not the call made the buffer grow.  (The list FIFO [fifo_step] is in Queue/Ring.v: Push appends,
    Pop takes the first element, PopMany c takes the first min(c,length) elements, Length/Empty.) *)
Theorem C02_ring_call_refines_fifo {A} (o : rop A) r l :
  ring_repr r l ->
  snd (ring_step o r) = snd (fifo_step o l) /\
  match fst (ring_step o r), fst (fifo_step o l) with
  | Some r', Some l' => ring_repr r' l'
  | None, None => True
  | _, _ => False
  end.
Proof. exact (@step_refines A o r l). Qed.

Theorem C02_ring_abstraction {A} (r : ring A) l : ring_repr r l -> ring_abs r = map Some l.
Proof. exact (@abs_repr A r l). Qed.

(** for EVERY call sequence and every initial size >= 1 the results of New(n); calls are those of
    the list FIFO started empty *)
Theorem C02_ring_refines_fifo {A} n (ops : list (rop A)) :
  (1 <= n)%Z -> ring_session n ops = fifo_run [] ops.
Proof. exact (@session_refines A n ops). Qed.

(** hence order: what Pop/PopMany hand out, concatenated in call order, is a prefix of what was pushed,
    in push order - nothing duplicated, nothing reordered, nothing skipped - for every call sequence *)
Theorem C02_ring_fifo_order {A} n (ops : list (rop A)) :
  (1 <= n)%Z ->
  exists rest, map Some (pushed_of ops) = popped_of (ring_session n ops) ++ rest.
Proof. exact (@ring_order A n ops). Qed.

(** and nothing lost: if no PopMany count is negative, no call panics, every call is answered, and
    the pushed values are exactly the popped ones followed by the content still represented *)
Theorem C02_ring_fifo_complete {A} n (ops : list (rop A)) :
  (1 <= n)%Z -> counts_nonneg ops ->
  exists r l,
    match ring_new n with Some r0 => ring_exec r0 ops | None => None end = Some r /\
    ring_repr r l /\
    map Some (pushed_of ops) = popped_of (ring_session n ops) ++ map Some l /\
    length (ring_session n ops) = length ops /\
    existsb (@is_panic A) (ring_session n ops) = false.
Proof. exact (@ring_order_complete A n ops). Qed.

(** (3) PopMany as the code has it: the first min(count, length) elements in order, count > length
    clamped, count = 0 gives an empty slice and true; empty queue gives (nil,false) for every count;
    a NEGATIVE count on a non-empty queue panics (makeslice) after len was increased by |count| and
    with the mutex still held *)
Theorem C02_ring_popmany {A} (r : ring A) l c :
  ring_repr r l -> l <> [] -> (0 <= c)%Z ->
  let k := Z.to_nat (Z.min c (Z.of_nat (length l))) in
  exists r', ring_popmany c r = PMOk (map Some (firstn k l)) r' /\ ring_repr r' (skipn k l).
Proof. exact (@popmany_refines A r l c). Qed.

Theorem C02_ring_popmany_empty {A} (r : ring A) c : ring_repr r [] -> ring_popmany c r = PMEmpty.
Proof. exact (@popmany_empty A r c). Qed.

Theorem C02_ring_popmany_negative_panics {A} (r : ring A) l c :
  ring_repr r l -> l <> [] -> (c < 0)%Z ->
  ring_popmany c r = PMPanic PMakeSlice (Z.of_nat (length l) - c).
Proof. exact (@popmany_negative A r l c). Qed.

(** the guard initialSize >= 1: New(0) succeeds and the first Push panics (integer divide by zero);
    New(n) itself panics for n < 0 *)
Theorem C02_ring_new_zero_push_panics {A} (x : A) :
  exists r0, ring_new 0 = Some r0 /\ ring_step (OPush x) r0 = (None, RPanic PDivZero 0).
Proof. exact (@new_zero_push_panics A x). Qed.

Theorem C02_ring_new_negative {A} n : (n < 0)%Z -> @ring_new A n = None.
Proof. exact (@new_negative A n). Qed.

(** ================================ stash ================================ *)

(** (4) Stash appends the current envelope; Unstash() re-enqueues the oldest one; Unstash(n) re-enqueues
    the oldest min(max(n,0), length) in order and keeps the rest ([stash_step] returns
    (new stash, enqueued)) *)
Theorem C02_stash_appends {A} (cur : A) s : stash_step cur SStash s = (s ++ [cur], []).
Proof. exact (@stash_appends A cur s). Qed.

Theorem C02_unstash_noarg {A} (cur : A) s :
  stash_step cur (SUnstash None) s = (skipn 1 s, firstn 1 s).
Proof. exact (@unstash_noarg A cur s). Qed.

Theorem C02_unstash_n {A} (cur : A) n s :
  let k := Z.to_nat (Z.min (Z.max n 0) (Z.of_nat (length s))) in
  stash_step cur (SUnstash (Some n)) s = (skipn k s, firstn k s).
Proof. exact (@unstash_n A cur n s). Qed.

(** n <= 0 re-enqueues nothing (the interface comment in actor_context.go says "num <= 0 restores all":
    the code does not) *)
Theorem C02_unstash_nonpositive_is_noop {A} (cur : A) n s :
  (n <= 0)%Z -> stash_step cur (SUnstash (Some n)) s = (s, []).
Proof. exact (@unstash_nonpositive A cur n s). Qed.

Theorem C02_unstash_all {A} (cur : A) n s :
  (Z.of_nat (length s) <= n)%Z -> stash_step cur (SUnstash (Some n)) s = ([], s).
Proof. exact (@unstash_all A cur n s). Qed.

(** stash order: for every history of Stash / Unstash() / Unstash(n) calls, starting from any stash,
    the batches re-enqueued by the calls, concatenated in call order, followed by what is still
    stashed, are exactly the initial stash followed by the stashed envelopes in stashing order *)
Theorem C02_stash_order {A} (evs : list (A * sop)) s :
  concat (fst (stash_run s evs)) ++ snd (stash_run s evs) = s ++ stashed_of evs.
Proof. exact (@stash_run_order A evs s). Qed.

(** each exactly once: tag every call with its position (so two Stash calls of the same envelope are
    different stash entries); then no entry occurs twice among the re-enqueued batches and the
    remaining stash; and the tags do not influence the run *)
Theorem C02_stash_at_most_once {A} (evs : list (A * sop)) :
  NoDup (concat (fst (stash_run [] (tag_from 0 evs))) ++ snd (stash_run [] (tag_from 0 evs))).
Proof. exact (@stash_run_once A evs). Qed.

Theorem C02_stash_tags_are_inert {A} (evs : list (A * sop)) k (s : list (nat * A)) :
  stash_run (map snd s) evs =
  (map (map snd) (fst (stash_run s (tag_from k evs))), map snd (snd (stash_run s (tag_from k evs)))).
Proof. exact (@stash_run_untag A evs k s). Qed.

(** ================================ non-vacuity ================================ *)

(** a session that crosses two growth boundaries (1 -> 2 -> 4 -> 8 slots) with wrap-around in between *)
Example C02_ring_two_growths :
  ring_session 1 [OPush 1; OPush 2; OPop; OPush 3; OPush 4; OPush 5; OLength; OPopMany 2; OPush 6;
                  OPopMany 0; OPopMany 10; OPop; OEmpty]
  = [RPush; RPush; RPop (Some (Some 1)); RPush; RPush; RPush; RLength 4;
     RPopMany (Some [Some 2; Some 3]); RPush; RPopMany (Some []);
     RPopMany (Some [Some 4; Some 5; Some 6]); RPop None; REmpty true] /\
  option_map (fun r => (length (rbuf r), rhead r, rtail r))
    (ring_exec {| rbuf := [None]; rhead := 0; rtail := 0; rlen := 0 |}
       [OPush 1; OPush 2; OPop; OPush 3; OPush 4; OPush 5]) = Some (8, 0, 4).
Proof. split; reflexivity. Qed.

(** the hypotheses [ring_repr r l], [l <> []] are met by a wrapped-around ring *)
Example C02_ring_repr_example :
  ring_repr {| rbuf := [Some 3; None; Some 1; Some 2]; rhead := 1; rtail := 0; rlen := 3 |} [1; 2; 3]
  /\ [1; 2; 3] <> [].
Proof.
  split; [|discriminate]. unfold ring_repr, rmod; cbn. repeat split; auto.
  intros i Hi. do 4 (destruct i as [|i]; [reflexivity|]). exfalso.
  do 4 apply Nat.succ_lt_mono in Hi. inversion Hi.
Qed.

Example C02_counts_nonneg_example : counts_nonneg [OPush 1; OPopMany 0; OPopMany 5; OPop].
Proof. repeat constructor; discriminate. Qed.

(** the panic is real in the model of the unchanged code: New(1); Push; PopMany(-1) *)
Example C02_ring_popmany_negative_witness :
  ring_session 1 [OPush 7; OPopMany (-1); OLength] = [RPush; RPanic PMakeSlice 2].
Proof. reflexivity. Qed.

Example C02_stash_history_example :
  stash_run [] [(10, SStash); (11, SStash); (11, SStash); (12, SStash); (13, SUnstash (Some 2%Z));
                (14, SStash); (15, SUnstash None); (16, SUnstash (Some (-1)%Z)); (17, SUnstash (Some 100%Z));
                (18, SUnstash None)]
  = ([[]; []; []; []; [10; 11]; []; [11]; []; [12; 14]; []], []).
Proof. reflexivity. Qed.

Print Assumptions C02_ring_new_invariant.
Print Assumptions C02_ring_new_is_empty.
Print Assumptions C02_ring_invariant_preserved.
Print Assumptions C02_ring_invariant_reachable.
Print Assumptions C02_ring_call_refines_fifo.
Print Assumptions C02_ring_abstraction.
Print Assumptions C02_ring_refines_fifo.
Print Assumptions C02_ring_fifo_order.
Print Assumptions C02_ring_fifo_complete.
Print Assumptions C02_ring_popmany.
Print Assumptions C02_ring_popmany_empty.
Print Assumptions C02_ring_popmany_negative_panics.
Print Assumptions C02_ring_new_zero_push_panics.
Print Assumptions C02_ring_new_negative.
Print Assumptions C02_stash_appends.
Print Assumptions C02_unstash_noarg.
Print Assumptions C02_unstash_n.
Print Assumptions C02_unstash_nonpositive_is_noop.
Print Assumptions C02_unstash_all.
Print Assumptions C02_stash_order.
Print Assumptions C02_stash_at_most_once.
Print Assumptions C02_stash_tags_are_inert.
