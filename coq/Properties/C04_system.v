(** C04 at system level - every Ask completes exactly once, with its own reply, timeout, or death - for ANY number of
    concurrent Asks sharing the future tables of one actor system.

    Model: Future/SysModel.v - a micro-step machine of MANY Asks as the code is in /repo now: Context.ask (NewFuture - which
    arms the timer -, appendFuture, the Closed() re-check + conditional removeFuture, the send), future.Future (close =
    CAS(closed); assign err/message; close(done) + timer.Stop; closer() = removeFuture; f.mu section), and the tables of
    System at THEIR OWN granularity: appendFuture = [actorContexts.Store] then [futureLock section: insert into
    futureAgents[asker]]; removeFuture = [actorContexts.Delete] then [futureLock section: delete the entry, drop the asker's
    inner map when empty]; removeFuturesByAgentPath = [futureLock section: copy the asker's keys] then per key, in map
    iteration order, [actorContexts.Load] -> Close(ErrorActorDeaded); a reply = [actorContexts.Load] -> close(v) or dead letter.
    Futures are created dynamically (the n-th NewFuture creates future n, registered under a fresh agent path: M7); several
    futures may share an asker path (several Asks of one actor, System.Ask from many goroutines, successive incarnations of
    a re-used name).  Threads run scripts (lists of operations on one goroutine): [OAsk a t], [OReply k v], [OClose k e],
    [OWait k full], [OSync k], [ODeath a ord] (a clean-up removeFuturesByAgentPath(a) with map iteration order ord) - an
    actor goroutine is [incarnation a pre ord1 mid ord2] = Asks; doKill's clean-up; the Asks of the OnKill / OnKilled
    handlers; the clean-up after the last handler (/repo 3f0f6ad).
    [sreach progs s] = s is the state after SOME schedule (list of [SRun i] / [STick]) of the scripts [progs]: every theorem
    holds for all numbers of Asks, askers, repliers, Close / Result / Wait callers and kill clean-ups, all interleavings,
    all timeouts, all map iteration orders.  The model is tied to the real code by lock-step replay with system.go
    instrumented (bin/check C04, component futsys).  PipeTo / forwarders: Properties/C04.v (per future; they never touch the
    tables).  Statements only; proofs in Future/SysInv.v, Future/SysProofs.v. *)
From Coq Require Import List NArith Bool.
From Vivid Require Import Future.FutModel Future.SysModel Future.SysBase Future.SysInvDef Future.SysInv Future.SysProofs
  Future.SysCover Future.SysRun Future.SysRunProofs.
Import ListNotations.
Local Open Scope N_scope.

(** ============================ (1) exactly once, per future ============================ *)

(** at most one thread ever passes the CAS of a future; [closed] is set exactly when somebody did *)
Theorem C04_sys_one_shot_cas progs s k f :
  sreach progs s -> getf s k = Some f ->
  (length (f_winners f) <= 1)%nat /\ (f_closed f = true <-> f_winners f <> []).
Proof. exact (fun H => sys_one_winner progs s k f (sreach_inv progs s H)). Qed.

(** only that thread is ever inside the rest of close of that future (assign, close(done), closer's two table steps, f.mu) *)
Theorem C04_sys_one_shot_past_cas progs s i p sc k :
  sreach progs s -> nth_error (y_thr s) i = Some (p, sc) -> stage_of k p <> StFin ->
  exists f, getf s k = Some f /\ f_winners f = [i].
Proof. exact (fun H => sys_past_cas progs s i p sc k (sreach_inv progs s H)). Qed.

(** err/message of a future are written at most once, by the thread that won its CAS, while done is still open *)
Theorem C04_sys_one_shot_writes progs s k f :
  sreach progs s -> getf s k = Some f ->
  (length (f_wlog f) <= 1)%nat /\ forall i d, In (i, d) (f_wlog f) -> f_winners f = [i] /\ d = false.
Proof. exact (fun H => sys_writes_once progs s k f (sreach_inv progs s H)). Qed.

(** once done is closed the result is the value of the winning close ... *)
Theorem C04_sys_one_shot_result progs s k f :
  sreach progs s -> getf s k = Some f -> f_done f = true ->
  exists v, f_final f = Some v /\ fres f = vpair v /\ f_closed f = true.
Proof. exact (fun H => sys_done_final progs s k f (sreach_inv progs s H)). Qed.

(** ... and never changes again, whatever anybody does afterwards *)
Theorem C04_sys_one_shot_stable progs s k f sched :
  sreach progs s -> getf s k = Some f -> f_done f = true ->
  exists f', getf (srun sched s) k = Some f' /\ f_done f' = true /\ fres f' = fres f.
Proof.
  exact (fun H Hg Hd => match srun_mono progs sched s k f (sreach_inv progs s H) Hg with
                        | ex_intro _ f' (conj Hg' Hm) => ex_intro _ f' (conj Hg' (m_done f f' Hm Hd)) end).
Qed.

(** every value Result / Wait ever returned is the final result of THAT future *)
Theorem C04_sys_readers progs s j k full r :
  sreach progs s -> In (j, k, full, r) (y_rets s) ->
  exists f, getf s k = Some f /\ f_done f = true /\ r = (if full then f_msg f else None, f_err f).
Proof. exact (fun H => i_rets progs s (sreach_inv progs s H) j k full r). Qed.

(** ============================ (2) completion ============================ *)

(** when nothing can move any more (however far the clock advances): a future is completed whenever a reply / Close /
    timeout / death reached it (somebody executed its CAS), it has a timer, or a kill clean-up copied its key *)
Theorem C04_sys_completes progs s k f :
  sreach progs s -> sterminal s -> getf s k = Some f ->
  (f_attempts f <> [] \/ f_armed f <> None \/ copied s k) -> f_done f = true.
Proof. exact (fun H => sys_completes progs s k f (sreach_inv progs s H)). Qed.

(** ... and nobody is blocked except holders waiting for an Ask that was never issued and Result/Wait callers of a
    future that nothing has completed: no deadlock on futureLock, no clean-up stuck in its loop *)
Theorem C04_sys_only_waiters_block progs s i p sc :
  sreach progs s -> sterminal s -> nth_error (y_thr s) i = Some (p, sc) ->
  (p = SIdle /\ sc = []) \/
  (exists k q, p = SAwait k q /\ getf s k = None) \/
  (exists k full f, p = SWRecv k full /\ getf s k = Some f /\ f_done f = false /\ f_closed f = false /\
                    f_attempts f = [] /\ f_armed f = None /\ ~ copied s k).
Proof. exact (fun H => sys_no_deadlock progs s i p sc (sreach_inv progs s H)). Qed.

(** the timer callback of a future never runs before that future's deadline *)
Theorem C04_sys_timeout_not_early progs s k f t :
  sreach progs s -> getf s k = Some f -> f_fired f = Some t -> exists t0, f_armed f = Some t0 /\ t0 + f_tmo f <= t.
Proof. exact (fun H Hg => f_fire progs s k f (i_fut progs s (sreach_inv progs s H) k f Hg) t). Qed.

(** ============================ (3) own reply, own timeout, own death ============================ *)

(** the completing value of future k is a reply addressed to ITS agent path, a holder's Close(err) of IT, the timeout error
    of ITS timer, or the actor-dead error of a kill clean-up of ITS asker's path that had copied ITS key - nothing else *)
Theorem C04_sys_completes_origin progs s k f v :
  sreach progs s -> getf s k = Some f -> f_final f = Some v -> sorigin progs s k f v.
Proof. exact (fun H Hg => f_orig progs s k f (i_fut progs s (sreach_inv progs s H) k f Hg) v). Qed.

(** the message a future holds is a reply to ITS request, never the reply to another one *)
Theorem C04_sys_own_reply progs s k f m :
  sreach progs s -> getf s k = Some f -> f_msg f = Some m -> In (OReply k (VMsg m)) (all_ops progs).
Proof. exact (fun H => sys_reply_value progs s k f m (sreach_inv progs s H)). Qed.

(** the error a future holds: an error-valued reply to it, a holder's Close, its own timer having fired (not early), or a
    kill clean-up of its own asker's path that had copied its key *)
Theorem C04_sys_error_origin progs s k f e :
  sreach progs s -> getf s k = Some f -> f_err f = Some e ->
  In (OReply k (VErr e)) (all_ops progs) \/ In (OClose k e) (all_ops progs) \/
  (e = E_TIMEOUT /\ exists t t0, f_fired f = Some t /\ f_armed f = Some t0 /\ t0 + f_tmo f <= t) \/
  (e = E_DEAD /\ exists d l, In (d, f_asker f, l) (y_dcopies s) /\ In k l).
Proof. exact (fun H => sys_error_origin progs s k f e (sreach_inv progs s H)). Qed.

(** ============================ (4) registrations ============================ *)

(** the registry is a map asker path -> non-empty set of futures OF THAT ASKER (no empty inner map is kept) *)
Theorem C04_sys_registry_wellformed progs s :
  sreach progs s ->
  ag_wf (y_agents s) /\
  forall a k, In k (ag_get a (y_agents s)) -> exists f, getf s k = Some f /\ f_asker f = a /\ f_stored f = true.
Proof. exact (fun H => i_ag progs s (sreach_inv progs s H)). Qed.

(** an Ask that has returned and is not being completed is in both tables (what the kill clean-up relies on) *)
Theorem C04_sys_registered_while_pending progs s k f :
  sreach progs s -> getf s k = Some f -> f_sent f = true -> f_closed f = false ->
  f_inctx f = true /\ In k (ag_get (f_asker f) (y_agents s)).
Proof. exact (fun H Hg => f_reg progs s k f (i_fut progs s (sreach_inv progs s H) k f Hg)). Qed.

(** in a terminal state a completed future has no entry in actorContexts and none in futureAgents (under any asker) *)
Theorem C04_sys_no_registration_left progs s k f :
  sreach progs s -> sterminal s -> getf s k = Some f -> f_done f = true ->
  f_inctx f = false /\ forall a, ~ In k (ag_get a (y_agents s)).
Proof. exact (fun H => sys_no_registration_left progs s k f (sreach_inv progs s H)). Qed.

(** when every future is completed both tables are empty - not even an asker key is left *)
Theorem C04_sys_tables_empty progs s :
  sreach progs s -> sterminal s -> (forall k f, getf s k = Some f -> f_done f = true) ->
  y_agents s = [] /\ forall k f, getf s k = Some f -> f_inctx f = false.
Proof. exact (fun H => sys_tables_empty progs s (sreach_inv progs s H)). Qed.

(** ============================ (5) death of the asking actor ============================ *)

(** the key copy of a kill clean-up of path a catches every Ask of that asker that has returned and is not yet being
    completed (the clean-up copies every key of the asker's inner map, in any order) *)
Theorem C04_sys_death_copies_returned progs s s' i a ord sc k f :
  sreach progs s -> nth_error (y_thr s) i = Some (SDCopy a ord, sc) -> sstep i s = Some s' ->
  getf s k = Some f -> f_asker f = a -> f_sent f = true ->
  f_closed f = true \/ copied s' k.
Proof. exact (fun H => sys_death_copy_step progs s s' i a ord sc k f (sreach_inv progs s H)). Qed.

(** ... and every such Ask is completed in every terminal state reached afterwards - whatever happens before, concurrently
    and afterwards (other Asks of the same path, replies, Close, timers, other clean-ups) *)
Theorem C04_sys_death_completes progs s s' i a ord sc k f sched :
  sreach progs s -> nth_error (y_thr s) i = Some (SDCopy a ord, sc) -> sstep i s = Some s' ->
  getf s k = Some f -> f_asker f = a -> f_sent f = true ->
  sterminal (srun sched s') ->
  exists f', getf (srun sched s') k = Some f' /\ f_done f' = true.
Proof. exact (fun H => sys_death_completes progs s s' i a ord sc k f sched (sreach_inv progs s H)). Qed.

(** THE KILL CHAIN OF AN INCARNATION (code since /repo 3f0f6ad: doKill's clean-up, the OnKill / child-OnKilled /
    own-OnKilled handlers, and a second clean-up after the last handler).  [incarnation a pre ord1 mid ord2] is the
    goroutine of one incarnation of the actor at path a: Asks from message handlers, the first clean-up, Asks from the
    handlers of the kill chain, the second clean-up.  Among ANY other threads (other incarnations of the same path,
    System.Ask goroutines, repliers, Close callers, timers ...) and for every interleaving: *)

(** when the incarnation's kill chain has finished, every Ask the incarnation ever issued - including those issued by its
    OnKill / OnKilled handlers - has been completed by somebody: its CAS is won, the result (own reply, own timeout, Close
    or actor-dead: [C04_sys_completes_origin]) is decided *)
Theorem C04_sys_incarnation_asks_completed progs j a pre ord1 mid ord2 s k f :
  nth_error progs j = Some (incarnation a pre ord1 mid ord2) -> sreach progs s ->
  nth_error (y_thr s) j = Some (SIdle, []) -> getf s k = Some f -> f_owner f = j ->
  f_closed f = true.
Proof.
  exact (fun Hj => covered_finished_closed progs j (incarnation a pre ord1 mid ord2) s k f Hj (incarnation_covered a pre ord1 mid ord2)).
Qed.

(** ... and at quiescence each of them is done with the decided value and registered in neither table *)
Theorem C04_sys_incarnation_quiescent progs j a pre ord1 mid ord2 s k f :
  nth_error progs j = Some (incarnation a pre ord1 mid ord2) -> sreach progs s -> sterminal s ->
  nth_error (y_thr s) j = Some (SIdle, []) -> getf s k = Some f -> f_owner f = j ->
  f_done f = true /\ f_inctx f = false /\ (forall a0, ~ In k (ag_get a0 (y_agents s))) /\
  exists v, f_final f = Some v /\ fres f = vpair v /\ sorigin progs s k f v.
Proof.
  exact (fun Hj => covered_finished_done progs j (incarnation a pre ord1 mid ord2) s k f Hj (incarnation_covered a pre ord1 mid ord2)).
Qed.

(** the same for any goroutine in whose script every Ask is followed by a clean-up of the same asker path *)
Theorem C04_sys_covered_goroutine_completed progs j sc0 s k f :
  nth_error progs j = Some sc0 -> covered_script sc0 -> sreach progs s ->
  nth_error (y_thr s) j = Some (SIdle, []) -> getf s k = Some f -> f_owner f = j -> f_closed f = true.
Proof. exact (covered_finished_closed progs j sc0 s k f). Qed.

(** the second clean-up is NEEDED (this was the code before 3f0f6ad, and is what reverting that repair gives): with the
    kill chain [ODeath 5; OAsk 5 (no timer)] - doKill's clean-up, then an Ask issued by the OnKill handler, no clean-up
    afterwards - the goroutine finishes, nothing can move any more, and the Ask is neither completed nor unregistered.
    (On the real system: bin/check C04, component ask, regression monitor c04-ask-during-kill-never-completed.) *)
Theorem C04_sys_second_cleanup_needed :
  sreach dying_asker_progs dying_asker_state /\ sterminal dying_asker_state /\ sfinished dying_asker_state /\
  exists f, getf dying_asker_state 0 = Some f /\ f_asker f = 5 /\ f_owner f = 0%nat /\ f_sent f = true /\
            f_done f = false /\ f_closed f = false /\ f_armed f = None /\
            f_inctx f = true /\ In 0%nat (ag_get 5 (y_agents dying_asker_state)) /\
            y_dcopies dying_asker_state = [(0%nat, 5, [])].
Proof. exact dying_asker_witness. Qed.

(** ============================ the tie ============================ *)

(** the lock-step replay that bin/check compares with the real code executes nothing but model actions: every replayed
    trace ends in a [sreach]able state, so all theorems above apply to every trace the correspondence check accepts *)
Theorem C04_sys_replay_reachable progs sched :
  sreach progs (snd (sreplay sched (sinit progs))).
Proof. exact (sreplay_reach progs sched). Qed.

(** ============================ non-vacuity ============================ *)

Definition SR (l : list nat) : list sact := map SRun l.

(** two Asks of actor 5; a reply 7 to the first; then the actor dies (clean-up with iteration order [1;0]): terminal,
    future 0 = (7, nil), future 1 = (nil, actor-dead), both tables empty, the clean-up copied only key 1 *)
Definition exs1_progs : list (list sop) := [[OAsk 5 0; OAsk 5 0; ODeath 5 [1%nat; 0%nat]]; [OReply 0 (VMsg 7)]].
Definition exs1_sched : list sact := SR (repeat 0%nat 11) ++ SR (repeat 1%nat 10) ++ SR (repeat 0%nat 12).
Definition exs1 : sst := srun exs1_sched (sinit exs1_progs).
Example C04_sys_ex_reply_and_death :
  sreach exs1_progs exs1 /\ sterminal exs1 /\
  (exists f0 f1, getf exs1 0 = Some f0 /\ getf exs1 1 = Some f1 /\
                 f_done f0 = true /\ fres f0 = (Some 7, None) /\ f_done f1 = true /\ fres f1 = (None, Some E_DEAD) /\
                 f_winners f0 = [1%nat] /\ f_winners f1 = [0%nat]) /\
  y_agents exs1 = [] /\ y_dcopies exs1 = [(0%nat, 5, [1%nat])] /\ copied exs1 1.
Proof.
  split; [exists exs1_sched; unfold exs1; reflexivity|].
  split; [apply sfinished_terminal; apply sfinished_dec; vm_compute; reflexivity|].
  split; [vm_compute; eexists; eexists; repeat split; reflexivity|].
  split; [vm_compute; reflexivity|]. split; [vm_compute; reflexivity|].
  exists 0%nat, 5, [1%nat]. split; [vm_compute; auto|left; reflexivity].
Qed.

(** the state just before that clean-up copies the keys: Ask 1 has returned, is registered in both tables and not closed -
    the hypotheses of [C04_sys_death_copies_returned] / [C04_sys_death_completes] *)
Definition exs2 : sst := srun (SR (repeat 0%nat 11) ++ SR (repeat 1%nat 10) ++ SR [0%nat]) (sinit exs1_progs).
Example C04_sys_ex_before_copy :
  sreach exs1_progs exs2 /\ nth_error (y_thr exs2) 0 = Some (SDCopy 5 [1%nat; 0%nat], []) /\
  exists f1, getf exs2 1 = Some f1 /\ f_asker f1 = 5 /\ f_sent f1 = true /\ f_closed f1 = false /\
             f_inctx f1 = true /\ In 1%nat (ag_get 5 (y_agents exs2)).
Proof.
  split; [exists (SR (repeat 0%nat 11) ++ SR (repeat 1%nat 10) ++ SR [0%nat]); unfold exs2; reflexivity|].
  split; [vm_compute; reflexivity|].
  vm_compute. eexists. repeat split; auto.
Qed.

(** one incarnation of actor 5 with the whole kill chain: an Ask from a handler, doKill's clean-up, an Ask WITHOUT timer from
    the OnKill handler, the clean-up after the last handler: finished, both futures (nil, actor-dead), tables empty *)
Definition exs4_progs : list (list sop) := [incarnation 5 [0] [0%nat] [0] [1%nat]].
Definition exs4 : sst := srun (SR (repeat 0%nat 40)) (sinit exs4_progs).
Example C04_sys_ex_incarnation :
  sreach exs4_progs exs4 /\ sterminal exs4 /\ nth_error (y_thr exs4) 0 = Some (SIdle, []) /\
  (exists f0 f1, getf exs4 0 = Some f0 /\ getf exs4 1 = Some f1 /\ f_owner f0 = 0%nat /\ f_owner f1 = 0%nat /\
                 f_done f0 = true /\ fres f0 = (None, Some E_DEAD) /\ f_done f1 = true /\ fres f1 = (None, Some E_DEAD)) /\
  y_agents exs4 = [] /\ y_dcopies exs4 = [(0%nat, 5, [0%nat]); (0%nat, 5, [1%nat])].
Proof.
  split; [exists (SR (repeat 0%nat 40)); unfold exs4; reflexivity|].
  split; [apply sfinished_terminal; apply sfinished_dec; vm_compute; reflexivity|].
  split; [vm_compute; reflexivity|].
  split; [vm_compute; eexists; eexists; repeat split; reflexivity|].
  split; vm_compute; reflexivity.
Qed.

(** a timer (timeout 3) completes an Ask whose asker's clean-up ran BEFORE the Ask (the OnKill-handler Ask with a timer):
    fired at time 3 >= 0 + 3, result (nil, timeout), nothing left registered *)
Definition exs3_progs : list (list sop) := [[ODeath 5 [0%nat]; OAsk 5 3]].
Definition exs3 : sst := srun (SR (repeat 0%nat 10) ++ [STick; STick; STick] ++ SR (repeat 1%nat 9)) (sinit exs3_progs).
Example C04_sys_ex_timer_after_cleanup :
  sreach exs3_progs exs3 /\ sterminal exs3 /\
  exists f, getf exs3 0 = Some f /\ f_done f = true /\ fres f = (None, Some E_TIMEOUT) /\ f_fired f = Some 3 /\
            f_armed f = Some 0 /\ f_tmo f = 3 /\ f_inctx f = false /\ y_agents exs3 = [].
Proof.
  split; [exists (SR (repeat 0%nat 10) ++ [STick; STick; STick] ++ SR (repeat 1%nat 9)); unfold exs3; reflexivity|].
  split; [apply sfinished_terminal; apply sfinished_dec; vm_compute; reflexivity|].
  vm_compute. eexists. repeat split; reflexivity.
Qed.

Print Assumptions C04_sys_one_shot_cas.
Print Assumptions C04_sys_one_shot_past_cas.
Print Assumptions C04_sys_one_shot_writes.
Print Assumptions C04_sys_one_shot_result.
Print Assumptions C04_sys_one_shot_stable.
Print Assumptions C04_sys_readers.
Print Assumptions C04_sys_completes.
Print Assumptions C04_sys_only_waiters_block.
Print Assumptions C04_sys_timeout_not_early.
Print Assumptions C04_sys_completes_origin.
Print Assumptions C04_sys_own_reply.
Print Assumptions C04_sys_error_origin.
Print Assumptions C04_sys_registry_wellformed.
Print Assumptions C04_sys_registered_while_pending.
Print Assumptions C04_sys_no_registration_left.
Print Assumptions C04_sys_tables_empty.
Print Assumptions C04_sys_death_copies_returned.
Print Assumptions C04_sys_death_completes.
Print Assumptions C04_sys_incarnation_asks_completed.
Print Assumptions C04_sys_incarnation_quiescent.
Print Assumptions C04_sys_covered_goroutine_completed.
Print Assumptions C04_sys_second_cleanup_needed.
Print Assumptions C04_sys_replay_reachable.
