(** C16 — Version vectors form a lattice: Compare is a partial order, Merge its join.
    This file holds statements only; every proof is [exact <lemma>] (lemmas in Cluster/VVProofs.v). *)
From Coq Require Import List NArith ZArith.
From stdpp Require Import gmap sorting.
From Vivid Require Import Codec.Prim Cluster.VV Cluster.VVProofs Cluster.VVHeap Cluster.VVHeapProofs Cluster.VVWireProofs Cluster.VVAtomic Cluster.VVAtomicProofs Cluster.VVRun.
Local Open Scope N_scope.

(** Compare decides the pointwise order of the counters (absent = 0) *)
Theorem C16_compare_equal v o : vcompare v o = VEqual <-> (forall k, vget v k = vget o k).
Proof. exact (vcompare_equal v o). Qed.
Theorem C16_compare_before v o :
  vcompare v o = VBefore <-> (forall k, vget v k <= vget o k) /\ (exists k, vget v k < vget o k).
Proof. exact (vcompare_before v o). Qed.
Theorem C16_compare_after v o :
  vcompare v o = VAfter <-> (forall k, vget o k <= vget v k) /\ (exists k, vget o k < vget v k).
Proof. exact (vcompare_after v o). Qed.
Theorem C16_compare_concurrent v o :
  vcompare v o = VConcurrent <-> (exists k, vget v k < vget o k) /\ (exists k, vget o k < vget v k).
Proof. exact (vcompare_concurrent v o). Qed.

(** partial order *)
Theorem C16_reflexive v : vcompare v v = VEqual.
Proof. exact (vcompare_refl v). Qed.
Theorem C16_converse v o :
  match vcompare v o with
  | VEqual => vcompare o v = VEqual
  | VBefore => vcompare o v = VAfter
  | VAfter => vcompare o v = VBefore
  | VConcurrent => vcompare o v = VConcurrent
  end.
Proof. exact (vcompare_converse v o). Qed.
Theorem C16_antisymmetric v o : vcompare v o = VBefore -> vcompare o v = VBefore -> False.
Proof. exact (vcompare_antisym v o). Qed.
Theorem C16_transitive a b c : vcompare a b = VBefore -> vcompare b c = VBefore -> vcompare a c = VBefore.
Proof. exact (vcompare_trans_before a b c). Qed.
Theorem C16_equal_transitive a b c : vcompare a b = VEqual -> vcompare b c = VEqual -> vcompare a c = VEqual.
Proof. exact (vcompare_trans_equal a b c). Qed.
Theorem C16_equal_congruence a b c : vcompare a b = VEqual -> vcompare a c = vcompare b c.
Proof. exact (vcompare_equal_congr a b c). Qed.

(** Merge is a join: commutative, associative, idempotent AS MAPS, and the least upper bound *)
Theorem C16_merge_comm a b : vmerge a b = vmerge b a.
Proof. exact (vmerge_comm a b). Qed.
Theorem C16_merge_assoc a b c : vmerge (vmerge a b) c = vmerge a (vmerge b c).
Proof. exact (vmerge_assoc a b c). Qed.
Theorem C16_merge_idem a : vmerge a a = a.
Proof. exact (vmerge_idem a). Qed.
Theorem C16_merge_pointwise a b k : vget (vmerge a b) k = N.max (vget a k) (vget b k).
Proof. exact (vget_merge a b k). Qed.
Theorem C16_merge_upper a b :
  (vcompare a (vmerge a b) = VBefore \/ vcompare a (vmerge a b) = VEqual) /\
  (vcompare b (vmerge a b) = VBefore \/ vcompare b (vmerge a b) = VEqual).
Proof. exact (conj (proj1 (vle_compare _ _) (vmerge_upper_l a b)) (proj1 (vle_compare _ _) (vmerge_upper_r a b))). Qed.
Theorem C16_merge_least a b c :
  (vcompare a c = VBefore \/ vcompare a c = VEqual) ->
  (vcompare b c = VBefore \/ vcompare b c = VEqual) ->
  (vcompare (vmerge a b) c = VBefore \/ vcompare (vmerge a b) c = VEqual).
Proof. exact (fun H1 H2 => proj1 (vle_compare _ _) (vmerge_least a b c (proj2 (vle_compare _ _) H1) (proj2 (vle_compare _ _) H2))). Qed.
Theorem C16_merge_keys a b k : is_Some (vmerge a b !! k) <-> is_Some (a !! k) \/ is_Some (b !! k).
Proof. exact (vmerge_dom a b k). Qed.

(** Increment: strictly After, exactly +1 on that node, nothing else touched; the only errors are
    an invalid address and the 2^63-1 cap *)
Theorem C16_increment v k v' :
  vinc v k = Ok v' ->
  vget v' k = vget v k + 1 /\ (forall j, j <> k -> v' !! j = v !! j) /\ vcompare v' v = VAfter.
Proof. exact (vinc_ok v k v'). Qed.
Theorem C16_increment_errors v k :
  (vinc v k = Err EInvalid <-> valid_addr k = false) /\
  (vinc v k = Err EOverflow <-> valid_addr k = true /\ max_counter <= vget v k) /\
  (forall e, vinc v k = Err e -> e = EInvalid \/ e = EOverflow).
Proof. exact (vinc_err v k). Qed.

Theorem C16_absent_is_zero v k : v !! k = None -> vcompare v (<[k := 0]> v) = VEqual.
Proof. exact (vcompare_zero_entry v k). Qed.
Theorem C16_compact_equal v : vcompare (vcompact v) v = VEqual.
Proof. exact (vcompact_equal v). Qed.

(** serialisation round trip: every vector within the documented caps (which every vector built by
    Increment/Merge/Read satisfies) is written successfully and read back unchanged, the reader
    consuming exactly the writer's bytes *)
Theorem C16_roundtrip v rest :
  wf_vv v -> exists bs, vwrite v = Ok bs /\ vread (bs ++ rest) = Ok (v, rest).
Proof. exact (vread_vwrite v rest). Qed.

(** non-vacuity: a concrete vector with an explicit zero and the maximal counter meets [wf_vv] *)
Example C16_wf_example :
  wf_vv ({[ [97; 98] := 0; [99] := max_counter ]} : vv).
Proof.
  split; [vm_compute; discriminate|]. intros k c H.
  apply lookup_insert_Some in H as [[<- <-]|[_ H]]; [split; [reflexivity|vm_compute; discriminate]|].
  apply lookup_singleton_Some in H as [<- <-]. split; [reflexivity|vm_compute; discriminate].
Qed.


(** * "Operations never modify their operands" — on the heap-level model (Cluster/VVHeap.v)

    A vector is a struct value whose map and cached slice are references into a heap ([vobj], [heap]); every
    method is a heap program; [omap h v] is the abstract value of [v] in [h]; [hext h h'] says that every
    location allocated in [h] still holds in [h'] what it held in [h]; [iter] is the order in which the Go
    runtime lets [range] visit a map (ANY permutation, possibly a different one for every loop).
    Every method theorem has the same shape: for every heap, every live operand and every iteration order the
    call (frame) writes only into locations it allocated itself, (refinement) returns what the functional
    model of VV.v computes from the operands' abstract values, and its result is a live object. *)

(** what the frame gives: a live object keeps its abstract value and stays live *)
Theorem C16_frame_keeps_values h h' v :
  hext h h' -> obj_ok h v -> omap h' v = omap h v /\ obj_ok h' v.
Proof. exact (fun X O => conj (omap_hext h h' v X O) (obj_ok_hext h h' v X O)). Qed.

Theorem C16_heap_clone iter v h :
  (forall t m, iter t m ≡ₚ map_to_list m) -> heap_wf h -> obj_ok h v ->
  hext h (snd (h_clone iter v h)) /\ heap_wf (snd (h_clone iter v h)) /\
  obj_ok (snd (h_clone iter v h)) (fst (h_clone iter v h)) /\
  omap (snd (h_clone iter v h)) (fst (h_clone iter v h)) = omap h v /\
  fresh_obj h (fst (h_clone iter v h)).
Proof. exact (fun Hi => h_clone_spec iter Hi v h). Qed.

Theorem C16_heap_increment iter v k h :
  (forall t m, iter t m ≡ₚ map_to_list m) -> heap_wf h -> obj_ok h v ->
  hext h (snd (h_inc iter v k h)) /\ heap_wf (snd (h_inc iter v k h)) /\
  match fst (h_inc iter v k h) with
  | Ok r => obj_ok (snd (h_inc iter v k h)) r /\ vinc (omap h v) k = Ok (omap (snd (h_inc iter v k h)) r) /\
            fresh_obj h r
  | Err e => vinc (omap h v) k = Err e
  end.
Proof. exact (fun Hi => h_inc_spec iter Hi v k h). Qed.

Theorem C16_heap_merge iter v o h :
  (forall t m, iter t m ≡ₚ map_to_list m) -> heap_wf h -> obj_ok h v -> obj_ok h o ->
  hext h (snd (h_merge iter v o h)) /\ heap_wf (snd (h_merge iter v o h)) /\
  obj_ok (snd (h_merge iter v o h)) (fst (h_merge iter v o h)) /\
  omap (snd (h_merge iter v o h)) (fst (h_merge iter v o h)) = vmerge (omap h v) (omap h o) /\
  fresh_obj h (fst (h_merge iter v o h)).
Proof. exact (fun Hi => h_merge_spec iter Hi v o h). Qed.

(** Compare (two passes, early returns) writes nothing and decides [vcompare] of the abstract values *)
Theorem C16_heap_compare iter v o h :
  (forall t m, iter t m ≡ₚ map_to_list m) -> heap_wf h ->
  hext h (snd (h_compare iter v o h)) /\ heap_wf (snd (h_compare iter v o h)) /\
  fst (h_compare iter v o h) = vcompare (omap h v) (omap h o).
Proof. exact (fun Hi => h_compare_spec iter Hi v o h). Qed.

(** Compact returns ITS OPERAND (same map object) when there is nothing to drop, else a fresh object *)
Theorem C16_heap_compact iter v h :
  (forall t m, iter t m ≡ₚ map_to_list m) -> heap_wf h -> obj_ok h v ->
  hext h (snd (h_compact iter v h)) /\ heap_wf (snd (h_compact iter v h)) /\
  obj_ok (snd (h_compact iter v h)) (fst (h_compact iter v h)) /\
  omap (snd (h_compact iter v h)) (fst (h_compact iter v h)) = vcompact (omap h v) /\
  (fst (h_compact iter v h) = v \/ fresh_obj h (fst (h_compact iter v h))).
Proof. exact (fun Hi => h_compact_spec iter Hi v h). Qed.

(** PruneWithMax: also the CALLER'S SLICE [s] reads after the call as it read before (it is copied before it is
    sorted) *)
Theorem C16_heap_prune iter v s maxe h :
  (forall t m, iter t m ≡ₚ map_to_list m) -> heap_wf h -> obj_ok h v -> slice_ok h s ->
  hext h (snd (h_prune_max iter v (Some s) maxe h)) /\ heap_wf (snd (h_prune_max iter v (Some s) maxe h)) /\
  obj_ok (snd (h_prune_max iter v (Some s) maxe h)) (fst (h_prune_max iter v (Some s) maxe h)) /\
  omap (snd (h_prune_max iter v (Some s) maxe h)) (fst (h_prune_max iter v (Some s) maxe h))
    = vprune_max (omap h v) (strs_of h s) maxe /\
  fresh_obj h (fst (h_prune_max iter v (Some s) maxe h)) /\
  strs_of (snd (h_prune_max iter v (Some s) maxe h)) s = strs_of h s.
Proof. exact (fun Hi => h_prune_max_spec iter Hi v s maxe h). Qed.

(** SortedEntries returns the entries in the writer's order; the returned slice is the object's own cache or a
    freshly allocated array *)
Theorem C16_heap_sorted_entries iter v h :
  (forall t m, iter t m ≡ₚ map_to_list m) -> heap_wf h -> obj_ok h v ->
  hext h (snd (h_sorted_entries iter v h)) /\ heap_wf (snd (h_sorted_entries iter v h)) /\
  slice_ents (snd (h_sorted_entries iter v h)) (fst (h_sorted_entries iter v h)) = ventries (omap h v) /\
  (forall s, fst (h_sorted_entries iter v h) = Some s ->
     (o_ents v = Some s \/ h_next h <= s_arr s) /\ s_arr s < h_next (snd (h_sorted_entries iter v h))).
Proof. exact (fun Hi => h_sorted_entries_spec iter Hi v h). Qed.

Theorem C16_heap_write iter v h :
  (forall t m, iter t m ≡ₚ map_to_list m) -> heap_wf h -> obj_ok h v ->
  hext h (snd (h_write iter v h)) /\ heap_wf (snd (h_write iter v h)) /\
  fst (h_write iter v h) = vwrite (omap h v).
Proof. exact (fun Hi => h_write_spec iter Hi v h). Qed.

Theorem C16_heap_read bs h :
  heap_wf h ->
  hext h (snd (h_read bs h)) /\ heap_wf (snd (h_read bs h)) /\
  match vread bs with
  | Ok (m, rest) => exists r, fst (h_read bs h) = Ok (r, rest) /\ obj_ok (snd (h_read bs h)) r /\
                              omap (snd (h_read bs h)) r = m /\ fresh_obj h r
  | Err e => fst (h_read bs h) = Err e
  end.
Proof. exact (h_read_spec bs h). Qed.

(** ** Histories: one family of vector objects, any sequence of operations on any of them
    ([sop]: Increment, Merge, Clone, Write+Read, Compact, SortedEntries, PruneWithMax, Compare; the harness
    replays exactly these sessions on the real code, op 8 of [run_vv]) *)

(** after any history the abstract values of the pool are the pool of the functional model *)
Theorem C16_session_refines iter init ops :
  (forall t m, iter t m ≡ₚ map_to_list m) ->
  heap_wf (snd (fst (hsession iter init ops))) /\
  Forall (obj_ok (snd (fst (hsession iter init ops)))) (fst (fst (hsession iter init ops))) /\
  map (omap (snd (fst (hsession iter init ops)))) (fst (fst (hsession iter init ops)))
    = frun ops [foldl ins_entry ∅ init].
Proof. exact (fun Hi => hsession_refines iter Hi init ops). Qed.

(** OPERANDS ARE NEVER MODIFIED: whatever is done later ([ops2]) to whichever vectors, every vector that exists
    after [ops1] is still in the pool, has the abstract value it had, and every observer (SortedEntries, Write,
    Compare) run on it in the LATER heap returns what the functional model computes from that value *)
Theorem C16_operands_never_modified iter init ops1 ops2 :
  (forall t m, iter t m ≡ₚ map_to_list m) ->
  hext (snd (fst (hsession iter init ops1))) (snd (fst (hsession iter init (ops1 ++ ops2)))) /\
  (exists suf, fst (fst (hsession iter init (ops1 ++ ops2))) = fst (fst (hsession iter init ops1)) ++ suf) /\
  forall o, In o (fst (fst (hsession iter init ops1))) ->
    omap (snd (fst (hsession iter init (ops1 ++ ops2)))) o = omap (snd (fst (hsession iter init ops1))) o /\
    slice_ents (snd (h_sorted_entries iter o (snd (fst (hsession iter init (ops1 ++ ops2))))))
               (fst (h_sorted_entries iter o (snd (fst (hsession iter init (ops1 ++ ops2))))))
      = ventries (omap (snd (fst (hsession iter init ops1))) o) /\
    fst (h_write iter o (snd (fst (hsession iter init (ops1 ++ ops2)))))
      = vwrite (omap (snd (fst (hsession iter init ops1))) o) /\
    (forall p, In p (fst (fst (hsession iter init (ops1 ++ ops2)))) ->
       fst (h_compare iter o p (snd (fst (hsession iter init (ops1 ++ ops2)))))
       = vcompare (omap (snd (fst (hsession iter init ops1))) o) (omap (snd (fst (hsession iter init (ops1 ++ ops2)))) p)).
Proof. exact (fun Hi => hsession_never_modifies iter Hi init ops1 ops2). Qed.

(** the cache branch of SortedEntries is dead code: no vector of any history carries a cached slice, and every
    SortedEntries result is an array allocated by that very call *)
Theorem C16_cache_never_filled iter init ops :
  (forall t m, iter t m ≡ₚ map_to_list m) ->
  forall o, In o (fst (fst (hsession iter init ops))) ->
    o_ents o = None /\
    forall s, fst (h_sorted_entries iter o (snd (fst (hsession iter init ops)))) = Some s ->
              h_next (snd (fst (hsession iter init ops))) <= s_arr s.
Proof. exact (fun Hi => hsession_cache_never_filled iter Hi init ops). Qed.

(** the functional pool only grows at its end *)
Theorem C16_functional_pool_append_only ops pool : exists suf, frun ops pool = pool ++ suf.
Proof. exact (frun_suffix ops pool). Qed.

(** ** AtomicVersionVector (the code since the repair 2f67bea: a pointer to an immutable boxed vector)

    Sequential semantics on the heap model ([p] = the pointer the wrapper holds, [box_of p h] = the vector it
    points to), then the concurrent semantics as a small-step machine (Cluster/VVAtomic.v). *)

(** CompareAndSwap(old, new), no other goroutine in between: swaps iff the stored value is Equal to [old]; then
    the wrapper points to a new box holding EXACTLY [new]; otherwise the wrapper is as it was. Only allocation. *)
Theorem C16_atomic_cas iter p old new h :
  (forall t m, iter t m ≡ₚ map_to_list m) -> heap_wf h -> cell_ok h p -> obj_ok h new ->
  hext h (snd (a_cas iter p old new h)) /\ heap_wf (snd (a_cas iter p old new h)) /\
  cell_ok (snd (a_cas iter p old new h)) (snd (fst (a_cas iter p old new h))) /\
  match vcompare (omap h (box_of p h)) (omap h old) with
  | VEqual => fst (fst (a_cas iter p old new h)) = true /\
              box_of (snd (fst (a_cas iter p old new h))) (snd (a_cas iter p old new h)) = new
  | _ => fst (fst (a_cas iter p old new h)) = false /\ snd (fst (a_cas iter p old new h)) = p
  end.
Proof. exact (fun Hi => a_cas_spec iter Hi p old new h). Qed.

(** Increment(node), no other goroutine in between: an error of VersionVector.Increment (invalid node, counter at
    the cap) is returned and the wrapper is as it was; otherwise the returned vector is the Increment of the value
    that was stored, strictly After it, and it is what the wrapper holds afterwards. Only allocation. *)
Theorem C16_atomic_increment iter fuel p k h :
  (forall t m, iter t m ≡ₚ map_to_list m) -> heap_wf h -> cell_ok h p ->
  hext h (snd (a_inc iter (S fuel) p k h)) /\ heap_wf (snd (a_inc iter (S fuel) p k h)) /\
  cell_ok (snd (a_inc iter (S fuel) p k h)) (snd (fst (a_inc iter (S fuel) p k h))) /\
  match vinc (omap h (box_of p h)) k with
  | Ok nv => exists v, fst (fst (a_inc iter (S fuel) p k h)) = ORet (Ok v) /\
                       omap (snd (a_inc iter (S fuel) p k h)) v = nv /\
                       box_of (snd (fst (a_inc iter (S fuel) p k h))) (snd (a_inc iter (S fuel) p k h)) = v /\
                       vcompare (omap (snd (a_inc iter (S fuel) p k h)) v) (omap h (box_of p h)) = VAfter
  | Err e => fst (fst (a_inc iter (S fuel) p k h)) = ORet (Err e) /\ snd (fst (a_inc iter (S fuel) p k h)) = p
  end.
Proof. exact (fun Hi => a_inc_spec iter Hi fuel p k h). Qed.

(** NO LOST UPDATE. Any number of goroutines, each running any number of Increment(node_i) calls, interleaved in
    ANY schedule at the granularity load / pointer load / pointer CAS, started on a wrapper holding [v0]. At every
    moment: the stored vector is [v0] plus, on every node, exactly the number of successful calls completed on
    that node; every thread's completed calls are accounted for (done + successes + errors = what it was given);
    every successful call returned the Increment of the value it read (hence strictly After it, C16_increment). *)
Theorem C16_atomic_no_lost_update v0 ths0 sched :
  Forall (fun t => t_pc t = PStart /\ t_ok t = []) ths0 -> (forall t, In t ths0 -> t_errs t = 0%nat) ->
  (forall k, vget (as_value (snd (arun_sched sched (ths0, a_init v0)))) k
             = vget v0 k + succ_on k (fst (arun_sched sched (ths0, a_init v0)))) /\
  Forall2 (fun t0 t => t_node t = t_node t0 /\ (t_todo t + length (t_ok t) + t_errs t = t_todo t0)%nat)
          ths0 (fst (arun_sched sched (ths0, a_init v0))) /\
  Forall (fun t => match t_pc t with
                   | PStart => True
                   | PLoaded cur nv | PCas _ cur nv => vinc cur (t_node t) = Ok nv /\ (1 <= t_todo t)%nat
                   end /\
                   Forall (fun p => vinc (fst p) (t_node t) = Ok (snd p)) (t_ok t))
         (fst (arun_sched sched (ths0, a_init v0))).
Proof. exact (atomic_no_lost_update v0 ths0 sched). Qed.

(** the linearisation point: the CAS step swaps iff the box behind the pointer it loaded holds a value Equal to the
    value Increment started from AND the wrapper still holds that pointer; it then stores exactly the vector the
    call returns; otherwise it writes nothing and the loop starts over *)
Theorem C16_atomic_cas_step p1 cur nv t s : t_pc t = PCas p1 cur nv ->
  if (match vcompare (default ∅ (as_boxes s !! p1)) cur with VEqual => true | _ => false end) && (as_ptr s =? p1)
  then as_ptr (snd (tstep t s)) = as_next s /\ as_value (snd (tstep t s)) = nv /\
       t_ok (fst (tstep t s)) = t_ok t ++ [(cur, nv)] /\ t_pc (fst (tstep t s)) = PStart
  else snd (tstep t s) = s /\ t_ok (fst (tstep t s)) = t_ok t /\ t_pc (fst (tstep t s)) = PStart /\
       t_todo (fst (tstep t s)) = t_todo t.
Proof. exact (tstep_cas p1 cur nv t s). Qed.
(** no other step writes the shared state; an error outcome is counted and writes nothing *)
Theorem C16_atomic_only_cas_writes t s : (forall p1 cur nv, t_pc t <> PCas p1 cur nv) -> snd (tstep t s) = s.
Proof. exact (tstep_other t s). Qed.
Theorem C16_atomic_error_step t s todo' e :
  t_pc t = PStart -> t_todo t = S todo' -> vinc (as_value s) (t_node t) = Err e ->
  tstep t s = (AThread (t_node t) todo' PStart (t_ok t) (S (t_errs t)), s).
Proof. exact (tstep_error t s todo' e). Qed.

(** * Caps and boundaries, on both sides *)

(** the reader accepts nothing outside the caps ... *)
Theorem C16_reader_within_caps bs v rest : vread bs = Ok (v, rest) -> wf_vv v.
Proof. exact (vread_wf bs v rest). Qed.
(** ... and the wire accepts EXACTLY the vectors within the caps *)
Theorem C16_wire_accepts_exactly v : wf_vv v <-> exists bs, vread bs = Ok (v, []).
Proof. exact (wire_accepts_exactly v). Qed.

(** the writer checks the entry count and the addresses, not the counters *)
Theorem C16_writer_accepts_iff v :
  (exists bs, vwrite v = Ok bs) <->
  N.of_nat (size v) <= max_entries /\ (forall k c, v !! k = Some c -> valid_addr k = true).
Proof. exact (vwrite_ok_iff v). Qed.
Theorem C16_writer_too_large_iff v : vwrite v = Err ETooLarge <-> max_entries < N.of_nat (size v).
Proof. exact (vwrite_too_large_iff v). Qed.

(** the bytes: the entry count, then every entry once, in strictly increasing byte-wise order of the address *)
Theorem C16_wire_format v bs :
  vwrite v = Ok bs ->
  bs = put_u32 (N.of_nat (size v)) ++ flat_map (fun p => put_lp4 (fst p) ++ put_u64 (snd p)) (ventries v) /\
  StronglySorted (fun p q => lex_le (fst p) (fst q) = true /\ fst p <> fst q) (ventries v) /\
  ventries v ≡ₚ map_to_list v.
Proof. exact (vwrite_format v bs). Qed.

(** every vector the API can build (New, Increment, Merge, Compact, PruneWithMax, Read, in any combination)
    has valid addresses and counters <= 2^63-1 ... *)
Theorem C16_api_vectors_within_caps v :
  api_reach v -> forall k c, v !! k = Some c -> valid_addr k = true /\ c <= max_counter.
Proof. exact (api_reach_entries_ok v). Qed.
(** ... so the wire accepts exactly the API-buildable vectors of at most 65535 entries *)
Theorem C16_api_wire_agree v : (api_reach v /\ N.of_nat (size v) <= max_entries) <-> wf_vv v.
Proof. exact (api_wire_agree v). Qed.

(** the counter cap, Increment side: below 2^63-1 it succeeds and stays within the cap, at the cap it refuses *)
Theorem C16_increment_counter_boundary v k : valid_addr k = true ->
  (vget v k < max_counter -> exists v', vinc v k = Ok v' /\ vget v' k = vget v k + 1 /\ vget v' k <= max_counter) /\
  (max_counter <= vget v k -> vinc v k = Err EOverflow).
Proof. exact (vinc_boundary v k). Qed.
Theorem C16_increment_producible_counters c :
  (exists v k v', vinc v k = Ok v' /\ vget v' k = c) <-> 1 <= c <= max_counter.
Proof. exact (inc_producible_iff c). Qed.
(** the counter cap, reader side, for EVERY 64-bit counter on a one-entry encoding *)
Theorem C16_reader_counter_boundary k c rest : valid_addr k = true -> c < 18446744073709551616 ->
  vread (put_u32 1 ++ put_lp4 k ++ put_u64 c ++ rest) =
  if c <=? max_counter then Ok ({[ k := c ]}, rest) else Err EOverflow.
Proof. exact (vread_counter_boundary k c rest). Qed.
Theorem C16_wire_counters c :
  (exists bs v rest k, vread bs = Ok (v, rest) /\ v !! k = Some c) <-> c <= max_counter.
Proof. exact (wire_counter_iff c). Qed.

(** the ENTRY cap is enforced on the wire only: Increment of a 65535-entry vector at a new node succeeds and
    yields a vector the writer refuses *)
Theorem C16_increment_beyond_entry_cap v k v' :
  N.of_nat (size v) = max_entries -> v !! k = None -> vinc v k = Ok v' -> vwrite v' = Err ETooLarge.
Proof. exact (vinc_beyond_entry_cap v k v'). Qed.
(** ... and this happens to a vector the wire accepts: "a vector survives serialisation unchanged" holds for every
    vector of at most 65535 entries ([C16_roundtrip], [C16_api_wire_agree]) and is REFUTED beyond, where the writer
    refuses (it never writes a wrong vector). The 65535 cap is the documented limit of the wire format. *)
Theorem C16_roundtrip_beyond_entry_cap_refuted :
  exists v k v', wf_vv v /\ N.of_nat (size v) = max_entries /\ v !! k = None /\ vinc v k = Ok v' /\
                 vwrite v' = Err ETooLarge.
Proof. exact entry_cap_reachable. Qed.

(** PruneWithMax never invents or changes a counter; with a limit that is not exceeded it is exactly the
    restriction to the active nodes; its result is never After its operand *)
Theorem C16_prune_sub v act maxe k c :
  vprune_max v act maxe !! k = Some c -> v !! k = Some c /\ k ∈ act.
Proof. exact (vprune_sub v act maxe k c). Qed.
Theorem C16_prune_exact v act maxe k :
  N.of_nat (length act) <= (if (maxe <=? 0)%Z then max_entries else Z.to_N maxe) ->
  vprune_max v act maxe !! k = if bool_decide (k ∈ act) then v !! k else None.
Proof. exact (vprune_exact v act maxe k). Qed.
Theorem C16_prune_below v act maxe : forall k, vget (vprune_max v act maxe) k <= vget v k.
Proof. exact (vprune_below v act maxe). Qed.

(** ** non-vacuity *)

(** the oracle of the executable instance is admissible (so is the identity order) *)
Example C16_run_iter_ok : iter_ok run_iter /\ iter_ok (fun _ m => map_to_list m).
Proof.
  split; intros t m; [|reflexivity]. unfold run_iter. destruct (N.odd t); [|reflexivity].
  symmetry. apply Permutation_rev.
Qed.

(** a history in which the hypotheses of the method theorems are met by aliased objects: Compact of a vector
    without zero entries returns the SAME map object (#1 aliases #0), its Increment does not touch either *)
Example C16_session_example :
  let st := fst (hsession run_iter [([97], 1)] [SCompact 0; SInc 1 [98]; SMerge 2 0]) in
  map o_m (fst st) = [Some 0; Some 0; Some 1; Some 2] /\
  map (fun o => map_to_list (omap (snd st) o)) (fst st)
    = [[([97], 1)]; [([97], 1)]; [([97], 1); ([98], 1)]; [([97], 1); ([98], 1)]].
Proof. vm_compute. split; reflexivity. Qed.

(** an AtomicVersionVector meeting [cell_ok], and a run of the concurrent machine: three goroutines (two on node
    "a", one on "b") complete 2+1+2 calls under round robin; retries happen (12 > 3 * 2 rounds of steps) *)
Example C16_cell_example :
  heap_wf (snd (a_new zero_obj heap0)) /\ cell_ok (snd (a_new zero_obj heap0)) (fst (a_new zero_obj heap0)).
Proof.
  destruct (a_new_spec zero_obj heap0 wf_heap0) as (_ & W & C & _); [|split; assumption].
  split; cbn; discriminate.
Qed.
Example C16_concurrent_example :
  match run_rr 20 ([thread0 [97] 2; thread0 [97] 1; thread0 [98] 2], a_init ∅) with
  | Some (ths, s) => map_to_list (as_value s) = [([97], 3); ([98], 2)] /\ succ_on [97] ths = 3 /\ succ_on [98] ths = 2
  | None => False
  end.
Proof. vm_compute. repeat split; reflexivity. Qed.

(** the hypotheses of [C16_increment_counter_boundary]: the maximal counter is reached and not exceeded *)
Example C16_boundary_example :
  match vinc ({[ [97] := max_counter - 1 ]} : vv) [97] with
  | Ok v' => map_to_list v' = [([97], max_counter)] | Err _ => False end /\
  vinc ({[ [97] := max_counter ]} : vv) [97] = Err EOverflow /\
  match vread (put_u32 1 ++ put_lp4 [97] ++ put_u64 max_counter) with
  | Ok (v, rest) => map_to_list v = [([97], max_counter)] /\ rest = [] | Err _ => False end /\
  vread (put_u32 1 ++ put_lp4 [97] ++ put_u64 (max_counter + 1)) = Err EOverflow.
Proof. vm_compute. repeat split; reflexivity. Qed.

Print Assumptions C16_compare_equal.
Print Assumptions C16_compare_before.
Print Assumptions C16_compare_after.
Print Assumptions C16_compare_concurrent.
Print Assumptions C16_reflexive.
Print Assumptions C16_converse.
Print Assumptions C16_antisymmetric.
Print Assumptions C16_transitive.
Print Assumptions C16_equal_transitive.
Print Assumptions C16_equal_congruence.
Print Assumptions C16_merge_comm.
Print Assumptions C16_merge_assoc.
Print Assumptions C16_merge_idem.
Print Assumptions C16_merge_pointwise.
Print Assumptions C16_merge_upper.
Print Assumptions C16_merge_least.
Print Assumptions C16_merge_keys.
Print Assumptions C16_increment.
Print Assumptions C16_increment_errors.
Print Assumptions C16_absent_is_zero.
Print Assumptions C16_compact_equal.
Print Assumptions C16_roundtrip.
Print Assumptions C16_frame_keeps_values.
Print Assumptions C16_heap_clone.
Print Assumptions C16_heap_increment.
Print Assumptions C16_heap_merge.
Print Assumptions C16_heap_compare.
Print Assumptions C16_heap_compact.
Print Assumptions C16_heap_prune.
Print Assumptions C16_heap_sorted_entries.
Print Assumptions C16_heap_write.
Print Assumptions C16_heap_read.
Print Assumptions C16_session_refines.
Print Assumptions C16_operands_never_modified.
Print Assumptions C16_cache_never_filled.
Print Assumptions C16_functional_pool_append_only.
Print Assumptions C16_atomic_cas.
Print Assumptions C16_atomic_increment.
Print Assumptions C16_atomic_no_lost_update.
Print Assumptions C16_atomic_cas_step.
Print Assumptions C16_atomic_only_cas_writes.
Print Assumptions C16_atomic_error_step.
Print Assumptions C16_reader_within_caps.
Print Assumptions C16_wire_accepts_exactly.
Print Assumptions C16_writer_accepts_iff.
Print Assumptions C16_writer_too_large_iff.
Print Assumptions C16_wire_format.
Print Assumptions C16_api_vectors_within_caps.
Print Assumptions C16_api_wire_agree.
Print Assumptions C16_increment_counter_boundary.
Print Assumptions C16_increment_producible_counters.
Print Assumptions C16_reader_counter_boundary.
Print Assumptions C16_wire_counters.
Print Assumptions C16_increment_beyond_entry_cap.
Print Assumptions C16_roundtrip_beyond_entry_cap_refuted.
Print Assumptions C16_prune_sub.
Print Assumptions C16_prune_exact.
Print Assumptions C16_prune_below.
